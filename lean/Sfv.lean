import Sfv.Model.Bytes
import Sfv.Model.Wire
