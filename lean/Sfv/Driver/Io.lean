/-
  Sfv.Driver.Io — text form of writer programs and stream scripts (C08).  Not part of any proof.
-/
import Sfv.Model.Stream
import Sfv.Driver.Sexp
namespace Sfv

/-- `wN`: write_all of N bytes (content is irrelevant to the accounting: zeros), `f`: flush -/
def parseWOp : Sx → Option WOp
  | .atom s =>
    if s == "f" then some .flush
    else if s.startsWith "w" then (s.drop 1).toString.toNat?.map fun n => .w (List.replicate n 0)
    else none
  | _ => none

/-- per call on the writer: `aN` accepted N, `i` interrupted, `z` Ok(0), `e…` hard error; `f`/`fe`: flush ok/failed -/
def splitLog : List Sx → Option (List WOut × List Bool)
  | [] => some ([], [])
  | .atom s :: rest =>
    match splitLog rest with
    | none => none
    | some (ws, fs) =>
      if s == "f" then some (ws, true :: fs)
      else if s == "fe" then some (ws, false :: fs)
      else if s == "i" then some (.intr :: ws, fs)
      else if s == "z" then some (.zero :: ws, fs)
      else if s.startsWith "e" then some (.err 1 :: ws, fs)
      else if s.startsWith "a" then
        match (s.drop 1).toString.toNat? with
        | some n => some (.acc n :: ws, fs)
        | none => none
      else none
  | _ => none

def wsaveRequest (ops log : List Sx) : Option String :=
  match ops.mapM parseWOp, splitLog log with
  | some ops, some (ws, fs) =>
    let r := runOps ws fs ops []
    some ("(" ++ toString r.1.length ++ " " ++ (match r.2 with
      | .ok () => "(ok)"
      | .error _ => "(err io)") ++ ")")
  | _, _ => none

end Sfv
