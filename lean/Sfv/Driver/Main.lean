/-
  Sfv.Driver.Main — one request per line on stdin, one reply per line on stdout.
  The driver never defaults on a malformed request: it answers `(bad-op …)`.
-/
import Sfv.Driver.Sexp
import Sfv.Driver.Nav
import Sfv.Driver.Io
import Sfv.Driver.CryptoIo
import Sfv.Driver.AbiIo
import Sfv.Model.Image
import Sfv.Model.Container
import Sfv.Model.Evolve
import Sfv.Model.SchemaDiff
import Sfv.Props.C13
import Sfv.Model.SchemaOf
import Sfv.Model.SchemaWire
namespace Sfv

structure DState where
  env : TyEnv := []
  cfg : Cfg := {}
  scfg : SCfg := {}

/-- concrete conversion functions used by the type zoo (`savefile_versions_as`) -/
def zooConv : UserFns
  | 0, v => v                                   -- `From` widening between unsigned integers: same number
  | 1, .num n => .bytes (toString n).toUTF8.toList   -- u32 → String (decimal)
  | 2, .num n => .num (n + 1000)                -- u16 → u32, adds 1000
  | 3, .num n => .bytes (toString n).toUTF8.toList   -- u16 → String (decimal)
  | _, v => v

def showErrC : ErrC → String
  | .eof => "eof" | .utf8 => "utf8" | .general => "general" | .capacity => "capacity"
  | .badchar => "badchar" | .alloc => "alloc" | .timestamp => "timestamp" | .wrongVersion => "wrongversion"
def showSite : Site → String
  | .mulOverflow => "mul-overflow" | .sysTime => "systime" | .bulkBool => "bulk-bool"
  | .bulkChar => "bulk-char" | .bulkTag => "bulk-tag"
def showFail : Fail → String
  | .err c => "(err " ++ showErrC c ++ ")"
  | .panic s => "(panic " ++ showSite s ++ ")"
  | .ub s => "(ub " ++ showSite s ++ ")"
def showSaveFail : SaveFail → String
  | .removedAlive => "removed-alive" | .variantAbsent => "variant-absent" | .shape => "shape"

def showLoadErr : LoadErr → String
  | .eof => "(err eof)"
  | .notSavefile => "(err general)"
  | .futureLib => "(err general)"
  | .wrongVersion => "(err wrongversion)"
  | .schema => "(err schema)"
  | .payload f => showFail f
  | .schemaSection f => showFail f
  | .decompress => "(compressed)"

/-- schema section treated as opaque bytes supplied by the caller (used until the request carries
    a schema understood by `Sfv.Model.Schema`) -/
def opaqueSchema : SchemaCodec Bytes :=
  { encS := fun _ s => s, decS := fun _ bs => .ok ([], bs), compat := fun _ _ => true }

def listToWL : List W → WL
  | [] => .nil
  | t :: ts => .cons t (listToWL ts)

def wlToList : WL → List W
  | .nil => []
  | .cons t ts => t :: wlToList ts

instance : Inhabited W := ⟨.bool⟩

mutual
/-- flatten nested products (a one-field struct around a value has the bytes of the value) -/
partial def flatW : W → List W
  | .prod ts => flatWL ts
  | .seq _ t => [.seq {} (.prod (listToWL (flatW t)))]
  | .opt t => [.opt (.prod (listToWL (flatW t)))]
  | .res a b => [.res (.prod (listToWL (flatW a))) (.prod (listToWL (flatW b)))]
  | .rep n _ t => [.rep n none (.prod (listToWL (flatW t)))]
  | .tagged w alts => [.tagged w (listToWL ((wlToList alts).map (fun a => .prod (listToWL (flatW a)))))]
  | .str _ => [.str none]
  | .sysTime => [.fixed 16]
  | w => [w]
partial def flatWL : WL → List W
  | .nil => []
  | .cons t ts => flatW t ++ flatWL ts
end

def sameBytes (a b : W) : Bool :=
  let fa := flatW a
  let fb := flatW b
  -- `a` is the schema's grammar: it may know fewer (not yet alive) trailing variants than the reader `b`
  fa.length == fb.length && (fa.zip fb).all (fun (x, y) => wireEqv x y)

def parseBool : String → Option Bool
  | "true" => some true | "false" => some false | _ => none

def step (st : DState) (line : String) : DState × String :=
  match parseSx line with
  | none => (st, "(bad-op parse)")
  | some sx =>
    match sx with
    | .list [.atom "cfg", .atom k, .atom b] =>
      match k, parseBool b with
      | "sanity", some b => ({ st with cfg := { st.cfg with sanity := b } }, "(ok)")
      | "quirk-mul-overflow", some b => ({ st with cfg := { st.cfg with quirkMulOverflow := b } }, "(ok)")
      | "quirk-systime-panic", some b => ({ st with cfg := { st.cfg with quirkSysTimePanic := b } }, "(ok)")
      | _, _ =>
        match k, b.toNat? with
        | "vec-layout", some n => ({ st with scfg := { st.scfg with vecLayout := VLayout.ofCode n } }, "(ok)")
        | "string-layout", some n => ({ st with scfg := { st.scfg with strLayout := VLayout.ofCode n } }, "(ok)")
        | _, _ => (st, "(bad-op cfg)")
    | .list [.atom "def", .atom name, t] =>
      match parseTy st.env t with
      | some ty => ({ st with env := (name, ty) :: st.env }, "(ok)")
      | none => (st, "(bad-op def " ++ name ++ ")")
    | .list [.atom "enc", .atom name, .atom ver, v] =>
      match st.env.lookup name, ver.toNat?, parseV v with
      | some ty, some ver, some v =>
        match save ty ver v with
        | .ok b => (st, "(ok " ++ toHex b ++ ")")
        | .panic f => (st, "(panic " ++ showSaveFail f ++ ")")
        | .unencodable => (st, "(unenc)")
      | _, _, _ => (st, "(bad-op enc)")
    | .list [.atom "dec", .atom name, .atom ver, .atom hex] =>
      match st.env.lookup name, ver.toNat?, parseHex hex with
      | some ty, some ver, some bs =>
        match load st.cfg zooConv ty ver bs with
        | .ok (v, r) => (st, "(ok " ++ showTV ty v ++ " " ++ toString r.length ++ ")")
        | .error f => (st, showFail f)
      | _, _, _ => (st, "(bad-op dec)")
    | .list [.atom "file", .atom kind, .atom name, .atom ver, v, .atom schemaHex] =>
      match st.env.lookup name, ver.toNat?, parseV v, parseHex schemaHex with
      | some ty, some ver, some v, some sb =>
        let schema : Option Bytes := if kind == "plain" then some sb else none
        match saveFile opaqueSchema schema ty ver v with
        | .ok b => (st, "(ok " ++ toHex b ++ ")")
        | .panic f => (st, "(panic " ++ showSaveFail f ++ ")")
        | .unencodable => (st, "(unenc)")
      | _, _, _, _ => (st, "(bad-op file)")
    | .list [.atom "loadfile", .atom "noschema", .atom name, .atom memver, .atom hex] =>
      match st.env.lookup name, memver.toNat?, parseHex hex with
      | some ty, some memver, some bs =>
        match loadFile st.cfg zooConv opaqueSchema none ty memver bs with
        | .ok (v, r) => (st, "(ok " ++ showTV ty v ++ " " ++ toString r.length ++ ")")
        | .error e => (st, showLoadErr e)
      | _, _, _ => (st, "(bad-op loadfile)")
    | .list [.atom "rfault", .atom "noschema", .atom name, .atom memver, .atom hex, .atom off] =>
      -- a reader that fails for good once `off` bytes went through: the loader reports the I/O error iff
      -- it needs a byte at or beyond `off` (on the prefix it runs out of data), else it behaves as on the prefix
      match st.env.lookup name, memver.toNat?, parseHex hex, off.toNat? with
      | some ty, some memver, some bs, some off =>
        match loadFile st.cfg zooConv opaqueSchema none ty memver (bs.take off) with
        | .ok (v, _) => (st, "(ok " ++ showTV ty v ++ ")")
        | .error e => (st, if showLoadErr e == "(err eof)" then "(err io)" else showLoadErr e)
      | _, _, _, _ => (st, "(bad-op rfault)")
    | .list [.atom "wsave", .list (.atom "ops" :: ops), .list (.atom "log" :: log)] =>
      match wsaveRequest ops log with
      | some r => (st, r)
      | none => (st, "(bad-op wsave)")
    | .list [.atom "abicall", .atom ti, .atom tj, .atom i, .atom j, .list args, .list rets] =>
      -- a call from interface version i to an implementation of version j: every value crosses the boundary
      -- in the format of version min(i, j)
      match st.env.lookup ti, st.env.lookup tj, i.toNat?, j.toNat?, args.mapM parseV, rets.mapM parseV with
      | some tyI, some tyJ, some i, some j, some args, some rets =>
        let k := min i j
        let xfer (w r : Ty) (x : V) : String :=
          match save w k x with
          | .ok bs =>
            match load st.cfg zooConv r k bs with
            | .ok (v, rest) => if rest.isEmpty then showTV r v else "(trailing " ++ toString rest.length ++ ")"
            | .error f => showFail f
          | .panic f => "(panic " ++ showSaveFail f ++ ")"
          | .unencodable => "(unenc)"
        (st, "(ok (" ++ " ".intercalate (args.map (xfer tyI tyJ)) ++ ") (" ++ " ".intercalate (rets.map (xfer tyJ tyI)) ++ "))")
      | _, _, _, _, _, _ => (st, "(bad-op abicall)")
    | .list [.atom "smem", .atom sh, .atom name, .atom ver, v, .atom memHex] =>
      -- does the memory of a value agree with the image its (real) schema prescribes, where the schema claims
      -- a complete layout (it is layout compatible with itself)
      match parseHex sh, st.env.lookup name, ver.toNat?, parseV v, parseHex memHex with
      | some sb, some ty, some ver, some v, some mem =>
        match decSchema st.cfg 2 (sb.length + 1) sb with
        | .ok (s, _) =>
          if !layoutCompatible s s then (st, "(ok no-layout)")
          else
            match proj ty ver v with
            | .ok wv =>
              match imgAt 0 s wv with
              | some img =>
                match img.find? (fun (a, b) => mem[a]? != some b) with
                | none => (st, if schemaSize s == some mem.length then "(ok holds)" else "(ok size-mismatch)")
                | some (a, b) => (st, "(ok mismatch at " ++ toString a ++ " schema-says " ++ toString b.toNat ++ " memory-has "
                    ++ (match mem[a]? with | some m => toString m.toNat | none => "nothing") ++ ")")
              | none => (st, "(ok image-undetermined)")
            | .error _ => (st, "(ok unprojectable)")
        | .error _ => (st, "(bad-op smem-undecodable)")
      | _, _, _, _, _ => (st, "(bad-op smem)")
    | .list [.atom "smemh", .atom sh, .atom name, .atom ver, v, .atom baseS, .atom objHex, .list segs] =>
      -- the same with the heap: the object's bytes at their real address and what the words of the object that
      -- look like pointers lead to; `holdsAt` follows the headers of collections whose layout the schema records
      match parseHex sh, st.env.lookup name, ver.toNat?, parseV v, baseS.toNat?, parseHex objHex with
      | some sb, some ty, some ver, some v, some base, some obj =>
        let parseSeg : Sx → Option (Nat × ByteArray) := fun x =>
          match x with
          | .list [.atom a, .atom h] =>
            match a.toNat?, parseHex h with
            | some a, some b => some (a, ByteArray.mk b.toArray)
            | _, _ => none
          | _ => none
        match segs.mapM parseSeg, decSchema st.cfg 2 (sb.length + 1) sb with
        | some segs, .ok (s, _) =>
          if !layoutCompatible s s then (st, "(ok no-layout)")
          else
            match proj ty ver v with
            | .ok wv =>
              let all := (base, ByteArray.mk obj.toArray) :: segs
              let mem : Mem := fun a =>
                all.findSome? (fun (seg : Nat × ByteArray) => if seg.1 ≤ a ∧ a < seg.1 + seg.2.size then some (seg.2.get! (a - seg.1)) else none)
              (st, if holdsAt mem base s wv then "(ok holds)" else "(ok memory-is-not-what-the-schema-prescribes)")
            | .error _ => (st, "(ok unprojectable)")
        | _, _ => (st, "(bad-op smemh-undecodable)")
      | _, _, _, _, _, _ => (st, "(bad-op smemh)")
    | .list [.atom "ext", .atom writer, .atom reader, .atom ver] =>
      -- hypothesis of c03_upgrade / c18_downgrade: everything the writer's grammar at `ver` encodes is
      -- encoded identically by the reader's grammar at `ver`
      match st.env.lookup writer, st.env.lookup reader, ver.toNat? with
      | some a, some b, some ver => (st, "(ok " ++ toString (encExt (saveWire a ver) (wireOf b ver)) ++ ")")
      | _, _, _ => (st, "(bad-op ext)")
    | .list [.atom "decschema", .atom ver, .atom hex] =>
      match ver.toNat?, parseHex hex with
      | some ver, some bs =>
        match decSchema st.cfg ver (bs.length + 1) bs with
        | .ok (s, r) => (st, "(ok " ++ toHex (encSchema 2 s) ++ " " ++ toString r.length ++ ")")
        | .error f => (st, showFail f)
      | _, _ => (st, "(bad-op decschema)")
    | .list [.atom "diff", .atom ha, .atom hb, .atom rp] =>
      match parseHex ha, parseHex hb, parseBool rp with
      | some ba, some bb, some rp =>
        match decSchema st.cfg 2 (ba.length + 1) ba, decSchema st.cfg 2 (bb.length + 1) bb with
        | .ok (a, _), .ok (b, _) =>
          match diff a b rp with
          | .same => (st, "(ok same)")
          | .differ => (st, "(ok differ)")
          | .panicFuture => (st, "(panic future)")
        | _, _ => (st, "(bad-op diff-undecodable)")
      | _, _, _ => (st, "(bad-op diff)")
    | .list [.atom "laycompat", .atom ha, .atom hb] =>
      match parseHex ha, parseHex hb with
      | some ba, some bb =>
        match decSchema st.cfg 2 (ba.length + 1) ba, decSchema st.cfg 2 (bb.length + 1) bb with
        | .ok (a, _), .ok (b, _) => (st, "(ok " ++ toString (layoutCompatible a b) ++ ")")
        | _, _ => (st, "(bad-op laycompat-undecodable)")
      | _, _ => (st, "(bad-op laycompat)")
    | .list [.atom "loadfile", .atom "plain", .atom name, .atom memver, .atom hex, .atom expHex] =>
      match st.env.lookup name, memver.toNat?, parseHex hex, parseHex expHex with
      | some ty, some memver, some bs, some eb =>
        match decSchema st.cfg 2 (eb.length + 1) eb with
        | .ok (exp, _) =>
          match loadFile st.cfg zooConv (realSchemaCodec st.cfg) (some (fun _ => exp)) ty memver bs with
          | .ok (v, r) => (st, "(ok " ++ showTV ty v ++ " " ++ toString r.length ++ ")")
          | .error e => (st, showLoadErr e)
        | .error _ => (st, "(bad-op loadfile-expected-undecodable)")
      | _, _, _, _ => (st, "(bad-op loadfile-plain)")
    | .list [.atom "xload", .atom writer, .atom reader, .atom ver] =>
      -- must the gate reject? yes if the two types do not even describe the same bytes at `ver`
      match st.env.lookup writer, st.env.lookup reader, ver.toNat? with
      | some a, some b, some ver =>
        -- … or if the gate itself, on the schemas the two types have at `ver` (names of variants, discriminants),
        -- reports a difference
        let gateSame := match diff (schemaOf st.scfg a ver []) (schemaOf st.scfg b ver []) false with
          | .same => true
          | _ => false
        (st, if wireEqv (saveWire a ver) (wireOf b ver) && gateSame then "(ok free)" else "(ok must-reject)")
      | _, _, _ => (st, "(bad-op xload)")
    | .list [.atom "schema", .atom name, .atom ver] =>
      match st.env.lookup name, ver.toNat? with
      | some ty, some ver => (st, "(ok " ++ toHex (encSchema 2 (schemaOf st.scfg ty ver [])) ++ ")")
      | _, _ => (st, "(bad-op schema)")
    | .list [.atom "faithful", .atom name, .atom ver] =>
      -- does the schema, read as a grammar, describe the same bytes as the writer's grammar?
      match st.env.lookup name, ver.toNat? with
      | some ty, some ver =>
        match schemaWire (schemaOf st.scfg ty ver []) with
        | some w => (st, "(ok " ++ toString (sameBytes w (erase (wireOf ty ver))) ++ ")")
        | none => (st, "(ok false)")
      | _, _ => (st, "(bad-op faithful)")
    | .list [.atom "parse", .atom sh, .atom bh] =>
      match parseHex sh, parseHex bh with
      | some sb, some bs =>
        match decSchema st.cfg 2 (sb.length + 1) sb with
        | .ok (s, _) =>
          match parse st.cfg s bs with
          | some (.ok (v, r)) => (st, "(ok " ++ showV v ++ " " ++ toString r.length ++ ")")
          | some (.error f) => (st, showFail f)
          | none => (st, "(unparseable)")
        | .error _ => (st, "(bad-op parse-undecodable)")
      | _, _ => (st, "(bad-op parse)")
    | .list [.atom "packed", .atom name, .atom ver] =>
      match st.env.lookup name, ver.toNat? with
      | some ty, some ver => (st, "(ok " ++ toString (isPacked ty ver) ++ ")")
      | _, _ => (st, "(bad-op packed)")
    | .list [.atom "canon", .atom name, v] =>
      -- canonical print of a value (type-directed sorting), used by the harness self-test
      match st.env.lookup name, parseV v with
      | some ty, some v => (st, "(ok " ++ showTV ty v ++ ")")
      | _, _ => (st, "(bad-op canon)")
    | sx =>
      match navRequest sx with
      | some r => (st, r)
      | none =>
        match decstreamRequest sx with
        | some r => (st, r)
        | none =>
          match connectRequest st.cfg sx with
          | some r => (st, r)
          | none =>
            match ledgerRequest st.cfg sx with
            | some r => (st, r)
            | none =>
              match cwprogRequest sx with
              | some r => (st, r)
              | none => (st, "(bad-op unknown)")

partial def loop (h : IO.FS.Stream) (out : IO.FS.Stream) (st : DState) : IO Unit := do
  let line ← h.getLine
  if line.isEmpty then return ()
  let l := line.trimAscii.toString
  if l.isEmpty then
    loop h out st
  else
    let (st', reply) := step st l
    out.putStrLn reply
    loop h out st'

end Sfv

def main : IO Unit := do
  let stdin ← IO.getStdin
  let stdout ← IO.getStdout
  Sfv.loop stdin stdout {}
