/-
  Sfv.Driver.Nav — text form of introspection trees, navigation commands and results.
  Not part of any proof.
-/
import Sfv.Model.Introspect
import Sfv.Driver.Sexp
namespace Sfv

mutual
partial def parseITree : Sx → Option ITree
  | .list (.atom "t" :: kids) => (parseIKids kids).map .node
  | _ => none
partial def parseIKids : List Sx → Option ITreeL
  | [] => some .nil
  | .list [.atom "k", .atom hex, t] :: rest =>
    match parseHex (hex.drop 1).toString, parseITree t, parseIKids rest with
    | some k, some t, some r => some (.cons k t r)
    | _, _, _ => none
  | _ => none
end

def parseNavCmd : Sx → Option NavCmd
  | .list [.atom "x", .atom d, .atom hex, .atom dis] =>
    match d.toNat?, parseHex (hex.drop 1).toString, dis.toNat? with
    | some d, some k, some dis => some (.expand d k dis)
    | _, _, _ => none
  | .list [.atom "s", .atom d, .atom i] =>
    match d.toNat?, i.toNat? with
    | some d, some i => some (.selectNth d i)
    | _, _ => none
  | .list [.atom "u"] => some .up
  | .list [.atom "n"] => some .nothing
  | _ => none

def showKey (b : Bytes) : String := if b.isEmpty then "h" else "h" ++ toHex b

/-- the path is private in the implementation; only its length (`num_frames`) is observable directly -/
def showPath (p : List PathElem) : String := "(p# " ++ toString p.length ++ ")"

def showKV (k : KeyVal) : String :=
  "(k " ++ showKey k.key ++ " " ++ toString k.dis ++ " " ++ toString k.depth ++ " " ++ toString k.hasChildren ++ " " ++ toString k.selected ++ ")"

def showFrame (f : Frame) : String :=
  "(f " ++ (match f.selected with | some s => toString s | none => "-") ++ " " ++ toString f.limitReached
    ++ String.join (f.keyvals.map fun k => " " ++ showKV k) ++ ")"

def showNavErr : NavErr → String
  | .badDepth => "BadDepth" | .unknownKey => "UnknownKey" | .noChildren => "NoChildren"
  | .indexOutOfRange => "IndexOutOfRange" | .alreadyAtTop => "AlreadyAtTop"

def showFlat (r : NavResult) : String :=
  "(flat" ++ String.join ((List.range (r.totalLen + 3)).map fun i =>
    match totalIndex r i with
    | .ok (some k) => " " ++ showKV k
    | .ok none => " -"
    | .error _ => " !") ++ ")"

/-- run a command sequence; one reply per command; stops at the first panic -/
def navRun (limit : Nat) (t : ITree) : List PathElem → List NavCmd → List String
  | _, [] => []
  | path, c :: cs =>
    match doIntrospect limit t path c with
    | (p, .ok r) =>
      ("(ok " ++ showPath p ++ " (frames" ++ String.join (r.frames.map fun f => " " ++ showFrame f) ++ ") "
        ++ toString r.totalLen ++ " " ++ showFlat r ++ ")") :: navRun limit t p cs
    | (p, .error (.err e)) => ("(err " ++ showNavErr e ++ " " ++ showPath p ++ ")") :: navRun limit t p cs
    | (_, .error (.panic _)) => ["(panic)"]

def navRequest : Sx → Option String
  | .list [.atom "nav", .atom lim, t, .list cmds] =>
    match lim.toNat?, parseITree t, cmds.mapM parseNavCmd with
    | some lim, some t, some cmds => some ("(" ++ " ".intercalate (navRun lim t [] cmds) ++ ")")
    | _, _, _ => none
  | _ => none

end Sfv
