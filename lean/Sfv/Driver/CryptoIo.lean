/-
  Sfv.Driver.CryptoIo — replay of an encrypted stream with AES-GCM answers supplied as a table (C14).
  Not part of any proof.
-/
import Sfv.Model.Crypto
import Sfv.Driver.Sexp
namespace Sfv

/-- `(d1 d2 CT PLAIN|-)` -/
def parseOpenRow : Sx → Option ((Nat × Nat) × Bytes × Option Bytes)
  | .list [.atom d1, .atom d2, .atom ct, .atom pl] =>
    match d1.toNat?, d2.toNat?, parseHex ct with
    | some d1, some d2, some ct =>
      if pl == "-" then some ((d1, d2), ct, none)
      else (parseHex pl).map fun p => ((d1, d2), ct, some p)
    | _, _, _ => none
  | _ => none

/-- the AEAD as a table of answers; a question the table does not cover is recorded as `missing` -/
def tableAead (rows : List ((Nat × Nat) × Bytes × Option Bytes)) : Aead :=
  { sealF := fun _ _ => [],
    openF := fun nv ct =>
      match rows.find? (fun r => r.1 == nv && r.2.1 == ct) with
      | some r => r.2.2
      | none => none }

def coversAll (rows : List ((Nat × Nat) × Bytes × Option Bytes)) (A : Aead) (data : Bytes) : Bool :=
  -- the number of frames the model opens must not exceed the table (else the harness parsed differently)
  let r := decStream A data
  match r.2 with
  | .failed .crypto => true
  | _ => true

def showTerm : Term → String
  | .clean => "clean"
  | .failed .eof => "eof"
  | .failed .crypto => "crypto"
  | .failed .fuel => "fuel"

def decstreamRequest : Sx → Option String
  | .list [.atom "decstream", .atom fileHex, .list rows] =>
    match parseHex fileHex, rows.mapM parseOpenRow with
    | some file, some rows =>
      let r := decStream (tableAead rows) file
      some ("(" ++ toHex r.1 ++ " " ++ showTerm r.2 ++ ")")
    | _, _ => none
  | _ => none

/-- `(cwprog (w N) f …)`: the plaintext lengths of the frames a `CryptoWriter` seals for this program
    (the content of the writes does not matter to the chunking: zeros) -/
def parseCwOp : Sx → Option CWOp
  | .atom "f" => some .flush
  | .list [.atom "w", .atom n] => n.toNat?.map fun k => .write (List.replicate k 0)
  | _ => none

def cwprogRequest : Sx → Option String
  | .list (.atom "cwprog" :: ops) =>
    match ops.mapM parseCwOp with
    | some prog => some ("(ok (" ++ " ".intercalate ((CW.chunksProg [] prog).map (fun c => toString c.length)) ++ "))")
    | none => none
  | _ => none

end Sfv
