/-
  Sfv.Driver.Sexp — s-expression reader/printer and the text form of types and values used by the
  line protocol between the Rust harness and the model driver.  Not part of any proof.
-/
import Sfv.Model.Ty
namespace Sfv

inductive Sx where
  | atom (s : String)
  | list (l : List Sx)
deriving Inhabited

partial def Sx.toStr : Sx → String
  | .atom s => s
  | .list l => "(" ++ " ".intercalate (l.map Sx.toStr) ++ ")"

private def isDelim (c : Char) : Bool := c == '(' || c == ')' || c == ' ' || c == '\n' || c == '\t' || c == '\r'

partial def parseSxList (cs : List Char) (acc : Array Sx) : Option (List Sx × List Char) :=
  match cs with
  | [] => none
  | c :: rest =>
    if c == ' ' || c == '\n' || c == '\t' || c == '\r' then parseSxList rest acc
    else if c == ')' then some (acc.toList, rest)
    else if c == '(' then
      match parseSxList rest #[] with
      | none => none
      | some (l, rest') => parseSxList rest' (acc.push (.list l))
    else
      let tok := cs.takeWhile (fun c => !isDelim c)
      let rest' := cs.dropWhile (fun c => !isDelim c)
      parseSxList rest' (acc.push (.atom (String.ofList tok)))

/-- parse one s-expression from a line -/
def parseSx (s : String) : Option Sx :=
  let cs := s.toList.dropWhile (fun c => c == ' ')
  match cs with
  | '(' :: rest =>
    match parseSxList rest #[] with
    | some (l, _) => some (.list l)
    | none => none
  | [] => none
  | _ => some (.atom (String.ofList (cs.takeWhile (fun c => !isDelim c))))

/-! ### hex -/

def hexDigit (c : Char) : Option Nat :=
  if '0' ≤ c && c ≤ '9' then some (c.toNat - '0'.toNat)
  else if 'a' ≤ c && c ≤ 'f' then some (c.toNat - 'a'.toNat + 10)
  else if 'A' ≤ c && c ≤ 'F' then some (c.toNat - 'A'.toNat + 10)
  else none

partial def parseHexAux (cs : List Char) (acc : Array UInt8) : Option (Array UInt8) :=
  match cs with
  | [] => some acc
  | a :: b :: rest =>
    match hexDigit a, hexDigit b with
    | some x, some y => parseHexAux rest (acc.push (UInt8.ofNat (x * 16 + y)))
    | _, _ => none
  | _ => none

/-- `-` denotes the empty byte string -/
def parseHex (s : String) : Option Bytes :=
  if s == "-" then some [] else (parseHexAux s.toList #[]).map Array.toList

def hexChar (n : Nat) : Char := if n < 10 then Char.ofNat (48 + n) else Char.ofNat (87 + n)

def toHex (b : Bytes) : String :=
  if b.isEmpty then "-" else
  String.ofList (b.foldr (fun x acc => hexChar (x.toNat / 16) :: hexChar (x.toNat % 16) :: acc) [])

/-! ### values -/

partial def parseV : Sx → Option V
  | .atom "n" => some .none
  | .atom s => s.toNat?.map .num
  | .list [.atom "b", .atom h] => (parseHex h).map .bytes
  | .list (.atom "q" :: l) => (parseVL l).map .seq
  | .list [.atom "j", x] => (parseV x).map .some
  | .list (.atom "t" :: l) => (parseVL l).map .tup
  | .list [.atom "a", .atom i, x] =>
    match i.toNat?, parseV x with
    | some i, some v => some (.alt i v)
    | _, _ => none
  | _ => none
where
  parseVL : List Sx → Option VL
    | [] => some .nil
    | x :: xs =>
      match parseV x, parseVL xs with
      | some v, some vs => some (.cons v vs)
      | _, _ => none

def VL.toList : VL → List V
  | .nil => []
  | .cons v vs => v :: vs.toList

mutual
/-- plain (type-independent) printing -/
partial def showV : V → String
  | .num n => toString n
  | .bytes b => "(b " ++ toHex b ++ ")"
  | .seq l => "(q" ++ showVL l ++ ")"
  | .none => "n"
  | .some v => "(j " ++ showV v ++ ")"
  | .tup l => "(t" ++ showVL l ++ ")"
  | .alt i v => "(a " ++ toString i ++ " " ++ showV v ++ ")"
partial def showVL : VL → String
  | .nil => ""
  | .cons v vs => " " ++ showV v ++ showVL vs
end

def sortStrings (l : List String) : List String := (l.toArray.qsort (· < ·)).toList

/-- type-directed printing: unordered containers print their children sorted -/
partial def showTV : Ty → V → String
  | .seq k t, .seq l =>
    let items := l.toList.map (showTV t)
    -- sets collapse duplicates (only hostile or foreign data has any); an IndexSet keeps first occurrences in order
    let items := match k with | .set => (sortStrings items).eraseDups | .bag => sortStrings items | .indexSet => items.eraseDups | _ => items
    "(q" ++ String.join (items.map (" " ++ ·)) ++ ")"
  | .map _ k x, .seq l =>
    -- a map keeps the last value inserted for a key; iteration order is not part of the value
    let pairs : List (String × String) := l.toList.map (fun p =>
      match p with
      | .tup (.cons a (.cons b .nil)) => (showTV k a, showTV x b)
      | o => (showV o, ""))
    let dedup : List (String × String) := pairs.foldl (fun acc (kv : String × String) =>
      (acc.filter (fun e => e.1 != kv.1)) ++ [kv]) []
    let items := dedup.map (fun kv => "(t " ++ kv.1 ++ " " ++ kv.2 ++ ")")
    "(q" ++ String.join ((sortStrings items).map (" " ++ ·)) ++ ")"
  | .opt t, .some v => "(j " ++ showTV t v ++ ")"
  | .res a _, .alt 1 v => "(a 1 " ++ showTV a v ++ ")"
  | .res _ b, .alt 0 v => "(a 0 " ++ showTV b v ++ ")"
  | .wrap _ t, v => showTV t v
  | .tup _ _ ts, .tup l => "(t" ++ goL ts l ++ ")"
  | .arr _ t, .tup l => "(t" ++ String.join (l.toList.map (fun v => " " ++ showTV t v)) ++ ")"
  | .struct _ _ _ fs, .tup l => "(t" ++ goF fs l ++ ")"
  | .enum _ _ _ vs, .alt i (.tup l) => "(a " ++ toString i ++ " (t" ++ goVar vs i l ++ "))"
  | _, v => showV v
where
  goL : TyL → VL → String
    | .cons t ts, .cons v vs => " " ++ showTV t v ++ goL ts vs
    | _, l => showVL l
  goF : FieldL → VL → String
    | .cons _ t _ fs, .cons v vs => " " ++ showTV t v ++ goF fs vs
    | _, l => showVL l
  goVar : VariantL → Nat → VL → String
    | .cons _ _ _ fs _, 0, l => goF fs l
    | .cons _ _ _ _ vs, i+1, l => goVar vs i l
    | .nil, _, l => showVL l

/-! ### types -/

def parsePrim : String → Option Prim
  | "u8" => some .u8 | "i8" => some .i8 | "u16" => some .u16 | "i16" => some .i16
  | "u32" => some .u32 | "i32" => some .i32 | "u64" => some .u64 | "i64" => some .i64
  | "u128" => some .u128 | "i128" => some .i128 | "f32" => some .f32 | "f64" => some .f64
  | "bool" => some .bool | "char" => some .char | "usize" => some .usize | "isize" => some .isize
  | "unit" => some .unit
  | _ => none

def parseRepr : Sx → Option ReprAttr
  | .atom "rust" => some .rust
  | .atom "c" => some .c
  | .atom "transparent" => some .transparent
  | .list [.atom "int", .atom n] => n.toNat?.map .int
  | .list [.atom "cint", .atom n] => n.toNat?.map .cInt
  | _ => none

def parseLay : Sx → Option Lay
  | .list [.atom "lay", .atom s, .atom a] =>
    match s.toNat?, a.toNat? with
    | some s, some a => some { size := s, align := a }
    | _, _ => none
  | _ => none

def parseNats : List Sx → Option (List Nat)
  | [] => some []
  | .atom n :: rest =>
    match n.toNat?, parseNats rest with
    | some n, some r => some (n :: r)
    | _, _ => none
  | _ => none

abbrev TyEnv := List (String × Ty)

partial def parseTy (env : TyEnv) : Sx → Option Ty
  | .atom "str" => some (.str none true)
  | .atom "astr" => some (.str none false)
  | .atom "ip" => some .ip
  | .atom "sock" => some .sock
  | .atom "canary" => some .canary
  | .atom "systime" => some .sysTime
  | .atom "dur" => some .duration
  | .atom "ioerr" => some .ioErr
  | .list [.atom "p", .atom p] => (parsePrim p).map .prim
  | .list [.atom "capstr", .atom n] => n.toNat?.map (fun n => .str (some n) false)
  | .list [.atom "vec", t] => (parseTy env t).map (.seq .vec)
  | .list [.atom "slice", t] => (parseTy env t).map (.seq .slice)
  | .list [.atom "iset", t] => (parseTy env t).map (.seq .indexSet)
  | .list [.atom "seq", t] => (parseTy env t).map (.seq .plain)
  | .list [.atom "set", t] => (parseTy env t).map (.seq .set)
  | .list [.atom "bag", t] => (parseTy env t).map (.seq .bag)
  | .list [.atom "avec", .atom n, t] =>
    match n.toNat?, parseTy env t with
    | some n, some t => some (.seq (.arrayVec n) t)
    | _, _ => none
  | .list [.atom "map", k, v] =>
    match parseTy env k, parseTy env v with
    | some k, some v => some (.map false k v)
    | _, _ => none
  | .list [.atom "opt", t] => (parseTy env t).map .opt
  | .list [.atom "res", a, b] =>
    match parseTy env a, parseTy env b with
    | some a, some b => some (.res a b)
    | _, _ => none
  | .list [.atom "bmap", k, v] =>
    match parseTy env k, parseTy env v with
    | some k, some v => some (.map true k v)
    | _, _ => none
  | .list [.atom "wrap", t] => (parseTy env t).map (.wrap .plain)
  | .list [.atom "box", t] => (parseTy env t).map (.wrap .boxed)
  | .list [.atom "cell", t] => (parseTy env t).map (.wrap .cell)
  | .list (.atom "tup" :: lay :: .list (.atom "offs" :: offs) :: ts) =>
    match parseLay lay, parseNats offs, parseTyL ts with
    | some lay, some offs, some ts => some (.tup lay offs ts)
    | _, _, _ => none
  | .list [.atom "arr", .atom n, t] =>
    match n.toNat?, parseTy env t with
    | some n, some t => some (.arr n t)
    | _, _ => none
  | .list (.atom "struct" :: .atom name :: repr :: lay :: fs) =>
    match parseRepr repr, parseLay lay, parseFields fs with
    | some r, some l, some fs => some (.struct name r l fs)
    | _, _, _ => none
  | .list (.atom "enum" :: .atom name :: repr :: lay :: vs) =>
    match parseRepr repr, parseLay lay, parseVariants vs with
    | some r, some l, some vs => some (.enum name r l vs)
    | _, _, _ => none
  | .list [.atom "ref", .atom name] => env.lookup name
  | _ => none
where
  parseTyL : List Sx → Option TyL
    | [] => some .nil
    | t :: ts =>
      match parseTy env t, parseTyL ts with
      | some t, some ts => some (.cons t ts)
      | _, _ => none
  parseFields : List Sx → Option FieldL
    | [] => some .nil
    | .list (.atom "f" :: .atom name :: .atom off :: t :: attrs) :: rest =>
      match off.toNat?, parseTy env t, parseAttrs attrs { name := name } .nil, parseFields rest with
      | some off, some t, some (a, as), some fs => some (.cons { a with off := off } t as fs)
      | _, _, _, _ => none
    | _ => none
  parseAttrs : List Sx → FieldAttr → AsL → Option (FieldAttr × AsL)
    | [], a, as => some (a, as)
    | .list [.atom "ver", .atom lo, .atom hi] :: rest, a, as =>
      match lo.toNat?, hi.toNat? with
      | some lo, some hi => parseAttrs rest { a with r := ⟨lo, hi⟩ } as
      | _, _ => none
    | .atom "removed" :: rest, a, as => parseAttrs rest { a with rm := .removed } as
    | .atom "abiremoved" :: rest, a, as => parseAttrs rest { a with rm := .abi } as
    | .atom "ignore" :: rest, a, as => parseAttrs rest { a with ignore := true } as
    | .list [.atom "dflt", v] :: rest, a, as =>
      match parseV v with
      | some v => parseAttrs rest { a with dflt := v } as
      | none => none
    | .list [.atom "ctor", v] :: rest, a, as =>
      match parseV v with
      | some v => parseAttrs rest { a with ctor := v } as
      | none => none
    | .list [.atom "as", .atom lo, .atom hi, t, .atom conv] :: rest, a, as =>
      match lo.toNat?, hi.toNat?, parseTy env t, conv.toNat? with
      | some lo, some hi, some t, some c =>
        -- keep declaration order: append at the end
        parseAttrs rest a (appendAs as (.cons ⟨lo, hi⟩ t c .nil))
      | _, _, _, _ => none
    | _, _, _ => none
  appendAs : AsL → AsL → AsL
    | .nil, b => b
    | .cons r t c rest, b => .cons r t c (appendAs rest b)
  parseVariants : List Sx → Option VariantL
    | [] => some .nil
    | .list (.atom "v" :: .atom name :: .list [.atom "ver", .atom lo, .atom hi] :: .atom d :: fs) :: rest =>
      match lo.toNat?, hi.toNat?, parseFields fs, parseVariants rest with
      | some lo, some hi, some fs, some vs => some (.cons name ⟨lo, hi⟩ d.toNat? fs vs)
      | _, _, _, _ => none
    | _ => none

end Sfv
