/-
  Sfv.Driver.AbiIo — text form of definition families, connection analysis and ledger runs.  Not part of any proof.
-/
import Sfv.Model.Abi
import Sfv.Generated.Abi
import Sfv.Driver.Sexp
namespace Sfv

/-- a definition travels as the format-2 encoding of `Schema::Trait(false, def)` -/
def parseDefHex (cfg : Cfg) : Sx → Option TraitDef
  | .atom h =>
    match parseHex h with
    | some bs =>
      match decSchema cfg 2 (bs.length + 2) bs with
      | .ok (.trait _ d, _) => some d
      | _ => none
    | none => none
  | _ => none

def famAt (defs : List TraitDef) (dflt : TraitDef) (v : Nat) : TraitDef :=
  (defs[min v (defs.length - 1)]?).getD dflt

def showName (b : Bytes) : String := if b.isEmpty then "h" else "h" ++ toHex b

def showConn (r : Nat × Except AnaFail (List ConnMethod)) : String :=
  match r.2 with
  | .ok ms => "(ok " ++ toString r.1 ++ String.join (ms.map fun m =>
      " (m " ++ showName m.name ++ " " ++ (match m.calleeNum with | some n => toString n | none => "-") ++ " " ++ toString m.mask ++ ")") ++ ")"
  | .error (.err .incompatible) => "(err schema)"
  | .error (.err .general) => "(err general)"
  | .error (.err .tooManyArgs) => "(err toomany)"
  | .error .panic => "(panic)"

def emptyDef : TraitDef := .mk [] .nil false false

def connectRequest (cfg : Cfg) : Sx → Option String
  | .list [.atom "connect", .list caller, .list callee] =>
    match caller.mapM (parseDefHex cfg), callee.mapM (parseDefHex cfg) with
    | some cr, some ce =>
      if cr.isEmpty || ce.isEmpty then none
      else some (showConn (connect Generated.vbcReturnPosition (famAt cr emptyDef) (famAt ce emptyDef) (cr.length - 1) (ce.length - 1)))
    | _, _ => none
  | _ => none

def parseFileRow : Sx → Option (Nat × Bytes)
  | .list [.atom v, .atom h] =>
    match v.toNat?, parseHex h with
    | some v, some b => some (v, b)
    | _, _ => none
  | _ => none

def showFiles (fs : List (Nat × Bytes)) : String :=
  "(" ++ " ".intercalate (fs.map fun (v, b) => "(" ++ toString v ++ " " ++ toHex b ++ ")") ++ ")"

def sortFiles (fs : List (Nat × Bytes)) : List (Nat × Bytes) :=
  (fs.toArray.qsort (fun a b => a.1 < b.1)).toList

def ledgerRequest (cfg : Cfg) : Sx → Option String
  | .list [.atom "ledger", .list fam, .list files] =>
    match fam.mapM (parseDefHex cfg), files.mapM parseFileRow, Generated.ledgerSaveVersion, Generated.ledgerLoadVersion with
    | some defs, some files, some fs, some fl =>
      if defs.isEmpty then none
      else
        let r := verifyCompatibility cfg Generated.vbcReturnPosition fs fl (famAt defs emptyDef) (defs.length - 1) files
        some ("(" ++ (match r.2 with
          | .ok => "(ok)" | .incompatible => "(err incompatible)" | .unreadable => "(err unreadable)" | .panic => "(panic)")
          ++ " " ++ showFiles (sortFiles r.1) ++ ")")
    | _, _, _, _ => none
  | _ => none

end Sfv
