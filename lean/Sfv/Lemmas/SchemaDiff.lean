import Sfv.Model.SchemaWf
namespace Sfv

/-! ### `diff` against a readable specification of "same wire layout, same variant names" -/

def SPrim.shape : SPrim → Nat
  | p => p.code   -- `str` layouts all share code 9

mutual
/-- same node kinds, primitive kinds, arities, array lengths, discriminant widths and values, variant names,
    `Custom` strings and recursion depths — struct/field/debug names and every memory annotation erased -/
def shapeEq : Schema → Schema → Bool
  | .struct _ _ _ fa, .struct _ _ _ fb => shapeEqF fa fb
  | .enum _ va da _ _ _, .enum _ vb db _ _ _ => decide (da = db) && shapeEqV va vb
  | .prim a, .prim b => a.shape == b.shape
  | .vector a _, .vector b _ => shapeEq a b
  | .option a, .option b => shapeEq a b
  | .zeroSize, .zeroSize => true
  | .array a na, .array b nb => decide (na = nb) && shapeEq a b
  | .custom a, .custom b => decide (a = b)
  | .str, .str => true
  | .utcTimestamp, .utcTimestamp => true
  | .stdIoError, .stdIoError => true
  | .boxed a, .boxed b => shapeEq a b
  | .reference a, .reference b => shapeEq a b
  | .slice a, .slice b => shapeEq a b
  | .recursion a, .recursion b => decide (a = b)
  | .uninitSlice, .uninitSlice => true
  | _, _ => false
def shapeEqF : SFieldL → SFieldL → Bool
  | .nil, .nil => true
  | .cons _ ta _ ra, .cons _ tb _ rb => shapeEq ta tb && shapeEqF ra rb
  | _, _ => false
def shapeEqV : SVariantL → SVariantL → Bool
  | .nil, .nil => true
  | .cons na da fa ra, .cons nb db fb rb => decide (na = nb) && decide (da = db) && shapeEqF fa fb && shapeEqV ra rb
  | _, _ => false
end

mutual
/-- schemas a data file can contain: no `Undefined`, trait, closure or future node -/
def dataS : Schema → Bool
  | .struct _ _ _ fs => dataSF fs
  | .enum _ vs _ _ _ _ => dataSV vs
  | .vector t _ => dataS t
  | .array t _ => dataS t
  | .option t => dataS t
  | .boxed t => dataS t
  | .slice t => dataS t
  | .reference t => dataS t
  | .undefined => false
  | .trait _ _ => false
  | .fnClosure _ _ => false
  | .future _ _ _ _ => false
  | _ => true
def dataSF : SFieldL → Bool
  | .nil => true
  | .cons _ t _ rest => dataS t && dataSF rest
def dataSV : SVariantL → Bool
  | .nil => true
  | .cons _ _ fs rest => dataSF fs && dataSV rest
end

theorem andThen_same {a b : DiffR} : a.andThen b = .same ↔ a = .same ∧ b = .same := by
  cases a <;> simp [DiffR.andThen]

theorem shapeEqF_length : ∀ (a b : SFieldL), shapeEqF a b = true → a.length = b.length
  | .nil, .nil, _ => rfl
  | .cons _ _ _ ra, .cons _ _ _ rb, h => by
    simp only [shapeEqF, Bool.and_eq_true] at h
    simp [SFieldL.length, shapeEqF_length ra rb h.2]
  | .nil, .cons _ _ _ _, h => by simp [shapeEqF] at h
  | .cons _ _ _ _, .nil, h => by simp [shapeEqF] at h

theorem shapeEqV_length : ∀ (a b : SVariantL), shapeEqV a b = true → a.length = b.length
  | .nil, .nil, _ => rfl
  | .cons _ _ _ ra, .cons _ _ _ rb, h => by
    simp only [shapeEqV, Bool.and_eq_true] at h
    simp [SVariantL.length, shapeEqV_length ra rb h.2]
  | .nil, .cons _ _ _ _, h => by simp [shapeEqV] at h
  | .cons _ _ _ _, .nil, h => by simp [shapeEqV] at h

theorem prim_diff_iff (a b : SPrim) :
    ((if a = b then DiffR.same else match a, b with | .str _, .str _ => DiffR.same | _, _ => DiffR.differ) = .same)
      ↔ (a.shape == b.shape) = true := by
  cases a <;> cases b <;> simp [SPrim.shape, SPrim.code]

/- For data schemas, `diff_schema` reports no difference exactly when the shapes agree. -/
mutual
theorem diff_iff_shapeEq : ∀ (a b : Schema) (rp : Bool), dataS a = true → dataS b = true →
    (diff a b rp = .same ↔ shapeEq a b = true)
  | .struct _ _ _ fa, b, rp, ha, hb => by
    cases b with
    | struct _ _ _ fb =>
      simp only [diff, shapeEq]
      simp only [dataS] at ha hb
      exact diffFieldsLen_iff fa fb ha hb
    | _ => simp [diff, shapeEq]
  | .enum _ va da _ _ _, b, rp, ha, hb => by
    cases b with
    | enum _ vb db _ _ _ =>
      simp only [diff, shapeEq]
      simp only [dataS] at ha hb
      have ih := diffVariants_iff va vb ha hb
      constructor
      · intro h
        by_cases h1 : va.length = vb.length
        · by_cases h2 : da = db
          · simp [h1, h2] at h
            simp [h2, ih.mp h]
          · simp [h1, h2] at h
        · simp [h1] at h
      · intro h
        simp only [Bool.and_eq_true, decide_eq_true_eq] at h
        have h1 := shapeEqV_length va vb h.2
        simp [h1, h.1, ih.mpr h.2]
    | _ => simp [diff, shapeEq]
  | .prim a, b, rp, _, _ => by
    cases b with
    | prim q =>
      cases a <;> cases q <;> simp [diff, shapeEq, SPrim.shape, SPrim.code]
    | _ => simp [diff, shapeEq]
  | .vector a _, b, rp, ha, hb => by
    cases b with
    | vector q _ =>
      simp only [diff, shapeEq]
      simp only [dataS] at ha hb; exact diff_iff_shapeEq a q false ha hb
    | _ => simp [diff, shapeEq]
  | .option a, b, rp, ha, hb => by
    cases b with
    | option q =>
      simp only [diff, shapeEq]
      simp only [dataS] at ha hb; exact diff_iff_shapeEq a q false ha hb
    | _ => simp [diff, shapeEq]
  | .array a na, b, rp, ha, hb => by
    cases b with
    | array q nb =>
      simp only [diff, shapeEq]
      simp only [dataS] at ha hb
      have ih := diff_iff_shapeEq a q false ha hb
      by_cases h : na = nb <;> simp [h, ih]
    | _ => simp [diff, shapeEq]
  | .boxed a, b, rp, ha, hb => by
    cases b with
    | boxed q =>
      simp only [diff, shapeEq]
      simp only [dataS] at ha hb; exact diff_iff_shapeEq a q rp ha hb
    | _ => simp [diff, shapeEq]
  | .reference a, b, rp, ha, hb => by
    cases b with
    | reference q =>
      simp only [diff, shapeEq]
      simp only [dataS] at ha hb; exact diff_iff_shapeEq a q rp ha hb
    | _ => simp [diff, shapeEq]
  | .slice a, b, rp, ha, hb => by
    cases b with
    | slice q =>
      simp only [diff, shapeEq]
      simp only [dataS] at ha hb; exact diff_iff_shapeEq a q rp ha hb
    | _ => simp [diff, shapeEq]
  | .custom a, b, rp, _, _ => by
    cases b with
    | custom q =>
      simp only [diff, shapeEq]
      by_cases h : a = q <;> simp [h]
    | _ => simp [diff, shapeEq]
  | .recursion a, b, rp, _, _ => by
    cases b with
    | recursion q =>
      simp only [diff, shapeEq]
      by_cases h : a = q <;> simp [h]
    | _ => simp [diff, shapeEq]
  | .zeroSize, b, rp, _, _ => by cases b <;> simp [diff, shapeEq]
  | .str, b, rp, _, _ => by cases b <;> simp [diff, shapeEq]
  | .stdIoError, b, rp, _, _ => by cases b <;> simp [diff, shapeEq]
  | .uninitSlice, b, rp, _, _ => by cases b <;> simp [diff, shapeEq]
  | .utcTimestamp, b, rp, _, _ => by cases b <;> simp [diff, shapeEq]
  | .undefined, _, _, ha, _ => by simp [dataS] at ha
  | .trait _ _, _, _, ha, _ => by simp [dataS] at ha
  | .fnClosure _ _, _, _, ha, _ => by simp [dataS] at ha
  | .future _ _ _ _, _, _, ha, _ => by simp [dataS] at ha
theorem diffFields_iff : ∀ (a b : SFieldL), dataSF a = true → dataSF b = true →
    (diffFields a b = .same ↔ shapeEqF a b = true)
  | .nil, .nil, _, _ => by simp [diffFields, shapeEqF]
  | .cons _ ta _ ra, .cons _ tb _ rb, ha, hb => by
    simp only [dataSF, Bool.and_eq_true] at ha hb
    simp only [diffFields, shapeEqF, Bool.and_eq_true, andThen_same]
    rw [diff_iff_shapeEq ta tb false ha.1 hb.1, diffFields_iff ra rb ha.2 hb.2]
  | .nil, .cons _ _ _ _, _, _ => by simp [diffFields, shapeEqF]
  | .cons _ _ _ _, .nil, _, _ => by simp [diffFields, shapeEqF]
theorem diffFieldsLen_iff : ∀ (a b : SFieldL), dataSF a = true → dataSF b = true →
    (diffFieldsLen a b = .same ↔ shapeEqF a b = true)
  | a, b, ha, hb => by
    simp only [diffFieldsLen]
    have ih := diffFields_iff a b ha hb
    constructor
    · intro h
      by_cases hl : a.length = b.length
      · simp [hl] at h; exact ih.mp h
      · simp [hl] at h
    · intro h
      have hl := shapeEqF_length a b h
      simp [hl, ih.mpr h]
theorem diffVariants_iff : ∀ (a b : SVariantL), dataSV a = true → dataSV b = true →
    (diffVariants a b = .same ↔ shapeEqV a b = true)
  | .nil, .nil, _, _ => by simp [diffVariants, shapeEqV]
  | .cons na da fa ra, .cons nb db fb rb, ha, hb => by
    simp only [dataSV, Bool.and_eq_true] at ha hb
    have i1 := diffFieldsLen_iff fa fb ha.1 hb.1
    have i2 := diffVariants_iff ra rb ha.2 hb.2
    simp only [diffVariants, shapeEqV, Bool.and_eq_true, decide_eq_true_eq]
    by_cases h1 : na = nb
    · by_cases h2 : da = db
      · simp [h1, h2, andThen_same, i1, i2]
      · simp [h1, h2]
    · simp [h1]
  | .nil, .cons _ _ _ _, _, _ => by simp [diffVariants, shapeEqV]
  | .cons _ _ _ _, .nil, _, _ => by simp [diffVariants, shapeEqV]
end

mutual
theorem shapeEq_refl : ∀ (s : Schema), dataS s = true → shapeEq s s = true
  | .struct _ _ _ fs, h => by simp only [dataS] at h; simp [shapeEq, shapeEqF_refl fs h]
  | .enum _ vs _ _ _ _, h => by simp only [dataS] at h; simp [shapeEq, shapeEqV_refl vs h]
  | .prim _, _ => by simp [shapeEq]
  | .vector t _, h => by simp only [dataS] at h; simp [shapeEq, shapeEq_refl t h]
  | .array t _, h => by simp only [dataS] at h; simp [shapeEq, shapeEq_refl t h]
  | .option t, h => by simp only [dataS] at h; simp [shapeEq, shapeEq_refl t h]
  | .boxed t, h => by simp only [dataS] at h; simp [shapeEq, shapeEq_refl t h]
  | .slice t, h => by simp only [dataS] at h; simp [shapeEq, shapeEq_refl t h]
  | .reference t, h => by simp only [dataS] at h; simp [shapeEq, shapeEq_refl t h]
  | .zeroSize, _ => rfl | .custom _, _ => by simp [shapeEq]
  | .str, _ => rfl | .recursion _, _ => by simp [shapeEq]
  | .stdIoError, _ => rfl | .uninitSlice, _ => rfl | .utcTimestamp, _ => rfl
  | .undefined, h => by simp [dataS] at h
  | .trait _ _, h => by simp [dataS] at h
  | .fnClosure _ _, h => by simp [dataS] at h
  | .future _ _ _ _, h => by simp [dataS] at h
theorem shapeEqF_refl : ∀ (fs : SFieldL), dataSF fs = true → shapeEqF fs fs = true
  | .nil, _ => rfl
  | .cons _ t _ rest, h => by
    simp only [dataSF, Bool.and_eq_true] at h
    simp [shapeEqF, shapeEq_refl t h.1, shapeEqF_refl rest h.2]
theorem shapeEqV_refl : ∀ (vs : SVariantL), dataSV vs = true → shapeEqV vs vs = true
  | .nil, _ => rfl
  | .cons _ _ fs rest, h => by
    simp only [dataSV, Bool.and_eq_true] at h
    simp [shapeEqV, shapeEqF_refl fs h.1, shapeEqV_refl rest h.2]
end

end Sfv
