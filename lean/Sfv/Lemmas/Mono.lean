import Sfv.Lemmas.RoundTrip
namespace Sfv

/-! ### The decoder is monotone in its input: success does not depend on what follows -/

theorem repeatDec_mono {f : Bytes → DecR V} (s : Bytes)
    (hf : ∀ bs v r, f bs = .ok (v, r) → f (bs ++ s) = .ok (v, r ++ s)) :
    ∀ (n : Nat) (bs : Bytes) (l : VL) (r : Bytes),
      repeatDec f n bs = .ok (l, r) → repeatDec f n (bs ++ s) = .ok (l, r ++ s)
  | 0, bs, l, r, h => by
    simp only [repeatDec] at h ⊢
    cases h; rfl
  | n+1, bs, l, r, h => by
    simp only [repeatDec] at h ⊢
    cases hq : f bs with
    | error e => simp [hq] at h
    | ok x =>
      obtain ⟨v, r1⟩ := x
      simp only [hq] at h
      cases hq2 : repeatDec f n r1 with
      | error e => simp [hq2] at h
      | ok y =>
        obtain ⟨vs, r2⟩ := y
        simp only [hq2, Except.ok.injEq, Prod.mk.injEq] at h
        obtain ⟨hv, hrr⟩ := h; subst hv; subst hrr
        rw [hf bs v r1 hq]
        simp only
        rw [repeatDec_mono s hf n r1 vs r2 hq2]

/-- consumed bytes of a successful `repeatDec` -/
theorem repeatDec_len {f : Bytes → DecR V}
    (hf : ∀ bs v r, f bs = .ok (v, r) → r.length ≤ bs.length) :
    ∀ (n : Nat) (bs : Bytes) (l : VL) (r : Bytes),
      repeatDec f n bs = .ok (l, r) → r.length ≤ bs.length
  | 0, bs, l, r, h => by
    simp only [repeatDec] at h
    cases h; exact Nat.le_refl _
  | n+1, bs, l, r, h => by
    simp only [repeatDec] at h
    cases hq : f bs with
    | error e => simp [hq] at h
    | ok x =>
      obtain ⟨v, r1⟩ := x
      simp only [hq] at h
      cases hq2 : repeatDec f n r1 with
      | error e => simp [hq2] at h
      | ok y =>
        obtain ⟨vs, r2⟩ := y
        simp only [hq2, Except.ok.injEq, Prod.mk.injEq] at h
        obtain ⟨hv, hrr⟩ := h; subst hv; subst hrr
        have h1 := hf bs v r1 hq
        have h2 := repeatDec_len hf n r1 vs r2 hq2
        omega

theorem takeN_none_of {k : Nat} {bs : Bytes} (h : takeN k bs = none) : bs.length < k := by
  unfold takeN at h
  split at h
  · cases h
  · omega

mutual
theorem dec_mono (cfg : Cfg) (s : Bytes) : ∀ (w : W) (u : Bool) (p : Bytes) (v : V) (r : Bytes),
    dec cfg u w p = .ok (v, r) → dec cfg u w (p ++ s) = .ok (v, r ++ s)
  | .fixed k, u, p, v, r, h => by
    simp only [dec] at h ⊢
    cases hq : readLE k p with
    | error e => simp [hq] at h
    | ok x =>
      obtain ⟨n, r1⟩ := x
      simp only [hq, Except.ok.injEq, Prod.mk.injEq] at h; obtain ⟨hv, hrr⟩ := h; subst hv; subst hrr
      rw [readLE_mono s hq]
  | .bool, u, p, v, r, h => by
    simp only [dec] at h ⊢
    cases hq : readLE 1 p with
    | error e => simp [hq] at h
    | ok x =>
      obtain ⟨n, r1⟩ := x
      simp only [hq] at h
      rw [readLE_mono s hq]
      simp only
      cases u with
      | false => simp at h ⊢; obtain ⟨h1, h2⟩ := h; subst h1; subst h2; simp
      | true =>
        simp only [if_true] at h ⊢
        split at h
        · next hn => simp [hn]; cases h; simp
        · cases h
  | .char, u, p, v, r, h => by
    simp only [dec] at h ⊢
    cases hq : readLE 4 p with
    | error e => simp [hq] at h
    | ok x =>
      obtain ⟨n, r1⟩ := x
      simp only [hq] at h
      rw [readLE_mono s hq]
      simp only
      split at h
      · next hv => simp [hv]; cases h; simp
      · split at h <;> cases h
  | .str cap, u, p, v, r, h => by
    simp only [dec] at h ⊢
    cases hq : readLE 8 p with
    | error e => simp [hq] at h
    | ok x =>
      obtain ⟨n, r1⟩ := x
      simp only [hq] at h
      rw [readLE_mono s hq]
      simp only
      split at h
      · cases h
      · next h1 =>
        split at h
        · cases h
        · next h2 =>
          cases ht : takeN n r1 with
          | none => simp [ht] at h
          | some y =>
            obtain ⟨b, r2⟩ := y
            simp only [ht] at h
            split at h
            · next hv =>
              cases h
              simp [h1, h2, takeN_mono s ht, hv]
            · cases h
  | .seq m t, u, p, v, r, h => by
    simp only [dec] at h ⊢
    cases hq : readLE 8 p with
    | error e => simp [hq] at h
    | ok x =>
      obtain ⟨n, r1⟩ := x
      simp only [hq] at h
      rw [readLE_mono s hq]
      simp only
      split at h
      · cases h
      · next h1 =>
        simp only [h1]
        cases hb : m.bulk with
        | none =>
          simp only [hb] at h ⊢
          split at h
          · cases h
          · next h2 =>
            cases hr : repeatDec (dec cfg u t) n r1 with
            | error e => simp [hr] at h
            | ok y =>
              obtain ⟨l, r2⟩ := y
              simp only [hr, Except.ok.injEq, Prod.mk.injEq] at h; obtain ⟨hv, hrr⟩ := h; subst hv; subst hrr
              have := repeatDec_mono s (fun bs v r hh => dec_mono cfg s t u bs v r hh) n r1 l r2 hr
              simp [h2, this]
        | some pr =>
          obtain ⟨esz, al⟩ := pr
          simp only [hb] at h ⊢
          split at h
          · next hz => cases h; simp [hz]
          · next hz =>
            split at h
            · split at h <;> cases h
            · next hA =>
              split at h
              · cases h
              · next hB =>
                split at h
                · cases h
                · next hC =>
                  cases hr : repeatDec (dec cfg true t) n r1 with
                  | error e => simp [hr] at h
                  | ok y =>
                    obtain ⟨l, r2⟩ := y
                    simp only [hr, Except.ok.injEq, Prod.mk.injEq] at h; obtain ⟨hv, hrr⟩ := h; subst hv; subst hrr
                    have := repeatDec_mono s (fun bs v r hh => dec_mono cfg s t true bs v r hh) n r1 l r2 hr
                    have hC' : ¬ (r1.length + s.length < esz * n) := by omega
                    simp [hz, hA, hB, hC', this]
  | .opt t, u, p, v, r, h => by
    simp only [dec] at h ⊢
    cases hq : readLE 1 p with
    | error e => simp [hq] at h
    | ok x =>
      obtain ⟨n, r1⟩ := x
      simp only [hq] at h
      rw [readLE_mono s hq]
      simp only
      split at h
      · next hn =>
        cases hd : dec cfg u t r1 with
        | error e => simp [hd] at h
        | ok y =>
          obtain ⟨v1, r2⟩ := y
          simp only [hd, Except.ok.injEq, Prod.mk.injEq] at h; obtain ⟨hv, hrr⟩ := h; subst hv; subst hrr
          simp [hn, dec_mono cfg s t u r1 v1 r2 hd]
      · next hn => cases h; simp [hn]
  | .res a b, u, p, v, r, h => by
    simp only [dec] at h ⊢
    cases hq : readLE 1 p with
    | error e => simp [hq] at h
    | ok x =>
      obtain ⟨n, r1⟩ := x
      simp only [hq] at h
      rw [readLE_mono s hq]
      simp only
      split at h
      · next hn =>
        cases hd : dec cfg u a r1 with
        | error e => simp [hd] at h
        | ok y =>
          obtain ⟨v1, r2⟩ := y
          simp only [hd, Except.ok.injEq, Prod.mk.injEq] at h; obtain ⟨hv, hrr⟩ := h; subst hv; subst hrr
          simp [hn, dec_mono cfg s a u r1 v1 r2 hd]
      · next hn =>
        cases hd : dec cfg u b r1 with
        | error e => simp [hd] at h
        | ok y =>
          obtain ⟨v1, r2⟩ := y
          simp only [hd, Except.ok.injEq, Prod.mk.injEq] at h; obtain ⟨hv, hrr⟩ := h; subst hv; subst hrr
          simp [hn, dec_mono cfg s b u r1 v1 r2 hd]
  | .prod ts, u, p, v, r, h => by
    simp only [dec] at h ⊢
    cases hd : decProd cfg u ts p with
    | error e => simp [hd] at h
    | ok y =>
      obtain ⟨l, r2⟩ := y
      simp only [hd, Except.ok.injEq, Prod.mk.injEq] at h; obtain ⟨hv, hrr⟩ := h; subst hv; subst hrr
      simp [decProd_mono cfg s ts u p l r2 hd]
  | .rep n bulk t, u, p, v, r, h => by
    cases bulk with
    | none =>
      simp only [dec] at h ⊢
      cases hr : repeatDec (dec cfg u t) n p with
      | error e => simp [hr] at h
      | ok y =>
        obtain ⟨l, r2⟩ := y
        simp only [hr, Except.ok.injEq, Prod.mk.injEq] at h; obtain ⟨hv, hrr⟩ := h; subst hv; subst hrr
        have := repeatDec_mono s (fun bs v r hh => dec_mono cfg s t u bs v r hh) n p l r2 hr
        simp [this]
    | some esz =>
      simp only [dec] at h ⊢
      split at h
      · cases h
      · next hC =>
        cases hr : repeatDec (dec cfg true t) n p with
        | error e => simp [hr] at h
        | ok y =>
          obtain ⟨l, r2⟩ := y
          simp only [hr, Except.ok.injEq, Prod.mk.injEq] at h; obtain ⟨hv, hrr⟩ := h; subst hv; subst hrr
          have := repeatDec_mono s (fun bs v r hh => dec_mono cfg s t true bs v r hh) n p l r2 hr
          have hC' : ¬ (p.length + s.length < esz * n) := by omega
          simp [hC', this]
  | .tagged w alts, u, p, v, r, h => by
    simp only [dec] at h ⊢
    cases hq : readLE w p with
    | error e => simp [hq] at h
    | ok x =>
      obtain ⟨i, r1⟩ := x
      simp only [hq] at h
      rw [readLE_mono s hq]
      simp only
      cases hd : decAlt cfg u alts i r1 with
      | error e => simp [hd] at h
      | ok y =>
        obtain ⟨v1, r2⟩ := y
        simp only [hd, Except.ok.injEq, Prod.mk.injEq] at h; obtain ⟨hv, hrr⟩ := h; subst hv; subst hrr
        simp [decAlt_mono cfg s alts u i r1 v1 r2 hd]
  | .canary, u, p, v, r, h => by
    simp only [dec] at h ⊢
    cases hq : readLE 4 p with
    | error e => simp [hq] at h
    | ok x =>
      obtain ⟨n, r1⟩ := x
      simp only [hq] at h
      rw [readLE_mono s hq]
      simp only
      split at h
      · next hn => cases h; simp [hn]
      · cases h
  | .sysTime, u, p, v, r, h => by
    simp only [dec] at h ⊢
    cases hq : readLE 16 p with
    | error e => simp [hq] at h
    | ok x =>
      obtain ⟨n, r1⟩ := x
      simp only [hq] at h
      rw [readLE_mono s hq]
      simp only
      cases hc : sysTimeCanon n with
      | none => simp [hc] at h; split at h <;> cases h
      | some c => simp [hc] at h ⊢; exact h
theorem decProd_mono (cfg : Cfg) (s : Bytes) : ∀ (ts : WL) (u : Bool) (p : Bytes) (l : VL) (r : Bytes),
    decProd cfg u ts p = .ok (l, r) → decProd cfg u ts (p ++ s) = .ok (l, r ++ s)
  | .nil, u, p, l, r, h => by
    simp only [decProd] at h ⊢; cases h; rfl
  | .cons t ts, u, p, l, r, h => by
    simp only [decProd] at h ⊢
    cases hd : dec cfg u t p with
    | error e => simp [hd] at h
    | ok y =>
      obtain ⟨v1, r1⟩ := y
      simp only [hd] at h
      cases hd2 : decProd cfg u ts r1 with
      | error e => simp [hd2] at h
      | ok z =>
        obtain ⟨vs, r2⟩ := z
        simp only [hd2, Except.ok.injEq, Prod.mk.injEq] at h; obtain ⟨hv, hrr⟩ := h; subst hv; subst hrr
        simp [dec_mono cfg s t u p v1 r1 hd, decProd_mono cfg s ts u r1 vs r2 hd2]
theorem decAlt_mono (cfg : Cfg) (s : Bytes) : ∀ (alts : WL) (u : Bool) (i : Nat) (p : Bytes) (v : V) (r : Bytes),
    decAlt cfg u alts i p = .ok (v, r) → decAlt cfg u alts i (p ++ s) = .ok (v, r ++ s)
  | .nil, u, i, p, v, r, h => by
    simp only [decAlt] at h; split at h <;> cases h
  | .cons t _, u, 0, p, v, r, h => by
    simp only [decAlt] at h ⊢
    exact dec_mono cfg s t u p v r h
  | .cons _ ts, u, i+1, p, v, r, h => by
    simp only [decAlt] at h ⊢
    exact decAlt_mono cfg s ts u i p v r h
end

end Sfv
