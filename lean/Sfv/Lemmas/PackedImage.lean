import Sfv.Lemmas.Packed
namespace Sfv

/-! ### A type the code judges packed has a memory image equal to its field-wise encoding -/

/-- what the per-field conditions of the packed decision amount to at version `v` -/
def fieldsOK : FieldL → Nat → Bool
  | .nil, _ => true
  | .cons a t _ fs, v =>
    !a.ignore && (if a.rm != .no then !a.r.has v else a.r.has v && isPacked t v) && fieldsOK fs v

mutual
/-- sanity of the layout inputs: a struct without fields is zero sized; an enum whose variants have no
    fields consists of its tag -/
def wfLay : Ty → Bool
  | .arr _ t => wfLay t
  | .wrap _ t => wfLay t
  | .tup lay _ ts => wfLayL ts && (match ts with | .nil => lay.size == 0 | _ => true)
  | .struct _ _ lay fs => wfLayF fs && (match fs with | .nil => lay.size == 0 | _ => true)
  | .enum _ repr lay vs => wfLayV vs && (anyFieldsV vs || lay.size == tagWidth repr vs.length)
  | _ => true
def wfLayL : TyL → Bool
  | .nil => true
  | .cons t ts => wfLay t && wfLayL ts
def wfLayF : FieldL → Bool
  | .nil => true
  | .cons _ t _ fs => wfLay t && wfLayF fs
def wfLayV : VariantL → Bool
  | .nil => true
  | .cons _ _ _ fs vs => wfLayF fs && wfLayV vs
end

/-- descriptor well-formedness the derive macro enforces or documents: a `Removed`/`AbiRemoved` field
    carries a closed version range -/
def rangesWf : FieldL → Bool
  | .nil => true
  | .cons a _ _ fs => (if a.rm != .no then decide (a.r.hi < u32Max) else true) && rangesWf fs

theorem has_of_minSafe {r : VerRange} {v : Nat} (hv : v ≤ u32Max) (hopen : ¬ r.hi < u32Max)
    (hms : v ≥ (if r.isAll then 0 else r.minSafe)) : r.has v = true := by
  unfold VerRange.has
  simp only [Bool.and_eq_true, decide_eq_true_eq]
  by_cases ha : r.isAll = true
  · simp [VerRange.isAll] at ha
    obtain ⟨h1, h2⟩ := ha
    omega
  · simp [ha, VerRange.minSafe] at hms
    omega

theorem not_has_of_minSafe_closed {r : VerRange} {v : Nat} (hclosed : r.hi < u32Max)
    (hms : v ≥ r.minSafe) : r.has v = false := by
  unfold VerRange.has
  simp only [VerRange.minSafe, hclosed, if_true] at hms
  simp only [Bool.and_eq_false_iff, decide_eq_false_iff_not]
  right; omega

/-- struct conditions of `isPacked` give `fieldsOK` -/
theorem fieldsOK_of_struct (v : Nat) (hv : v ≤ u32Max) : ∀ (fs : FieldL),
    anyIgnore fs = false → anyUnversionedRemoved fs = false → anyClosedLive fs = false →
    v ≥ minSafeFields fs → fieldsPacked fs v = true → rangesWf fs = true → fieldsOK fs v = true
  | .nil, _, _, _, _, _, _ => by simp [fieldsOK]
  | .cons a t as fs, hi, hu, hc, hm, hp, hr => by
    simp only [anyIgnore, Bool.or_eq_false_iff] at hi
    simp only [anyUnversionedRemoved, Bool.or_eq_false_iff, Bool.and_eq_false_iff] at hu
    simp only [anyClosedLive, Bool.or_eq_false_iff, Bool.and_eq_false_iff, decide_eq_false_iff_not] at hc
    simp only [minSafeFields] at hm
    simp only [fieldsPacked, Bool.and_eq_true] at hp
    simp only [rangesWf, Bool.and_eq_true] at hr
    have ih := fieldsOK_of_struct v hv fs hi.2 hu.2 hc.2 (by omega) hp.2 hr.2
    simp only [fieldsOK, Bool.and_eq_true, ih, and_true, hi.1, Bool.not_false, true_and]
    by_cases hrm : (a.rm != .no) = true
    · simp only [hrm, if_true]
      -- removed: its range is not `all`, so it is closed below u32Max … or open: then lo > … handled by minSafe
      have hnall : a.r.isAll = false := by
        rcases hu.1 with h | h
        · simp [hrm] at h
        · exact h
      have hms : v ≥ a.r.minSafe := by
        have : (if a.r.isAll = true then 0 else a.r.minSafe) = a.r.minSafe := by simp [hnall]
        omega
      have hrw := hr.1
      simp only [hrm, if_true, decide_eq_true_eq] at hrw
      have := not_has_of_minSafe_closed (v := v) hrw hms
      simp [this]
    · simp only [hrm]
      have hrm' : a.rm = .no := by
        cases h : a.rm <;> simp [h] at hrm ⊢
      have hopen : ¬ a.r.hi < u32Max := by
        rcases hc.1 with h | h
        · simp [hrm'] at h
        · exact h
      have hh := has_of_minSafe (r := a.r) hv hopen (by omega)
      have hpk := hp.1
      simp only [hrm, Bool.false_and] at hpk
      simp at hpk
      simp [hh, hpk]

end Sfv
