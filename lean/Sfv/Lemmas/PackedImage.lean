import Sfv.Lemmas.Packed
namespace Sfv

/-! ### A type the code judges packed has a memory image equal to its field-wise encoding -/

/-- what the per-field conditions of the packed decision amount to at version `v` -/
def fieldsOK : FieldL → Nat → Bool
  | .nil, _ => true
  | .cons a t _ fs, v =>
    !a.ignore && (if a.rm != .no then !a.r.has v else a.r.has v && isPacked t v) && fieldsOK fs v

mutual
/- sanity of the descriptor inputs: a struct without fields is zero sized; an enum whose variants have no
   fields consists of its tag; removed fields have closed ranges -/
def wfLay : Ty → Bool
  | .arr _ t => wfLay t
  | .wrap _ t => wfLay t
  | .tup lay _ ts => wfLayL ts && (match ts with | .nil => lay.size == 0 | _ => true)
  | .struct _ _ lay fs => wfLayF fs && (match fs with | .nil => lay.size == 0 | _ => true)
  | .enum _ repr lay vs => wfLayV vs && (anyFieldsV vs || lay.size == tagWidth repr vs.length)
  | _ => true
def wfLayL : TyL → Bool
  | .nil => true
  | .cons t ts => wfLay t && wfLayL ts
def wfLayF : FieldL → Bool
  | .nil => true
  | .cons a t _ fs =>
    -- (the derive macro enforces/documents: a `Removed`/`AbiRemoved` field carries a closed version range)
    wfLay t && (if a.rm != .no then decide (a.r.hi < u32Max) else true) && wfLayF fs
def wfLayV : VariantL → Bool
  | .nil => true
  | .cons _ _ _ fs vs => wfLayF fs && wfLayV vs
end

/-- descriptor well-formedness the derive macro enforces or documents: a `Removed`/`AbiRemoved` field
    carries a closed version range -/
def rangesWf : FieldL → Bool
  | .nil => true
  | .cons a _ _ fs => (if a.rm != .no then decide (a.r.hi < u32Max) else true) && rangesWf fs

theorem has_of_minSafe {r : VerRange} {v : Nat} (hv : v ≤ u32Max) (hopen : ¬ r.hi < u32Max)
    (hms : v ≥ (if r.isAll then 0 else r.minSafe)) : r.has v = true := by
  unfold VerRange.has
  simp only [Bool.and_eq_true, decide_eq_true_eq]
  by_cases ha : r.isAll = true
  · simp [VerRange.isAll] at ha
    obtain ⟨h1, h2⟩ := ha
    omega
  · simp [ha, VerRange.minSafe] at hms
    omega

theorem not_has_of_minSafe_closed {r : VerRange} {v : Nat} (hclosed : r.hi < u32Max)
    (hms : v ≥ r.minSafe) : r.has v = false := by
  unfold VerRange.has
  simp only [VerRange.minSafe, hclosed, if_true] at hms
  simp only [Bool.and_eq_false_iff, decide_eq_false_iff_not]
  right; omega

/-- struct conditions of `isPacked` give `fieldsOK` -/
theorem fieldsOK_of_struct (v : Nat) (hv : v ≤ u32Max) : ∀ (fs : FieldL),
    anyIgnore fs = false → anyUnversionedRemoved fs = false → anyClosedLive fs = false →
    v ≥ minSafeFields fs → fieldsPacked fs v = true → rangesWf fs = true → fieldsOK fs v = true
  | .nil, _, _, _, _, _, _ => by simp [fieldsOK]
  | .cons a t as fs, hi, hu, hc, hm, hp, hr => by
    simp only [anyIgnore, Bool.or_eq_false_iff] at hi
    simp only [anyUnversionedRemoved, Bool.or_eq_false_iff, Bool.and_eq_false_iff] at hu
    simp only [anyClosedLive, Bool.or_eq_false_iff, Bool.and_eq_false_iff, decide_eq_false_iff_not] at hc
    simp only [minSafeFields] at hm
    simp only [fieldsPacked, Bool.and_eq_true] at hp
    simp only [rangesWf, Bool.and_eq_true] at hr
    have ih := fieldsOK_of_struct v hv fs hi.2 hu.2 hc.2 (by omega) hp.2 hr.2
    simp only [fieldsOK, Bool.and_eq_true, ih, and_true, hi.1, Bool.not_false, true_and]
    by_cases hrm : (a.rm != .no) = true
    · simp only [hrm, if_true]
      -- removed: its range is not `all`, so it is closed below u32Max … or open: then lo > … handled by minSafe
      have hnall : a.r.isAll = false := by
        rcases hu.1 with h | h
        · simp [hrm] at h
        · exact h
      have hms : v ≥ a.r.minSafe := by
        have : (if a.r.isAll = true then 0 else a.r.minSafe) = a.r.minSafe := by simp [hnall]
        omega
      have hrw := hr.1
      simp only [hrm, if_true, decide_eq_true_eq] at hrw
      have := not_has_of_minSafe_closed (v := v) hrw hms
      simp [this]
    · simp only [hrm]
      have hrm' : a.rm = .no := by
        cases h : a.rm <;> simp [h] at hrm ⊢
      have hopen : ¬ a.r.hi < u32Max := by
        rcases hc.1 with h | h
        · simp [hrm'] at h
        · exact h
      have hh := has_of_minSafe (r := a.r) hv hopen (by omega)
      have hpk := hp.1
      simp only [hrm, Bool.false_and] at hpk
      simp at hpk
      simp [hh, hpk]


theorem packed_prim (p : Prim) (v : Nat) (x : V) (mem : Bytes) (wv : V) (bs : Bytes)
    (hp : isPacked (.prim p) v = true) (hm : MemOK (.prim p) x mem)
    (hproj : proj (.prim p) v x = .ok wv) (henc : enc (saveWire (.prim p) v) wv = some bs) : mem = bs := by
  simp only [proj, Except.ok.injEq] at hproj
  subst hproj
  simp only [saveWire] at henc
  simp only [isPacked] at hp
  cases p <;> cases x <;>
    simp_all [MemOK, Prim.wire, Prim.wireWidth, Prim.memSize, Prim.packed, enc, encProd]
  all_goals (first | (cases ‹VL› <;> simp_all [MemOK, enc, encProd]) | skip)

theorem allcat_eq {P : V → Bytes → Prop} {f : V → Except SaveFail V} {w : W}
    (h : ∀ x mem wv bs, P x mem → f x = .ok wv → enc w wv = some bs → mem = bs) :
    ∀ (l : VL) (mem : Bytes) (wl : VL) (bs : Bytes),
      AllCat P l mem → mapMVL f l = .ok wl → encAll w wl = some bs → mem = bs
  | .nil, mem, wl, bs, ha, hm, he => by
    simp only [AllCat] at ha
    simp only [mapMVL, Except.ok.injEq] at hm
    subst hm
    simp only [encAll, Option.some.injEq] at he
    rw [ha, ← he]
  | .cons x xs, mem, wl, bs, ha, hm, he => by
    simp only [AllCat] at ha
    obtain ⟨a, b, hab, hpa, hrest⟩ := ha
    simp only [mapMVL] at hm
    cases hfx : f x with
    | error e => simp [hfx] at hm
    | ok wx =>
      cases hfs : mapMVL f xs with
      | error e => simp [hfx, hfs] at hm
      | ok wxs =>
        simp only [hfx, hfs, Except.ok.injEq] at hm
        subst hm
        simp only [encAll] at he
        obtain ⟨b1, b2, h1, h2, rfl⟩ := cat2_some he
        have e1 := h x a wx b1 hpa hfx h1
        have e2 := allcat_eq h xs b wxs b2 hrest hfs h2
        rw [hab, e1, e2]

theorem mapMVL_length {f : V → Except SaveFail V} : ∀ (l wl : VL), mapMVL f l = .ok wl → wl.length = l.length
  | .nil, wl, h => by simp only [mapMVL, Except.ok.injEq] at h; subst h; rfl
  | .cons x xs, wl, h => by
    simp only [mapMVL] at h
    cases hfx : f x with
    | error e => simp [hfx] at h
    | ok wx =>
      cases hfs : mapMVL f xs with
      | error e => simp [hfx, hfs] at h
      | ok wxs =>
        simp only [hfx, hfs, Except.ok.injEq] at h
        subst h
        simp [VL.length, mapMVL_length xs wxs hfs]

/-- without explicit discriminant values the stored discriminant of variant `i` is `i` -/
theorem discrOf_index : ∀ (vs : VariantL) (i next : Nat) (l : VL) (mem : Bytes),
    anyExplicitDiscr vs = false → MemOKVariant vs i l mem → discrOf vs i next = next + i
  | .nil, i, next, l, mem, _, hm => by simp [MemOKVariant] at hm
  | .cons _ _ d _ vs, 0, next, l, mem, hd, _ => by
    simp only [anyExplicitDiscr, Bool.or_eq_false_iff] at hd
    have : d = none := by cases d <;> simp_all
    subst this
    simp [discrOf]
  | .cons _ _ d _ vs, i+1, next, l, mem, hd, hm => by
    simp only [anyExplicitDiscr, Bool.or_eq_false_iff] at hd
    have : d = none := by cases d <;> simp_all
    subst this
    simp only [MemOKVariant] at hm
    simp only [discrOf, Option.getD_none]
    rw [discrOf_index vs i (next + 1) l mem hd.2 hm]
    omega

/-- enum conditions of `isPacked` give `fieldsOK` for the fields of every variant -/
theorem fieldsOK_of_enum (v : Nat) (hv : v ≤ u32Max) : ∀ (fs : FieldL),
    anyIgnore fs = false → anyClosedLive fs = false →
    v ≥ minSafeFieldsEnum fs → enumFieldsPacked fs v = true → rangesWf fs = true → fieldsOK fs v = true
  | .nil, _, _, _, _, _ => by simp [fieldsOK]
  | .cons a t as fs, hi, hc, hm, hp, hr => by
    simp only [anyIgnore, Bool.or_eq_false_iff] at hi
    simp only [anyClosedLive, Bool.or_eq_false_iff, Bool.and_eq_false_iff, decide_eq_false_iff_not] at hc
    simp only [minSafeFieldsEnum] at hm
    simp only [enumFieldsPacked, Bool.and_eq_true] at hp
    simp only [rangesWf, Bool.and_eq_true] at hr
    have ih := fieldsOK_of_enum v hv fs hi.2 hc.2 (by omega) hp.2 hr.2
    simp only [fieldsOK, Bool.and_eq_true, ih, and_true, hi.1, Bool.not_false, true_and]
    by_cases hrm : (a.rm != .no) = true
    · simp only [hrm, if_true]
      have hrw := hr.1
      simp only [hrm, if_true, decide_eq_true_eq] at hrw
      have := not_has_of_minSafe_closed (v := v) hrw (by omega)
      simp [this]
    · simp only [hrm]
      have hrm' : a.rm = .no := by
        cases h : a.rm <;> simp [h] at hrm ⊢
      have hopen : ¬ a.r.hi < u32Max := by
        rcases hc.1 with h | h
        · simp [hrm'] at h
        · exact h
      have hh : a.r.has v = true := by
        unfold VerRange.has
        simp only [Bool.and_eq_true, decide_eq_true_eq]
        have : a.r.minSafe ≥ a.r.lo := by simp [VerRange.minSafe]; omega
        omega
      have hpk := hp.1
      simp only [hrm] at hpk
      simp at hpk
      simp [hh, hpk]


theorem rangesWf_of_wfLayF : ∀ (fs : FieldL), wfLayF fs = true → rangesWf fs = true
  | .nil, _ => by simp [rangesWf]
  | .cons a t as fs, h => by
    simp only [wfLayF, Bool.and_eq_true] at h
    simp only [rangesWf, Bool.and_eq_true]
    exact ⟨h.1.2, rangesWf_of_wfLayF fs h.2⟩

theorem fieldSpans_cons_ne {a : FieldAttr} {t : Ty} {as : AsL} {fs : FieldL} {spans : List (Nat × Nat)}
    (h : fieldSpans (.cons a t as fs) = some spans) : spans ≠ [] := by
  intro hs; subst hs
  simp only [fieldSpans] at h
  split at h <;> simp at h

theorem tupleSpans_cons_ne {o : Nat} {offs : List Nat} {t : Ty} {ts : TyL} {spans : List (Nat × Nat)}
    (h : tupleSpans (o :: offs) (.cons t ts) = some spans) : spans ≠ [] := by
  intro hs; subst hs
  simp only [tupleSpans] at h
  split at h <;> simp at h

/-- in an enum none of whose variants has fields, a variant's body is empty -/
theorem unit_variant_body (v : Nat) : ∀ (vs : VariantL) (i : Nat) (l wl : VL) (body : Bytes) (mem : Bytes),
    anyFieldsV vs = false → MemOKVariant vs i l mem → projVariant vs v i l = .ok wl →
    encAlt (saveVariants vs v) i (.tup wl) = some body → body = []
  | .nil, i, l, wl, body, mem, _, hm, _, _ => by simp [MemOKVariant] at hm
  | .cons nm r d fs vs, 0, l, wl, body, mem, hany, hm, hq, henc => by
    simp only [anyFieldsV, Bool.or_eq_false_iff] at hany
    cases fs with
    | nil =>
      simp only [MemOKVariant] at hm
      cases l with
      | nil =>
        simp only [projVariant] at hq
        split at hq
        · simp only [projFields, Except.ok.injEq] at hq
          subst hq
          simp only [saveVariants, encAlt, saveFields, enc, encProd, Option.some.injEq] at henc
          exact henc.symm
        · cases hq
      | cons _ _ => simp [MemOKFields] at hm
    | cons _ _ _ _ => simp at hany
  | .cons nm r d fs vs, i+1, l, wl, body, mem, hany, hm, hq, henc => by
    simp only [anyFieldsV, Bool.or_eq_false_iff] at hany
    simp only [MemOKVariant] at hm
    simp only [projVariant] at hq
    simp only [saveVariants, encAlt] at henc
    exact unit_variant_body v vs i l wl body mem hany.2 hm hq henc

mutual
theorem packed_image (v : Nat) (hv : v ≤ u32Max) : ∀ (T : Ty) (x : V) (mem : Bytes) (wv : V) (bs : Bytes),
    isPacked T v = true → d2Free T = true → wfLay T = true → MemOK T x mem → proj T v x = .ok wv →
    enc (saveWire T v) wv = some bs → mem = bs
  | .prim p, x, mem, wv, bs, hp, _, _, hm, hproj, henc => packed_prim p v x mem wv bs hp hm hproj henc
  | .arr n t, x, mem, wv, bs, hp, hd, hw, hm, hproj, henc => by
    cases x with
    | tup l =>
      simp only [isPacked] at hp
      simp only [d2Free] at hd
      simp only [wfLay] at hw
      simp only [MemOK] at hm
      simp only [proj] at hproj
      cases hq : mapMVL (proj t v) l with
      | error e => simp [hq, Except.map] at hproj
      | ok wl =>
        simp only [hq, Except.map, Except.ok.injEq] at hproj
        subst hproj
        simp only [saveWire, enc] at henc
        split at henc
        · exact allcat_eq (fun x mem wv bs hP hf he => packed_image v hv t x mem wv bs hp hd hw hP hf he) l mem wl bs hm hq henc
        · cases henc
    | _ => simp [MemOK] at hm
  | .wrap c t, x, mem, wv, bs, hp, hd, hw, hm, hproj, henc => by
    cases c with
    | boxed => simp [isPacked] at hp
    | plain => simp [isPacked] at hp
    | cell =>
      simp only [isPacked] at hp
      simp only [d2Free] at hd
      simp only [wfLay] at hw
      simp only [MemOK] at hm
      simp only [proj] at hproj
      simp only [saveWire] at henc
      exact packed_image v hv t x mem wv bs hp hd hw hm hproj henc
  | .tup lay offs ts, x, mem, wv, bs, hp, hd, hw, hm, hproj, henc => by
    cases x with
    | tup l =>
      simp only [isPacked, Bool.and_eq_true] at hp
      simp only [d2Free] at hd
      simp only [wfLay, Bool.and_eq_true] at hw
      simp only [MemOK] at hm
      simp only [proj] at hproj
      cases hq : projL ts v l with
      | error e => simp [hq, Except.map] at hproj
      | ok wl =>
        simp only [hq, Except.map, Except.ok.injEq] at hproj
        subst hproj
        simp only [saveWire, enc] at henc
        have hchain := hp.2
        simp only [tupleChain] at hchain
        cases hsp : tupleSpans offs ts with
        | none => simp [hsp] at hchain
        | some spans =>
          simp only [hsp] at hchain
          obtain ⟨imgs, hsl, hbs⟩ := packed_tup v hv ts offs l mem wl bs spans hp.1 hd hw.1 hsp hm.2 hq henc
          cases ts with
          | nil =>
            -- no members: zero sized
            have hz := hw.2
            simp only [beq_iff_eq] at hz
            have : mem = [] := by
              have := hm.1; rw [hz] at this; exact List.eq_nil_of_length_eq_zero this
            cases l with
            | nil =>
              simp only [projL, Except.ok.injEq] at hq
              subst hq
              simp only [saveWireL, encProd, Option.some.injEq] at henc
              rw [this, ← henc]
            | cons _ _ => simp [projL] at hq
          | cons t0 ts0 =>
            have hne : spans ≠ [] := by
              cases offs with
              | nil => simp [tupleSpans] at hsp
              | cons o offs' => exact tupleSpans_cons_ne hsp
            rw [hbs]
            exact chain_concat mem lay.size hm.1 spans imgs hne hchain hsl
    | _ => simp [MemOK] at hm
  | .struct name repr lay fs, x, mem, wv, bs, hp, hd, hw, hm, hproj, henc => by
    cases x with
    | tup l =>
      simp only [isPacked, Bool.and_eq_true, Bool.not_eq_true', decide_eq_true_eq] at hp
      obtain ⟨⟨⟨⟨⟨hig, hur⟩, hcl⟩, hms⟩, hfp⟩, hchain⟩ := hp
      simp only [d2Free] at hd
      simp only [wfLay, Bool.and_eq_true] at hw
      simp only [MemOK] at hm
      simp only [proj] at hproj
      cases hq : projFields fs v l with
      | error e => simp [hq, Except.map] at hproj
      | ok wl =>
        simp only [hq, Except.map, Except.ok.injEq] at hproj
        subst hproj
        simp only [saveWire, enc] at henc
        have hok := fieldsOK_of_struct v hv fs hig hur hcl hms hfp (rangesWf_of_wfLayF fs hw.1)
        cases hsp : fieldSpans fs with
        | none => simp [hsp] at hchain
        | some spans =>
          simp only [hsp] at hchain
          obtain ⟨imgs, hsl, hbs⟩ := packed_fields v hv fs l mem wl bs spans hok hd hw.1 hsp hm.2 hq henc
          cases fs with
          | nil =>
            have hz := hw.2
            simp only [beq_iff_eq] at hz
            have : mem = [] := by
              have := hm.1; rw [hz] at this; exact List.eq_nil_of_length_eq_zero this
            cases l with
            | nil =>
              simp only [projFields, Except.ok.injEq] at hq
              subst hq
              simp only [saveFields, encProd, Option.some.injEq] at henc
              rw [this, ← henc]
            | cons _ _ => simp [projFields] at hq
          | cons a0 t0 as0 fs0 =>
            have hne : spans ≠ [] := fieldSpans_cons_ne hsp
            rw [hbs]
            exact chain_concat mem lay.size hm.1 spans imgs hne hchain hsl
    | _ => simp [MemOK] at hm
  | .enum name repr lay vs, x, mem, wv, bs, hp, hd, hw, hm, hproj, henc => by
    cases x with
    | alt i xv =>
      cases xv with
      | tup l =>
        simp only [isPacked, Bool.and_eq_true, Bool.not_eq_true', decide_eq_true_eq, Bool.or_eq_true] at hp
        obtain ⟨⟨⟨⟨⟨⟨hex, hnd⟩, hig⟩, hcl⟩, hms⟩, hfp⟩, hchain⟩ := hp
        simp only [d2Free, Bool.and_eq_true, Bool.or_eq_true, Bool.not_eq_true'] at hd
        simp only [wfLay, Bool.and_eq_true, Bool.or_eq_true, beq_iff_eq] at hw
        simp only [MemOK] at hm
        obtain ⟨hlen, htag, hvar⟩ := hm
        simp only [proj] at hproj
        cases hq : projVariant vs v i l with
        | error e => simp [hq, Except.map] at hproj
        | ok wl =>
          simp only [hq, Except.map, Except.ok.injEq] at hproj
          subst hproj
          simp only [saveWire, enc] at henc
          split at henc
          · next hi =>
            obtain ⟨body, hbody, rfl⟩ := map_some' henc
            have hdisc := discrOf_index vs i 0 l mem hnd hvar
            simp only [Nat.zero_add] at hdisc
            rw [hdisc] at htag
            by_cases hany : anyFieldsV vs = true
            · -- every variant has fields (d2Free): the variant's fields follow the tag and fill the enum
              have hnu : anyUnitV vs = false := by
                rcases hd.1 with h | h
                · simp [hany] at h
                · exact h
              have hch : variantsChain (tagWidth repr vs.length) lay.size vs = true := by
                rcases hchain with h | h
                · simp [hany] at h
                · exact h
              have := packed_variant v hv (tagWidth repr vs.length) lay.size mem hlen vs i l wl body
                hig hcl hms hfp hd.2 hw.1 hch hnu hvar hq hbody
              rw [this, htag]
            · -- no variant has fields: the enum is its tag
              have hany' : anyFieldsV vs = false := by simpa using hany
              have hsz : lay.size = tagWidth repr vs.length := by
                rcases hw.2 with h | h
                · simp [hany'] at h
                · exact h
              have hb : body = [] := unit_variant_body v vs i l wl body mem hany' hvar hq hbody
              subst hb
              have : slice mem 0 (tagWidth repr vs.length) = mem := by
                unfold slice
                simp only [List.drop_zero]
                apply List.take_of_length_le
                omega
              rw [← this, htag]; simp
          · cases henc
      | _ => simp [MemOK] at hm
    | _ => simp [MemOK] at hm
  | .str _ _, _, _, _, _, hp, _, _, _, _, _ | .seq _ _, _, _, _, _, hp, _, _, _, _, _
  | .map _ _ _, _, _, _, _, hp, _, _, _, _, _ | .opt _, _, _, _, _, hp, _, _, _, _, _
  | .res _ _, _, _, _, _, hp, _, _, _, _, _ | .ip, _, _, _, _, hp, _, _, _, _, _
  | .sock, _, _, _, _, hp, _, _, _, _, _ | .canary, _, _, _, _, hp, _, _, _, _, _
  | .sysTime, _, _, _, _, hp, _, _, _, _, _ | .duration, _, _, _, _, hp, _, _, _, _, _
  | .ioErr, _, _, _, _, hp, _, _, _, _, _ => by simp [isPacked] at hp
theorem packed_fields (v : Nat) (hv : v ≤ u32Max) : ∀ (fs : FieldL) (l : VL) (mem : Bytes) (wl : VL) (bs : Bytes)
    (spans : List (Nat × Nat)),
    fieldsOK fs v = true → d2FreeF fs = true → wfLayF fs = true → fieldSpans fs = some spans →
    MemOKFields fs l mem → projFields fs v l = .ok wl → encProd (saveFields fs v) wl = some bs →
    ∃ imgs, SlicesOK mem spans imgs ∧ bs = imgs.flatten
  | .nil, l, mem, wl, bs, spans, _, _, _, hsp, hm, hq, henc => by
    cases l with
    | nil =>
      simp only [fieldSpans, Option.some.injEq] at hsp
      subst hsp
      simp only [projFields, Except.ok.injEq] at hq
      subst hq
      simp only [saveFields, encProd, Option.some.injEq] at henc
      exact ⟨[], by simp [SlicesOK], by simp [← henc]⟩
    | cons _ _ => simp [MemOKFields] at hm
  | .cons a t as fs, l, mem, wl, bs, spans, hok, hd, hw, hsp, hm, hq, henc => by
    cases l with
    | nil => simp [MemOKFields] at hm
    | cons x xs =>
      simp only [fieldsOK, Bool.and_eq_true, Bool.not_eq_true'] at hok
      obtain ⟨⟨hig, hcond⟩, hokr⟩ := hok
      simp only [d2FreeF, Bool.and_eq_true] at hd
      simp only [wfLayF, Bool.and_eq_true] at hw
      simp only [MemOKFields] at hm
      obtain ⟨hmx, hmr⟩ := hm
      simp only [fieldSpans] at hsp
      by_cases hrm : (a.rm != .no) = true
      · -- removed: zero sized, absent from the wire at this version
        simp only [hrm, if_true, Bool.not_eq_true'] at hcond
        simp only [hrm, if_true] at hsp
        cases hsr : fieldSpans fs with
        | none => simp [hsr] at hsp
        | some rest =>
          simp only [hsr, Option.some.injEq] at hsp
          subst hsp
          simp only [projFields, hig, hcond, Bool.false_eq_true, if_false] at hq
          simp only [saveFields, hig, hcond, Bool.false_eq_true, if_false] at henc
          obtain ⟨imgs, hsl, hbs⟩ := packed_fields v hv fs xs mem wl bs rest hokr hd.2 hw.2 hsr hmr hq henc
          exact ⟨[] :: imgs, by simp [SlicesOK, slice, hsl], by simp [hbs]⟩
      · have hrm' : a.rm = .no := by
          cases h : a.rm <;> simp [h] at hrm ⊢
        simp only [hrm, Bool.false_eq_true, if_false, Bool.and_eq_true] at hcond
        simp only [hrm, Bool.false_eq_true, if_false] at hsp
        cases hms : memSize t with
        | none => simp [hms] at hsp
        | some sz =>
          cases hsr : fieldSpans fs with
          | none => simp [hms, hsr] at hsp
          | some rest =>
            simp only [hms, hsr, Option.some.injEq] at hsp
            subst hsp
            have hmx' : MemOK t x (slice mem a.off sz) := by
              rcases hmx with h | ⟨sz', h1, h2⟩
              · exact absurd hrm' h
              · rw [hms] at h1; cases h1; exact h2
            simp only [projFields, hig, Bool.false_eq_true, if_false, hcond.1, if_true, hrm'] at hq
            cases hpx : proj t v x with
            | error e => simp [hpx] at hq
            | ok wx =>
              cases hpr : projFields fs v xs with
              | error e => simp [hpx, hpr] at hq
              | ok wxs =>
                simp only [hpx, hpr, Except.ok.injEq] at hq
                subst hq
                simp only [saveFields, hig, Bool.false_eq_true, if_false, hcond.1, if_true, encProd] at henc
                obtain ⟨b1, b2, h1, h2, rfl⟩ := cat2_some henc
                have e1 := packed_image v hv t x (slice mem a.off sz) wx b1 hcond.2 hd.1 hw.1.1 hmx' hpx h1
                obtain ⟨imgs, hsl, hbs⟩ := packed_fields v hv fs xs mem wxs b2 rest hokr hd.2 hw.2 hsr hmr hpr h2
                exact ⟨b1 :: imgs, by simp [SlicesOK, e1, hsl], by simp [hbs]⟩
theorem packed_tup (v : Nat) (hv : v ≤ u32Max) : ∀ (ts : TyL) (offs : List Nat) (l : VL) (mem : Bytes) (wl : VL) (bs : Bytes)
    (spans : List (Nat × Nat)),
    allPackedL ts v = true → d2FreeL ts = true → wfLayL ts = true → tupleSpans offs ts = some spans →
    MemOKTup offs ts l mem → projL ts v l = .ok wl → encProd (saveWireL ts v) wl = some bs →
    ∃ imgs, SlicesOK mem spans imgs ∧ bs = imgs.flatten
  | .nil, offs, l, mem, wl, bs, spans, _, _, _, hsp, hm, hq, henc => by
    cases l with
    | nil =>
      simp only [tupleSpans, Option.some.injEq] at hsp
      subst hsp
      simp only [projL, Except.ok.injEq] at hq
      subst hq
      simp only [saveWireL, encProd, Option.some.injEq] at henc
      exact ⟨[], by simp [SlicesOK], by simp [← henc]⟩
    | cons _ _ => cases offs <;> simp [MemOKTup] at hm
  | .cons t ts, offs, l, mem, wl, bs, spans, hp, hd, hw, hsp, hm, hq, henc => by
    cases offs with
    | nil => simp [tupleSpans] at hsp
    | cons o offs' =>
      cases l with
      | nil => simp [MemOKTup] at hm
      | cons x xs =>
        simp only [allPackedL, Bool.and_eq_true] at hp
        simp only [d2FreeL, Bool.and_eq_true] at hd
        simp only [wfLayL, Bool.and_eq_true] at hw
        simp only [MemOKTup] at hm
        obtain ⟨⟨sz', hsz', hmx⟩, hmr⟩ := hm
        simp only [tupleSpans] at hsp
        cases hms : memSize t with
        | none => simp [hms] at hsp
        | some sz =>
          cases hsr : tupleSpans offs' ts with
          | none => simp [hms, hsr] at hsp
          | some rest =>
            simp only [hms, hsr, Option.some.injEq] at hsp
            subst hsp
            rw [hms] at hsz'; cases hsz'
            simp only [projL] at hq
            cases hpx : proj t v x with
            | error e => simp [hpx] at hq
            | ok wx =>
              cases hpr : projL ts v xs with
              | error e => simp [hpx, hpr] at hq
              | ok wxs =>
                simp only [hpx, hpr, Except.ok.injEq] at hq
                subst hq
                simp only [saveWireL, encProd] at henc
                obtain ⟨b1, b2, h1, h2, rfl⟩ := cat2_some henc
                have e1 := packed_image v hv t x (slice mem o sz') wx b1 hp.1 hd.1 hw.1 hmx hpx h1
                obtain ⟨imgs, hsl, hbs⟩ := packed_tup v hv ts offs' xs mem wxs b2 rest hp.2 hd.2 hw.2 hsr hmr hpr h2
                exact ⟨b1 :: imgs, by simp [SlicesOK, e1, hsl], by simp [hbs]⟩
theorem packed_variant (v : Nat) (hv : v ≤ u32Max) (tagw size : Nat) (mem : Bytes) (hlen : mem.length = size) :
    ∀ (vs : VariantL) (i : Nat) (l wl : VL) (body : Bytes),
    anyIgnoreV vs = false → anyClosedLiveV vs = false → v ≥ minSafeVariants vs → variantsFieldsPacked vs v = true →
    d2FreeV vs = true → wfLayV vs = true → variantsChain tagw size vs = true → anyUnitV vs = false →
    MemOKVariant vs i l mem → projVariant vs v i l = .ok wl → encAlt (saveVariants vs v) i (.tup wl) = some body →
    mem = slice mem 0 tagw ++ body
  | .nil, i, l, wl, body, _, _, _, _, _, _, _, _, hm, _, _ => by simp [MemOKVariant] at hm
  | .cons nm r d fs vs, 0, l, wl, body, hig, hcl, hms, hfp, hd, hw, hch, hnu, hm, hq, henc => by
    simp only [anyIgnoreV, Bool.or_eq_false_iff] at hig
    simp only [anyClosedLiveV, Bool.or_eq_false_iff] at hcl
    simp only [minSafeVariants] at hms
    simp only [variantsFieldsPacked, Bool.and_eq_true] at hfp
    simp only [d2FreeV, Bool.and_eq_true] at hd
    simp only [wfLayV, Bool.and_eq_true] at hw
    simp only [MemOKVariant] at hm
    simp only [projVariant] at hq
    split at hq
    · simp only [saveVariants, encAlt, enc] at henc
      have hok := fieldsOK_of_enum v hv fs hig.1 hcl.1 (by omega) hfp.1 (rangesWf_of_wfLayF fs hw.1)
      cases fs with
      | nil => simp [anyUnitV] at hnu
      | cons a0 t0 as0 fs0 =>
        simp only [variantsChain, Bool.and_eq_true] at hch
        have hch1 := hch.1
        cases hsp : fieldSpans (.cons a0 t0 as0 fs0) with
        | none => simp [hsp] at hch1
        | some spans =>
          simp only [hsp] at hch1
          obtain ⟨imgs, hsl, hbs⟩ := packed_fields v hv (.cons a0 t0 as0 fs0) l mem wl body spans hok hd.1 hw.1 hsp hm hq henc
          cases spans with
          | nil => simp at hch1
          | cons p rest =>
            obtain ⟨o, s⟩ := p
            simp only [Bool.and_eq_true, decide_eq_true_eq] at hch1
            cases imgs with
            | nil => simp [SlicesOK] at hsl
            | cons img imgs' =>
              simp only [SlicesOK] at hsl
              rw [hbs]
              exact chain_concat_from mem size tagw hlen o s rest img imgs' hch1.1 hch1.2 hsl.1 hsl.2
    · cases hq
  | .cons nm r d fs vs, i+1, l, wl, body, hig, hcl, hms, hfp, hd, hw, hch, hnu, hm, hq, henc => by
    simp only [anyIgnoreV, Bool.or_eq_false_iff] at hig
    simp only [anyClosedLiveV, Bool.or_eq_false_iff] at hcl
    simp only [minSafeVariants] at hms
    simp only [variantsFieldsPacked, Bool.and_eq_true] at hfp
    simp only [d2FreeV, Bool.and_eq_true] at hd
    simp only [wfLayV, Bool.and_eq_true] at hw
    simp only [variantsChain, Bool.and_eq_true] at hch
    simp only [anyUnitV, Bool.or_eq_false_iff] at hnu
    simp only [MemOKVariant] at hm
    simp only [projVariant] at hq
    simp only [saveVariants, encAlt] at henc
    exact packed_variant v hv tagw size mem hlen vs i l wl body hig.2 hcl.2 (by omega) hfp.2 hd.2 hw.2 hch.2 hnu.2 hm hq henc
end

end Sfv
