import Sfv.Model.Evolve
import Sfv.Lemmas.RoundTrip
namespace Sfv

/-! ### `encExt` transports encodings -/

mutual
theorem enc_ext : ∀ (a b : W) (v : V) (bs : Bytes), encExt a b = true → enc a v = some bs → enc b v = some bs
  | .fixed k, b, v, bs, he, h => by
    cases b <;> simp [encExt] at he
    subst he; exact h
  | .bool, b, v, bs, he, h => by cases b <;> simp [encExt] at he; exact h
  | .char, b, v, bs, he, h => by cases b <;> simp [encExt] at he; exact h
  | .str c, b, v, bs, he, h => by
    cases b <;> simp [encExt] at he
    subst he; exact h
  | .seq m t, b, v, bs, he, h => by
    cases b with
    | seq m' t' =>
      simp only [encExt, Bool.and_eq_true, beq_iff_eq] at he
      cases v with
      | seq l =>
        simp only [enc] at h ⊢
        rw [← he.1]
        split at h
        · next hc =>
          simp only [hc, if_true]
          obtain ⟨body, hbody, rfl⟩ := map_some' h
          rw [encAll_ext t t' l body he.2 hbody]
          rfl
        · cases h
      | _ => simp [enc] at h
    | _ => simp [encExt] at he
  | .opt t, b, v, bs, he, h => by
    cases b with
    | opt t' =>
      simp only [encExt] at he
      cases v with
      | none => simp only [enc] at h ⊢; exact h
      | some x =>
        simp only [enc] at h ⊢
        obtain ⟨body, hbody, rfl⟩ := map_some' h
        rw [enc_ext t t' x body he hbody]; rfl
      | _ => simp [enc] at h
    | _ => simp [encExt] at he
  | .res a1 a2, b, v, bs, he, h => by
    cases b with
    | res b1 b2 =>
      simp only [encExt, Bool.and_eq_true] at he
      cases v with
      | alt i x =>
        match i, h with
        | 0, h =>
          simp only [enc] at h ⊢
          obtain ⟨body, hbody, rfl⟩ := map_some' h
          rw [enc_ext a2 b2 x body he.2 hbody]; rfl
        | 1, h =>
          simp only [enc] at h ⊢
          obtain ⟨body, hbody, rfl⟩ := map_some' h
          rw [enc_ext a1 b1 x body he.1 hbody]; rfl
        | i+2, h => simp [enc] at h
      | _ => simp [enc] at h
    | _ => simp [encExt] at he
  | .prod ts, b, v, bs, he, h => by
    cases b with
    | prod ts' =>
      simp only [encExt] at he
      cases v with
      | tup l => simp only [enc] at h ⊢; exact encProd_ext ts ts' l bs he h
      | _ => simp [enc] at h
    | _ => simp [encExt] at he
  | .rep n bk t, b, v, bs, he, h => by
    cases b with
    | rep n' bk' t' =>
      simp only [encExt, Bool.and_eq_true, beq_iff_eq] at he
      cases v with
      | tup l =>
        simp only [enc] at h ⊢
        rw [← he.1]
        split at h
        · next hc => simp only [hc, if_true]; exact encAll_ext t t' l bs he.2 h
        · cases h
      | _ => simp [enc] at h
    | _ => simp [encExt] at he
  | .tagged w alts, b, v, bs, he, h => by
    cases b with
    | tagged w' alts' =>
      simp only [encExt, Bool.and_eq_true, beq_iff_eq] at he
      cases v with
      | alt i x =>
        simp only [enc] at h ⊢
        rw [← he.1]
        split at h
        · next hc =>
          simp only [hc, if_true]
          obtain ⟨body, hbody, rfl⟩ := map_some' h
          rw [encAlt_ext alts alts' i x body he.2 hbody]; rfl
        · cases h
      | _ => simp [enc] at h
    | _ => simp [encExt] at he
  | .canary, b, v, bs, he, h => by cases b <;> simp [encExt] at he; exact h
  | .sysTime, b, v, bs, he, h => by cases b <;> simp [encExt] at he; exact h
theorem encAll_ext : ∀ (a b : W) (l : VL) (bs : Bytes), encExt a b = true → encAll a l = some bs → encAll b l = some bs
  | a, b, .nil, bs, _, h => by simp only [encAll] at h ⊢; exact h
  | a, b, .cons x xs, bs, he, h => by
    simp only [encAll] at h ⊢
    obtain ⟨b1, b2, h1, h2, rfl⟩ := cat2_some h
    rw [enc_ext a b x b1 he h1, encAll_ext a b xs b2 he h2]; rfl
theorem encProd_ext : ∀ (ts ts' : WL) (l : VL) (bs : Bytes), encExtL ts ts' = true → encProd ts l = some bs → encProd ts' l = some bs
  | .nil, .nil, l, bs, _, h => h
  | .cons t ts, .cons t' ts', l, bs, he, h => by
    simp only [encExtL, Bool.and_eq_true] at he
    cases l with
    | nil => simp [encProd] at h
    | cons x xs =>
      simp only [encProd] at h ⊢
      obtain ⟨b1, b2, h1, h2, rfl⟩ := cat2_some h
      rw [enc_ext t t' x b1 he.1 h1, encProd_ext ts ts' xs b2 he.2 h2]; rfl
  | .nil, .cons _ _, _, _, he, _ => by simp [encExtL] at he
  | .cons _ _, .nil, _, _, he, _ => by simp [encExtL] at he
theorem encAlt_ext : ∀ (alts alts' : WL) (i : Nat) (x : V) (bs : Bytes),
    encExtPrefix alts alts' = true → encAlt alts i x = some bs → encAlt alts' i x = some bs
  | .nil, _, _, _, _, _, h => by simp [encAlt] at h
  | .cons t ts, .nil, _, _, _, he, _ => by simp [encExtPrefix] at he
  | .cons t ts, .cons t' ts', 0, x, bs, he, h => by
    simp only [encExtPrefix, Bool.and_eq_true] at he
    simp only [encAlt] at h ⊢
    exact enc_ext t t' x bs he.1 h
  | .cons t ts, .cons t' ts', i+1, x, bs, he, h => by
    simp only [encExtPrefix, Bool.and_eq_true] at he
    simp only [encAlt] at h ⊢
    exact encAlt_ext ts ts' i x bs he.2 h
end

mutual
theorem encExt_refl : ∀ (w : W), encExt w w = true
  | .fixed _ => by simp [encExt]
  | .bool => rfl | .char => rfl
  | .str _ => by simp [encExt]
  | .seq _ t => by simp [encExt, encExt_refl t]
  | .opt t => by simp [encExt, encExt_refl t]
  | .res a b => by simp [encExt, encExt_refl a, encExt_refl b]
  | .prod ts => by simp [encExt, encExtL_refl ts]
  | .rep _ _ t => by simp [encExt, encExt_refl t]
  | .tagged _ alts => by simp [encExt, encExtPrefix_refl alts]
  | .canary => rfl | .sysTime => rfl
theorem encExtL_refl : ∀ (ts : WL), encExtL ts ts = true
  | .nil => rfl
  | .cons t ts => by simp [encExtL, encExt_refl t, encExtL_refl ts]
theorem encExtPrefix_refl : ∀ (ts : WL), encExtPrefix ts ts = true
  | .nil => rfl
  | .cons t ts => by simp [encExtPrefix, encExt_refl t, encExtPrefix_refl ts]
end

/-! ### field lists distribute over append -/

theorem wireFields_app (i : Nat) : ∀ (pre suf : FieldL),
    wireFields (pre.app suf) i = (wireFields pre i).app (wireFields suf i)
  | .nil, suf => rfl
  | .cons a t as fs, suf => by
    simp only [FieldL.app, wireFields]
    split
    · exact wireFields_app i fs suf
    · split
      · simp [WL.app, wireFields_app i fs suf]
      · split
        · simp [WL.app, wireFields_app i fs suf]
        · exact wireFields_app i fs suf

theorem saveFields_app (i : Nat) : ∀ (pre suf : FieldL),
    saveFields (pre.app suf) i = (saveFields pre i).app (saveFields suf i)
  | .nil, suf => rfl
  | .cons a t as fs, suf => by
    simp only [FieldL.app, saveFields]
    split
    · exact saveFields_app i fs suf
    · split
      · simp [WL.app, saveFields_app i fs suf]
      · exact saveFields_app i fs suf

/-! ### the documented edit steps leave every older version's grammar unchanged -/

/-- adding a field at version `k` (range `k..`), anywhere -/
theorem wire_add_field (pre suf : FieldL) (a : FieldAttr) (t : Ty) (k i : Nat) (hi : i < k)
    (hr : a.r.lo = k) :
    wireFields (pre.app (.cons a t .nil suf)) i = wireFields (pre.app suf) i := by
  rw [wireFields_app, wireFields_app]
  congr 1
  simp only [wireFields, wireAs]
  have : a.r.has i = false := by
    simp [VerRange.has]; omega
  split <;> simp [this]

/-- the writer at an older version skips a field added later -/
theorem save_add_field (pre suf : FieldL) (a : FieldAttr) (t : Ty) (as : AsL) (k i : Nat) (hi : i < k)
    (hr : a.r.lo = k) :
    saveFields (pre.app (.cons a t as suf)) i = saveFields (pre.app suf) i := by
  rw [saveFields_app, saveFields_app]
  congr 1
  simp only [saveFields]
  have : a.r.has i = false := by
    simp [VerRange.has]; omega
  split <;> simp [this]

/-- removing a field at version `k`: it becomes `Removed`/`AbiRemoved` with its range closed at `k-1` -/
theorem wire_remove_field (pre suf : FieldL) (a : FieldAttr) (t : Ty) (as : AsL) (rm : Removal) (k i : Nat)
    (hi : i < k) (hhi : a.r.hi ≥ k - 1) :
    wireFields (pre.app (.cons { a with rm := rm, r := ⟨a.r.lo, k - 1⟩ } t as suf)) i
      = wireFields (pre.app (.cons a t as suf)) i := by
  rw [wireFields_app, wireFields_app]
  congr 1
  simp only [wireFields]
  have : VerRange.has ⟨a.r.lo, k - 1⟩ i = a.r.has i := by
    simp only [VerRange.has]
    have h1 : decide (i ≤ k - 1) = true := by simp; omega
    have h2 : decide (i ≤ a.r.hi) = true := by simp; omega
    simp [h1, h2]
  simp [this]

/-- removal by `AbiRemoved` also leaves the *writer's* older grammars unchanged -/
theorem save_remove_field (pre suf : FieldL) (a : FieldAttr) (t : Ty) (as : AsL) (rm : Removal) (k i : Nat)
    (hi : i < k) (hhi : a.r.hi ≥ k - 1) :
    saveFields (pre.app (.cons { a with rm := rm, r := ⟨a.r.lo, k - 1⟩ } t as suf)) i
      = saveFields (pre.app (.cons a t as suf)) i := by
  rw [saveFields_app, saveFields_app]
  congr 1
  simp only [saveFields]
  have : VerRange.has ⟨a.r.lo, k - 1⟩ i = a.r.has i := by
    simp only [VerRange.has]
    have h1 : decide (i ≤ k - 1) = true := by simp; omega
    have h2 : decide (i ≤ a.r.hi) = true := by simp; omega
    simp [h1, h2]
  simp [this]

/-- changing a field's type at version `k` with `savefile_versions_as = "lo..k-1:conv:Old"` -/
theorem wire_convert_field (pre suf : FieldL) (a : FieldAttr) (told tnew : Ty) (as : AsL) (conv k i : Nat)
    (hi : i < k) (hhi : a.r.hi ≥ k - 1) (hdisj : asHas as i = true → a.r.has i = false)
    (hnoas : wireAs as i = none ∨ a.r.has i = false) :
    wireFields (pre.app (.cons { a with r := ⟨k, u32Max⟩ } tnew (.cons ⟨a.r.lo, k - 1⟩ told conv as) suf)) i
      = wireFields (pre.app (.cons a told as suf)) i := by
  rw [wireFields_app, wireFields_app]
  congr 1
  simp only [wireFields, wireAs]
  have hnew : VerRange.has ⟨k, u32Max⟩ i = false := by simp [VerRange.has]; omega
  have hold : VerRange.has ⟨a.r.lo, k - 1⟩ i = a.r.has i := by
    simp only [VerRange.has]
    have h1 : decide (i ≤ k - 1) = true := by simp; omega
    have h2 : decide (i ≤ a.r.hi) = true := by simp; omega
    simp [h1, h2]
  by_cases hig : a.ignore = true
  · simp [hig]
  · simp only [hig, Bool.false_eq_true, if_false, hold, hnew]
    by_cases hh : a.r.has i = true
    · have hw : wireAs as i = none := by
        rcases hnoas with h | h
        · exact h
        · rw [hh] at h; cases h
      simp [hh, hw]
    · have hh' : a.r.has i = false := by simpa using hh
      simp only [hh', Bool.false_eq_true, if_false]

/-- appending variants keeps the alternatives of the older grammar as a prefix -/
theorem wireVariants_app (i : Nat) : ∀ (vs more : VariantL),
    wireVariants (vs.app more) i = (wireVariants vs i).app (wireVariants more i)
  | .nil, more => rfl
  | .cons n r d fs vs, more => by simp [VariantL.app, wireVariants, WL.app, wireVariants_app i vs more]

theorem encExtPrefix_app : ∀ (a b : WL), encExtPrefix a (a.app b) = true
  | .nil, b => rfl
  | .cons t ts, b => by simp [WL.app, encExtPrefix, encExt_refl t, encExtPrefix_app ts b]

end Sfv
