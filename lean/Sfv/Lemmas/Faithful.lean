import Sfv.Model.SchemaWire
import Sfv.Lemmas.RoundTrip
namespace Sfv

theorem guard_miss (ctx : List String) (key : String) (cb : List String → Schema)
    (h : (ctxIndex key ctx 0).isNone = true) : guard ctx key cb = cb (ctx ++ [key]) := by
  unfold guard
  cases hc : ctxIndex key ctx 0 with
  | none => rfl
  | some d => simp [hc] at h

theorem schemaOfAs_none (sc : SCfg) : ∀ (as : AsL) (v : Nat) (ctx : List String) (name : Bytes),
    asHas as v = false → schemaOfAs sc as v ctx name = .nil
  | .nil, _, _, _, _ => rfl
  | .cons r old c rest, v, ctx, name, h => by
    simp only [asHas, Bool.or_eq_false_iff] at h
    simp [schemaOfAs, h.1, schemaOfAs_none sc rest v ctx name h.2]

theorem primWire_schema (p : Prim) : schemaWire (primSchema p) = some (erase p.wire) := by
  cases p <;> simp [primSchema, schemaWire, primWire, Prim.wire, Prim.wireWidth, erase, eraseL]

/- For types in the fragment whose guards all miss, the schema read as a grammar is exactly the byte
   structure of what the writer emits. -/
mutual
theorem faithful (sc : SCfg) (v : Nat) (hv : v ≤ u32Max) : ∀ (T : Ty) (ctx : List String),
    frag T v = true → guardsMiss T v ctx = true →
    schemaWire (schemaOf sc T v ctx) = some (erase (saveWire T v))
  | .prim p, ctx, _, _ => by simp [schemaOf, saveWire, primWire_schema]
  | .str cap std, ctx, _, _ => by simp [schemaOf, saveWire, schemaWire, primWire, erase]
  | .seq k t, ctx, hf, hg => by
    simp only [frag, Bool.and_eq_true] at hf
    cases k with
    | indexSet => simp at hf
    | arrayVec c =>
      simp only [guardsMiss] at hg
      simp [schemaOf, saveWire, schemaWire, erase, faithful sc v hv t ctx hf.2 hg]
    | vec =>
      simp only [guardsMiss, Bool.and_eq_true] at hg
      simp [schemaOf, saveWire, schemaWire, erase, guard_miss _ _ _ hg.1, faithful sc v hv t _ hf.2 hg.2]
    | slice =>
      simp only [guardsMiss, Bool.and_eq_true] at hg
      simp [schemaOf, saveWire, schemaWire, erase, guard_miss _ _ _ hg.1, faithful sc v hv t _ hf.2 hg.2]
    | plain =>
      simp only [guardsMiss, Bool.and_eq_true] at hg
      simp [schemaOf, saveWire, schemaWire, erase, guard_miss _ _ _ hg.1, faithful sc v hv t _ hf.2 hg.2]
    | set =>
      simp only [guardsMiss, Bool.and_eq_true] at hg
      simp [schemaOf, saveWire, schemaWire, erase, guard_miss _ _ _ hg.1, faithful sc v hv t _ hf.2 hg.2]
    | bag =>
      simp only [guardsMiss, Bool.and_eq_true] at hg
      simp [schemaOf, saveWire, schemaWire, erase, guard_miss _ _ _ hg.1, faithful sc v hv t _ hf.2 hg.2]
  | .map btree k x, ctx, hf, hg => by
    simp only [frag, Bool.and_eq_true] at hf
    simp only [guardsMiss, Bool.and_eq_true] at hg
    obtain ⟨⟨⟨g1, g2⟩, g3⟩, g4⟩ := hg
    simp [schemaOf, saveWire, schemaWire, schemaWireF, optMap2, erase, eraseL, guard_miss _ _ _ g1, guard_miss _ _ _ g3,
      faithful sc v hv k _ hf.1 g2, faithful sc v hv x _ hf.2 g4]
  | .opt t, ctx, hf, hg => by
    simp only [frag] at hf
    simp only [guardsMiss] at hg
    simp [schemaOf, saveWire, schemaWire, erase, faithful sc v hv t ctx hf hg]
  | .wrap k t, ctx, hf, hg => by
    simp only [frag] at hf
    cases k with
    | boxed =>
      simp only [guardsMiss, Bool.and_eq_true] at hg
      simp [schemaOf, saveWire, guard_miss _ _ _ hg.1, faithful sc v hv t _ hf hg.2]
    | plain =>
      simp only [guardsMiss] at hg
      simp [schemaOf, saveWire, faithful sc v hv t ctx hf hg]
    | cell =>
      simp only [guardsMiss] at hg
      simp [schemaOf, saveWire, faithful sc v hv t ctx hf hg]
  | .tup lay offs ts, ctx, hf, hg => by
    simp only [frag] at hf
    simp only [guardsMiss] at hg
    simp [schemaOf, saveWire, schemaWire, erase, faithfulL sc v hv ts ctx offs 0 hf hg]
  | .arr n t, ctx, hf, hg => by
    simp only [frag] at hf
    simp only [guardsMiss, Bool.and_eq_true] at hg
    simp [schemaOf, saveWire, schemaWire, erase, guard_miss _ _ _ hg.1, faithful sc v hv t _ hf hg.2]
  | .struct name repr lay fs, ctx, hf, hg => by
    simp only [frag] at hf
    simp only [guardsMiss] at hg
    simp [schemaOf, saveWire, schemaWire, erase, faithfulF sc v hv fs ctx true hf hg]
  | .enum name repr lay vs, ctx, hf, hg => by
    simp only [frag, Bool.and_eq_true, decide_eq_true_eq] at hf
    simp only [guardsMiss] at hg
    simp [schemaOf, saveWire, schemaWire, erase, faithfulV sc v hv vs ctx _ 0 hf.2 hg (by omega)]
  | .ip, ctx, _, _ => by
    simp [schemaOf, saveWire, schemaWire, schemaWireV, schemaWireF, optMap2, ipSchemaVariants, ipWire, primWire, erase, eraseL]
  | .canary, ctx, _, _ => by simp [schemaOf, saveWire, schemaWire, primWire, erase]
  | .res _ _, _, hf, _ => by simp [frag] at hf
  | .sock, _, hf, _ => by simp [frag] at hf
  | .sysTime, _, hf, _ => by simp [frag] at hf
  | .duration, _, hf, _ => by simp [frag] at hf
  | .ioErr, _, hf, _ => by simp [frag] at hf
theorem faithfulL (sc : SCfg) (v : Nat) (hv : v ≤ u32Max) : ∀ (ts : TyL) (ctx : List String) (offs : List Nat) (i : Nat),
    fragL ts v = true → guardsMissL ts v ctx = true →
    schemaWireF (schemaOfTup sc ts v ctx offs i) = some (eraseL (saveWireL ts v))
  | .nil, _, _, _, _, _ => by simp [schemaOfTup, schemaWireF, saveWireL, eraseL]
  | .cons t ts, ctx, offs, i, hf, hg => by
    simp only [fragL, Bool.and_eq_true] at hf
    simp only [guardsMissL, Bool.and_eq_true] at hg
    simp [schemaOfTup, schemaWireF, saveWireL, eraseL, optMap2, faithful sc v hv t ctx hf.1 hg.1,
      faithfulL sc v hv ts ctx offs.tail (i + 1) hf.2 hg.2]
theorem faithfulF (sc : SCfg) (v : Nat) (hv : v ≤ u32Max) : ∀ (fs : FieldL) (ctx : List String) (known : Bool),
    fragF fs v = true → guardsMissF fs v ctx = true →
    schemaWireF (schemaOfFields sc fs v ctx known) = some (eraseL (saveFields fs v))
  | .nil, _, _, _, _ => by simp [schemaOfFields, schemaWireF, saveFields, eraseL]
  | .cons a t as fs, ctx, known, hf, hg => by
    simp only [fragF, Bool.and_eq_true, Bool.not_eq_true'] at hf
    obtain ⟨⟨hft, has⟩, hfr⟩ := hf
    simp only [guardsMissF, Bool.and_eq_true] at hg
    obtain ⟨⟨hgt, _⟩, hgr⟩ := hg
    have ih := faithfulF sc v hv fs ctx known hfr hgr
    have iht := faithful sc v hv t ctx hft hgt
    simp only [schemaOfFields, saveFields]
    by_cases hig : a.ignore = true
    · simp [hig, ih]
    · simp only [hig, Bool.false_eq_true, if_false]
      by_cases hall : a.r.isAll = true
      · have hh : a.r.has v = true := by
          simp [VerRange.isAll] at hall
          simp [VerRange.has, hall.1, hall.2]
          exact hv
        simp [hall, hh, schemaWireF, optMap2, iht, ih, eraseL]
      · simp only [hall, Bool.false_eq_true, if_false, schemaOfAs_none sc as v ctx _ has, SFieldL.append]
        by_cases hh : a.r.has v = true
        · simp [hh, schemaWireF, optMap2, iht, ih, eraseL]
        · simp [hh, ih]
theorem faithfulV (sc : SCfg) (v : Nat) (hv : v ≤ u32Max) : ∀ (vs : VariantL) (ctx : List String) (explicit : Bool) (idx : Nat),
    fragV vs v = true → guardsMissV vs v ctx = true → idx + vs.length ≤ 256 →
    schemaWireV (schemaOfVariants sc vs v ctx explicit idx) idx = some (eraseL (saveVariants vs v))
  | .nil, _, _, _, _, _, _ => by simp [schemaOfVariants, schemaWireV, saveVariants, eraseL]
  | .cons name r d fs vs, ctx, explicit, idx, hf, hg, hl => by
    simp only [fragV, Bool.and_eq_true] at hf
    obtain ⟨⟨hr, hff⟩, hfr⟩ := hf
    simp only [guardsMissV, Bool.and_eq_true] at hg
    simp only [VariantL.length] at hl
    have ihf := fun k => faithfulF sc v hv fs ctx k hff hg.1
    have ihr := faithfulV sc v hv vs ctx explicit (idx + 1) hfr hg.2 (by omega)
    have hmod : idx % 256 = idx := Nat.mod_eq_of_lt (by omega)
    simp [schemaOfVariants, hr, schemaWireV, hmod, optMap2, ihf, ihr, saveVariants, eraseL, erase]
end


/-! ### erasing reading strategy keeps encodings -/

mutual
theorem enc_erase : ∀ (w : W) (x : V) (bs : Bytes), enc w x = some bs → enc (erase w) x = some bs
  | .fixed k, x, bs, h => by simpa [erase] using h
  | .bool, x, bs, h => by simpa [erase] using h
  | .char, x, bs, h => by simpa [erase] using h
  | .str cap, x, bs, h => by
    cases x with
    | bytes b =>
      simp only [enc, erase] at h ⊢
      split at h
      · next hc =>
        simp only [Bool.and_eq_true, decide_eq_true_eq, Bool.not_eq_true'] at hc
        cases h
        simp [hc.1.1, hc.1.2, overCap]
      · cases h
    | _ => simp [enc] at h
  | .seq m t, x, bs, h => by
    cases x with
    | seq l =>
      simp only [enc, erase] at h ⊢
      split at h
      · next hc =>
        simp only [Bool.and_eq_true, decide_eq_true_eq, Bool.not_eq_true'] at hc
        obtain ⟨body, hbody, rfl⟩ := map_some' h
        simp [hc.1, overCap, encAll_erase t l body hbody]
      · cases h
    | _ => simp [enc] at h
  | .opt t, x, bs, h => by
    cases x with
    | none => simpa [enc, erase] using h
    | some y =>
      simp only [enc, erase] at h ⊢
      obtain ⟨body, hbody, rfl⟩ := map_some' h
      simp [enc_erase t y body hbody]
    | _ => simp [enc] at h
  | .res a b, x, bs, h => by
    cases x with
    | alt i y =>
      match i, h with
      | 0, h =>
        simp only [enc, erase] at h ⊢
        obtain ⟨body, hbody, rfl⟩ := map_some' h
        simp [enc_erase b y body hbody]
      | 1, h =>
        simp only [enc, erase] at h ⊢
        obtain ⟨body, hbody, rfl⟩ := map_some' h
        simp [enc_erase a y body hbody]
      | i+2, h => simp [enc] at h
    | _ => simp [enc] at h
  | .prod ts, x, bs, h => by
    cases x with
    | tup l => simp only [enc, erase] at h ⊢; exact encProd_erase ts l bs h
    | _ => simp [enc] at h
  | .rep n bk t, x, bs, h => by
    cases x with
    | tup l =>
      simp only [enc, erase] at h ⊢
      split at h
      · next hc => simp [hc, encAll_erase t l bs h]
      · cases h
    | _ => simp [enc] at h
  | .tagged w alts, x, bs, h => by
    cases x with
    | alt i y =>
      simp only [enc, erase] at h ⊢
      split at h
      · next hc =>
        obtain ⟨body, hbody, rfl⟩ := map_some' h
        simp [hc, encAlt_erase alts i y body hbody]
      · cases h
    | _ => simp [enc] at h
  | .canary, x, bs, h => by simpa [erase] using h
  | .sysTime, x, bs, h => by simpa [erase] using h
theorem encAll_erase : ∀ (t : W) (l : VL) (bs : Bytes), encAll t l = some bs → encAll (erase t) l = some bs
  | t, .nil, bs, h => by simpa [encAll] using h
  | t, .cons x xs, bs, h => by
    simp only [encAll] at h ⊢
    obtain ⟨b1, b2, h1, h2, rfl⟩ := cat2_some h
    simp [enc_erase t x b1 h1, encAll_erase t xs b2 h2, cat2]
theorem encProd_erase : ∀ (ts : WL) (l : VL) (bs : Bytes), encProd ts l = some bs → encProd (eraseL ts) l = some bs
  | .nil, .nil, bs, h => by simpa [encProd, eraseL] using h
  | .cons t ts, .cons x xs, bs, h => by
    simp only [encProd, eraseL] at h ⊢
    obtain ⟨b1, b2, h1, h2, rfl⟩ := cat2_some h
    simp [enc_erase t x b1 h1, encProd_erase ts xs b2 h2, cat2]
  | .nil, .cons _ _, _, h => by simp [encProd] at h
  | .cons _ _, .nil, _, h => by simp [encProd] at h
theorem encAlt_erase : ∀ (alts : WL) (i : Nat) (x : V) (bs : Bytes), encAlt alts i x = some bs → encAlt (eraseL alts) i x = some bs
  | .nil, _, _, _, h => by simp [encAlt] at h
  | .cons t _, 0, x, bs, h => by simp only [encAlt, eraseL] at h ⊢; exact enc_erase t x bs h
  | .cons _ ts, i+1, x, bs, h => by simp only [encAlt, eraseL] at h ⊢; exact encAlt_erase ts i x bs h
end

mutual
theorem wfW_erase : ∀ (w : W), wfW (erase w) = true
  | .fixed _ => rfl | .bool => rfl | .char => rfl | .str _ => rfl | .canary => rfl | .sysTime => rfl
  | .seq _ t => by simp [erase, wfW, wfW_erase t]
  | .opt t => by simp [erase, wfW, wfW_erase t]
  | .res a b => by simp [erase, wfW, wfW_erase a, wfW_erase b]
  | .prod ts => by simp [erase, wfW, wfWL_erase ts]
  | .rep _ _ t => by simp [erase, wfW, wfW_erase t]
  | .tagged _ alts => by simp [erase, wfW, wfWL_erase alts]
theorem wfWL_erase : ∀ (ts : WL), wfWL (eraseL ts) = true
  | .nil => rfl
  | .cons t ts => by simp [eraseL, wfWL, wfW_erase t, wfWL_erase ts]
end

/-! ### a schema that reads as a grammar contains no recursion marker -/

mutual
def hasRecursion : Schema → Bool
  | .struct _ _ _ fs => hasRecursionF fs
  | .enum _ vs _ _ _ _ => hasRecursionV vs
  | .vector t _ => hasRecursion t
  | .array t _ => hasRecursion t
  | .option t => hasRecursion t
  | .boxed t => hasRecursion t
  | .slice t => hasRecursion t
  | .reference t => hasRecursion t
  | .recursion _ => true
  | _ => false
def hasRecursionF : SFieldL → Bool
  | .nil => false
  | .cons _ t _ rest => hasRecursion t || hasRecursionF rest
def hasRecursionV : SVariantL → Bool
  | .nil => false
  | .cons _ _ fs rest => hasRecursionF fs || hasRecursionV rest
end

mutual
theorem schemaWire_noRec : ∀ (s : Schema) (w : W), schemaWire s = some w → hasRecursion s = false
  | .struct _ _ _ fs, w, h => by
    simp only [schemaWire] at h
    obtain ⟨ws, hws, _⟩ := map_some' h
    simp [hasRecursion, schemaWireF_noRec fs ws hws]
  | .enum _ vs _ _ _ _, w, h => by
    simp only [schemaWire] at h
    obtain ⟨ws, hws, _⟩ := map_some' h
    simp [hasRecursion, schemaWireV_noRec vs 0 ws hws]
  | .vector t _, w, h => by
    simp only [schemaWire] at h
    obtain ⟨w', hw', _⟩ := map_some' h
    simp [hasRecursion, schemaWire_noRec t w' hw']
  | .array t _, w, h => by
    simp only [schemaWire] at h
    obtain ⟨w', hw', _⟩ := map_some' h
    simp [hasRecursion, schemaWire_noRec t w' hw']
  | .option t, w, h => by
    simp only [schemaWire] at h
    obtain ⟨w', hw', _⟩ := map_some' h
    simp [hasRecursion, schemaWire_noRec t w' hw']
  | .slice t, w, h => by
    simp only [schemaWire] at h
    obtain ⟨w', hw', _⟩ := map_some' h
    simp [hasRecursion, schemaWire_noRec t w' hw']
  | .boxed t, w, h => by simp only [schemaWire] at h; simp [hasRecursion, schemaWire_noRec t w h]
  | .reference t, w, h => by simp only [schemaWire] at h; simp [hasRecursion, schemaWire_noRec t w h]
  | .recursion _, _, h => by simp [schemaWire] at h
  | .prim _, _, _ => rfl | .undefined, _, _ => rfl | .zeroSize, _, _ => rfl | .custom _, _, _ => rfl
  | .str, _, _ => rfl | .trait _ _, _, _ => rfl | .fnClosure _ _, _, _ => rfl | .stdIoError, _, _ => rfl
  | .future _ _ _ _, _, _ => rfl | .uninitSlice, _, _ => rfl | .utcTimestamp, _, _ => rfl
theorem schemaWireF_noRec : ∀ (fs : SFieldL) (ws : WL), schemaWireF fs = some ws → hasRecursionF fs = false
  | .nil, _, _ => rfl
  | .cons _ t _ rest, ws, h => by
    simp only [schemaWireF] at h
    cases h1 : schemaWire t with
    | none => simp [h1, optMap2] at h
    | some w1 =>
      cases h2 : schemaWireF rest with
      | none => simp [h1, h2, optMap2] at h
      | some w2 => simp [hasRecursionF, schemaWire_noRec t w1 h1, schemaWireF_noRec rest w2 h2]
theorem schemaWireV_noRec : ∀ (vs : SVariantL) (i : Nat) (ws : WL), schemaWireV vs i = some ws → hasRecursionV vs = false
  | .nil, _, _, _ => rfl
  | .cons _ d fs rest, i, ws, h => by
    simp only [schemaWireV] at h
    split at h
    · cases h1 : schemaWireF fs with
      | none => simp [h1, optMap2] at h
      | some w1 =>
        cases h2 : schemaWireV rest (i + 1) with
        | none => simp [h1, h2, optMap2] at h
        | some w2 => simp [hasRecursionV, schemaWireF_noRec fs w1 h1, schemaWireV_noRec rest (i+1) w2 h2]
    · cases h
end

end Sfv
