import Sfv.Lemmas.Mono
namespace Sfv

/-! ### Malformed input: which failures are reachable -/

mutual
/- no value of this grammar has an invalid bit pattern: safe to reinterpret raw bytes as it -/
def nicheFree : W → Bool
  | .fixed _ => true
  | .prod ts => nicheFreeL ts
  | .rep _ _ t => nicheFree t
  | _ => false
def nicheFreeL : WL → Bool
  | .nil => true
  | .cons t ts => nicheFree t && nicheFreeL ts
end

mutual
/- every bulk-read element type is niche free -/
def safeBulk : W → Bool
  | .seq m t => safeBulk t && (m.bulk.isNone || nicheFree t)
  | .opt t => safeBulk t
  | .res a b => safeBulk a && safeBulk b
  | .prod ts => safeBulkL ts
  | .rep _ bulk t => safeBulk t && (bulk.isNone || nicheFree t)
  | .tagged _ alts => safeBulkL alts
  | _ => true
def safeBulkL : WL → Bool
  | .nil => true
  | .cons t ts => safeBulk t && safeBulkL ts
end

def Fail.isErr : Fail → Bool
  | .err _ => true
  | _ => false

def Cfg.repaired (cfg : Cfg) : Bool := !cfg.quirkMulOverflow && !cfg.quirkSysTimePanic

theorem repeatDec_fail {f : Bytes → DecR V} {P : Fail → Prop}
    (hf : ∀ bs e, f bs = .error e → P e) :
    ∀ (n : Nat) (bs : Bytes) (e : Fail), repeatDec f n bs = .error e → P e
  | 0, bs, e, h => by simp [repeatDec] at h
  | n+1, bs, e, h => by
    simp only [repeatDec] at h
    cases hq : f bs with
    | error e' => simp only [hq, Except.error.injEq] at h; subst h; exact hf bs e' hq
    | ok x =>
      obtain ⟨v, r1⟩ := x
      simp only [hq] at h
      cases hq2 : repeatDec f n r1 with
      | error e' => simp only [hq2, Except.error.injEq] at h; subst h; exact repeatDec_fail hf n r1 e' hq2
      | ok y => simp [hq2] at h

theorem readLE_fail {k : Nat} {bs : Bytes} {e : Fail} (h : readLE k bs = .error e) : e = .err .eof := by
  unfold readLE at h
  split at h
  · simp at h; exact h.symm
  · cases h

/- In a repaired build no panic site is reachable, and an invalid value can only be materialised by
   reading in place (`u = true`) a grammar that has invalid bit patterns. -/
mutual
theorem dec_safe (cfg : Cfg) (hc : cfg.repaired = true) : ∀ (w : W) (u : Bool) (bs : Bytes) (e : Fail),
    safeBulk w = true → (u = true → nicheFree w = true) → dec cfg u w bs = .error e → e.isErr = true
  | .fixed k, u, bs, e, _, _, h => by
    simp only [dec] at h
    cases hq : readLE k bs with
    | error e' => simp only [hq, Except.error.injEq] at h; subst h; rw [readLE_fail hq]; rfl
    | ok x => simp [hq] at h
  | .bool, u, bs, e, _, hn, h => by
    cases u with
    | true => simp [nicheFree] at hn
    | false =>
      simp only [dec] at h
      cases hq : readLE 1 bs with
      | error e' => simp only [hq, Except.error.injEq] at h; subst h; rw [readLE_fail hq]; rfl
      | ok x => simp [hq] at h
  | .char, u, bs, e, _, hn, h => by
    cases u with
    | true => simp [nicheFree] at hn
    | false =>
      simp only [dec] at h
      cases hq : readLE 4 bs with
      | error e' => simp only [hq, Except.error.injEq] at h; subst h; rw [readLE_fail hq]; rfl
      | ok x =>
        obtain ⟨n, r⟩ := x
        simp only [hq] at h
        split at h
        · cases h
        · simp at h; subst h; rfl
  | .str cap, u, bs, e, _, _, h => by
    simp only [dec] at h
    cases hq : readLE 8 bs with
    | error e' => simp only [hq, Except.error.injEq] at h; subst h; rw [readLE_fail hq]; rfl
    | ok x =>
      obtain ⟨n, r⟩ := x
      simp only [hq] at h
      split at h
      · simp at h; subst h; rfl
      · split at h
        · simp at h; subst h; rfl
        · cases ht : takeN n r with
          | none => simp [ht] at h; subst h; rfl
          | some y =>
            simp only [ht] at h
            split at h
            · cases h
            · simp at h; subst h; rfl
  | .seq m t, u, bs, e, hs, hn, h => by
    cases u with
    | true => simp [nicheFree] at hn
    | false =>
    simp only [safeBulk, Bool.and_eq_true, Bool.or_eq_true] at hs
    simp only [dec] at h
    cases hq : readLE 8 bs with
    | error e' => simp only [hq, Except.error.injEq] at h; subst h; rw [readLE_fail hq]; rfl
    | ok x =>
      obtain ⟨n, r⟩ := x
      simp only [hq] at h
      split at h
      · simp at h; subst h; rfl
      · cases hb : m.bulk with
        | none =>
          simp only [hb] at h
          split at h
          · simp at h; subst h; rfl
          · cases hr : repeatDec (dec cfg false t) n r with
            | error e' =>
              simp only [hr, Except.error.injEq] at h; subst h
              exact repeatDec_fail (P := fun e => e.isErr = true)
                (fun bs e hh => dec_safe cfg hc t false bs e hs.1 (by simp) hh) n r e' hr
            | ok y => simp [hr] at h
        | some pr =>
          obtain ⟨esz, al⟩ := pr
          have hnf : nicheFree t = true := by
            rcases hs.2 with h2 | h2
            · simp [hb] at h2
            · exact h2
          simp only [hb] at h
          split at h
          · cases h
          · split at h
            · have : cfg.quirkMulOverflow = false := by
                simp [Cfg.repaired] at hc; exact hc.1
              simp [this] at h; subst h; rfl
            · split at h
              · simp at h; subst h; rfl
              · split at h
                · simp at h; subst h; rfl
                · cases hr : repeatDec (dec cfg true t) n r with
                  | error e' =>
                    simp only [hr, Except.error.injEq] at h; subst h
                    exact repeatDec_fail (P := fun e => e.isErr = true)
                      (fun bs e hh => dec_safe cfg hc t true bs e hs.1 (fun _ => hnf) hh) n r e' hr
                  | ok y => simp [hr] at h
  | .opt t, u, bs, e, hs, hn, h => by
    cases u with
    | true => simp [nicheFree] at hn
    | false =>
    simp only [safeBulk] at hs
    simp only [dec] at h
    cases hq : readLE 1 bs with
    | error e' => simp only [hq, Except.error.injEq] at h; subst h; rw [readLE_fail hq]; rfl
    | ok x =>
      obtain ⟨n, r⟩ := x
      simp only [hq] at h
      split at h
      · cases hd : dec cfg false t r with
        | error e' =>
          simp only [hd, Except.error.injEq] at h; subst h
          exact dec_safe cfg hc t false r e' hs (by simp) hd
        | ok y => simp [hd] at h
      · cases h
  | .res a b, u, bs, e, hs, hn, h => by
    cases u with
    | true => simp [nicheFree] at hn
    | false =>
    simp only [safeBulk, Bool.and_eq_true] at hs
    simp only [dec] at h
    cases hq : readLE 1 bs with
    | error e' => simp only [hq, Except.error.injEq] at h; subst h; rw [readLE_fail hq]; rfl
    | ok x =>
      obtain ⟨n, r⟩ := x
      simp only [hq] at h
      split at h
      · cases hd : dec cfg false a r with
        | error e' =>
          simp only [hd, Except.error.injEq] at h; subst h
          exact dec_safe cfg hc a false r e' hs.1 (by simp) hd
        | ok y => simp [hd] at h
      · cases hd : dec cfg false b r with
        | error e' =>
          simp only [hd, Except.error.injEq] at h; subst h
          exact dec_safe cfg hc b false r e' hs.2 (by simp) hd
        | ok y => simp [hd] at h
  | .prod ts, u, bs, e, hs, hn, h => by
    simp only [safeBulk] at hs
    simp only [dec] at h
    cases hd : decProd cfg u ts bs with
    | error e' =>
      simp only [hd, Except.error.injEq] at h; subst h
      exact decProd_safe cfg hc ts u bs e' hs (fun hu => by have := hn hu; simpa [nicheFree] using this) hd
    | ok y => simp [hd] at h
  | .rep n bulk t, u, bs, e, hs, hn, h => by
    simp only [safeBulk, Bool.and_eq_true, Bool.or_eq_true] at hs
    cases bulk with
    | none =>
      simp only [dec] at h
      cases hr : repeatDec (dec cfg u t) n bs with
      | error e' =>
        simp only [hr, Except.error.injEq] at h; subst h
        exact repeatDec_fail (P := fun e => e.isErr = true)
          (fun bs e hh => dec_safe cfg hc t u bs e hs.1 (fun hu => by have := hn hu; simpa [nicheFree] using this) hh) n bs e' hr
      | ok y => simp [hr] at h
    | some esz =>
      have hnf : nicheFree t = true := by
        rcases hs.2 with h2 | h2
        · simp at h2
        · exact h2
      simp only [dec] at h
      split at h
      · simp at h; subst h; rfl
      · cases hr : repeatDec (dec cfg true t) n bs with
        | error e' =>
          simp only [hr, Except.error.injEq] at h; subst h
          exact repeatDec_fail (P := fun e => e.isErr = true)
            (fun bs e hh => dec_safe cfg hc t true bs e hs.1 (fun _ => hnf) hh) n bs e' hr
        | ok y => simp [hr] at h
  | .tagged w alts, u, bs, e, hs, hn, h => by
    cases u with
    | true => simp [nicheFree] at hn
    | false =>
    simp only [safeBulk] at hs
    simp only [dec] at h
    cases hq : readLE w bs with
    | error e' => simp only [hq, Except.error.injEq] at h; subst h; rw [readLE_fail hq]; rfl
    | ok x =>
      obtain ⟨i, r⟩ := x
      simp only [hq] at h
      cases hd : decAlt cfg false alts i r with
      | error e' =>
        simp only [hd, Except.error.injEq] at h; subst h
        exact decAlt_safe cfg hc alts i r e' hs hd
      | ok y => simp [hd] at h
  | .canary, u, bs, e, _, hn, h => by
    simp only [dec] at h
    cases hq : readLE 4 bs with
    | error e' => simp only [hq, Except.error.injEq] at h; subst h; rw [readLE_fail hq]; rfl
    | ok x =>
      obtain ⟨n, r⟩ := x
      simp only [hq] at h
      split at h
      · cases h
      · simp at h; subst h; rfl
  | .sysTime, u, bs, e, _, _, h => by
    simp only [dec] at h
    cases hq : readLE 16 bs with
    | error e' => simp only [hq, Except.error.injEq] at h; subst h; rw [readLE_fail hq]; rfl
    | ok x =>
      obtain ⟨n, r⟩ := x
      simp only [hq] at h
      cases hcn : sysTimeCanon n with
      | some c => simp [hcn] at h
      | none =>
        have : cfg.quirkSysTimePanic = false := by
          simp [Cfg.repaired] at hc; exact hc.2
        simp [hcn, this] at h; subst h; rfl
theorem decProd_safe (cfg : Cfg) (hc : cfg.repaired = true) : ∀ (ts : WL) (u : Bool) (bs : Bytes) (e : Fail),
    safeBulkL ts = true → (u = true → nicheFreeL ts = true) → decProd cfg u ts bs = .error e → e.isErr = true
  | .nil, u, bs, e, _, _, h => by simp [decProd] at h
  | .cons t ts, u, bs, e, hs, hn, h => by
    simp only [safeBulkL, Bool.and_eq_true] at hs
    simp only [decProd] at h
    cases hd : dec cfg u t bs with
    | error e' =>
      simp only [hd, Except.error.injEq] at h; subst h
      exact dec_safe cfg hc t u bs e' hs.1 (fun hu => by have := hn hu; simp [nicheFreeL] at this; exact this.1) hd
    | ok y =>
      obtain ⟨v, r⟩ := y
      simp only [hd] at h
      cases hd2 : decProd cfg u ts r with
      | error e' =>
        simp only [hd2, Except.error.injEq] at h; subst h
        exact decProd_safe cfg hc ts u r e' hs.2 (fun hu => by have := hn hu; simp [nicheFreeL] at this; exact this.2) hd2
      | ok z => simp [hd2] at h
theorem decAlt_safe (cfg : Cfg) (hc : cfg.repaired = true) : ∀ (alts : WL) (i : Nat) (bs : Bytes) (e : Fail),
    safeBulkL alts = true → decAlt cfg false alts i bs = .error e → e.isErr = true
  | .nil, i, bs, e, _, h => by simp [decAlt] at h; subst h; rfl
  | .cons t _, 0, bs, e, hs, h => by
    simp only [safeBulkL, Bool.and_eq_true] at hs
    simp only [decAlt] at h
    exact dec_safe cfg hc t false bs e hs.1 (by simp) h
  | .cons _ ts, i+1, bs, e, hs, h => by
    simp only [safeBulkL, Bool.and_eq_true] at hs
    simp only [decAlt] at h
    exact decAlt_safe cfg hc ts i bs e hs.2 h
end

end Sfv
