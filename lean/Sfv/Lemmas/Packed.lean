import Sfv.Model.Layout
import Sfv.Lemmas.RoundTrip
namespace Sfv

/-! ### Offset chains partition memory -/

def SlicesOK (mem : Bytes) : List (Nat × Nat) → List Bytes → Prop
  | [], [] => True
  | (o, s) :: rest, img :: imgs => slice mem o s = img ∧ SlicesOK mem rest imgs
  | _, _ => False

theorem chain_go_drop (mem : Bytes) (size : Nat) (hlen : mem.length = size) :
    ∀ (rest : List (Nat × Nat)) (imgs : List Bytes) (o s : Nat) (img : Bytes),
      chainOk.go size o s rest = true → slice mem o s = img →
      SlicesOK mem rest imgs → mem.drop o = img ++ imgs.flatten
  | [], imgs, o, s, img, hgo, hsl, hok => by
    cases imgs with
    | nil =>
      simp only [chainOk.go, decide_eq_true_eq] at hgo
      simp only [List.flatten_nil, List.append_nil]
      unfold slice at hsl
      have : (mem.drop o).length ≤ s := by simp [List.length_drop]; omega
      rw [List.take_of_length_le this] at hsl
      exact hsl
    | cons _ _ => simp [SlicesOK] at hok
  | (o', s') :: rest, imgs, o, s, img, hgo, hsl, hok => by
    cases imgs with
    | nil => simp [SlicesOK] at hok
    | cons img' imgs' =>
      simp only [chainOk.go, Bool.and_eq_true, decide_eq_true_eq] at hgo
      obtain ⟨hadj, hgo'⟩ := hgo
      simp only [SlicesOK] at hok
      obtain ⟨hsl', hok'⟩ := hok
      have ih := chain_go_drop mem size hlen rest imgs' o' s' img' hgo' hsl' hok'
      have h1 : mem.drop o = (mem.drop o).take s ++ (mem.drop o).drop s := (List.take_append_drop s _).symm
      rw [h1]
      unfold slice at hsl
      rw [hsl, List.drop_drop]
      have : o + s = o' := hadj
      rw [this, ih]
      simp

theorem chain_concat (mem : Bytes) (size : Nat) (hlen : mem.length = size)
    (spans : List (Nat × Nat)) (imgs : List Bytes) (hne : spans ≠ [])
    (hc : chainOk size spans = true) (hok : SlicesOK mem spans imgs) : mem = imgs.flatten := by
  cases spans with
  | nil => exact absurd rfl hne
  | cons p rest =>
    obtain ⟨o, s⟩ := p
    cases imgs with
    | nil => simp [SlicesOK] at hok
    | cons img imgs' =>
      simp only [chainOk, Bool.and_eq_true, decide_eq_true_eq] at hc
      obtain ⟨ho, hgo⟩ := hc
      simp only [SlicesOK] at hok
      obtain ⟨hsl, hok'⟩ := hok
      have := chain_go_drop mem size hlen rest imgs' o s img hgo hsl hok'
      subst ho
      simpa using this

/-- enum variant: fields start right after the tag -/
theorem chain_concat_from (mem : Bytes) (size tagw : Nat) (hlen : mem.length = size)
    (o s : Nat) (rest : List (Nat × Nat)) (img : Bytes) (imgs : List Bytes)
    (ho : o = tagw) (hgo : chainOk.go size o s rest = true)
    (hsl : slice mem o s = img) (hok : SlicesOK mem rest imgs) :
    mem = slice mem 0 tagw ++ (img :: imgs).flatten := by
  have := chain_go_drop mem size hlen rest imgs o s img hgo hsl hok
  subst ho
  have h1 : mem = mem.take o ++ mem.drop o := (List.take_append_drop o mem).symm
  rw [this] at h1
  simp only [slice, List.drop_zero, List.flatten_cons]
  exact h1

end Sfv
