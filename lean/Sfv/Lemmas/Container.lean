import Sfv.Model.Container
import Sfv.Lemmas.Consume
namespace Sfv

theorem magic_length : magic.length = 9 := rfl

theorem decHeader_encHeader (h : Header) (memVer : Nat) (r : Bytes)
    (hl : h.lib ≤ currentLibVersion) (hv : h.ver ≤ memVer) (hv32 : h.ver < 2^32) :
    decHeader memVer (encHeader h ++ r) = .ok (h, r) := by
  have hlib : h.lib < 256 ^ 2 := by simp [currentLibVersion] at hl; omega
  have hver : h.ver < 256 ^ 4 := by
    have : (256:Nat)^4 = 2^32 := by decide
    omega
  unfold decHeader encHeader
  simp only [List.append_assoc]
  rw [takeN_append 9 magic _ magic_length]
  simp only [ne_eq, not_true_eq_false, if_false]
  rw [takeN_append 2 _ _ (leBytes_length 2 h.lib)]
  simp only [ofLE_leBytes 2 h.lib hlib]
  have : ¬ (h.lib > currentLibVersion) := by omega
  simp only [this, if_false]
  rw [takeN_append 4 _ _ (leBytes_length 4 h.ver)]
  simp only [ofLE_leBytes 4 h.ver hver]
  have : ¬ (h.ver > memVer) := by omega
  simp only [this, if_false]
  cases h with
  | mk lib ver c => cases c <;> simp


theorem decHeader_mono (memVer : Nat) (p s : Bytes) (h : Header) (r : Bytes)
    (hd : decHeader memVer p = .ok (h, r)) : decHeader memVer (p ++ s) = .ok (h, r ++ s) := by
  unfold decHeader at hd ⊢
  cases h9 : takeN 9 p with
  | none => simp [h9] at hd
  | some x =>
    obtain ⟨m, r1⟩ := x
    simp only [h9] at hd
    rw [takeN_mono s h9]
    simp only
    split at hd
    · cases hd
    · next hm =>
      simp only [hm, if_false]
      cases h2 : takeN 2 r1 with
      | none => simp [h2] at hd
      | some y =>
        obtain ⟨l, r2⟩ := y
        simp only [h2] at hd
        rw [takeN_mono s h2]
        simp only
        split at hd
        · cases hd
        · next hl =>
          simp only [hl, if_false]
          cases h4 : takeN 4 r2 with
          | none => simp [h4] at hd
          | some z =>
            obtain ⟨v, r3⟩ := z
            simp only [h4] at hd
            rw [takeN_mono s h4]
            simp only
            split at hd
            · cases hd
            · next hv =>
              simp only [hv, if_false]
              cases r3 with
              | nil => simp at hd
              | cons c r4 =>
                simp only [Except.ok.injEq, Prod.mk.injEq] at hd
                obtain ⟨hh, hr⟩ := hd; subst hh; subst hr
                simp

theorem load_mono (cfg : Cfg) (env : UserFns) (T : Ty) (v : Nat) (p s : Bytes) (x : V) (r : Bytes)
    (h : load cfg env T v p = .ok (x, r)) : load cfg env T v (p ++ s) = .ok (x, r ++ s) := by
  unfold load at h ⊢
  cases hd : dec cfg false (wireOf T v) p with
  | error e => simp [hd] at h
  | ok y =>
    obtain ⟨wv, r1⟩ := y
    simp only [hd, Except.ok.injEq, Prod.mk.injEq] at h
    obtain ⟨hx, hr⟩ := h; subst hx; subst hr
    rw [dec_mono cfg s (wireOf T v) false p wv r1 hd]

/-- the loader's result does not depend on what follows the bytes it consumed, provided the schema
    section reader has the same property -/
theorem loadFile_mono {S} (cfg : Cfg) (env : UserFns) (sc : SchemaCodec S) (expected : Option (Nat → S))
    (T : Ty) (memVer : Nat) (p s : Bytes) (x : V) (r : Bytes)
    (hsc : ∀ lib bs sch r', sc.decS lib bs = .ok (sch, r') → sc.decS lib (bs ++ s) = .ok (sch, r' ++ s))
    (h : loadFile cfg env sc expected T memVer p = .ok (x, r)) :
    loadFile cfg env sc expected T memVer (p ++ s) = .ok (x, r ++ s) := by
  unfold loadFile at h ⊢
  cases hh : decHeader memVer p with
  | error e => simp [hh] at h
  | ok y =>
    obtain ⟨hd, r1⟩ := y
    simp only [hh] at h
    rw [decHeader_mono memVer p s hd r1 hh]
    simp only
    split at h
    · cases h
    · next hc =>
      simp only [hc, if_false]
      cases expected with
      | none =>
        simp only at h ⊢
        cases hl : load cfg env T hd.ver r1 with
        | error e => simp [hl] at h
        | ok z =>
          obtain ⟨x1, r2⟩ := z
          simp only [hl, Except.ok.injEq, Prod.mk.injEq] at h
          obtain ⟨hx, hr⟩ := h; subst hx; subst hr
          rw [load_mono cfg env T hd.ver r1 s x1 r2 hl]
          simp
      | some exp =>
        simp only at h ⊢
        cases hs : sc.decS hd.lib r1 with
        | error e => simp [hs] at h
        | ok z =>
          obtain ⟨sch, r2⟩ := z
          simp only [hs] at h
          rw [hsc hd.lib r1 sch r2 hs]
          simp only
          split at h
          · next hcomp =>
            simp only [hcomp, if_true]
            cases hl : load cfg env T hd.ver r2 with
            | error e => simp [hl] at h
            | ok q =>
              obtain ⟨x1, r3⟩ := q
              simp only [hl, Except.ok.injEq, Prod.mk.injEq] at h
              obtain ⟨hx, hr⟩ := h; subst hx; subst hr
              rw [load_mono cfg env T hd.ver r2 s x1 r3 hl]
              simp
          · cases h

end Sfv
