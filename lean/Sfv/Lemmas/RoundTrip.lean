import Sfv.Lemmas.Wire
namespace Sfv

theorem bool_toNat {n : Nat} (h : n < 2) : (UInt8.ofNat n).toNat = n := by
  have : n = 0 ∨ n = 1 := by omega
  rcases this with rfl | rfl <;> rfl

/- Round trip with remainder: decoding what `enc` produced, followed by anything, yields the
   value and leaves exactly the remainder — in both the checked and the in-place (bulk) mode. -/
mutual
theorem rt (cfg : Cfg) : ∀ (w : W) (v : V) (u : Bool) (bs r : Bytes),
    enc w v = some bs → wfW w = true → lim cfg w v = true → dec cfg u w (bs ++ r) = .ok (v, r)
  | .fixed k, v, u, bs, r, h, _, _ => by
    cases v with
    | num n =>
      simp only [enc] at h
      split at h
      · next hn => cases h; simp [dec, readLE_leBytes k n r hn]
      · cases h
    | _ => simp [enc] at h
  | .bool, v, u, bs, r, h, _, _ => by
    cases v with
    | num n =>
      simp only [enc] at h
      split at h
      · next hn =>
        cases h
        have hb := bool_toNat hn
        have : n = 0 ∨ n = 1 := by omega
        cases u <;> rcases this with rfl | rfl <;> simp [dec, readLE, takeN, ofLE]
      · cases h
    | _ => simp [enc] at h
  | .char, v, u, bs, r, h, _, _ => by
    cases v with
    | num n =>
      simp only [enc] at h
      split at h
      · next hn => cases h; simp [dec, readLE_leBytes 4 n r (validChar_lt hn), hn]
      · cases h
    | _ => simp [enc] at h
  | .str cap, v, u, bs, r, h, _, hl => by
    cases v with
    | bytes b =>
      simp only [enc] at h
      split at h
      · next hc =>
        cases h
        simp only [Bool.and_eq_true, decide_eq_true_eq, Bool.not_eq_true'] at hc
        obtain ⟨⟨hv, hlen⟩, h1⟩ := hc
        have hlen' : b.length < 256 ^ 8 := by
          have : (256:Nat)^8 = 2^64 := by decide
          omega
        simp only [lim] at hl
        simp only [dec, List.append_assoc, readLE_leBytes 8 _ _ hlen']
        have h2 : (cfg.sanity && cap.isNone && decide (b.length > 1000000)) = false := by
          cases hs : (cfg.sanity && cap.isNone) with
          | false => simp
          | true => simp [hs] at hl; simp; omega
        simp [h1, h2, takeN_append _ _ _ rfl, hv]
      · cases h
    | _ => simp [enc] at h
  | .seq m t, v, u, bs, r, h, hw, hl => by
    cases v with
    | seq l =>
      simp only [enc] at h
      split at h
      · next hc =>
        simp only [Bool.and_eq_true, decide_eq_true_eq, Bool.not_eq_true'] at hc
        obtain ⟨hlen, h1⟩ := hc
        obtain ⟨a, ha, rfl⟩ := map_some' h
        have hlen' : l.length < 256 ^ 8 := by
          have : (256:Nat)^8 = 2^64 := by decide
          omega
        simp only [wfW, Bool.and_eq_true] at hw
        simp only [lim, Bool.and_eq_true] at hl
        simp only [dec, List.append_assoc, readLE_leBytes 8 _ _ hlen', h1]
        cases hb : m.bulk with
        | none =>
          simp only [hb] at hl
          have h2 : (cfg.sanity && m.limit && decide (l.length > 1000000)) = false := by
            cases hs : (cfg.sanity && m.limit) with
            | false => simp
            | true => have := hl.2; simp [hs] at this; simp; omega
          have := rtAll cfg t l u a r ha hw.1 hl.1
          simp [h2, this]
        | some p =>
          obtain ⟨esz, al⟩ := p
          simp only [hb] at hl hw
          simp only [Bool.and_eq_true, beq_iff_eq, decide_eq_true_eq] at hw
          have hsz := encAll_size t l a esz ha hw.2.1
          by_cases hz : l.length = 0
          · have : l = .nil := by cases l with | nil => rfl | cons _ _ => simp [VL.length] at hz
            subst this
            simp only [encAll] at ha; cases ha
            simp [VL.length]
          · have := rtAll cfg t l true a r ha hw.1 hl.1
            have hfit : ¬ (a.length + r.length < esz * l.length) := by omega
            have hl2 := hl.2
            simp only [Bool.or_eq_true, decide_eq_true_eq] at hl2
            rcases hl2 with hl2 | hl2
            · have hA : ¬ (esz * l.length ≥ 2^64) := by omega
              have hB : ¬ (esz * l.length > 2^63 - al) := by omega
              simp [hz, hA, hB, hfit, this]
            · have hne : m.cap ≠ none := by
                intro hc; simp [hc] at hl2
              simp [hz, hne, hfit, this]
      · cases h
    | _ => simp [enc] at h
  | .opt t, v, u, bs, r, h, hw, hl => by
    cases v with
    | none => simp only [enc] at h; cases h; simp [dec, readLE, takeN, ofLE]
    | some v' =>
      simp only [enc] at h
      obtain ⟨a, ha, rfl⟩ := map_some' h
      simp only [wfW] at hw
      simp only [lim] at hl
      have := rt cfg t v' u a r ha hw hl
      simp [dec, readLE, takeN, ofLE, this]
    | _ => simp [enc] at h
  | .res a b, v, u, bs, r, h, hw, hl => by
    simp only [wfW, Bool.and_eq_true] at hw
    cases v with
    | alt i v' =>
      match i, h, hl with
      | 0, h, hl =>
        simp only [enc] at h
        obtain ⟨x, hx, rfl⟩ := map_some' h
        simp only [lim] at hl
        have := rt cfg b v' u x r hx hw.2 hl
        simp [dec, readLE, takeN, ofLE, this]
      | 1, h, hl =>
        simp only [enc] at h
        obtain ⟨x, hx, rfl⟩ := map_some' h
        simp only [lim] at hl
        have := rt cfg a v' u x r hx hw.1 hl
        simp [dec, readLE, takeN, ofLE, this]
      | i+2, h, hl => simp [enc] at h
    | _ => simp [enc] at h
  | .prod ts, v, u, bs, r, h, hw, hl => by
    cases v with
    | tup l =>
      simp only [enc] at h
      simp only [wfW] at hw
      simp only [lim] at hl
      have := rtProd cfg ts l u bs r h hw hl
      simp [dec, this]
    | _ => simp [enc] at h
  | .rep n bulk t, v, u, bs, r, h, hw, hl => by
    cases v with
    | tup l =>
      simp only [enc] at h
      split at h
      · next hn =>
        subst hn
        simp only [wfW, Bool.and_eq_true] at hw
        simp only [lim] at hl
        cases bulk with
        | none =>
          have := rtAll cfg t l u bs r h hw.1 hl
          simp [dec, this]
        | some esz =>
          have hw2 := hw.2
          simp only [beq_iff_eq] at hw2
          have hsz := encAll_size t l bs esz h hw2
          have := rtAll cfg t l true bs r h hw.1 hl
          have hfit : ¬ (bs.length + r.length < esz * l.length) := by omega
          simp [dec, hfit, this]
      · cases h
    | _ => simp [enc] at h
  | .tagged w alts, v, u, bs, r, h, hw, hl => by
    cases v with
    | alt i v' =>
      simp only [enc] at h
      split at h
      · next hi =>
        obtain ⟨a, ha, rfl⟩ := map_some' h
        simp only [wfW] at hw
        simp only [lim] at hl
        have := rtAlt cfg alts i v' u a r ha hw hl
        simp [dec, List.append_assoc, readLE_leBytes w i _ hi, this]
      · cases h
    | _ => simp [enc] at h
  | .canary, v, u, bs, r, h, _, _ => by
    cases v with
    | tup l =>
      cases l with
      | nil =>
        simp only [enc] at h; cases h
        have : canaryMagic < 256 ^ 4 := by decide
        simp [dec, readLE_leBytes 4 _ r this]
      | cons _ _ => simp [enc] at h
    | _ => simp [enc] at h
  | .sysTime, v, u, bs, r, h, _, _ => by
    cases v with
    | num n =>
      simp only [enc] at h
      split at h
      · next hc =>
        cases h
        simp [dec, readLE_leBytes 16 n r hc.1, hc.2]
      · cases h
    | _ => simp [enc] at h
theorem rtAll (cfg : Cfg) : ∀ (t : W) (l : VL) (u : Bool) (bs r : Bytes),
    encAll t l = some bs → wfW t = true → limAll cfg t l = true →
    repeatDec (dec cfg u t) l.length (bs ++ r) = .ok (l, r)
  | t, .nil, u, bs, r, h, _, _ => by
    simp only [encAll] at h; cases h; simp [repeatDec, VL.length]
  | t, .cons v vs, u, bs, r, h, hw, hl => by
    simp only [encAll] at h
    obtain ⟨a, b, ha, hb, rfl⟩ := cat2_some h
    simp only [limAll, Bool.and_eq_true] at hl
    have h1 := rt cfg t v u a (b ++ r) ha hw hl.1
    have h2 := rtAll cfg t vs u b r hb hw hl.2
    simp [repeatDec, VL.length, List.append_assoc, h1, h2]
theorem rtProd (cfg : Cfg) : ∀ (ts : WL) (l : VL) (u : Bool) (bs r : Bytes),
    encProd ts l = some bs → wfWL ts = true → limProd cfg ts l = true →
    decProd cfg u ts (bs ++ r) = .ok (l, r)
  | .nil, .nil, u, bs, r, h, _, _ => by
    simp only [encProd] at h; cases h; simp [decProd]
  | .cons t ts, .cons v vs, u, bs, r, h, hw, hl => by
    simp only [encProd] at h
    obtain ⟨a, b, ha, hb, rfl⟩ := cat2_some h
    simp only [wfWL, Bool.and_eq_true] at hw
    simp only [limProd, Bool.and_eq_true] at hl
    have h1 := rt cfg t v u a (b ++ r) ha hw.1 hl.1
    have h2 := rtProd cfg ts vs u b r hb hw.2 hl.2
    simp [decProd, List.append_assoc, h1, h2]
  | .nil, .cons _ _, _, _, _, h, _, _ | .cons _ _, .nil, _, _, _, h, _, _ => by simp [encProd] at h
theorem rtAlt (cfg : Cfg) : ∀ (alts : WL) (i : Nat) (v : V) (u : Bool) (bs r : Bytes),
    encAlt alts i v = some bs → wfWL alts = true → limAlt cfg alts i v = true →
    decAlt cfg u alts i (bs ++ r) = .ok (v, r)
  | .nil, _, _, _, _, _, h, _, _ => by simp [encAlt] at h
  | .cons t _, 0, v, u, bs, r, h, hw, hl => by
    simp only [encAlt] at h
    simp only [wfWL, Bool.and_eq_true] at hw
    simp only [limAlt] at hl
    simp [decAlt, rt cfg t v u bs r h hw.1 hl]
  | .cons _ ts, i+1, v, u, bs, r, h, hw, hl => by
    simp only [encAlt] at h
    simp only [wfWL, Bool.and_eq_true] at hw
    simp only [limAlt] at hl
    simp [decAlt, rtAlt cfg ts i v u bs r h hw.2 hl]
end

end Sfv
