import Sfv.Model.SchemaWf
import Sfv.Lemmas.Bytes
namespace Sfv

/-! ### primitive reader/writer pairs of the schema formats -/

theorem u8_toNat (n : Nat) (h : n < 256) : (u8 n).toNat = n := by
  simp [u8, UInt8.toNat_ofNat', Nat.mod_eq_of_lt h]

theorem readLE1_cons (b : UInt8) (r : Bytes) : readLE 1 (b :: r) = .ok (b.toNat, r) := by
  simp [readLE, takeN, ofLE]

theorem readStr_enc (cfg : Cfg) (b r : Bytes) (h : wfName cfg b = true) :
    readStr cfg (encStr b ++ r) = .ok (b, r) := by
  simp only [wfName, Bool.and_eq_true, decide_eq_true_eq, Bool.or_eq_true, Bool.not_eq_true'] at h
  obtain ⟨⟨hv, hl⟩, hs⟩ := h
  have hl' : b.length < 256 ^ 8 := by
    have : (256:Nat)^8 = 2^64 := by decide
    omega
  unfold readStr encStr
  rw [List.append_assoc, readLE_leBytes 8 _ _ hl']
  have h2 : (cfg.sanity && decide (b.length > 1000000)) = false := by
    rcases hs with hs | hs
    · simp [hs]
    · simp; intro _; omega
  simp [h2, takeN_append _ _ _ rfl, hv]

theorem readOptNat_enc (o : Option Nat) (r : Bytes) (h : wfOpt o = true) :
    readOptNat (encOptNat o ++ r) = .ok (o, r) := by
  cases o with
  | none => simp [readOptNat, encOptNat, readLE1_cons]
  | some n =>
    simp only [wfOpt, decide_eq_true_eq] at h
    have hn : n < 256 ^ 8 := by
      have : (256:Nat)^8 = 2^64 := by decide
      omega
    simp [readOptNat, encOptNat, readLE1_cons, readLE_leBytes 8 n r hn]

theorem readBool_enc (b : Bool) (r : Bytes) : readBool (encBool b ++ r) = .ok (b, r) := by
  cases b <;> simp [readBool, encBool, readLE1_cons]

theorem ofCode_code (l : VLayout) : VLayout.ofCode (u8 l.code).toNat = l := by
  cases l <;> simp [VLayout.code, VLayout.ofCode, u8]

theorem readLE8_count (n : Nat) (r : Bytes) (h : n < 2^64) : readLE 8 (leBytes 8 n ++ r) = .ok (n, r) := by
  have hn : n < 256 ^ 8 := by
    have : (256:Nat)^8 = 2^64 := by decide
    omega
  exact readLE_leBytes 8 n r hn

/-! ### trait names -/

theorem splitPlus_noPlus : ∀ (name rest : Bytes), noPlus name = true →
    splitPlus (name ++ rest) = (name ++ (splitPlus rest).1, (splitPlus rest).2)
  | [], rest, _ => by simp
  | c :: cs, rest, h => by
    simp only [noPlus, List.all_cons, Bool.and_eq_true, bne_iff_ne, ne_eq] at h
    have ih := splitPlus_noPlus cs rest (by simpa [noPlus] using h.2)
    simp only [List.cons_append, splitPlus, ih]
    simp [h.1]

theorem parseTraitName_effective (name : Bytes) (sync send : Bool) (h : noPlus name = true) :
    parseTraitName (effectiveName name sync send) = some (name, sync, send) := by
  unfold parseTraitName effectiveName
  rw [List.append_assoc, splitPlus_noPlus name _ h]
  cases sync <;> cases send <;> simp [plusSync, plusSend, splitPlus]


theorem wfCount_lt {cfg : Cfg} {n : Nat} (h : wfCount cfg n = true) : n < 2^64 := by
  simp [wfCount] at h; exact h.1

theorem wfCount_sane {cfg : Cfg} {n : Nat} (h : wfCount cfg n = true) :
    (cfg.sanity && decide (n > 1000000)) = false := by
  simp only [wfCount, Bool.and_eq_true, decide_eq_true_eq, Bool.or_eq_true, Bool.not_eq_true'] at h
  rcases h.2 with hs | hs
  · simp [hs]
  · simp; intro _; omega

/- Round trip of schema values through library format version `v`: reading what was written (followed
   by anything) returns the schema in the normal form of that format and leaves exactly the remainder. -/
mutual
theorem schema_rt (cfg : Cfg) (v : Nat) : ∀ (s : Schema) (fuel : Nat) (r : Bytes),
    wfS cfg s = true → sizeS s ≤ fuel → decSchema cfg v fuel (encSchema v s ++ r) = .ok (normS v s, r)
  | .struct name size align fs, fuel, r, hw, hf => by
    cases fuel with
    | zero => simp [sizeS] at hf
    | succ f =>
      simp only [wfS, Bool.and_eq_true, decide_eq_true_eq] at hw
      obtain ⟨⟨⟨⟨hn, hs⟩, ha⟩, hl⟩, hfs⟩ := hw
      simp only [sizeS] at hf
      have ih := fields_rt cfg v fs f r hfs (by omega)
      by_cases hv : v > 0
      · simp [encSchema, decSchema, readLE1_cons, List.append_assoc, readStr_enc cfg name _ hn,
          readLE8_count _ _ hl, hv, readOptNat_enc _ _ hs, readOptNat_enc _ _ ha, ih, normS]
      · simp [encSchema, decSchema, readLE1_cons, List.append_assoc, readStr_enc cfg name _ hn,
          readLE8_count _ _ hl, hv, ih, normS]
  | .enum name vs dsize expl size align, fuel, r, hw, hf => by
    cases fuel with
    | zero => simp [sizeS] at hf
    | succ f =>
      simp only [wfS, Bool.and_eq_true, decide_eq_true_eq] at hw
      obtain ⟨⟨⟨⟨⟨hn, hl⟩, hd⟩, hs⟩, ha⟩, hvs⟩ := hw
      simp only [sizeS] at hf
      by_cases hv : v > 0
      · have ih := variants_rt cfg v vs f (u8 dsize :: (encBool expl ++ (encOptNat size ++ (encOptNat align ++ r)))) hvs (by omega)
        simp [encSchema, decSchema, readLE1_cons, List.append_assoc, readStr_enc cfg name _ hn,
          readLE8_count _ _ hl, hv, ih, u8_toNat dsize hd, readBool_enc, readOptNat_enc _ _ hs,
          readOptNat_enc _ _ ha, normS]
      · have ih := variants_rt cfg v vs f r hvs (by omega)
        simp [encSchema, decSchema, readLE1_cons, List.append_assoc, readStr_enc cfg name _ hn,
          readLE8_count _ _ hl, hv, ih, normS]
  | .prim p, fuel, r, _, hf => by
    cases fuel with
    | zero => simp [sizeS] at hf
    | succ f =>
      cases p with
      | str l =>
        by_cases hv : v > 0
        · have hc := ofCode_code l
          simp [encSchema, decSchema, readLE1_cons, SPrim.code, u8, primOfCode, hv, normS]
          simpa [u8] using hc
        · simp [encSchema, decSchema, readLE1_cons, SPrim.code, u8, primOfCode, hv, normS]
      | _ => simp [encSchema, decSchema, readLE1_cons, SPrim.code, u8, primOfCode, normS]
  | .vector t l, fuel, r, hw, hf => by
    cases fuel with
    | zero => simp [sizeS] at hf
    | succ f =>
      simp only [wfS] at hw
      simp only [sizeS] at hf
      by_cases hv : v > 0
      · have ih := schema_rt cfg v t f (u8 l.code :: r) hw (by omega)
        have hc := ofCode_code l
        simp [encSchema, decSchema, readLE1_cons, List.append_assoc, hv, ih, normS, hc]
      · have ih := schema_rt cfg v t f r hw (by omega)
        simp [encSchema, decSchema, readLE1_cons, hv, ih, normS]
  | .array t n, fuel, r, hw, hf => by
    cases fuel with
    | zero => simp [sizeS] at hf
    | succ f =>
      simp only [wfS, Bool.and_eq_true, decide_eq_true_eq] at hw
      simp only [sizeS] at hf
      have ih := schema_rt cfg v t f r hw.2 (by omega)
      simp [encSchema, decSchema, readLE1_cons, List.append_assoc, readLE8_count _ _ hw.1, ih, normS]
  | .option t, fuel, r, hw, hf => by
    cases fuel with
    | zero => simp [sizeS] at hf
    | succ f =>
      simp only [wfS] at hw; simp only [sizeS] at hf
      have ih := schema_rt cfg v t f r hw (by omega)
      simp [encSchema, decSchema, readLE1_cons, ih, normS]
  | .undefined, fuel, r, _, hf => by
    cases fuel with
    | zero => simp [sizeS] at hf
    | succ f => simp [encSchema, decSchema, readLE1_cons, normS]
  | .zeroSize, fuel, r, _, hf => by
    cases fuel with
    | zero => simp [sizeS] at hf
    | succ f => simp [encSchema, decSchema, readLE1_cons, normS]
  | .custom s, fuel, r, hw, hf => by
    cases fuel with
    | zero => simp [sizeS] at hf
    | succ f =>
      simp only [wfS] at hw
      simp [encSchema, decSchema, readLE1_cons, readStr_enc cfg s _ hw, normS]
  | .boxed t, fuel, r, hw, hf => by
    cases fuel with
    | zero => simp [sizeS] at hf
    | succ f =>
      simp only [wfS] at hw; simp only [sizeS] at hf
      have ih := schema_rt cfg v t f r hw (by omega)
      simp [encSchema, decSchema, readLE1_cons, ih, normS]
  | .slice t, fuel, r, hw, hf => by
    cases fuel with
    | zero => simp [sizeS] at hf
    | succ f =>
      simp only [wfS] at hw; simp only [sizeS] at hf
      have ih := schema_rt cfg v t f r hw (by omega)
      simp [encSchema, decSchema, readLE1_cons, ih, normS]
  | .str, fuel, r, _, hf => by
    cases fuel with
    | zero => simp [sizeS] at hf
    | succ f => simp [encSchema, decSchema, readLE1_cons, normS]
  | .reference t, fuel, r, hw, hf => by
    cases fuel with
    | zero => simp [sizeS] at hf
    | succ f =>
      simp only [wfS] at hw; simp only [sizeS] at hf
      have ih := schema_rt cfg v t f r hw (by omega)
      simp [encSchema, decSchema, readLE1_cons, ih, normS]
  | .trait m d, fuel, r, hw, hf => by
    cases fuel with
    | zero => simp [sizeS] at hf
    | succ f =>
      simp only [wfS] at hw; simp only [sizeS] at hf
      have ih := def_rt cfg v d f r hw (by omega)
      simp [encSchema, decSchema, readLE1_cons, List.append_assoc, readBool_enc, ih, normS]
  | .fnClosure m d, fuel, r, hw, hf => by
    cases fuel with
    | zero => simp [sizeS] at hf
    | succ f =>
      simp only [wfS] at hw; simp only [sizeS] at hf
      have ih := def_rt cfg v d f r hw (by omega)
      simp [encSchema, decSchema, readLE1_cons, List.append_assoc, readBool_enc, ih, normS]
  | .recursion n, fuel, r, hw, hf => by
    cases fuel with
    | zero => simp [sizeS] at hf
    | succ f =>
      simp only [wfS, decide_eq_true_eq] at hw
      simp [encSchema, decSchema, readLE1_cons, readLE8_count _ _ hw, normS]
  | .stdIoError, fuel, r, _, hf => by
    cases fuel with
    | zero => simp [sizeS] at hf
    | succ f => simp [encSchema, decSchema, readLE1_cons, normS]
  | .future d a b c, fuel, r, hw, hf => by
    cases fuel with
    | zero => simp [sizeS] at hf
    | succ f =>
      simp only [wfS] at hw; simp only [sizeS] at hf
      have ih := def_rt cfg v d f r hw (by omega)
      cases a <;> cases b <;> cases c <;>
        simp [encSchema, decSchema, readLE1_cons, ih, normS, u8]
  | .uninitSlice, fuel, r, _, hf => by
    cases fuel with
    | zero => simp [sizeS] at hf
    | succ f => simp [encSchema, decSchema, readLE1_cons, normS]
  | .utcTimestamp, fuel, r, _, hf => by
    cases fuel with
    | zero => simp [sizeS] at hf
    | succ f => simp [encSchema, decSchema, readLE1_cons, normS]
theorem fields_rt (cfg : Cfg) (v : Nat) : ∀ (fs : SFieldL) (fuel : Nat) (r : Bytes),
    wfSF cfg fs = true → sizeSF fs ≤ fuel →
    decFields cfg v fuel fs.length (encFields v fs ++ r) = .ok (normSF v fs, r)
  | .nil, fuel, r, _, _ => by
    cases fuel <;> simp [SFieldL.length, decFields, encFields, normSF]
  | .cons name t off rest, fuel, r, hw, hf => by
    cases fuel with
    | zero => simp [sizeSF] at hf
    | succ f =>
      simp only [wfSF, Bool.and_eq_true] at hw
      obtain ⟨⟨⟨hn, ht⟩, ho⟩, hr⟩ := hw
      simp only [sizeSF] at hf
      have ihr := fields_rt cfg v rest f r hr (by omega)
      by_cases hv : v > 0
      · have iht := schema_rt cfg v t f (encOptNat off ++ (encFields v rest ++ r)) ht (by omega)
        simp [SFieldL.length, decFields, encFields, List.append_assoc, readStr_enc cfg name _ hn, iht, hv,
          readOptNat_enc _ _ ho, ihr, normSF]
      · have iht := schema_rt cfg v t f (encFields v rest ++ r) ht (by omega)
        simp [SFieldL.length, decFields, encFields, List.append_assoc, readStr_enc cfg name _ hn, iht, hv, ihr, normSF]
theorem variants_rt (cfg : Cfg) (v : Nat) : ∀ (vs : SVariantL) (fuel : Nat) (r : Bytes),
    wfSV cfg vs = true → sizeSV vs ≤ fuel →
    decVariants cfg v fuel vs.length (encVariants v vs ++ r) = .ok (normSV v vs, r)
  | .nil, fuel, r, _, _ => by
    cases fuel <;> simp [SVariantL.length, decVariants, encVariants, normSV]
  | .cons name discr fs rest, fuel, r, hw, hf => by
    cases fuel with
    | zero => simp [sizeSV] at hf
    | succ f =>
      simp only [wfSV, Bool.and_eq_true, decide_eq_true_eq] at hw
      obtain ⟨⟨⟨⟨hn, hd⟩, hl⟩, hfs⟩, hr⟩ := hw
      simp only [sizeSV] at hf
      have ihf := fields_rt cfg v fs f (encVariants v rest ++ r) hfs (by omega)
      have ihr := variants_rt cfg v rest f r hr (by omega)
      simp [SVariantL.length, decVariants, encVariants, List.append_assoc, readStr_enc cfg name _ hn, readLE1_cons,
        u8_toNat discr hd, readLE8_count _ _ hl, ihf, ihr, normSV]
theorem def_rt (cfg : Cfg) (v : Nat) : ∀ (d : TraitDef) (fuel : Nat) (r : Bytes),
    wfD cfg d = true → sizeD d ≤ fuel → decDef cfg v fuel (encDef v d ++ r) = .ok (normD v d, r)
  | .mk name ms sync send, fuel, r, hw, hf => by
    cases fuel with
    | zero => simp [sizeD] at hf
    | succ f =>
      simp only [wfD, Bool.and_eq_true] at hw
      obtain ⟨⟨⟨hp, hn⟩, hc⟩, hms⟩ := hw
      simp only [sizeD] at hf
      have ih := methods_rt cfg v ms f r hms (by omega)
      simp [decDef, encDef, List.append_assoc, readStr_enc cfg _ _ hn, parseTraitName_effective name sync send hp,
        readLE8_count _ _ (wfCount_lt hc), wfCount_sane hc, ih, normD]
theorem methods_rt (cfg : Cfg) (v : Nat) : ∀ (ms : MethodL) (fuel : Nat) (r : Bytes),
    wfM cfg ms = true → sizeM ms ≤ fuel →
    decMethods cfg v fuel ms.length (encMethods v ms ++ r) = .ok (normM v ms, r)
  | .nil, fuel, r, _, _ => by
    cases fuel <;> simp [MethodL.length, decMethods, encMethods, normM]
  | .cons name ret recv isAsync args rest, fuel, r, hw, hf => by
    cases fuel with
    | zero => simp [sizeM] at hf
    | succ f =>
      simp only [wfM, Bool.and_eq_true] at hw
      obtain ⟨⟨⟨⟨⟨hn, hret⟩, hrc⟩, hc⟩, hargs⟩, hr⟩ := hw
      simp only [sizeM] at hf
      have iha := schemaL_rt cfg v args f (encMethods v rest ++ r) hargs (by omega)
      have ihr := methods_rt cfg v rest f r hr (by omega)
      have hrc256 : recv < 256 := by
        simp [receiverOk] at hrc; omega
      by_cases hv : v ≥ 2
      · have ihret := schema_rt cfg v ret f (u8 recv :: (encBool isAsync ++ (leBytes 8 args.length ++ (encSchemaL v args ++ (encMethods v rest ++ r))))) hret (by omega)
        simp [MethodL.length, decMethods, encMethods, List.append_assoc, readStr_enc cfg name _ hn, ihret, hv,
          readLE1_cons, u8_toNat recv hrc256, hrc, readBool_enc, readLE8_count _ _ (wfCount_lt hc), wfCount_sane hc,
          iha, ihr, normM]
      · have ihret := schema_rt cfg v ret f (leBytes 8 args.length ++ (encSchemaL v args ++ (encMethods v rest ++ r))) hret (by omega)
        simp [MethodL.length, decMethods, encMethods, List.append_assoc, readStr_enc cfg name _ hn, ihret, hv,
          readLE8_count _ _ (wfCount_lt hc), wfCount_sane hc, iha, ihr, normM]
theorem schemaL_rt (cfg : Cfg) (v : Nat) : ∀ (l : SchemaL) (fuel : Nat) (r : Bytes),
    wfSL cfg l = true → sizeSL l ≤ fuel →
    decSchemaL cfg v fuel l.length (encSchemaL v l ++ r) = .ok (normSL v l, r)
  | .nil, fuel, r, _, _ => by
    cases fuel <;> simp [SchemaL.length, decSchemaL, encSchemaL, normSL]
  | .cons s rest, fuel, r, hw, hf => by
    cases fuel with
    | zero => simp [sizeSL] at hf
    | succ f =>
      simp only [wfSL, Bool.and_eq_true] at hw
      simp only [sizeSL] at hf
      have ihs := schema_rt cfg v s f (encSchemaL v rest ++ r) hw.1 (by omega)
      have ihr := schemaL_rt cfg v rest f r hw.2 (by omega)
      simp [SchemaL.length, decSchemaL, encSchemaL, List.append_assoc, ihs, ihr, normSL]
end

end Sfv
