/-
  Sfv.Lemmas.Stream — `write_all`/`read_exact` over arbitrary scripts.
-/
import Sfv.Model.Stream
namespace Sfv

/-! ### writing -/

/-- whatever the script does, `write_all` adds a prefix of the buffer to what was accepted; all of it on success -/
theorem writeAll_prefix : ∀ (sc : List WOut) (buf acc : Bytes),
    ∃ k, k ≤ buf.length ∧ (writeAll sc buf acc).2.1 = acc ++ buf.take k
      ∧ ((writeAll sc buf acc).2.2 = .ok () → k = buf.length)
  | sc, [], acc => ⟨0, by simp [writeAll]⟩
  | [], b :: buf, acc => ⟨(b :: buf).length, by simp [writeAll]⟩
  | .acc n :: sc, b :: buf, acc => by
    simp only [writeAll]
    split
    · exact ⟨0, by simp⟩
    · rename_i hn
      obtain ⟨m, hm⟩ : ∃ m, m = min n (b :: buf).length := ⟨_, rfl⟩
      rw [← hm]
      have hm1 : m ≤ (b :: buf).length := by omega
      obtain ⟨k, hk, h1, h2⟩ := writeAll_prefix sc ((b :: buf).drop m) (acc ++ (b :: buf).take m)
      rw [List.length_drop] at hk h2
      refine ⟨m + k, by omega, ?_, ?_⟩
      · rw [h1, List.append_assoc, List.take_add]
      · intro hok
        have := h2 hok
        omega
  | .intr :: sc, b :: buf, acc => by
    simp only [writeAll]
    exact writeAll_prefix sc (b :: buf) acc
  | .zero :: sc, b :: buf, acc => ⟨0, by simp [writeAll]⟩
  | .err k :: sc, b :: buf, acc => ⟨0, by simp [writeAll]⟩
termination_by sc => sc.length

/-- a writer program: the bytes accepted are a prefix of the fault-free output; all of it on success -/
theorem runOps_prefix : ∀ (ops : List WOp) (sc : List WOut) (fs : List Bool) (acc : Bytes),
    ∃ k, k ≤ (opsBytes ops).length ∧ (runOps sc fs ops acc).1 = acc ++ (opsBytes ops).take k
      ∧ ((runOps sc fs ops acc).2 = .ok () → k = (opsBytes ops).length)
  | [], sc, fs, acc => ⟨0, by simp [runOps, opsBytes]⟩
  | .w b :: ops, sc, fs, acc => by
    obtain ⟨k, hk, h1, h2⟩ := writeAll_prefix sc b acc
    simp only [runOps, opsBytes]
    cases hw : writeAll sc b acc with
    | mk sc' r =>
      obtain ⟨acc', res⟩ := r
      rw [hw] at h1 h2
      simp only at h1 h2
      cases res with
      | ok u =>
        simp only
        have hk' := h2 rfl
        subst hk'
        obtain ⟨k2, hk2, g1, g2⟩ := runOps_prefix ops sc' fs acc'
        refine ⟨b.length + k2, by simp; omega, ?_, ?_⟩
        · rw [g1, h1, List.take_length, List.append_assoc, List.take_length_add_append]
        · intro hok
          have := g2 hok
          simp; omega
      | error e =>
        simp only
        refine ⟨k, by simp; omega, ?_, by simp⟩
        rw [h1, List.take_append_of_le_length hk]
  | .flush :: ops, sc, fs, acc => by
    simp only [runOps, opsBytes]
    cases hf : doFlush fs with
    | mk fs' res =>
      cases res with
      | ok u => exact runOps_prefix ops sc fs' acc
      | error e => exact ⟨0, by simp⟩

/-- no silent success: a program that reports success has written everything -/
theorem runOps_ok_complete (ops : List WOp) (sc : List WOut) (fs : List Bool) (acc : Bytes)
    (h : (runOps sc fs ops acc).2 = .ok ()) : (runOps sc fs ops acc).1 = acc ++ opsBytes ops := by
  obtain ⟨k, _, h1, h2⟩ := runOps_prefix ops sc fs acc
  rw [h1, h2 h, List.take_length]

theorem writeAll_benign : ∀ (sc : List WOut) (buf acc : Bytes), benignW sc = true →
    (writeAll sc buf acc).2.2 = .ok () ∧ benignW (writeAll sc buf acc).1 = true
  | sc, [], acc, h => by simp [writeAll, h]
  | [], b :: buf, acc, _ => by simp [writeAll, benignW]
  | .acc n :: sc, b :: buf, acc, h => by
    simp only [benignW, Bool.and_eq_true, decide_eq_true_eq] at h
    simp only [writeAll]
    have : ¬ n = 0 := by omega
    simp only [this, if_false]
    exact writeAll_benign sc _ _ h.2
  | .intr :: sc, b :: buf, acc, h => by
    simp only [benignW] at h
    simp only [writeAll]
    exact writeAll_benign sc _ _ h
  | .zero :: sc, b :: buf, acc, h => by simp [benignW] at h
  | .err k :: sc, b :: buf, acc, h => by simp [benignW] at h
termination_by sc => sc.length

/-- short writes and interruptions change nothing: the program succeeds and emits the fault-free bytes -/
theorem runOps_benign : ∀ (ops : List WOp) (sc : List WOut) (fs : List Bool) (acc : Bytes),
    benignW sc = true → fs.all id = true → runOps sc fs ops acc = (acc ++ opsBytes ops, .ok ())
  | [], sc, fs, acc, _, _ => by simp [runOps, opsBytes]
  | .w b :: ops, sc, fs, acc, h, hf => by
    obtain ⟨h1, h2⟩ := writeAll_benign sc b acc h
    have hp := writeAll_prefix sc b acc
    obtain ⟨k, _, g1, g2⟩ := hp
    simp only [runOps, opsBytes]
    cases hw : writeAll sc b acc with
    | mk sc' r =>
      obtain ⟨acc', res⟩ := r
      rw [hw] at h1 h2 g1 g2
      simp only at h1 h2 g1 g2
      subst h1
      simp only
      rw [runOps_benign ops sc' fs acc' h2 hf, g1, g2 rfl, List.take_length, List.append_assoc]
  | .flush :: ops, sc, fs, acc, h, hf => by
    simp only [runOps, opsBytes]
    cases fs with
    | nil => simp only [doFlush]; exact runOps_benign ops sc [] acc h hf
    | cons f fs =>
      simp only [List.all_cons, id, Bool.and_eq_true] at hf
      obtain ⟨hf1, hf2⟩ := hf
      subst hf1
      simp only [doFlush]
      exact runOps_benign ops sc fs acc h hf2

/-! ### reading -/

/-- short reads and interruptions change nothing: `read_exact` delivers the next `want` bytes or fails with
    `UnexpectedEof` when there are not that many -/
theorem readExact_benign : ∀ (sc : List ROut) (data : Bytes) (want : Nat) (got : Bytes), benignR sc = true →
    (if data.length ≥ want then
        (readExact sc data want got).2 = (data.drop want, .ok (got ++ data.take want))
      else (readExact sc data want got).2.2 = .error .eof)
    ∧ benignR (readExact sc data want got).1 = true
  | sc, data, 0, got, h => by simp [readExact, h]
  | [], data, want + 1, got, _ => by
    simp only [readExact]
    split <;> simp_all [benignR]
  | .got n :: sc, data, want + 1, got, h => by
    simp only [benignR, Bool.and_eq_true, decide_eq_true_eq] at h
    simp only [readExact]
    by_cases hd : data = []
    · subst hd; simp [h.2]
    · have hn : ¬ n = 0 := by omega
      simp only [hn, hd, or_self, if_false]
      have hlen : 0 < data.length := List.length_pos_iff.mpr hd
      obtain ⟨m, hm⟩ : ∃ m, m = min n (min (want + 1) data.length) := ⟨_, rfl⟩
      rw [← hm]
      have hm1 : m ≤ data.length := by omega
      have hm2 : m ≤ want + 1 := by omega
      have hm3 : 1 ≤ m := by omega
      clear hm
      obtain ⟨ih1, ih2⟩ := readExact_benign sc (data.drop m) (want + 1 - m) (got ++ data.take m) h.2
      refine ⟨?_, ih2⟩
      rw [List.length_drop] at ih1
      by_cases hge : data.length ≥ want + 1
      · have : data.length - m ≥ want + 1 - m := by omega
        simp only [this, if_true, hge] at ih1 ⊢
        rw [ih1, List.drop_drop, List.append_assoc]
        have e : want + 1 = m + (want + 1 - m) := by omega
        congr 2
        · omega
        · conv => rhs; rw [e, List.take_add]
      · have : ¬ data.length - m ≥ want + 1 - m := by omega
        simp only [this, if_false, hge] at ih1 ⊢
        exact ih1
  | .intr :: sc, data, want + 1, got, h => by
    simp only [benignR] at h
    simp only [readExact]
    exact readExact_benign sc data (want + 1) got h
  | .err k :: sc, data, want + 1, got, h => by simp [benignR] at h
termination_by sc => sc.length

/-- whatever the script: if `read_exact` succeeds it has delivered exactly the next `want` bytes -/
theorem readExact_ok : ∀ (sc : List ROut) (data : Bytes) (want : Nat) (got : Bytes) sc' data' bs,
    readExact sc data want got = (sc', data', .ok bs) →
    data.length ≥ want ∧ bs = got ++ data.take want ∧ data' = data.drop want
  | sc, data, 0, got, sc', data', bs, h => by
    simp only [readExact, Prod.mk.injEq, Except.ok.injEq] at h
    obtain ⟨_, h2, h3⟩ := h
    subst h2; subst h3; simp
  | [], data, want + 1, got, sc', data', bs, h => by
    simp only [readExact] at h
    split at h
    · simp only [Prod.mk.injEq, Except.ok.injEq] at h
      obtain ⟨_, h2, h3⟩ := h
      subst h2; subst h3
      exact ⟨by omega, rfl, rfl⟩
    · simp at h
  | .got n :: sc, data, want + 1, got, sc', data', bs, h => by
    simp only [readExact] at h
    split at h
    · simp at h
    · rename_i hc
      have hn : ¬ n = 0 := fun e => hc (.inl e)
      have hd : ¬ data = [] := fun e => hc (.inr e)
      have hlen : 0 < data.length := List.length_pos_iff.mpr hd
      obtain ⟨m, hm⟩ : ∃ m, m = min n (min (want + 1) data.length) := ⟨_, rfl⟩
      rw [← hm] at h
      have hm1 : m ≤ data.length := by omega
      have hm2 : m ≤ want + 1 := by omega
      clear hm
      obtain ⟨g1, g2, g3⟩ := readExact_ok sc _ _ _ sc' data' bs h
      rw [List.length_drop] at g1
      have e : want + 1 = m + (want + 1 - m) := by omega
      refine ⟨by omega, ?_, ?_⟩
      · rw [g2, List.append_assoc]
        congr 1
        conv => rhs; rw [e, List.take_add]
      · rw [g3, List.drop_drop, ← e]
  | .intr :: sc, data, want + 1, got, sc', data', bs, h => by
    simp only [readExact] at h
    exact readExact_ok sc data (want + 1) got sc' data' bs h
  | .err k :: sc, data, want + 1, got, sc', data', bs, h => by simp [readExact] at h
termination_by sc => sc.length

/-- the result of any reader program does not depend on how the reader splits the data -/
theorem RP.run_benign {α : Type} : ∀ (p : RP α) (sc : List ROut) (data : Bytes), benignR sc = true →
    (p.run sc data).1 = (p.runWhole data).1
  | .ret a, sc, data, _ => rfl
  | .fail e, sc, data, _ => rfl
  | .read n k, sc, data, h => by
    obtain ⟨h1, h2⟩ := readExact_benign sc data n [] h
    simp only [RP.run, RP.runWhole]
    cases hr : readExact sc data n [] with
    | mk sc' r =>
      obtain ⟨data', res⟩ := r
      rw [hr] at h1 h2
      simp only at h1 h2
      by_cases hge : data.length ≥ n
      · simp only [hge, if_true] at h1 ⊢
        simp only [Prod.mk.injEq] at h1
        obtain ⟨hd, hres⟩ := h1
        subst hd; subst hres
        simp only [List.nil_append]
        exact RP.run_benign (k (data.take n)) sc' (data.drop n) h2
      · simp only [hge, if_false] at h1 ⊢
        subst h1
        rfl

/-- a hard error of the reader surfaces as that error — unless the program finishes (with a value or a
    decoding error) before it reaches it.  Never a different value: up to the failure the program has seen a
    prefix of the data, and behaves as on the whole data. -/
theorem RP.run_result {α : Type} : ∀ (p : RP α) (sc : List ROut) (data : Bytes),
    (p.run sc data).1 = (p.runWhole data).1 ∨ ∃ e, (p.run sc data).1 = .io e
  | .ret a, sc, data => .inl rfl
  | .fail e, sc, data => .inl rfl
  | .read n k, sc, data => by
    simp only [RP.run, RP.runWhole]
    cases hr : readExact sc data n [] with
    | mk sc' r =>
      obtain ⟨data', res⟩ := r
      cases res with
      | error e => exact .inr ⟨e, rfl⟩
      | ok bs =>
        simp only
        obtain ⟨g1, g2, g3⟩ := readExact_ok sc data n [] sc' data' bs hr
        simp only [List.nil_append] at g2
        subst g2; subst g3
        simp only [g1, if_true]
        exact RP.run_result (k (data.take n)) sc' (data.drop n)

end Sfv
