import Sfv.Model.Wire
namespace Sfv

theorem leBytes_length (k n : Nat) : (leBytes k n).length = k := by
  induction k generalizing n with
  | zero => rfl
  | succ k ih => simp [leBytes, ih]

theorem ofLE_leBytes (k n : Nat) (h : n < 256 ^ k) : ofLE (leBytes k n) = n := by
  induction k generalizing n with
  | zero => simp [leBytes, ofLE]; omega
  | succ k ih =>
    simp only [leBytes, ofLE]
    have h2 : n / 256 < 256 ^ k := by
      rw [Nat.pow_succ] at h
      omega
    rw [ih _ h2]
    have : (UInt8.ofNat (n % 256)).toNat = n % 256 := by
      simp [UInt8.toNat_ofNat']
    rw [this]; omega

theorem ofLE_lt (bs : Bytes) : ofLE bs < 256 ^ bs.length := by
  induction bs with
  | nil => simp [ofLE]
  | cons b bs ih =>
    simp only [ofLE, List.length_cons, Nat.pow_succ]
    have := b.toNat_lt
    omega

theorem leBytes_ofLE (bs : Bytes) : leBytes bs.length (ofLE bs) = bs := by
  induction bs with
  | nil => rfl
  | cons b bs ih =>
    simp only [List.length_cons, leBytes, ofLE]
    have hb := b.toNat_lt
    have h1 : (b.toNat + 256 * ofLE bs) % 256 = b.toNat := by omega
    have h2 : (b.toNat + 256 * ofLE bs) / 256 = ofLE bs := by omega
    rw [h1, h2, ih]
    simp

theorem takeN_append (k : Nat) (a r : Bytes) (h : a.length = k) : takeN k (a ++ r) = some (a, r) := by
  subst h; simp [takeN]

theorem takeN_some {k : Nat} {bs a r : Bytes} (h : takeN k bs = some (a, r)) :
    bs = a ++ r ∧ a.length = k := by
  unfold takeN at h
  split at h
  · next hk =>
    cases h
    exact ⟨(List.take_append_drop k bs).symm, by simp [List.length_take]; omega⟩
  · cases h

theorem takeN_mono {k : Nat} {bs a r : Bytes} (s : Bytes) (h : takeN k bs = some (a, r)) :
    takeN k (bs ++ s) = some (a, r ++ s) := by
  obtain ⟨rfl, hl⟩ := takeN_some h
  rw [List.append_assoc]
  exact takeN_append k a (r ++ s) hl

theorem readLE_leBytes (k n : Nat) (r : Bytes) (h : n < 256 ^ k) :
    readLE k (leBytes k n ++ r) = .ok (n, r) := by
  simp [readLE, takeN_append _ _ _ (leBytes_length k n), ofLE_leBytes k n h]

theorem readLE_ok {k : Nat} {bs r : Bytes} {n : Nat} (h : readLE k bs = .ok (n, r)) :
    ∃ a, bs = a ++ r ∧ a.length = k ∧ ofLE a = n := by
  unfold readLE at h
  split at h
  · cases h
  · next a r' ht =>
    cases h
    obtain ⟨h1, h2⟩ := takeN_some ht
    exact ⟨a, h1, h2, rfl⟩

theorem readLE_mono {k : Nat} {bs r : Bytes} {n : Nat} (s : Bytes) (h : readLE k bs = .ok (n, r)) :
    readLE k (bs ++ s) = .ok (n, r ++ s) := by
  unfold readLE at h ⊢
  split at h
  · cases h
  · next a r' ht =>
    cases h
    rw [takeN_mono s ht]

end Sfv
