import Sfv.Lemmas.SchemaRt
import Sfv.Lemmas.SchemaDiff
namespace Sfv

/-! ### normal forms -/

mutual
theorem normS_ge2 (v : Nat) (hv : v ≥ 2) : ∀ (s : Schema), normS v s = s
  | .struct _ _ _ fs => by simp [normS, normSF_ge2 v hv fs, show v > 0 by omega]
  | .enum _ vs _ _ _ _ => by simp [normS, normSV_ge2 v hv vs, show v > 0 by omega]
  | .prim p => by cases p <;> simp [normS, show v > 0 by omega]
  | .vector t _ => by simp [normS, normS_ge2 v hv t, show v > 0 by omega]
  | .array t _ => by simp [normS, normS_ge2 v hv t]
  | .option t => by simp [normS, normS_ge2 v hv t]
  | .boxed t => by simp [normS, normS_ge2 v hv t]
  | .slice t => by simp [normS, normS_ge2 v hv t]
  | .reference t => by simp [normS, normS_ge2 v hv t]
  | .trait _ d => by simp [normS, normD_ge2 v hv d]
  | .fnClosure _ d => by simp [normS, normD_ge2 v hv d]
  | .future d _ _ _ => by simp [normS, normD_ge2 v hv d]
  | .undefined => rfl | .zeroSize => rfl | .custom _ => rfl | .str => rfl | .recursion _ => rfl
  | .stdIoError => rfl | .uninitSlice => rfl | .utcTimestamp => rfl
theorem normSF_ge2 (v : Nat) (hv : v ≥ 2) : ∀ (fs : SFieldL), normSF v fs = fs
  | .nil => rfl
  | .cons _ t _ rest => by simp [normSF, normS_ge2 v hv t, normSF_ge2 v hv rest, show v > 0 by omega]
theorem normSV_ge2 (v : Nat) (hv : v ≥ 2) : ∀ (vs : SVariantL), normSV v vs = vs
  | .nil => rfl
  | .cons _ _ fs rest => by simp [normSV, normSF_ge2 v hv fs, normSV_ge2 v hv rest]
theorem normD_ge2 (v : Nat) (hv : v ≥ 2) : ∀ (d : TraitDef), normD v d = d
  | .mk _ ms _ _ => by simp [normD, normM_ge2 v hv ms]
theorem normM_ge2 (v : Nat) (hv : v ≥ 2) : ∀ (ms : MethodL), normM v ms = ms
  | .nil => rfl
  | .cons _ ret _ _ args rest => by
    simp [normM, normS_ge2 v hv ret, normSL_ge2 v hv args, normM_ge2 v hv rest, hv]
theorem normSL_ge2 (v : Nat) (hv : v ≥ 2) : ∀ (l : SchemaL), normSL v l = l
  | .nil => rfl
  | .cons s rest => by simp [normSL, normS_ge2 v hv s, normSL_ge2 v hv rest]
end

mutual
/-- format 1 loses only the receiver / async flags of method infos: data schemas are unaffected -/
theorem normS_ge1_data (v : Nat) (hv : v ≥ 1) : ∀ (s : Schema), dataS s = true → normS v s = s
  | .struct _ _ _ fs, h => by simp only [dataS] at h; simp [normS, normSF_ge1_data v hv fs h, show v > 0 by omega]
  | .enum _ vs _ _ _ _, h => by simp only [dataS] at h; simp [normS, normSV_ge1_data v hv vs h, show v > 0 by omega]
  | .prim p, _ => by cases p <;> simp [normS, show v > 0 by omega]
  | .vector t _, h => by simp only [dataS] at h; simp [normS, normS_ge1_data v hv t h, show v > 0 by omega]
  | .array t _, h => by simp only [dataS] at h; simp [normS, normS_ge1_data v hv t h]
  | .option t, h => by simp only [dataS] at h; simp [normS, normS_ge1_data v hv t h]
  | .boxed t, h => by simp only [dataS] at h; simp [normS, normS_ge1_data v hv t h]
  | .slice t, h => by simp only [dataS] at h; simp [normS, normS_ge1_data v hv t h]
  | .reference t, h => by simp only [dataS] at h; simp [normS, normS_ge1_data v hv t h]
  | .trait _ _, h => by simp [dataS] at h
  | .fnClosure _ _, h => by simp [dataS] at h
  | .future _ _ _ _, h => by simp [dataS] at h
  | .undefined, h => by simp [dataS] at h
  | .zeroSize, _ => rfl | .custom _, _ => rfl | .str, _ => rfl | .recursion _, _ => rfl
  | .stdIoError, _ => rfl | .uninitSlice, _ => rfl | .utcTimestamp, _ => rfl
theorem normSF_ge1_data (v : Nat) (hv : v ≥ 1) : ∀ (fs : SFieldL), dataSF fs = true → normSF v fs = fs
  | .nil, _ => rfl
  | .cons _ t _ rest, h => by
    simp only [dataSF, Bool.and_eq_true] at h
    simp [normSF, normS_ge1_data v hv t h.1, normSF_ge1_data v hv rest h.2, show v > 0 by omega]
theorem normSV_ge1_data (v : Nat) (hv : v ≥ 1) : ∀ (vs : SVariantL), dataSV vs = true → normSV v vs = vs
  | .nil, _ => rfl
  | .cons _ _ fs rest, h => by
    simp only [dataSV, Bool.and_eq_true] at h
    simp [normSV, normSF_ge1_data v hv fs h.1, normSV_ge1_data v hv rest h.2]
end

/-! ### fuel: the encoding is at least as long as the schema is big -/

theorem encStr_len (b : Bytes) : (encStr b).length = 8 + b.length := by
  simp [encStr, leBytes_length]

mutual
theorem sizeS_le_enc (v : Nat) : ∀ (s : Schema), sizeS s ≤ (encSchema v s).length
  | .struct name _ _ fs => by
    have := sizeSF_le_enc v fs
    simp [sizeS, encSchema, encStr_len, leBytes_length]; omega
  | .enum name vs _ _ _ _ => by
    have := sizeSV_le_enc v vs
    simp [sizeS, encSchema, encStr_len, leBytes_length]; omega
  | .prim _ => by simp [sizeS, encSchema]
  | .vector t _ => by have := sizeS_le_enc v t; simp [sizeS, encSchema]; omega
  | .array t _ => by have := sizeS_le_enc v t; simp [sizeS, encSchema, leBytes_length]; omega
  | .option t => by have := sizeS_le_enc v t; simp [sizeS, encSchema]; omega
  | .boxed t => by have := sizeS_le_enc v t; simp [sizeS, encSchema]; omega
  | .slice t => by have := sizeS_le_enc v t; simp [sizeS, encSchema]; omega
  | .reference t => by have := sizeS_le_enc v t; simp [sizeS, encSchema]; omega
  | .trait _ d => by have := sizeD_le_enc v d; simp [sizeS, encSchema, encBool]; omega
  | .fnClosure _ d => by have := sizeD_le_enc v d; simp [sizeS, encSchema, encBool]; omega
  | .future d _ _ _ => by have := sizeD_le_enc v d; simp [sizeS, encSchema]; omega
  | .undefined => by simp [sizeS, encSchema]
  | .zeroSize => by simp [sizeS, encSchema]
  | .custom _ => by simp [sizeS, encSchema]
  | .str => by simp [sizeS, encSchema]
  | .recursion _ => by simp [sizeS, encSchema]
  | .stdIoError => by simp [sizeS, encSchema]
  | .uninitSlice => by simp [sizeS, encSchema]
  | .utcTimestamp => by simp [sizeS, encSchema]
theorem sizeSF_le_enc (v : Nat) : ∀ (fs : SFieldL), sizeSF fs ≤ (encFields v fs).length
  | .nil => by simp [sizeSF]
  | .cons name t _ rest => by
    have h1 := sizeS_le_enc v t
    have h2 := sizeSF_le_enc v rest
    simp [sizeSF, encFields, encStr_len]; omega
theorem sizeSV_le_enc (v : Nat) : ∀ (vs : SVariantL), sizeSV vs ≤ (encVariants v vs).length
  | .nil => by simp [sizeSV]
  | .cons name _ fs rest => by
    have h1 := sizeSF_le_enc v fs
    have h2 := sizeSV_le_enc v rest
    simp [sizeSV, encVariants, encStr_len, leBytes_length]; omega
theorem sizeD_le_enc (v : Nat) : ∀ (d : TraitDef), sizeD d ≤ (encDef v d).length
  | .mk name ms _ _ => by
    have := sizeM_le_enc v ms
    simp [sizeD, encDef, encStr_len, leBytes_length]; omega
theorem sizeM_le_enc (v : Nat) : ∀ (ms : MethodL), sizeM ms ≤ (encMethods v ms).length
  | .nil => by simp [sizeM]
  | .cons name ret _ _ args rest => by
    have h1 := sizeS_le_enc v ret
    have h2 := sizeSL_le_enc v args
    have h3 := sizeM_le_enc v rest
    simp [sizeM, encMethods, encStr_len, leBytes_length]; omega
theorem sizeSL_le_enc (v : Nat) : ∀ (l : SchemaL), sizeSL l ≤ (encSchemaL v l).length + 1
  | .nil => by simp [sizeSL]
  | .cons s rest => by
    have h1 := sizeS_le_enc v s
    have h2 := sizeSL_le_enc v rest
    have h3 : 1 ≤ (encSchema v s).length := by
      have h0 : 1 ≤ sizeS s := by cases s <;> simp [sizeS] <;> omega
      omega
    simp [sizeSL, encSchemaL]; omega
end

/-- reading with the fuel the loader uses (`length + 1`) -/
theorem schema_rt_len (cfg : Cfg) (v : Nat) (s : Schema) (r : Bytes) (hw : wfS cfg s = true) :
    decSchema cfg v ((encSchema v s ++ r).length + 1) (encSchema v s ++ r) = .ok (normS v s, r) := by
  apply schema_rt cfg v s _ r hw
  have := sizeS_le_enc v s
  simp; omega

end Sfv
