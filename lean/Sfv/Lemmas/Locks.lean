/-
  Sfv.Lemmas.Locks — lock-order discipline: no deadlock, mutual exclusion, every run finishes, and every
  thread obtains the template a sequential execution would have given it.
-/
import Sfv.Model.Locks
namespace Sfv

theorem Lock.rank_lt (l : Lock) : l.rank < 3 := by cases l <;> decide

theorem ordered_held_nonempty_prog {p : List Instr} {held : List Lock} {l : Lock}
    (h : Ordered p held) (hl : l ∈ held) : p ≠ [] := by
  intro hp; subst hp; simp [Ordered] at h; subst h; simp at hl

/-- if nobody can move although somebody is unfinished, there are blocked threads waiting for locks of
    arbitrarily high rank -/
theorem stuck_chain (ts : List Thread) (hwf : WF ts) (hstuck : ∀ t ∈ ts, ¬ Enabled ts t)
    (t0 : Thread) (ht0 : t0 ∈ ts) (hne : t0.prog ≠ []) :
    ∀ n, ∃ t ∈ ts, ∃ l rest, t.prog = .acq l :: rest ∧ n ≤ l.rank := by
  have blocked : ∀ t ∈ ts, t.prog ≠ [] → ∃ l rest, t.prog = .acq l :: rest ∧ ∃ u ∈ ts, l ∈ u.held := by
    intro t ht hp
    have hns := hstuck t ht
    unfold Enabled at hns
    cases hprog : t.prog with
    | nil => exact absurd hprog hp
    | cons i rest =>
      rw [hprog] at hns
      cases i with
      | acq l =>
        refine ⟨l, rest, rfl, ?_⟩
        apply Classical.byContradiction
        intro hno
        apply hns
        intro u hu hlu
        exact hno ⟨u, hu, hlu⟩
      | rel l => exact absurd trivial hns
      | work => exact absurd trivial hns
      | getOrInsert k => exact absurd trivial hns
  intro n
  induction n with
  | zero =>
    obtain ⟨l, rest, h, _⟩ := blocked t0 ht0 hne
    exact ⟨t0, ht0, l, rest, h, Nat.zero_le _⟩
  | succ n ih =>
    obtain ⟨t, ht, l, rest, hprog, hn⟩ := ih
    obtain ⟨l', rest', hprog', u, hu, hlu⟩ := blocked t ht (by rw [hprog]; simp)
    have : l' = l := by
      rw [hprog] at hprog'
      simp only [List.cons.injEq, Instr.acq.injEq] at hprog'
      exact hprog'.1.symm
    subst this
    have hu_ord := hwf u hu
    have hune : u.prog ≠ [] := ordered_held_nonempty_prog hu_ord hlu
    obtain ⟨l2, rest2, hprog2, _⟩ := blocked u hu hune
    refine ⟨u, hu, l2, rest2, hprog2, ?_⟩
    rw [hprog2] at hu_ord
    have := hu_ord.1 l' hlu
    omega

/-- progress: as long as some thread is unfinished, some thread can move -/
theorem no_deadlock (ts : List Thread) (hwf : WF ts) (t0 : Thread) (ht0 : t0 ∈ ts) (hne : t0.prog ≠ []) :
    ∃ t ∈ ts, Enabled ts t := by
  apply Classical.byContradiction
  intro hno
  have hstuck : ∀ t ∈ ts, ¬ Enabled ts t := fun t ht h => hno ⟨t, ht, h⟩
  obtain ⟨t, _, l, _, _, h3⟩ := stuck_chain ts hwf hstuck t0 ht0 hne 3
  have := l.rank_lt
  omega

/-! ### steps preserve the invariants -/

theorem mem_setThread : ∀ (ts : List Thread) (i : Nat) (t x : Thread), x ∈ setThread ts i t → x = t ∨ x ∈ ts
  | [], _, _, _, h => by simp [setThread] at h
  | u :: ts, 0, t, x, h => by
    simp only [setThread, List.mem_cons] at h
    rcases h with h | h
    · exact .inl h
    · exact .inr (by simp [h])
  | u :: ts, i + 1, t, x, h => by
    simp only [setThread, List.mem_cons] at h
    rcases h with h | h
    · exact .inr (by simp [h])
    · rcases mem_setThread ts i t x h with h | h
      · exact .inl h
      · exact .inr (by simp [h])

theorem stepThread_ordered (compute : Nat → Nat) (t : Thread) (cache : List (Nat × Nat))
    (h : Ordered t.prog t.held) : Ordered (stepThread compute t cache).1.prog (stepThread compute t cache).1.held := by
  unfold stepThread
  cases hp : t.prog with
  | nil => simpa [hp] using h
  | cons i rest =>
    rw [hp] at h
    cases i with
    | acq l => exact h.2
    | rel l => exact h.2
    | work => exact h
    | getOrInsert k => exact h.2

theorem step_wf (compute : Nat → Nat) (s s' : LState) (hs : Step compute s s') (hwf : WF s.threads) : WF s'.threads := by
  cases hs with
  | mk i t hi he =>
    intro x hx
    rcases mem_setThread _ _ _ _ hx with h | h
    · subst h
      exact stepThread_ordered compute t s.cache (hwf t (List.mem_of_getElem? hi))
    · exact hwf x h

theorem countHeld_setThread : ∀ (ts : List Thread) (i : Nat) (t t' : Thread) (l : Lock), ts[i]? = some t →
    countHeld (setThread ts i t') l + t.held.count l = countHeld ts l + t'.held.count l
  | [], _, _, _, _, h => by simp at h
  | u :: ts, 0, t, t', l, h => by
    simp only [List.getElem?_cons_zero, Option.some.injEq] at h
    subst h
    simp only [setThread, countHeld, List.map_cons, List.sum_cons]
    omega
  | u :: ts, i + 1, t, t', l, h => by
    simp only [List.getElem?_cons_succ] at h
    have := countHeld_setThread ts i t t' l h
    simp only [setThread, countHeld, List.map_cons, List.sum_cons] at this ⊢
    omega

theorem count_le_countHeld : ∀ (ts : List Thread) (t : Thread) (l : Lock), t ∈ ts → t.held.count l ≤ countHeld ts l
  | [], _, _, h => by simp at h
  | u :: ts, t, l, h => by
    simp only [List.mem_cons] at h
    simp only [countHeld, List.map_cons, List.sum_cons]
    rcases h with h | h
    · subst h; omega
    · have := count_le_countHeld ts t l h
      simp only [countHeld] at this
      omega

theorem countHeld_zero_of_free : ∀ (ts : List Thread) (l : Lock), (∀ u ∈ ts, l ∉ u.held) → countHeld ts l = 0
  | [], _, _ => rfl
  | u :: ts, l, h => by
    simp only [countHeld, List.map_cons, List.sum_cons]
    have h1 : u.held.count l = 0 := List.count_eq_zero.mpr (h u (by simp))
    have h2 := countHeld_zero_of_free ts l (fun v hv => h v (by simp [hv]))
    simp only [countHeld] at h2
    omega

theorem step_excl (compute : Nat → Nat) (s s' : LState) (hs : Step compute s s') (hx : Excl s.threads) : Excl s'.threads := by
  cases hs with
  | mk i t hi he =>
    intro l
    have hc := countHeld_setThread s.threads i t (stepThread compute t s.cache).1 l hi
    have hle := hx l
    have htm : t ∈ s.threads := List.mem_of_getElem? hi
    unfold stepThread at hc ⊢
    cases hp : t.prog with
    | nil => simp only [hp] at hc ⊢; omega
    | cons ins rest =>
      simp only [hp] at hc ⊢
      cases ins with
      | acq l' =>
        simp only at hc ⊢
        by_cases e : l' = l
        · subst e
          unfold Enabled at he
          rw [hp] at he
          have hz := countHeld_zero_of_free s.threads l' he
          have ht0 : t.held.count l' = 0 := List.count_eq_zero.mpr (he t htm)
          simp only [List.count_cons_self] at hc
          omega
        · have : (l' :: t.held).count l = t.held.count l := by
            simp [List.count_cons, e]
          rw [this] at hc
          omega
      | rel l' =>
        simp only at hc ⊢
        have : (t.held.erase l').count l ≤ t.held.count l := List.Sublist.count_le l (List.erase_sublist)
        omega
      | work => simp only at hc ⊢; omega
      | getOrInsert k => simp only at hc ⊢; omega

theorem lookupOr_ok (compute : Nat → Nat) (cache : List (Nat × Nat)) (k : Nat) (h : CacheOK compute cache) :
    (lookupOr compute cache k).1 = compute k ∧ CacheOK compute (lookupOr compute cache k).2 := by
  unfold lookupOr
  cases hl : cache.lookup k with
  | none =>
    refine ⟨rfl, ?_⟩
    intro k' v hm
    simp only [List.mem_cons, Prod.mk.injEq] at hm
    rcases hm with ⟨e1, e2⟩ | hm
    · subst e1; exact e2
    · exact h k' v hm
  | some v =>
    refine ⟨?_, h⟩
    -- what the lookup finds is in the cache
    have : (k, v) ∈ cache := by
      clear h
      induction cache with
      | nil => simp [List.lookup] at hl
      | cons x xs ih =>
        obtain ⟨a, b⟩ := x
        simp only [List.lookup] at hl
        cases hk : (k == a) with
        | true =>
          simp only [hk, Option.some.injEq] at hl
          have : k = a := by simpa using hk
          subst this; subst hl; simp
        | false =>
          simp only [hk] at hl
          simp [ih hl]
    exact h k v this

theorem step_cache (compute : Nat → Nat) (s s' : LState) (hs : Step compute s s')
    (hc : CacheOK compute s.cache) (hr : ResultsOK compute s.threads) :
    CacheOK compute s'.cache ∧ ResultsOK compute s'.threads := by
  cases hs with
  | mk i t hi he =>
    have htm : t ∈ s.threads := List.mem_of_getElem? hi
    have hrt := hr t htm
    have key : CacheOK compute (stepThread compute t s.cache).2
        ∧ ∀ k v, (k, v) ∈ (stepThread compute t s.cache).1.results → v = compute k := by
      unfold stepThread
      cases hp : t.prog with
      | nil => exact ⟨hc, hrt⟩
      | cons ins rest =>
        cases ins with
        | acq l => exact ⟨hc, hrt⟩
        | rel l => exact ⟨hc, hrt⟩
        | work => exact ⟨hc, hrt⟩
        | getOrInsert k =>
          obtain ⟨h1, h2⟩ := lookupOr_ok compute s.cache k hc
          refine ⟨h2, ?_⟩
          intro k' v hm
          simp only [List.mem_cons, Prod.mk.injEq] at hm
          rcases hm with ⟨e1, e2⟩ | hm
          · subst e1; rw [e2, h1]
          · exact hrt k' v hm
    refine ⟨key.1, ?_⟩
    intro x hx
    rcases mem_setThread _ _ _ _ hx with h | h
    · subst h; exact key.2
    · exact hr x h

theorem remaining_setThread : ∀ (ts : List Thread) (i : Nat) (t t' : Thread), ts[i]? = some t →
    remaining (setThread ts i t') + t.prog.length = remaining ts + t'.prog.length
  | [], _, _, _, h => by simp at h
  | u :: ts, 0, t, t', h => by
    simp only [List.getElem?_cons_zero, Option.some.injEq] at h
    subst h
    simp only [setThread, remaining, List.map_cons, List.sum_cons]
    omega
  | u :: ts, i + 1, t, t', h => by
    simp only [List.getElem?_cons_succ] at h
    have := remaining_setThread ts i t t' h
    simp only [setThread, remaining, List.map_cons, List.sum_cons] at this ⊢
    omega

/-- every step executes exactly one instruction -/
theorem step_remaining (compute : Nat → Nat) (s s' : LState) (hs : Step compute s s') :
    remaining s'.threads + 1 = remaining s.threads := by
  cases hs with
  | mk i t hi he =>
    have h := remaining_setThread s.threads i t (stepThread compute t s.cache).1 hi
    unfold Enabled at he
    unfold stepThread at h ⊢
    cases hp : t.prog with
    | nil => rw [hp] at he; exact absurd he (by simp)
    | cons ins rest =>
      simp only [hp] at h ⊢
      cases ins <;> simp only [List.length_cons] at h ⊢ <;> omega

/-! ### runs -/

/-- `n` steps lead from `s` to `s'` -/
inductive Run (compute : Nat → Nat) : Nat → LState → LState → Prop where
  | refl (s : LState) : Run compute 0 s s
  | step (n : Nat) (s s' s'' : LState) : Run compute n s s' → Step compute s' s'' → Run compute (n + 1) s s''

structure Inv (compute : Nat → Nat) (s : LState) : Prop where
  wf : WF s.threads
  excl : Excl s.threads
  cache : CacheOK compute s.cache
  results : ResultsOK compute s.threads

theorem run_inv (compute : Nat → Nat) (n : Nat) (s s' : LState) (hr : Run compute n s s') (hi : Inv compute s) :
    Inv compute s' ∧ remaining s'.threads + n = remaining s.threads := by
  induction hr with
  | refl s => exact ⟨hi, by omega⟩
  | step n s s' s'' _ hs ih =>
    obtain ⟨hi', hrem⟩ := ih hi
    have h2 := step_cache compute s' s'' hs hi'.cache hi'.results
    have h3 := step_remaining compute s' s'' hs
    exact ⟨⟨step_wf compute s' s'' hs hi'.wf, step_excl compute s' s'' hs hi'.excl, h2.1, h2.2⟩, by omega⟩

/-- a state in which no thread is finished-or-enabled… cannot be: from any state satisfying the invariant that
    is not finished, a step exists -/
theorem can_step (compute : Nat → Nat) (s : LState) (hi : Inv compute s) (hnf : ¬ Finished s.threads) :
    ∃ s', Step compute s s' := by
  have : ∃ t0 ∈ s.threads, t0.prog ≠ [] := by
    apply Classical.byContradiction
    intro hno
    apply hnf
    intro t ht
    apply Classical.byContradiction
    intro hp
    exact hno ⟨t, ht, hp⟩
  obtain ⟨t0, ht0, hne⟩ := this
  obtain ⟨t, ht, he⟩ := no_deadlock s.threads hi.wf t0 ht0 hne
  obtain ⟨i, hi'⟩ := List.getElem?_of_mem ht
  exact ⟨_, Step.mk s i t hi' he⟩

theorem finished_iff_remaining (ts : List Thread) : Finished ts ↔ remaining ts = 0 := by
  induction ts with
  | nil => simp [Finished, remaining]
  | cons t ts ih =>
    simp only [Finished, remaining, List.map_cons, List.sum_cons, List.mem_cons, forall_eq_or_imp] at ih ⊢
    constructor
    · rintro ⟨h1, h2⟩
      have := ih.mp h2
      simp [h1, this]
    · intro h
      have h1 : t.prog.length = 0 := by omega
      have h2 : (ts.map (·.prog.length)).sum = 0 := by omega
      exact ⟨List.length_eq_zero_iff.mp h1, ih.mpr h2⟩

end Sfv
