/-
  Sfv.Lemmas.Introspect — flat indexing of a well-formed result, and the invariants of `dive`.
-/
import Sfv.Model.Introspect
namespace Sfv

/-- the order in which `total_index` enumerates a result: a frame's elements up to and including the
    selected one, then everything below it, then the rest of the frame -/
def flatten : List Frame → List KeyVal
  | [] => []
  | f :: d =>
    match f.selected with
    | some s => f.keyvals.take (s + 1) ++ flatten d ++ f.keyvals.drop (s + 1)
    | none => f.keyvals

/-- what `dive` guarantees about its frames: a selection points into its frame, and only a frame with a
    selection has frames below it -/
def WfFrames : List Frame → Prop
  | [] => True
  | f :: d =>
    (match f.selected with
     | some s => s < f.keyvals.length
     | none => d = []) ∧ WfFrames d


theorem flatten_length : ∀ fs, WfFrames fs → (flatten fs).length = sumLens fs
  | [], _ => rfl
  | f :: d, h => by
    obtain ⟨h1, h2⟩ := h
    have ih := flatten_length d h2
    cases hs : f.selected with
    | none =>
      rw [hs] at h1; subst h1
      simp [flatten, hs, sumLens]
    | some s =>
      rw [hs] at h1
      simp only [flatten, hs, List.length_append, List.length_take, List.length_drop, sumLens, List.map_cons, List.sum_cons] at *
      omega

theorem flatten_get (f : Frame) (d : List Frame) (s k : Nat) (hs : f.selected = some s)
    (hlt : s < f.keyvals.length) :
    (flatten (f :: d))[k]? =
      if k < s + 1 then f.keyvals[k]?
      else if k - (s + 1) < (flatten d).length then (flatten d)[k - (s + 1)]?
      else f.keyvals[k - (flatten d).length]? := by
  have htl : (List.take (s + 1) f.keyvals).length = s + 1 := by simp; omega
  simp only [flatten, hs, List.getElem?_append, List.length_append, htl]
  by_cases h1 : k < s + 1
  · have h2 : k < s + 1 + (flatten d).length := by omega
    simp [h1, h2, List.getElem?_take]
  · by_cases h2 : k - (s + 1) < (flatten d).length
    · have h3 : k < s + 1 + (flatten d).length := by omega
      simp [h1, h2, h3]
    · have h3 : ¬ k < s + 1 + (flatten d).length := by omega
      simp only [h1, h2, h3, if_false, List.getElem?_drop]
      congr 1; omega

theorem tii_spec : ∀ (fs : List Frame) (cur i : Nat), WfFrames fs → cur ≤ i →
    (totalIndexImpl i fs cur).1 = .ok ((flatten fs)[i - cur]?)
    ∧ ((flatten fs)[i - cur]? = none → (totalIndexImpl i fs cur).2 = cur + (flatten fs).length)
  | [], cur, i, _, _ => by simp [totalIndexImpl, flatten]
  | f :: d, cur, i, h, hci => by
    obtain ⟨h1, h2⟩ := h
    cases hs : f.selected with
    | none =>
      rw [hs] at h1; subst h1
      simp only [totalIndexImpl, hs, flatten]
      have : ¬ i < cur := by omega
      simp only [this, if_false]
      by_cases hlt : i - cur < f.keyvals.length
      · simp [hlt, List.getElem?_eq_getElem hlt]
      · have hn : f.keyvals[i - cur]? = none := List.getElem?_eq_none (by omega)
        simp [hlt, hn]
    | some s =>
      rw [hs] at h1
      have h1 : s < f.keyvals.length := h1
      have hlen : (flatten (f :: d)).length = f.keyvals.length + (flatten d).length := by
        simp only [flatten, hs, List.length_append, List.length_take, List.length_drop]; omega
      rw [flatten_get f d s (i - cur) hs h1, hlen]
      simp only [totalIndexImpl, hs]
      by_cases hle : i ≤ cur + s
      · have : ¬ i < cur := by omega
        have hlt : i - cur < f.keyvals.length := by omega
        have h3 : i - cur < s + 1 := by omega
        simp [hle, this, h3, List.getElem?_eq_getElem hlt]
      · simp only [hle, if_false]
        have hc' : cur + s + 1 ≤ i := by omega
        have h3 : ¬ i - cur < s + 1 := by omega
        have h4 : i - cur - (s + 1) = i - (cur + s + 1) := by omega
        simp only [h3, if_false, h4]
        obtain ⟨ih1, ih2⟩ := tii_spec d (cur + s + 1) i h2 hc'
        cases hr : totalIndexImpl i d (cur + s + 1) with
        | mk r c =>
          rw [hr] at ih1 ih2
          simp only at ih1 ih2
          subst ih1
          cases hg : (flatten d)[i - (cur + s + 1)]? with
          | some kv =>
            have hlt := (List.getElem?_eq_some_iff.mp hg).1
            simp [hlt]
          | none =>
            have hc := ih2 hg
            subst hc
            have hge : (flatten d).length ≤ i - (cur + s + 1) := List.getElem?_eq_none_iff.mp hg
            have hnlt : ¬ i < cur + s + 1 + (flatten d).length := by omega
            have h5 : ¬ i - (cur + s + 1) < (flatten d).length := by omega
            have h6 : i - (cur + s + 1 + (flatten d).length) + (s + 1) = i - cur - (flatten d).length := by omega
            simp only [hnlt, h5, if_false, h6]
            by_cases hin : i - cur - (flatten d).length < f.keyvals.length
            · simp [hin, List.getElem?_eq_getElem hin]
            · have hnl : ¬ f.keyvals.length < s + 1 := by omega
              have hn : f.keyvals[i - cur - (flatten d).length]? = none := List.getElem?_eq_none (by omega)
              simp only [hin, if_false, hnl, hn, true_and, forall_const]
              omega

/-! ### invariants of `dive` -/

/-- loop invariant of `dive` (`ne`: the caller will pop the path if no child gets selected) -/
def LoopInv (ne : Bool) (st : Loop) : Prop :=
  (st.selected = none → st.cmd.isSome = true ∧ st.sub = [] ∧ (ne = true → st.path ≠ []))
  ∧ (∀ s, st.selected = some s → s < st.keyvals.length)
  ∧ WfFrames st.sub
  ∧ st.index = st.keyvals.length

theorem selStep_path (limit : Nat) (key : Bytes) (st : Loop) (h : st.path ≠ []) :
    (selStep limit key st).1 ≠ [] := by
  unfold selStep; split <;> simp [h]

theorem noSel_inv (ne : Bool) (limit : Nat) (key : Bytes) (st : Loop) (kv : KeyVal) (h : LoopInv ne st) :
    (∀ s, (noSel st (selStep limit key st) kv).selected = some s → s < (noSel st (selStep limit key st) kv).keyvals.length)
    ∧ LoopInv ne { noSel st (selStep limit key st) kv with index := st.index + 1 } := by
  obtain ⟨h1, h2, h3, h4⟩ := h
  refine ⟨?_, ?_, ?_, ?_, ?_⟩
  · intro s hs; have := h2 s hs; simp [noSel]; omega
  · intro hs
    obtain ⟨a, b, c⟩ := h1 hs
    exact ⟨a, b, fun hne => selStep_path limit key st (c hne)⟩
  · intro s hs; have := h2 s hs; simp [noSel]; omega
  · exact h3
  · simp [noSel, h4]

theorem selLeaf_inv (ne : Bool) (limit : Nat) (key : Bytes) (st : Loop) (kv : KeyVal) (h : LoopInv ne st) :
    LoopInv ne { selLeaf st (selStep limit key st) kv with index := st.index + 1 } := by
  obtain ⟨h1, h2, h3, h4⟩ := h
  refine ⟨?_, ?_, ?_, ?_⟩
  · intro hs; simp [selLeaf] at hs
  · intro s hs; simp [selLeaf] at hs; simp [selLeaf]; omega
  · exact h3
  · simp [selLeaf, h4]

theorem selDeep_inv (ne : Bool) (limit : Nat) (key : Bytes) (st : Loop) (kv : KeyVal) (p' : List PathElem)
    (frames : List Frame) (h : LoopInv ne st) (hf : WfFrames frames) :
    LoopInv ne { selDeep st (selStep limit key st) kv p' frames with index := st.index + 1 } := by
  obtain ⟨h1, h2, h3, h4⟩ := h
  refine ⟨?_, ?_, ?_, ?_⟩
  · intro hs; simp [selDeep] at hs
  · intro s hs; simp [selDeep] at hs; simp [selDeep]; omega
  · exact hf
  · simp [selDeep, h4]

/-- `finish` only touches `dis`, `index` and `limitReached` -/
theorem finish_inv (ne : Bool) (limit : Nat) (key : Bytes) (st : Loop)
    (h : LoopInv ne { st with index := st.index + 1 }) : LoopInv ne (finish limit key st).1 := by
  obtain ⟨h1, h2, h3, h4⟩ := h
  simp only [finish]
  split <;> split <;> exact ⟨h1, h2, h3, h4⟩

theorem divePre_ne (limit depth : Nat) (path : List PathElem) (cmd : NavCmd) (p1 : List PathElem)
    (cp : Option PathElem) (sel : Option Nat) (h : divePre limit depth path cmd = .ok (p1, cp, sel, true)) :
    p1 ≠ [] := by
  unfold divePre at h
  cases cmd with
  | expand d key dis =>
    simp only at h
    split at h
    · cases h
    · split at h
      · simp only [Except.ok.injEq, Prod.mk.injEq] at h
        obtain ⟨hp, _⟩ := h
        subst hp; simp
      · simp at h
  | selectNth d i => simp at h
  | nothing => simp at h
  | up => simp at h

theorem divePost_ok (ne : Bool) (st : Loop) (h : LoopInv ne st) :
    (∀ s, (divePost ne st).2 ≠ .error (.panic s))
    ∧ (∀ fr, (divePost ne st).2 = .ok fr → WfFrames fr ∧ fr ≠ []) := by
  obtain ⟨h1, h2, h3, _⟩ := h
  unfold divePost
  split
  · simp
  · split
    · rename_i hc
      simp only [Bool.and_eq_true, Option.isNone_iff_eq_none] at hc
      obtain ⟨hne, hsel⟩ := hc
      obtain ⟨_, _, hp⟩ := h1 hsel
      have hp := hp hne
      split
      · rename_i hr
        have : st.path = [] := by simpa using hr
        exact absurd this hp
      · simp
    · refine ⟨by simp, ?_⟩
      intro fr hfr
      simp only [Except.ok.injEq] at hfr
      subst hfr
      refine ⟨⟨?_, h3⟩, by simp⟩
      cases hs : st.selected with
      | none => exact (h1 hs).2.1
      | some s => exact h2 s hs

theorem loopInit_inv (ne : Bool) (cmd : NavCmd) (path : List PathElem) (cp : Option PathElem) (sel : Option Nat)
    (h : ne = true → path ≠ []) : LoopInv ne (loopInit cmd path cp sel) := by
  refine ⟨?_, ?_, ?_, ?_⟩
  · intro _; exact ⟨rfl, rfl, h⟩
  · intro s hs; simp [loopInit] at hs
  · simp [loopInit, WfFrames]
  · simp [loopInit]

mutual
theorem dive_ok : ∀ (t : ITree) (limit depth : Nat) (path : List PathElem) (cmd : NavCmd),
    (∀ s, (dive limit depth t path cmd).2 ≠ .error (.panic s))
    ∧ (∀ fr, (dive limit depth t path cmd).2 = .ok fr → WfFrames fr ∧ fr ≠ [])
  | .node kids, limit, depth, path, cmd => by
    simp only [dive]
    cases hpre : divePre limit depth path cmd with
    | error e =>
      simp only
      unfold divePre at hpre
      refine ⟨?_, by simp⟩
      intro s hs
      simp only [Except.error.injEq] at hs
      subst hs
      cases cmd with
      | expand d key dis =>
        simp only at hpre
        split at hpre
        · cases hpre
        · split at hpre <;> cases hpre
      | selectNth d i => cases hpre
      | nothing => cases hpre
      | up => cases hpre
    | ok r =>
      obtain ⟨p1, cp, sel, ne⟩ := r
      simp only
      have hinit : LoopInv ne (loopInit cmd p1 cp sel) :=
        loopInit_inv ne cmd p1 cp sel (fun hne => by subst hne; exact divePre_ne limit depth path cmd p1 cp sel hpre)
      obtain ⟨hl1, hl2⟩ := diveLoop_ok kids limit depth ne (loopInit cmd p1 cp sel) hinit
      cases hloop : diveLoop limit depth kids (loopInit cmd p1 cp sel) with
      | mk p' r =>
        rw [hloop] at hl1 hl2
        cases r with
        | error e => simp only; exact ⟨fun s => by simpa using hl1 s, by simp⟩
        | ok st => simp only; exact divePost_ok ne st (hl2 st rfl)
theorem diveLoop_ok : ∀ (kids : ITreeL) (limit depth : Nat) (ne : Bool) (st : Loop), LoopInv ne st →
    (∀ s, (diveLoop limit depth kids st).2 ≠ .error (.panic s))
    ∧ (∀ st', (diveLoop limit depth kids st).2 = .ok st' → LoopInv ne st')
  | .nil, limit, depth, ne, st, h => by
    simp only [diveLoop]
    exact ⟨by simp, fun st' hst => by simp only [Except.ok.injEq] at hst; subst hst; exact h⟩
  | .cons key child rest, limit, depth, ne, st, h => by
    simp only [diveLoop]
    -- what happens after a successful step
    have after : ∀ st1 : Loop, LoopInv ne { st1 with index := st1.index + 1 } →
        (∀ s, (match finish limit key st1 with
                | (s, true) => (s.path, Except.ok s)
                | (s, false) => diveLoop limit depth rest s).2 ≠ .error (.panic s))
        ∧ (∀ st', (match finish limit key st1 with
                | (s, true) => (s.path, Except.ok s)
                | (s, false) => diveLoop limit depth rest s).2 = .ok st' → LoopInv ne st') := by
      intro st1 h1
      have hf := finish_inv ne limit key st1 h1
      cases hfin : finish limit key st1 with
      | mk s b =>
        rw [hfin] at hf
        cases b with
        | true =>
          simp only
          exact ⟨by simp, fun st' hst => by simp only [Except.ok.injEq] at hst; subst hst; exact hf⟩
        | false =>
          simp only
          exact diveLoop_ok rest limit depth ne s hf
    by_cases hsel : isSelected st (selStep limit key st).2.2 key = true
    · simp only [hsel, if_true]
      by_cases hk : child.hasKids = true
      · simp only [hk, if_true]
        have hselNone : st.selected = none := by
          unfold isSelected at hsel
          simp only [Bool.and_eq_true, Option.isNone_iff_eq_none] at hsel
          exact hsel.1
        obtain ⟨hcmd, _, _⟩ := h.1 hselNone
        cases hc : st.cmd with
        | none => rw [hc] at hcmd; cases hcmd
        | some c =>
          simp only
          obtain ⟨hd1, hd2⟩ := dive_ok child limit (depth + 1) (selStep limit key st).1 c
          cases hdive : dive limit (depth + 1) child (selStep limit key st).1 c with
          | mk p' r =>
            rw [hdive] at hd1 hd2
            cases r with
            | error e => simp only; exact ⟨fun s => by simpa using hd1 s, by simp⟩
            | ok frames =>
              simp only
              exact after _ (selDeep_inv ne limit key st _ p' frames h (hd2 frames rfl).1)
      · simp only [hk]
        exact after _ (selLeaf_inv ne limit key st _ h)
    · simp only [hsel]
      exact after _ (noSel_inv ne limit key st _ h).2
end

/-- `do_introspect` never panics, and a result it returns is well formed with the reported total length -/
theorem doIntrospect_ok (limit : Nat) (t : ITree) (path : List PathElem) (cmd : NavCmd) :
    (∀ s, (doIntrospect limit t path cmd).2 ≠ .error (.panic s))
    ∧ (∀ r, (doIntrospect limit t path cmd).2 = .ok r → WfFrames r.frames ∧ r.frames ≠ [] ∧ r.totalLen = sumLens r.frames) := by
  unfold doIntrospect
  cases hpre : navPre path cmd with
  | error e =>
    simp only
    refine ⟨?_, by simp⟩
    intro s hs
    simp only [Except.error.injEq] at hs
    subst hs
    unfold navPre at hpre
    cases cmd with
    | up => simp only at hpre; split at hpre <;> cases hpre
    | expand d k dis => cases hpre
    | selectNth d i => cases hpre
    | nothing => cases hpre
  | ok p1 =>
    simp only
    obtain ⟨h1, h2⟩ := dive_ok t limit 0 p1 cmd
    cases hd : dive limit 0 t p1 cmd with
    | mk p r =>
      rw [hd] at h1 h2
      cases r with
      | error e => simp only; exact ⟨fun s => by simpa using h1 s, by simp⟩
      | ok frames =>
        simp only
        refine ⟨by simp, ?_⟩
        intro r hr
        simp only [Except.ok.injEq] at hr
        subst hr
        exact ⟨(h2 frames rfl).1, (h2 frames rfl).2, rfl⟩

end Sfv
