import Sfv.Lemmas.Safe
namespace Sfv

/-! ### How much input a successful decode must have consumed -/

mutual
/-- least number of bytes any value of the grammar occupies -/
def minSize : W → Nat
  | .fixed k => k
  | .bool => 1
  | .char => 4
  | .str _ => 8
  | .seq _ _ => 8
  | .opt _ => 1
  | .res a b => 1 + min (minSize a) (minSize b)
  | .prod ts => minSizeL ts
  | .rep n _ t => n * minSize t
  | .tagged w _ => w
  | .canary => 4
  | .sysTime => 16
def minSizeL : WL → Nat
  | .nil => 0
  | .cons t ts => minSize t + minSizeL ts
end

theorem readLE_len {k : Nat} {bs r : Bytes} {n : Nat} (h : readLE k bs = .ok (n, r)) :
    bs.length = k + r.length := by
  obtain ⟨a, h1, h2, _⟩ := readLE_ok h
  subst h1; simp [h2]

theorem repeatDec_consumes {f : Bytes → DecR V} {m : Nat}
    (hf : ∀ bs v r, f bs = .ok (v, r) → r.length + m ≤ bs.length) :
    ∀ (n : Nat) (bs : Bytes) (l : VL) (r : Bytes),
      repeatDec f n bs = .ok (l, r) → r.length + n * m ≤ bs.length ∧ l.length = n
  | 0, bs, l, r, h => by
    simp only [repeatDec, Except.ok.injEq, Prod.mk.injEq] at h
    obtain ⟨h1, h2⟩ := h; subst h1; subst h2; simp [VL.length]
  | n+1, bs, l, r, h => by
    simp only [repeatDec] at h
    cases hq : f bs with
    | error e => simp [hq] at h
    | ok x =>
      obtain ⟨v, r1⟩ := x
      simp only [hq] at h
      cases hq2 : repeatDec f n r1 with
      | error e => simp [hq2] at h
      | ok y =>
        obtain ⟨vs, r2⟩ := y
        simp only [hq2, Except.ok.injEq, Prod.mk.injEq] at h
        obtain ⟨hv, hrr⟩ := h; subst hv; subst hrr
        have h1 := hf bs v r1 hq
        have ⟨h2, h3⟩ := repeatDec_consumes hf n r1 vs r2 hq2
        refine ⟨?_, by simp [VL.length, h3]⟩
        rw [Nat.add_mul]; omega

mutual
theorem dec_consumes (cfg : Cfg) : ∀ (w : W) (u : Bool) (bs : Bytes) (v : V) (r : Bytes),
    dec cfg u w bs = .ok (v, r) → r.length + minSize w ≤ bs.length
  | .fixed k, u, bs, v, r, h => by
    simp only [dec] at h
    cases hq : readLE k bs with
    | error e => simp [hq] at h
    | ok x =>
      obtain ⟨n, r1⟩ := x
      simp only [hq, Except.ok.injEq, Prod.mk.injEq] at h
      obtain ⟨_, hrr⟩ := h; subst hrr
      have := readLE_len hq; simp [minSize]; omega
  | .bool, u, bs, v, r, h => by
    simp only [dec] at h
    cases hq : readLE 1 bs with
    | error e => simp [hq] at h
    | ok x =>
      obtain ⟨n, r1⟩ := x
      simp only [hq] at h
      have := readLE_len hq
      split at h
      · split at h
        · simp at h; obtain ⟨_, hrr⟩ := h; subst hrr; simp [minSize]; omega
        · cases h
      · simp at h; obtain ⟨_, hrr⟩ := h; subst hrr; simp [minSize]; omega
  | .char, u, bs, v, r, h => by
    simp only [dec] at h
    cases hq : readLE 4 bs with
    | error e => simp [hq] at h
    | ok x =>
      obtain ⟨n, r1⟩ := x
      simp only [hq] at h
      have := readLE_len hq
      split at h
      · simp at h; obtain ⟨_, hrr⟩ := h; subst hrr; simp [minSize]; omega
      · split at h <;> cases h
  | .str cap, u, bs, v, r, h => by
    simp only [dec] at h
    cases hq : readLE 8 bs with
    | error e => simp [hq] at h
    | ok x =>
      obtain ⟨n, r1⟩ := x
      simp only [hq] at h
      have := readLE_len hq
      split at h
      · cases h
      · split at h
        · cases h
        · cases ht : takeN n r1 with
          | none => simp [ht] at h
          | some y =>
            obtain ⟨b, r2⟩ := y
            simp only [ht] at h
            obtain ⟨h1, h2⟩ := takeN_some ht
            split at h
            · simp at h; obtain ⟨_, hrr⟩ := h; subst hrr
              subst h1; simp [minSize] at *; omega
            · cases h
  | .seq m t, u, bs, v, r, h => by
    simp only [dec] at h
    cases hq : readLE 8 bs with
    | error e => simp [hq] at h
    | ok x =>
      obtain ⟨n, r1⟩ := x
      simp only [hq] at h
      have hl := readLE_len hq
      split at h
      · cases h
      · cases hb : m.bulk with
        | none =>
          simp only [hb] at h
          split at h
          · cases h
          · cases hr : repeatDec (dec cfg u t) n r1 with
            | error e => simp [hr] at h
            | ok y =>
              obtain ⟨l, r2⟩ := y
              simp only [hr, Except.ok.injEq, Prod.mk.injEq] at h
              obtain ⟨_, hrr⟩ := h; subst hrr
              have := (repeatDec_consumes (m := 0) (fun bs v r hh => by
                have := dec_consumes cfg t u bs v r hh; omega) n r1 l r2 hr).1
              simp [minSize]; omega
        | some pr =>
          obtain ⟨esz, al⟩ := pr
          simp only [hb] at h
          split at h
          · simp at h; obtain ⟨_, hrr⟩ := h; subst hrr; simp [minSize]; omega
          · split at h
            · split at h <;> cases h
            · split at h
              · cases h
              · split at h
                · cases h
                · cases hr : repeatDec (dec cfg true t) n r1 with
                  | error e => simp [hr] at h
                  | ok y =>
                    obtain ⟨l, r2⟩ := y
                    simp only [hr, Except.ok.injEq, Prod.mk.injEq] at h
                    obtain ⟨_, hrr⟩ := h; subst hrr
                    have := (repeatDec_consumes (m := 0) (fun bs v r hh => by
                      have := dec_consumes cfg t true bs v r hh; omega) n r1 l r2 hr).1
                    simp [minSize]; omega
  | .opt t, u, bs, v, r, h => by
    simp only [dec] at h
    cases hq : readLE 1 bs with
    | error e => simp [hq] at h
    | ok x =>
      obtain ⟨n, r1⟩ := x
      simp only [hq] at h
      have hl := readLE_len hq
      split at h
      · cases hd : dec cfg u t r1 with
        | error e => simp [hd] at h
        | ok y =>
          obtain ⟨v1, r2⟩ := y
          simp only [hd, Except.ok.injEq, Prod.mk.injEq] at h
          obtain ⟨_, hrr⟩ := h; subst hrr
          have := dec_consumes cfg t u r1 v1 r2 hd
          simp [minSize]; omega
      · simp at h; obtain ⟨_, hrr⟩ := h; subst hrr; simp [minSize]; omega
  | .res a b, u, bs, v, r, h => by
    simp only [dec] at h
    cases hq : readLE 1 bs with
    | error e => simp [hq] at h
    | ok x =>
      obtain ⟨n, r1⟩ := x
      simp only [hq] at h
      have hl := readLE_len hq
      split at h
      · cases hd : dec cfg u a r1 with
        | error e => simp [hd] at h
        | ok y =>
          obtain ⟨v1, r2⟩ := y
          simp only [hd, Except.ok.injEq, Prod.mk.injEq] at h
          obtain ⟨_, hrr⟩ := h; subst hrr
          have := dec_consumes cfg a u r1 v1 r2 hd
          simp [minSize]; omega
      · cases hd : dec cfg u b r1 with
        | error e => simp [hd] at h
        | ok y =>
          obtain ⟨v1, r2⟩ := y
          simp only [hd, Except.ok.injEq, Prod.mk.injEq] at h
          obtain ⟨_, hrr⟩ := h; subst hrr
          have := dec_consumes cfg b u r1 v1 r2 hd
          simp [minSize]; omega
  | .prod ts, u, bs, v, r, h => by
    simp only [dec] at h
    cases hd : decProd cfg u ts bs with
    | error e => simp [hd] at h
    | ok y =>
      obtain ⟨l, r2⟩ := y
      simp only [hd, Except.ok.injEq, Prod.mk.injEq] at h
      obtain ⟨_, hrr⟩ := h; subst hrr
      have := decProd_consumes cfg ts u bs l r2 hd
      simpa [minSize] using this
  | .rep n bulk t, u, bs, v, r, h => by
    cases bulk with
    | none =>
      simp only [dec] at h
      cases hr : repeatDec (dec cfg u t) n bs with
      | error e => simp [hr] at h
      | ok y =>
        obtain ⟨l, r2⟩ := y
        simp only [hr, Except.ok.injEq, Prod.mk.injEq] at h
        obtain ⟨_, hrr⟩ := h; subst hrr
        have := (repeatDec_consumes (m := minSize t) (fun bs v r hh => dec_consumes cfg t u bs v r hh) n bs l r2 hr).1
        simpa [minSize] using this
    | some esz =>
      simp only [dec] at h
      split at h
      · cases h
      · cases hr : repeatDec (dec cfg true t) n bs with
        | error e => simp [hr] at h
        | ok y =>
          obtain ⟨l, r2⟩ := y
          simp only [hr, Except.ok.injEq, Prod.mk.injEq] at h
          obtain ⟨_, hrr⟩ := h; subst hrr
          have := (repeatDec_consumes (m := minSize t) (fun bs v r hh => dec_consumes cfg t true bs v r hh) n bs l r2 hr).1
          simpa [minSize] using this
  | .tagged w alts, u, bs, v, r, h => by
    simp only [dec] at h
    cases hq : readLE w bs with
    | error e => simp [hq] at h
    | ok x =>
      obtain ⟨i, r1⟩ := x
      simp only [hq] at h
      have hl := readLE_len hq
      cases hd : decAlt cfg u alts i r1 with
      | error e => simp [hd] at h
      | ok y =>
        obtain ⟨v1, r2⟩ := y
        simp only [hd, Except.ok.injEq, Prod.mk.injEq] at h
        obtain ⟨_, hrr⟩ := h; subst hrr
        have := decAlt_consumes cfg alts u i r1 v1 r2 hd
        simp [minSize]; omega
  | .canary, u, bs, v, r, h => by
    simp only [dec] at h
    cases hq : readLE 4 bs with
    | error e => simp [hq] at h
    | ok x =>
      obtain ⟨n, r1⟩ := x
      simp only [hq] at h
      have := readLE_len hq
      split at h
      · simp at h; obtain ⟨_, hrr⟩ := h; subst hrr; simp [minSize]; omega
      · cases h
  | .sysTime, u, bs, v, r, h => by
    simp only [dec] at h
    cases hq : readLE 16 bs with
    | error e => simp [hq] at h
    | ok x =>
      obtain ⟨n, r1⟩ := x
      simp only [hq] at h
      have := readLE_len hq
      cases hc : sysTimeCanon n with
      | none => simp [hc] at h; split at h <;> cases h
      | some c => simp [hc] at h; obtain ⟨_, hrr⟩ := h; subst hrr; simp [minSize]; omega
theorem decProd_consumes (cfg : Cfg) : ∀ (ts : WL) (u : Bool) (bs : Bytes) (l : VL) (r : Bytes),
    decProd cfg u ts bs = .ok (l, r) → r.length + minSizeL ts ≤ bs.length
  | .nil, u, bs, l, r, h => by
    simp only [decProd, Except.ok.injEq, Prod.mk.injEq] at h
    obtain ⟨_, hrr⟩ := h; subst hrr; simp [minSizeL]
  | .cons t ts, u, bs, l, r, h => by
    simp only [decProd] at h
    cases hd : dec cfg u t bs with
    | error e => simp [hd] at h
    | ok y =>
      obtain ⟨v1, r1⟩ := y
      simp only [hd] at h
      cases hd2 : decProd cfg u ts r1 with
      | error e => simp [hd2] at h
      | ok z =>
        obtain ⟨vs, r2⟩ := z
        simp only [hd2, Except.ok.injEq, Prod.mk.injEq] at h
        obtain ⟨_, hrr⟩ := h; subst hrr
        have h1 := dec_consumes cfg t u bs v1 r1 hd
        have h2 := decProd_consumes cfg ts u r1 vs r2 hd2
        simp [minSizeL]; omega
theorem decAlt_consumes (cfg : Cfg) : ∀ (alts : WL) (u : Bool) (i : Nat) (bs : Bytes) (v : V) (r : Bytes),
    decAlt cfg u alts i bs = .ok (v, r) → r.length ≤ bs.length
  | .nil, u, i, bs, v, r, h => by
    simp only [decAlt] at h; split at h <;> cases h
  | .cons t _, u, 0, bs, v, r, h => by
    simp only [decAlt] at h
    have := dec_consumes cfg t u bs v r h; omega
  | .cons _ ts, u, i+1, bs, v, r, h => by
    simp only [decAlt] at h
    exact decAlt_consumes cfg ts u i bs v r h
end

/-- a decoded sequence of `n` elements of minimal encoded size `minSize t` consumed at least
    `8 + n * minSize t` bytes: it never claims more elements than the input could have encoded -/
theorem seq_count_bound (cfg : Cfg) (m : SeqMode) (t : W) (u : Bool) (bs : Bytes) (l : VL) (r : Bytes)
    (h : dec cfg u (.seq m t) bs = .ok (.seq l, r)) :
    r.length + 8 + l.length * minSize t ≤ bs.length := by
  simp only [dec] at h
  cases hq : readLE 8 bs with
  | error e => simp [hq] at h
  | ok x =>
    obtain ⟨n, r1⟩ := x
    simp only [hq] at h
    have hl := readLE_len hq
    split at h
    · cases h
    · cases hb : m.bulk with
      | none =>
        simp only [hb] at h
        split at h
        · cases h
        · cases hr : repeatDec (dec cfg u t) n r1 with
          | error e => simp [hr] at h
          | ok y =>
            obtain ⟨l', r2⟩ := y
            simp only [hr, Except.ok.injEq, Prod.mk.injEq, V.seq.injEq] at h
            obtain ⟨hll, hrr⟩ := h; subst hll; subst hrr
            have ⟨h1, h2⟩ := repeatDec_consumes (m := minSize t) (fun bs v r hh => dec_consumes cfg t u bs v r hh) n r1 l' r2 hr
            rw [h2]; omega
      | some pr =>
        obtain ⟨esz, al⟩ := pr
        simp only [hb] at h
        split at h
        · simp at h; obtain ⟨hll, hrr⟩ := h; subst hll; subst hrr; simp [VL.length]; omega
        · split at h
          · split at h <;> cases h
          · split at h
            · cases h
            · split at h
              · cases h
              · cases hr : repeatDec (dec cfg true t) n r1 with
                | error e => simp [hr] at h
                | ok y =>
                  obtain ⟨l', r2⟩ := y
                  simp only [hr, Except.ok.injEq, Prod.mk.injEq, V.seq.injEq] at h
                  obtain ⟨hll, hrr⟩ := h; subst hll; subst hrr
                  have ⟨h1, h2⟩ := repeatDec_consumes (m := minSize t) (fun bs v r hh => dec_consumes cfg t true bs v r hh) n r1 l' r2 hr
                  rw [h2]; omega

end Sfv
