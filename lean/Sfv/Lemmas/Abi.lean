/-
  Sfv.Lemmas.Abi — `verify_backward_compatible` characterised; the ledger over successive runs.
-/
import Sfv.Model.Abi
import Sfv.Lemmas.SchemaDiff
import Sfv.Lemmas.SchemaRt
import Sfv.Lemmas.SchemaMisc
import Sfv.Lemmas.Container
namespace Sfv

/-- a property of every method of a list -/
def MethodL.AllP (P : Bytes → Schema → Bool → SchemaL → Prop) : MethodL → Prop
  | .nil => True
  | .cons n ret _ asy args rest => P n ret asy args ∧ MethodL.AllP P rest

def MethodL.names : MethodL → List Bytes
  | .nil => []
  | .cons n _ _ _ _ rest => n :: rest.names

def MethodL.app : MethodL → MethodL → MethodL
  | .nil, b => b
  | .cons n ret rc asy args rest, b => .cons n ret rc asy args (rest.app b)

/-- what `verify_backward_compatible` demands of the new definition for one recorded method -/
def Kept (retPos : Option Bool) (newMs : MethodL) (rp : Bool) (n : Bytes) (ret : Schema) (asy : Bool) (args : SchemaL) : Prop :=
  ∃ sig, findMethod newMs n = some sig ∧ sig.isAsync = asy ∧ sig.args.length = args.length
    ∧ diff sig.ret ret (retPos.getD rp) = .same ∧ diffArgs sig.args args rp = .same

theorem vbc_andThen_ok {a b : VbcR} : a.andThen b = .ok ↔ a = .ok ∧ b = .ok := by
  cases a <;> cases b <;> simp [VbcR.andThen]

theorem ofDiff_ok {d : DiffR} : VbcR.ofDiff d = .ok ↔ d = .same := by
  cases d <;> simp [VbcR.ofDiff]

/-- acceptance, characterised: every recorded method still exists under its name, with the same async flag,
    the same number of arguments, and no differing return or argument type -/
theorem verifyMethods_ok_iff (retPos : Option Bool) (newMs : MethodL) (rp : Bool) : ∀ (oldMs : MethodL),
    verifyMethods retPos newMs oldMs rp = .ok ↔ oldMs.AllP (Kept retPos newMs rp)
  | .nil => by simp [verifyMethods, MethodL.AllP]
  | .cons n ret rc asy args rest => by
    have ih := verifyMethods_ok_iff retPos newMs rp rest
    simp only [verifyMethods, MethodL.AllP]
    cases hf : findMethod newMs n with
    | none =>
      simp only
      constructor
      · intro h; cases h
      · rintro ⟨⟨sig, h1, _⟩, _⟩
        rw [hf] at h1; cases h1
    | some sig =>
      simp only
      by_cases h1 : sig.isAsync ≠ asy
      · rw [if_pos h1]
        constructor
        · intro h; cases h
        · rintro ⟨⟨sig', e1, e2, _⟩, _⟩
          rw [hf] at e1
          simp only [Option.some.injEq] at e1
          subst e1
          exact absurd e2 h1
      · rw [if_neg h1]
        by_cases h2 : sig.args.length ≠ args.length
        · rw [if_pos h2]
          constructor
          · intro h; cases h
          · rintro ⟨⟨sig', e1, _, e3, _⟩, _⟩
            rw [hf] at e1
            simp only [Option.some.injEq] at e1
            subst e1
            exact absurd e3 h2
        · rw [if_neg h2]
          simp only [vbc_andThen_ok, ofDiff_ok, ih]
          constructor
          · rintro ⟨⟨d1, d2⟩, hr⟩
            exact ⟨⟨sig, hf, by simpa using h1, by simpa using h2, d1, d2⟩, hr⟩
          · rintro ⟨⟨sig', e1, _, _, d1, d2⟩, hr⟩
            rw [hf] at e1
            simp only [Option.some.injEq] at e1
            subst e1
            exact ⟨⟨d1, d2⟩, hr⟩

/-! ### reflexivity: an unchanged definition is accepted -/

def dataSL : SchemaL → Bool
  | .nil => true
  | .cons s rest => dataS s && dataSL rest

/-- methods whose return and argument types are plain data -/
def dataM : MethodL → Bool
  | .nil => true
  | .cons _ ret _ _ args rest => dataS ret && dataSL args && dataM rest

/-- a return type: plain data, or a boxed future of plain data (what an async method returns) -/
def plainRet : Schema → Bool
  | .future (.mk _ ms _ _) _ _ _ => dataM ms && decide ms.names.Nodup
  | s => dataS s

def plainM : MethodL → Bool
  | .nil => true
  | .cons _ ret _ _ args rest => plainRet ret && dataSL args && plainM rest

theorem diffArgs_refl : ∀ (l : SchemaL) (rp : Bool), dataSL l = true → diffArgs l l rp = .same
  | .nil, _, _ => by simp [diffArgs]
  | .cons s rest, rp, h => by
    simp only [dataSL, Bool.and_eq_true] at h
    have h1 : diff s s rp = .same := by
      have := (diff_iff_shapeEq s s rp h.1 h.1).mpr (shapeEq_refl s h.1)
      exact this
    simp only [diffArgs, h1, DiffR.andThen, diffArgs_refl rest rp h.2]

theorem findMethodArgs_cons_ne (n n' : Bytes) (ret : Schema) (rc : Nat) (asy : Bool) (args : SchemaL) (rest : MethodL)
    (h : n ≠ n') : findMethodArgs (.cons n ret rc asy args rest) n' = findMethodArgs rest n' := by
  simp [findMethodArgs, h]

theorem findMethodRet_cons_ne (n n' : Bytes) (ret : Schema) (rc : Nat) (asy : Bool) (args : SchemaL) (rest : MethodL)
    (h : n ≠ n') : findMethodRet (.cons n ret rc asy args rest) n' = findMethodRet rest n' := by
  simp [findMethodRet, h]

/-- `diff_abi_def` of a definition with itself, method names distinct -/
theorem diffMethods_refl_aux (full : MethodL) (rp : Bool) : ∀ (sub : MethodL), dataM sub = true → sub.names.Nodup →
    (∀ n ∈ sub.names, findMethodArgs full n = findMethodArgs sub n) →
    (∀ n ∈ sub.names, findMethodRet full n = findMethodRet sub n) → diffMethods sub full rp = .same
  | .nil, _, _, _, _ => by simp [diffMethods]
  | .cons n ret rc asy args rest, hd, hn, hl, hr => by
    simp only [dataM, Bool.and_eq_true] at hd
    simp only [MethodL.names, List.nodup_cons] at hn
    have hhead : findMethodArgs full n = some args := by
      rw [hl n (by simp [MethodL.names])]; simp [findMethodArgs]
    have hheadr : findMethodRet full n = some ret := by
      rw [hr n (by simp [MethodL.names])]; simp [findMethodRet]
    have htail : ∀ n' ∈ rest.names, findMethodArgs full n' = findMethodArgs rest n' := by
      intro n' hn'
      rw [hl n' (by simp [MethodL.names, hn'])]
      exact findMethodArgs_cons_ne n n' ret rc asy args rest (fun e => hn.1 (e ▸ hn'))
    have htailr : ∀ n' ∈ rest.names, findMethodRet full n' = findMethodRet rest n' := by
      intro n' hn'
      rw [hr n' (by simp [MethodL.names, hn'])]
      exact findMethodRet_cons_ne n n' ret rc asy args rest (fun e => hn.1 (e ▸ hn'))
    have hret : diff ret ret true = .same := (diff_iff_shapeEq ret ret true hd.1.1 hd.1.1).mpr (shapeEq_refl ret hd.1.1)
    simp only [diffMethods, hhead, hheadr]
    simp [diffArgs_refl args rp hd.1.2, hret, DiffR.andThen, diffMethods_refl_aux full rp rest hd.2 hn.2 htail htailr]

theorem diff_refl_plainRet (s : Schema) (h : plainRet s = true) : diff s s true = .same := by
  cases s with
  | future d se sy un =>
    cases d with
    | mk name ms sync send =>
      simp only [plainRet, Bool.and_eq_true, decide_eq_true_eq] at h
      simp only [diff, Bool.not_true, Bool.false_eq_true, if_false, Bool.and_not_self, Bool.or_self, diffDef]
      exact diffMethods_refl_aux ms true ms h.1 h.2 (fun _ _ => rfl) (fun _ _ => rfl)
  | _ =>
    all_goals first
      | (simp only [plainRet] at h
         exact (diff_iff_shapeEq _ _ true h h).mpr (shapeEq_refl _ h))

theorem findMethod_cons_ne (n n' : Bytes) (ret : Schema) (rc : Nat) (asy : Bool) (args : SchemaL) (rest : MethodL)
    (h : n ≠ n') : findMethod (.cons n ret rc asy args rest) n' = findMethod rest n' := by
  simp [findMethod, h]

theorem kept_refl_aux (full : MethodL) (rp : Bool) : ∀ (sub : MethodL), plainM sub = true → sub.names.Nodup →
    (∀ n ∈ sub.names, findMethod full n = findMethod sub n) → sub.AllP (Kept (some true) full rp)
  | .nil, _, _, _ => trivial
  | .cons n ret rc asy args rest, hp, hn, hl => by
    simp only [plainM, Bool.and_eq_true] at hp
    simp only [MethodL.names, List.nodup_cons] at hn
    refine ⟨⟨{ ret := ret, receiver := rc, isAsync := asy, args := args }, ?_, rfl, rfl, ?_, ?_⟩, ?_⟩
    · rw [hl n (by simp [MethodL.names])]; simp [findMethod]
    · exact diff_refl_plainRet ret hp.1.1
    · exact diffArgs_refl args rp hp.1.2
    · apply kept_refl_aux full rp rest hp.2 hn.2
      intro n' hn'
      rw [hl n' (by simp [MethodL.names, hn'])]
      exact findMethod_cons_ne n n' ret rc asy args rest (fun e => hn.1 (e ▸ hn'))

/-- an interface definition in which every method has a distinct name, plain argument types, and returns plain
    data or a future of plain data -/
def plainDef : TraitDef → Bool
  | .mk _ ms _ _ => plainM ms && decide ms.names.Nodup

theorem vbc_refl (d : TraitDef) (rp : Bool) (h : plainDef d = true) :
    verifyBackwardCompatible (some true) d d rp = .ok := by
  cases d with
  | mk name ms sync send =>
    simp only [plainDef, Bool.and_eq_true, decide_eq_true_eq] at h
    simp only [verifyBackwardCompatible]
    have h1 : ¬ ((rp && ((!sync && sync) || (!send && send))) = true) := by cases rp <;> cases sync <;> cases send <;> simp
    have h2 : ¬ ((!rp && ((sync && !sync) || (send && !send))) = true) := by cases rp <;> cases sync <;> cases send <;> simp
    simp only [h1, h2, if_false]
    exact (verifyMethods_ok_iff (some true) ms rp ms).mpr (kept_refl_aux ms rp ms h.1 h.2 (fun _ _ => rfl))

/-! ### the ledger -/

theorem decDefFile_encDefFile (cfg : Cfg) (d : TraitDef) (hw : wfD cfg d = true) :
    decDefFile cfg 2 (encDefFile 2 d) = some d := by
  unfold decDefFile encDefFile
  rw [decHeader_encHeader { lib := currentLibVersion, ver := 2, compressed := false } 2 (encDef 2 d)
    (Nat.le_refl _) (Nat.le_refl _) (by decide)]
  simp only [Bool.false_eq_true, if_false]
  have := def_rt cfg 2 d ((encDef 2 d).length + 2) [] hw (by have := sizeD_le_enc 2 d; omega)
  rw [List.append_nil] at this
  rw [this, normD_ge2 2 (Nat.le_refl _)]

/-- the files a first run writes for versions `v0, …, v0 + n - 1` -/
def newFiles (defs : Nat → TraitDef) (v0 : Nat) : Nat → List (Nat × Bytes)
  | 0 => []
  | n + 1 => (v0, encDefFile 2 (defs v0)) :: newFiles defs (v0 + 1) n

theorem lookup_append_ne (files : List (Nat × Bytes)) (v w : Nat) (b : Bytes) (h : v ≠ w) :
    (files ++ [(w, b)]).lookup v = files.lookup v := by
  induction files with
  | nil =>
    have : (v == w) = false := by simpa using h
    simp [List.lookup, this]
  | cons x xs ih =>
    obtain ⟨k, c⟩ := x
    simp only [List.cons_append, List.lookup]
    cases (v == k) <;> simp [ih]

theorem lookup_append_self (files : List (Nat × Bytes)) (v : Nat) (b : Bytes) (h : files.lookup v = none) :
    (files ++ [(v, b)]).lookup v = some b := by
  induction files with
  | nil => simp [List.lookup]
  | cons x xs ih =>
    obtain ⟨k, c⟩ := x
    simp only [List.cons_append, List.lookup] at h ⊢
    cases hk : (v == k) with
    | true => simp [hk] at h
    | false =>
      simp only [hk] at h ⊢
      exact ih h

theorem lookup_append_some (l m : List (Nat × Bytes)) (v : Nat) (b : Bytes) (h : l.lookup v = some b) :
    (l ++ m).lookup v = some b := by
  induction l with
  | nil => simp [List.lookup] at h
  | cons x xs ih =>
    obtain ⟨k, c⟩ := x
    simp only [List.cons_append, List.lookup] at h ⊢
    cases hk : (v == k) with
    | true => simpa [hk] using h
    | false =>
      simp only [hk] at h ⊢
      exact ih h

/-- first run on a directory that has none of the versions: every version is recorded, nothing is compared -/
theorem ledgerRun_fresh (cfg : Cfg) (retPos : Option Bool) (defs : Nat → TraitDef) : ∀ (n v0 : Nat) (files : List (Nat × Bytes)),
    (∀ v, v0 ≤ v → files.lookup v = none) →
    ledgerRun cfg retPos 2 2 defs n v0 files = (files ++ newFiles defs v0 n, .ok)
  | 0, v0, files, _ => by simp [ledgerRun, newFiles]
  | n + 1, v0, files, h => by
    simp only [ledgerRun, h v0 (Nat.le_refl _), newFiles]
    rw [ledgerRun_fresh cfg retPos defs n (v0 + 1) (files ++ [(v0, encDefFile 2 (defs v0))])]
    · simp
    · intro v hv
      rw [lookup_append_ne _ _ _ _ (by omega)]
      exact h v (by omega)

/-- a later run over a directory that records exactly the current definitions: accepted, nothing rewritten -/
theorem ledgerRun_recorded (cfg : Cfg) (defs : Nat → TraitDef) : ∀ (n v0 : Nat) (files : List (Nat × Bytes)),
    (∀ v, v0 ≤ v → v < v0 + n → files.lookup v = some (encDefFile 2 (defs v)) ∧ wfD cfg (defs v) = true ∧ plainDef (defs v) = true) →
    ledgerRun cfg (some true) 2 2 defs n v0 files = (files, .ok)
  | 0, v0, files, _ => by simp [ledgerRun]
  | n + 1, v0, files, h => by
    obtain ⟨h1, h2, h3⟩ := h v0 (Nat.le_refl _) (by omega)
    simp only [ledgerRun, h1, decDefFile_encDefFile cfg _ h2, vbc_refl _ false h3]
    exact ledgerRun_recorded cfg defs n (v0 + 1) files (fun v hv hv' => h v (by omega) (by omega))

theorem lookup_newFiles (defs : Nat → TraitDef) : ∀ (n v0 v : Nat) (pre : List (Nat × Bytes)),
    (∀ w, v0 ≤ w → pre.lookup w = none) → v0 ≤ v → v < v0 + n →
    (pre ++ newFiles defs v0 n).lookup v = some (encDefFile 2 (defs v))
  | 0, v0, v, _, _, h1, h2 => by omega
  | n + 1, v0, v, pre, hp, h1, h2 => by
    simp only [newFiles]
    by_cases hv : v = v0
    · subst hv
      have : pre ++ (v, encDefFile 2 (defs v)) :: newFiles defs (v + 1) n
          = (pre ++ [(v, encDefFile 2 (defs v))]) ++ newFiles defs (v + 1) n := by simp
      rw [this]
      exact lookup_append_some _ _ _ _ (lookup_append_self pre v (encDefFile 2 (defs v)) (hp v (Nat.le_refl _)))
    · have : pre ++ (v0, encDefFile 2 (defs v0)) :: newFiles defs (v0 + 1) n
          = (pre ++ [(v0, encDefFile 2 (defs v0))]) ++ newFiles defs (v0 + 1) n := by simp
      rw [this]
      apply lookup_newFiles defs n (v0 + 1) v
      · intro w hw
        rw [lookup_append_ne _ _ _ _ (by omega)]
        exact hp w (by omega)
      · omega
      · omega

/-! ### compatible evolution: methods may be added -/

theorem findMethod_app_left : ∀ (a b : MethodL) (n : Bytes) (sig : MethodSig),
    findMethod a n = some sig → findMethod (a.app b) n = some sig
  | .nil, _, _, _, h => by simp [findMethod] at h
  | .cons m ret rc asy args rest, b, n, sig, h => by
    simp only [findMethod, MethodL.app] at h ⊢
    split
    · rename_i e; simp only [e, if_true] at h; exact h
    · rename_i e; simp only [e, if_false] at h; exact findMethod_app_left rest b n sig h

theorem allP_mono {P Q : Bytes → Schema → Bool → SchemaL → Prop} (hpq : ∀ n r a g, P n r a g → Q n r a g) :
    ∀ (ms : MethodL), ms.AllP P → ms.AllP Q
  | .nil, _ => trivial
  | .cons n ret _ asy args rest, h => ⟨hpq _ _ _ _ h.1, allP_mono hpq rest h.2⟩

/-- methods added behind the recorded ones do not disturb acceptance -/
theorem verifyMethods_app (retPos : Option Bool) (newMs extra oldMs : MethodL) (rp : Bool)
    (h : verifyMethods retPos newMs oldMs rp = .ok) : verifyMethods retPos (newMs.app extra) oldMs rp = .ok := by
  rw [verifyMethods_ok_iff] at h ⊢
  refine allP_mono ?_ oldMs h
  rintro n r a g ⟨sig, h1, h2⟩
  exact ⟨sig, findMethod_app_left newMs extra n sig h1, h2⟩

end Sfv
