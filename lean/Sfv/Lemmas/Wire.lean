import Sfv.Model.WireWf
import Sfv.Lemmas.Bytes
namespace Sfv

theorem map_some' {α β} {o : Option α} {f : α → β} {b : β} (h : o.map f = some b) :
    ∃ a, o = some a ∧ f a = b := by
  cases o with
  | none => simp at h
  | some a => exact ⟨a, rfl, by simpa using h⟩

theorem match2_some {α β γ} {x : Option α} {y : Option β} {f : α → β → γ} {c : γ}
    (h : (match x, y with | some a, some b => some (f a b) | _, _ => none) = some c) :
    ∃ a b, x = some a ∧ y = some b ∧ f a b = c := by
  cases x <;> cases y <;> simp at h
  exact ⟨_, _, rfl, rfl, h⟩

theorem cat2_some {x y : Option Bytes} {c : Bytes} (h : cat2 x y = some c) :
    ∃ a b, x = some a ∧ y = some b ∧ a ++ b = c := by
  cases x <;> cases y <;> simp [cat2] at h
  exact ⟨_, _, rfl, rfl, h⟩

theorem add2_some {x y : Option Nat} {c : Nat} (h : add2 x y = some c) :
    ∃ a b, x = some a ∧ y = some b ∧ a + b = c := by
  cases x <;> cases y <;> simp [add2] at h
  exact ⟨_, _, rfl, rfl, h⟩

theorem validChar_lt {n : Nat} (h : validChar n = true) : n < 256 ^ 4 := by
  unfold validChar at h
  simp at h
  omega

/-! ### encoded size of fixed-size grammars -/

mutual
theorem enc_size : ∀ (w : W) (v : V) (bs : Bytes) (k : Nat),
    enc w v = some bs → fixedSize w = some k → bs.length = k
  | .fixed k', .num n, bs, k, h, hk => by
    simp only [enc] at h
    split at h
    · cases h; simp [fixedSize] at hk; subst hk; exact leBytes_length _ _
    · cases h
  | .bool, .num n, bs, k, h, hk => by
    simp only [enc] at h
    split at h
    · cases h; simp [fixedSize] at hk; subst hk; rfl
    · cases h
  | .char, .num n, bs, k, h, hk => by
    simp only [enc] at h
    split at h
    · cases h; simp [fixedSize] at hk; subst hk; exact leBytes_length _ _
    · cases h
  | .prod ts, .tup l, bs, k, h, hk => by
    simp only [enc] at h
    simp only [fixedSize] at hk
    exact encProd_size ts l bs k h hk
  | .rep n b t, .tup l, bs, k, h, hk => by
    simp only [enc] at h
    split at h
    · next hl =>
      simp only [fixedSize] at hk
      obtain ⟨s, hs, rfl⟩ := map_some' hk
      have := encAll_size t l bs s h hs
      rw [this, hl, Nat.mul_comm]
    · cases h
  | .tagged w alts, .alt i v, bs, k, h, hk => by
    simp only [enc] at h
    split at h
    · next hi =>
      obtain ⟨a, ha, rfl⟩ := map_some' h
      cases alts with
      | nil => simp [fixedSize] at hk
      | cons t ts =>
        simp only [fixedSize] at hk
        split at hk
        · cases hk
        · next s hs =>
          split at hk
          · next hall =>
            cases hk
            have hall' : allSize s (.cons t ts) = true := by
              simp [allSize, hs, hall]
            have := encAlt_size (.cons t ts) i v a s ha hall'
            simp [leBytes_length, this]
          · cases hk
    · cases h
  | .canary, .tup .nil, bs, k, h, hk => by
    simp only [enc] at h; cases h; simp [fixedSize] at hk; subst hk; exact leBytes_length _ _
  | .sysTime, .num n, bs, k, h, hk => by
    simp only [enc] at h
    split at h
    · cases h; simp [fixedSize] at hk; subst hk; exact leBytes_length _ _
    · cases h
  | .str _, _, _, _, _, hk | .seq _ _, _, _, _, _, hk | .opt _, _, _, _, _, hk
  | .res _ _, _, _, _, _, hk => by simp [fixedSize] at hk
  | .fixed _, .bytes _, _, _, h, _ | .fixed _, .seq _, _, _, h, _ | .fixed _, .none, _, _, h, _
  | .fixed _, .some _, _, _, h, _ | .fixed _, .tup _, _, _, h, _ | .fixed _, .alt _ _, _, _, h, _
  | .bool, .bytes _, _, _, h, _ | .bool, .seq _, _, _, h, _ | .bool, .none, _, _, h, _
  | .bool, .some _, _, _, h, _ | .bool, .tup _, _, _, h, _ | .bool, .alt _ _, _, _, h, _
  | .char, .bytes _, _, _, h, _ | .char, .seq _, _, _, h, _ | .char, .none, _, _, h, _
  | .char, .some _, _, _, h, _ | .char, .tup _, _, _, h, _ | .char, .alt _ _, _, _, h, _
  | .prod _, .num _, _, _, h, _ | .prod _, .bytes _, _, _, h, _ | .prod _, .seq _, _, _, h, _
  | .prod _, .none, _, _, h, _ | .prod _, .some _, _, _, h, _ | .prod _, .alt _ _, _, _, h, _
  | .rep _ _ _, .num _, _, _, h, _ | .rep _ _ _, .bytes _, _, _, h, _ | .rep _ _ _, .seq _, _, _, h, _
  | .rep _ _ _, .none, _, _, h, _ | .rep _ _ _, .some _, _, _, h, _ | .rep _ _ _, .alt _ _, _, _, h, _
  | .tagged _ _, .num _, _, _, h, _ | .tagged _ _, .bytes _, _, _, h, _ | .tagged _ _, .seq _, _, _, h, _
  | .tagged _ _, .none, _, _, h, _ | .tagged _ _, .some _, _, _, h, _ | .tagged _ _, .tup _, _, _, h, _
  | .canary, .num _, _, _, h, _ | .canary, .bytes _, _, _, h, _ | .canary, .seq _, _, _, h, _
  | .canary, .none, _, _, h, _ | .canary, .some _, _, _, h, _ | .canary, .alt _ _, _, _, h, _
  | .canary, .tup (.cons _ _), _, _, h, _
  | .sysTime, .bytes _, _, _, h, _ | .sysTime, .seq _, _, _, h, _ | .sysTime, .none, _, _, h, _
  | .sysTime, .some _, _, _, h, _ | .sysTime, .tup _, _, _, h, _ | .sysTime, .alt _ _, _, _, h, _ => by
    simp [enc] at h
theorem encAll_size : ∀ (t : W) (l : VL) (bs : Bytes) (k : Nat),
    encAll t l = some bs → fixedSize t = some k → bs.length = k * l.length
  | t, .nil, bs, k, h, _ => by simp only [encAll] at h; cases h; simp [VL.length]
  | t, .cons v vs, bs, k, h, hk => by
    simp only [encAll] at h
    obtain ⟨a, b, ha, hb, rfl⟩ := cat2_some h
    have h1 := enc_size t v a k ha hk
    have h2 := encAll_size t vs b k hb hk
    simp [VL.length, h1, h2, Nat.mul_add]; omega
theorem encProd_size : ∀ (ts : WL) (l : VL) (bs : Bytes) (k : Nat),
    encProd ts l = some bs → fixedSizeL ts = some k → bs.length = k
  | .nil, .nil, bs, k, h, hk => by
    simp only [encProd] at h; cases h; simp [fixedSizeL] at hk; subst hk; rfl
  | .cons t ts, .cons v vs, bs, k, h, hk => by
    simp only [encProd] at h
    obtain ⟨a, b, ha, hb, rfl⟩ := cat2_some h
    simp only [fixedSizeL] at hk
    obtain ⟨ka, kb, hka, hkb, rfl⟩ := add2_some hk
    have h1 := enc_size t v a ka ha hka
    have h2 := encProd_size ts vs b kb hb hkb
    simp [h1, h2]
  | .nil, .cons _ _, _, _, h, _ | .cons _ _, .nil, _, _, h, _ => by simp [encProd] at h
theorem encAlt_size : ∀ (alts : WL) (i : Nat) (v : V) (bs : Bytes) (s : Nat),
    encAlt alts i v = some bs → allSize s alts = true → bs.length = s
  | .nil, _, _, _, _, h, _ => by simp [encAlt] at h
  | .cons t _, 0, v, bs, s, h, hall => by
    simp only [encAlt] at h
    simp [allSize] at hall
    exact enc_size t v bs s h hall.1
  | .cons _ ts, i+1, v, bs, s, h, hall => by
    simp only [encAlt] at h
    simp [allSize] at hall
    exact encAlt_size ts i v bs s h hall.2
end

end Sfv
