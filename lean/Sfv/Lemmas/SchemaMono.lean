/-
  Sfv.Lemmas.SchemaMono — the schema reader does not look beyond what it consumes: a successful read stays the
  same read when bytes are appended (and when more fuel is given).
-/
import Sfv.Model.Schema
import Sfv.Lemmas.Bytes
namespace Sfv

theorem readStr_mono {cfg : Cfg} {bs r : Bytes} {x : Bytes} (s : Bytes) (h : readStr cfg bs = .ok (x, r)) :
    readStr cfg (bs ++ s) = .ok (x, r ++ s) := by
  unfold readStr at h ⊢
  split at h
  · cases h
  · next n r1 hx =>
    rw [readLE_mono s hx]
    simp only
    split at h
    · cases h
    · rename_i hsan
      simp only [hsan, if_false]
      split at h
      · cases h
      · next b r' ht =>
        rw [takeN_mono s ht]
        simp only
        split at h
        · rename_i hu
          simp only [Except.ok.injEq, Prod.mk.injEq] at h
          obtain ⟨h1, h2⟩ := h
          subst h1; subst h2
          simp [hu]
        · cases h

theorem readOptNat_mono {bs r : Bytes} {x : Option Nat} (s : Bytes) (h : readOptNat bs = .ok (x, r)) :
    readOptNat (bs ++ s) = .ok (x, r ++ s) := by
  unfold readOptNat at h ⊢
  split at h
  · cases h
  · next t r1 hx =>
    rw [readLE_mono s hx]
    simp only
    split at h
    · rename_i ht
      simp only [ht, if_true]
      split at h
      · cases h
      · next n r' hn =>
        rw [readLE_mono s hn]
        simp only [Except.ok.injEq, Prod.mk.injEq] at h ⊢
        exact ⟨h.1, by rw [h.2]⟩
    · rename_i ht
      simp only [ht, if_false]
      simp only [Except.ok.injEq, Prod.mk.injEq] at h ⊢
      exact ⟨h.1, by rw [h.2]⟩

theorem readBool_mono {bs r : Bytes} {x : Bool} (s : Bytes) (h : readBool bs = .ok (x, r)) :
    readBool (bs ++ s) = .ok (x, r ++ s) := by
  unfold readBool at h ⊢
  split at h
  · cases h
  · next t r1 hx =>
    rw [readLE_mono s hx]
    simp only [Except.ok.injEq, Prod.mk.injEq] at h ⊢
    exact ⟨h.1, by rw [h.2]⟩

theorem primOfCode_mono {cfg : Cfg} {v c : Nat} {bs r : Bytes} {x : SPrim} (s : Bytes)
    (h : primOfCode cfg v c bs = .ok (x, r)) : primOfCode cfg v c (bs ++ s) = .ok (x, r ++ s) := by
  unfold primOfCode at h ⊢
  split at h <;> try (simp only [Except.ok.injEq, Prod.mk.injEq] at h ⊢; exact ⟨h.1, by rw [h.2]⟩)
  · split at h
    · rename_i hv
      simp only [hv, if_true]
      split at h
      · cases h
      · next l r' hl =>
        rw [readLE_mono s hl]
        simp only [Except.ok.injEq, Prod.mk.injEq] at h ⊢
        exact ⟨h.1, by rw [h.2]⟩
    · rename_i hv
      simp only [hv, if_false]
      simp only [Except.ok.injEq, Prod.mk.injEq] at h ⊢
      exact ⟨h.1, by rw [h.2]⟩
  · cases h

/-- all six readers at fuel `f`: success is stable under appended bytes and under more fuel -/
def SMono (cfg : Cfg) (v : Nat) (s : Bytes) (f : Nat) : Prop :=
  (∀ bs x r, decSchema cfg v f bs = .ok (x, r) → ∀ f', f ≤ f' → decSchema cfg v f' (bs ++ s) = .ok (x, r ++ s))
  ∧ (∀ n bs x r, decFields cfg v f n bs = .ok (x, r) → ∀ f', f ≤ f' → decFields cfg v f' n (bs ++ s) = .ok (x, r ++ s))
  ∧ (∀ n bs x r, decVariants cfg v f n bs = .ok (x, r) → ∀ f', f ≤ f' → decVariants cfg v f' n (bs ++ s) = .ok (x, r ++ s))
  ∧ (∀ bs x r, decDef cfg v f bs = .ok (x, r) → ∀ f', f ≤ f' → decDef cfg v f' (bs ++ s) = .ok (x, r ++ s))
  ∧ (∀ n bs x r, decMethods cfg v f n bs = .ok (x, r) → ∀ f', f ≤ f' → decMethods cfg v f' n (bs ++ s) = .ok (x, r ++ s))
  ∧ (∀ n bs x r, decSchemaL cfg v f n bs = .ok (x, r) → ∀ f', f ≤ f' → decSchemaL cfg v f' n (bs ++ s) = .ok (x, r ++ s))

/- one `match X with | .error e => .error e | .ok (a, r) => …` layer: the error branch contradicts `h`, the
   success branch rewrites the goal with the monotonicity of `X` -/
set_option hygiene false in
local macro "bindstep " lem:term : tactic => `(tactic| (
  split at h
  cases h
  rename_i _a _r hx
  rw [$lem hx]
  simp only))

set_option hygiene false in
local macro "finish" : tactic => `(tactic| (
  simp only [Except.ok.injEq, Prod.mk.injEq] at h
  obtain ⟨h1, h2⟩ := h
  subst h1; subst h2; rfl))

theorem smono_zero (cfg : Cfg) (v : Nat) (s : Bytes) : SMono cfg v s 0 := by
  refine ⟨?_, ?_, ?_, ?_, ?_, ?_⟩
  · intro bs x r h; simp [decSchema] at h
  · intro n bs x r h f' _
    cases n with
    | zero =>
      simp only [decFields, Except.ok.injEq, Prod.mk.injEq] at h
      obtain ⟨h1, h2⟩ := h; subst h1; subst h2
      cases f' <;> simp [decFields]
    | succ n => simp [decFields] at h
  · intro n bs x r h f' _
    cases n with
    | zero =>
      simp only [decVariants, Except.ok.injEq, Prod.mk.injEq] at h
      obtain ⟨h1, h2⟩ := h; subst h1; subst h2
      cases f' <;> simp [decVariants]
    | succ n => simp [decVariants] at h
  · intro bs x r h; simp [decDef] at h
  · intro n bs x r h f' _
    cases n with
    | zero =>
      simp only [decMethods, Except.ok.injEq, Prod.mk.injEq] at h
      obtain ⟨h1, h2⟩ := h; subst h1; subst h2
      cases f' <;> simp [decMethods]
    | succ n => simp [decMethods] at h
  · intro n bs x r h f' _
    cases n with
    | zero =>
      simp only [decSchemaL, Except.ok.injEq, Prod.mk.injEq] at h
      obtain ⟨h1, h2⟩ := h; subst h1; subst h2
      cases f' <;> simp [decSchemaL]
    | succ n => simp [decSchemaL] at h

/-- the six facts at inner fuel `g` → `g'`, in the form the proofs below rewrite with -/
structure MonoAt (cfg : Cfg) (v : Nat) (s : Bytes) (g g' : Nat) : Prop where
  S : ∀ {bs x r}, decSchema cfg v g bs = .ok (x, r) → decSchema cfg v g' (bs ++ s) = .ok (x, r ++ s)
  F : ∀ {n bs x r}, decFields cfg v g n bs = .ok (x, r) → decFields cfg v g' n (bs ++ s) = .ok (x, r ++ s)
  V : ∀ {n bs x r}, decVariants cfg v g n bs = .ok (x, r) → decVariants cfg v g' n (bs ++ s) = .ok (x, r ++ s)
  D : ∀ {bs x r}, decDef cfg v g bs = .ok (x, r) → decDef cfg v g' (bs ++ s) = .ok (x, r ++ s)
  M : ∀ {n bs x r}, decMethods cfg v g n bs = .ok (x, r) → decMethods cfg v g' n (bs ++ s) = .ok (x, r ++ s)
  L : ∀ {n bs x r}, decSchemaL cfg v g n bs = .ok (x, r) → decSchemaL cfg v g' n (bs ++ s) = .ok (x, r ++ s)

theorem monoAt_of {cfg : Cfg} {v : Nat} {s : Bytes} {g g' : Nat} (ih : SMono cfg v s g) (hge : g ≤ g') : MonoAt cfg v s g g' :=
  ⟨fun h => ih.1 _ _ _ h g' hge, fun h => ih.2.1 _ _ _ _ h g' hge, fun h => ih.2.2.1 _ _ _ _ h g' hge,
   fun h => ih.2.2.2.1 _ _ _ h g' hge, fun h => ih.2.2.2.2.1 _ _ _ _ h g' hge, fun h => ih.2.2.2.2.2 _ _ _ _ h g' hge⟩

theorem decSchemaL_step {cfg : Cfg} {v : Nat} {s : Bytes} {g g' : Nat} (m : MonoAt cfg v s g g') :
    ∀ n bs x r, decSchemaL cfg v (g + 1) n bs = .ok (x, r) → decSchemaL cfg v (g' + 1) n (bs ++ s) = .ok (x, r ++ s) := by
  intro n bs x r h
  cases n with
  | zero =>
    simp only [decSchemaL, Except.ok.injEq, Prod.mk.injEq] at h
    obtain ⟨h1, h2⟩ := h; subst h1; subst h2
    simp [decSchemaL]
  | succ n =>
    simp only [decSchemaL] at h ⊢
    bindstep m.S
    bindstep m.L
    finish

theorem decFields_step {cfg : Cfg} {v : Nat} {s : Bytes} {g g' : Nat} (m : MonoAt cfg v s g g') :
    ∀ n bs x r, decFields cfg v (g + 1) n bs = .ok (x, r) → decFields cfg v (g' + 1) n (bs ++ s) = .ok (x, r ++ s) := by
  intro n bs x r h
  cases n with
  | zero =>
    simp only [decFields, Except.ok.injEq, Prod.mk.injEq] at h
    obtain ⟨h1, h2⟩ := h; subst h1; subst h2
    simp [decFields]
  | succ n =>
    simp only [decFields] at h ⊢
    bindstep readStr_mono s
    bindstep m.S
    by_cases hv : v > 0
    · simp only [hv, if_true] at h ⊢
      bindstep readOptNat_mono s
      bindstep m.F
      finish
    · simp only [hv, if_false] at h ⊢
      bindstep m.F
      finish

theorem decVariants_step {cfg : Cfg} {v : Nat} {s : Bytes} {g g' : Nat} (m : MonoAt cfg v s g g') :
    ∀ n bs x r, decVariants cfg v (g + 1) n bs = .ok (x, r) → decVariants cfg v (g' + 1) n (bs ++ s) = .ok (x, r ++ s) := by
  intro n bs x r h
  cases n with
  | zero =>
    simp only [decVariants, Except.ok.injEq, Prod.mk.injEq] at h
    obtain ⟨h1, h2⟩ := h; subst h1; subst h2
    simp [decVariants]
  | succ n =>
    simp only [decVariants] at h ⊢
    bindstep readStr_mono s
    bindstep readLE_mono s
    bindstep readLE_mono s
    bindstep m.F
    bindstep m.V
    finish

theorem decDef_step {cfg : Cfg} {v : Nat} {s : Bytes} {g g' : Nat} (m : MonoAt cfg v s g g') :
    ∀ bs x r, decDef cfg v (g + 1) bs = .ok (x, r) → decDef cfg v (g' + 1) (bs ++ s) = .ok (x, r ++ s) := by
  intro bs x r h
  simp only [decDef] at h ⊢
  bindstep readStr_mono s
  split at h
  · cases h
  · next name sync send hp =>
    try simp only [hp]
    bindstep readLE_mono s
    split at h
    · cases h
    · rename_i hsan
      try simp only [hsan, if_false]
      bindstep m.M
      finish

theorem decMethods_step {cfg : Cfg} {v : Nat} {s : Bytes} {g g' : Nat} (m : MonoAt cfg v s g g') :
    ∀ n bs x r, decMethods cfg v (g + 1) n bs = .ok (x, r) → decMethods cfg v (g' + 1) n (bs ++ s) = .ok (x, r ++ s) := by
  intro n bs x r h
  cases n with
  | zero =>
    simp only [decMethods, Except.ok.injEq, Prod.mk.injEq] at h
    obtain ⟨h1, h2⟩ := h; subst h1; subst h2
    simp [decMethods]
  | succ n =>
    simp only [decMethods] at h ⊢
    bindstep readStr_mono s
    bindstep m.S
    by_cases hv : v ≥ 2
    · simp only [hv, if_true] at h ⊢
      -- receiver and async flag
      cases hrc : readLE 1 _r with
      | error e => simp [hrc] at h
      | ok p =>
        obtain ⟨rc, r3⟩ := p
        rw [readLE_mono s hrc]
        simp only [hrc] at h ⊢
        by_cases hok : receiverOk rc = true
        · simp only [hok, if_true] at h ⊢
          cases hb : readBool r3 with
          | error e => simp [hb] at h
          | ok q =>
            obtain ⟨a, r4⟩ := q
            rw [readBool_mono s hb]
            simp only [hb] at h ⊢
            bindstep readLE_mono s
            split at h
            · cases h
            · rename_i hsan
              try rw [if_neg hsan]
              bindstep m.L
              bindstep m.M
              finish
        · simp [hok] at h
    · simp only [hv, if_false] at h ⊢
      bindstep readLE_mono s
      split at h
      · cases h
      · rename_i hsan
        try rw [if_neg hsan]
        bindstep m.L
        bindstep m.M
        finish

theorem decSchema_step {cfg : Cfg} {v : Nat} {s : Bytes} {g g' : Nat} (m : MonoAt cfg v s g g') :
    ∀ bs x r, decSchema cfg v (g + 1) bs = .ok (x, r) → decSchema cfg v (g' + 1) (bs ++ s) = .ok (x, r ++ s) := by
  intro bs x r h
  simp only [decSchema] at h ⊢
  cases htag : readLE 1 bs with
  | error e => simp [htag] at h
  | ok p =>
    obtain ⟨tag, r0⟩ := p
    rw [readLE_mono s htag]
    simp only [htag] at h ⊢
    split at h
    · -- struct
      bindstep readStr_mono s
      bindstep readLE_mono s
      by_cases hv : v > 0
      · simp only [hv, if_true] at h ⊢
        bindstep readOptNat_mono s
        bindstep readOptNat_mono s
        bindstep m.F
        finish
      · simp only [hv, if_false] at h ⊢
        bindstep m.F
        finish
    · -- enum
      bindstep readStr_mono s
      bindstep readLE_mono s
      bindstep m.V
      by_cases hv : v > 0
      · simp only [hv, if_true] at h ⊢
        bindstep readLE_mono s
        bindstep readBool_mono s
        bindstep readOptNat_mono s
        bindstep readOptNat_mono s
        finish
      · simp only [hv, if_false] at h ⊢
        finish
    · -- primitive
      bindstep readLE_mono s
      bindstep primOfCode_mono s
      finish
    · -- vector
      bindstep m.S
      by_cases hv : v > 0
      · simp only [hv, if_true] at h ⊢
        bindstep readLE_mono s
        finish
      · simp only [hv, if_false] at h ⊢
        finish
    · finish
    · finish
    · bindstep m.S
      finish
    · bindstep readLE_mono s
      bindstep m.S
      finish
    · bindstep readStr_mono s
      finish
    · bindstep m.S
      finish
    · bindstep readBool_mono s
      bindstep m.D
      finish
    · bindstep m.S
      finish
    · finish
    · bindstep m.S
      finish
    · bindstep readBool_mono s
      bindstep m.D
      finish
    · bindstep readLE_mono s
      finish
    · finish
    · bindstep readLE_mono s
      bindstep m.D
      finish
    · finish
    · finish
    · cases h

theorem smono_succ {cfg : Cfg} {v : Nat} {s : Bytes} {g : Nat} (ih : SMono cfg v s g) : SMono cfg v s (g + 1) := by
  refine ⟨?_, ?_, ?_, ?_, ?_, ?_⟩
  · intro bs x r h f' hf
    cases f' with
    | zero => omega
    | succ g' => exact decSchema_step (monoAt_of ih (by omega)) bs x r h
  · intro n bs x r h f' hf
    cases f' with
    | zero => omega
    | succ g' => exact decFields_step (monoAt_of ih (by omega)) n bs x r h
  · intro n bs x r h f' hf
    cases f' with
    | zero => omega
    | succ g' => exact decVariants_step (monoAt_of ih (by omega)) n bs x r h
  · intro bs x r h f' hf
    cases f' with
    | zero => omega
    | succ g' => exact decDef_step (monoAt_of ih (by omega)) bs x r h
  · intro n bs x r h f' hf
    cases f' with
    | zero => omega
    | succ g' => exact decMethods_step (monoAt_of ih (by omega)) n bs x r h
  · intro n bs x r h f' hf
    cases f' with
    | zero => omega
    | succ g' => exact decSchemaL_step (monoAt_of ih (by omega)) n bs x r h

theorem smono (cfg : Cfg) (v : Nat) (s : Bytes) : ∀ f, SMono cfg v s f
  | 0 => smono_zero cfg v s
  | f + 1 => smono_succ (smono cfg v s f)

/-- the schema reader is monotone in the bytes that follow and in its fuel -/
theorem decSchema_mono (cfg : Cfg) (v : Nat) (s bs : Bytes) (f f' : Nat) (x : Schema) (r : Bytes)
    (h : decSchema cfg v f bs = .ok (x, r)) (hf : f ≤ f') : decSchema cfg v f' (bs ++ s) = .ok (x, r ++ s) :=
  (smono cfg v s f).1 bs x r h f' hf

end Sfv
