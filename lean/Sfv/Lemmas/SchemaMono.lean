/-
  Sfv.Lemmas.SchemaMono — the schema reader does not look beyond what it consumes: a successful read stays the
  same read when bytes are appended (and when more fuel is given).
-/
import Sfv.Model.Schema
import Sfv.Lemmas.Bytes
namespace Sfv

theorem readStr_mono {cfg : Cfg} {bs r : Bytes} {x : Bytes} (s : Bytes) (h : readStr cfg bs = .ok (x, r)) :
    readStr cfg (bs ++ s) = .ok (x, r ++ s) := by
  unfold readStr at h ⊢
  split at h
  · cases h
  · next n r1 hx =>
    rw [readLE_mono s hx]
    simp only
    split at h
    · cases h
    · rename_i hsan
      simp only [hsan, if_false]
      split at h
      · cases h
      · next b r' ht =>
        rw [takeN_mono s ht]
        simp only
        split at h
        · rename_i hu
          simp only [Except.ok.injEq, Prod.mk.injEq] at h
          obtain ⟨h1, h2⟩ := h
          subst h1; subst h2
          simp [hu]
        · cases h

theorem readOptNat_mono {bs r : Bytes} {x : Option Nat} (s : Bytes) (h : readOptNat bs = .ok (x, r)) :
    readOptNat (bs ++ s) = .ok (x, r ++ s) := by
  unfold readOptNat at h ⊢
  split at h
  · cases h
  · next t r1 hx =>
    rw [readLE_mono s hx]
    simp only
    split at h
    · rename_i ht
      simp only [ht, if_true]
      split at h
      · cases h
      · next n r' hn =>
        rw [readLE_mono s hn]
        simp only [Except.ok.injEq, Prod.mk.injEq] at h ⊢
        exact ⟨h.1, by rw [h.2]⟩
    · rename_i ht
      simp only [ht, if_false]
      simp only [Except.ok.injEq, Prod.mk.injEq] at h ⊢
      exact ⟨h.1, by rw [h.2]⟩

theorem readBool_mono {bs r : Bytes} {x : Bool} (s : Bytes) (h : readBool bs = .ok (x, r)) :
    readBool (bs ++ s) = .ok (x, r ++ s) := by
  unfold readBool at h ⊢
  split at h
  · cases h
  · next t r1 hx =>
    rw [readLE_mono s hx]
    simp only [Except.ok.injEq, Prod.mk.injEq] at h ⊢
    exact ⟨h.1, by rw [h.2]⟩

theorem primOfCode_mono {cfg : Cfg} {v c : Nat} {bs r : Bytes} {x : SPrim} (s : Bytes)
    (h : primOfCode cfg v c bs = .ok (x, r)) : primOfCode cfg v c (bs ++ s) = .ok (x, r ++ s) := by
  unfold primOfCode at h ⊢
  split at h <;> try (simp only [Except.ok.injEq, Prod.mk.injEq] at h ⊢; exact ⟨h.1, by rw [h.2]⟩)
  · split at h
    · rename_i hv
      simp only [hv, if_true]
      split at h
      · cases h
      · next l r' hl =>
        rw [readLE_mono s hl]
        simp only [Except.ok.injEq, Prod.mk.injEq] at h ⊢
        exact ⟨h.1, by rw [h.2]⟩
    · rename_i hv
      simp only [hv, if_false]
      simp only [Except.ok.injEq, Prod.mk.injEq] at h ⊢
      exact ⟨h.1, by rw [h.2]⟩
  · cases h

end Sfv
