/-
  Sfv.Lemmas.Image — layout-compatible schemas prescribe the same memory image.
-/
import Sfv.Model.Image
namespace Sfv

theorem imgElems_congr (stride : Nat) (t t' : Schema) (h : ∀ base x, imgAt base t x = imgAt base t' x) :
    ∀ (l : VL) (base : Nat), imgElems base stride t l = imgElems base stride t' l
  | .nil, _ => by simp [imgElems]
  | .cons x xs, base => by simp [imgElems, h base x, imgElems_congr stride t t' h xs (base + stride)]

/-- same variants, as far as the image is concerned: same recorded discriminant, fields with the same image -/
def VariantsAgree (va vb : SVariantL) : Prop :=
  ∀ i, match variantAt va i, variantAt vb i with
    | some (da, fa), some (db, fb) => da = db ∧ ∀ base l, imgFields base fa l = imgFields base fb l
    | none, none => True
    | _, _ => False

mutual
theorem layout_img : ∀ (a b : Schema), layoutCompatible a b = true →
    schemaSize a = schemaSize b ∧ ∀ base x, imgAt base a x = imgAt base b x
  | .struct _ sa aa fa, b, h => by
    cases b with
    | struct nb sb ab fb =>
      simp only [layoutCompatible, Bool.and_eq_true, decide_eq_true_eq] at h
      obtain ⟨⟨⟨⟨⟨hl, _⟩, _⟩, _⟩, hs⟩, hf⟩ := h
      refine ⟨by simp [schemaSize, hs], ?_⟩
      intro base x
      cases x with
      | tup l => simp only [imgAt]; exact layout_imgF fa fb hl hf base l
      | _ => simp [imgAt]
    | _ => simp [layoutCompatible] at h
  | .enum _ va da ea sa aa, b, h => by
    cases b with
    | enum nb vb db eb sb ab =>
      simp only [layoutCompatible, Bool.and_eq_true, decide_eq_true_eq] at h
      obtain ⟨⟨⟨⟨⟨⟨⟨⟨_, _⟩, _⟩, _⟩, _⟩, hs⟩, hd⟩, hl⟩, hv⟩ := h
      refine ⟨by simp [schemaSize, hs], ?_⟩
      intro base x
      cases x with
      | alt i v =>
        cases v with
        | tup l =>
          simp only [imgAt]
          have := layout_imgV va vb hl hv i
          cases h1 : variantAt va i with
          | none =>
            cases h2 : variantAt vb i with
            | none => rfl
            | some q => rw [h1, h2] at this; exact absurd this (by simp)
          | some p =>
            cases h2 : variantAt vb i with
            | none => rw [h1, h2] at this; exact absurd this (by simp)
            | some q =>
              obtain ⟨d1, f1⟩ := p
              obtain ⟨d2, f2⟩ := q
              rw [h1, h2] at this
              simp only at this
              obtain ⟨e1, e2⟩ := this
              simp only [e1, hd, e2 base l]
        | _ => simp [imgAt]
      | _ => simp [imgAt]
    | _ => simp [layoutCompatible] at h
  | .prim pa, b, h => by
    cases b with
    | prim pb =>
      simp only [layoutCompatible, Bool.and_eq_true, decide_eq_true_eq] at h
      obtain ⟨_, e⟩ := h
      subst e
      exact ⟨rfl, fun _ _ => rfl⟩
    | _ => simp [layoutCompatible] at h
  | .vector ta la, b, h => by
    cases b with
    | vector tb lb => exact ⟨rfl, fun _ _ => by simp [imgAt]⟩
    | _ => simp [layoutCompatible] at h
  | .array ta na, b, h => by
    cases b with
    | array tb nb =>
      simp only [layoutCompatible, Bool.and_eq_true, decide_eq_true_eq] at h
      obtain ⟨hn, ht⟩ := h
      obtain ⟨hs, hi⟩ := layout_img ta tb ht
      refine ⟨by simp [schemaSize, hs, hn], ?_⟩
      intro base x
      cases x with
      | tup l =>
        simp only [imgAt, hs]
        cases schemaSize tb with
        | none => rfl
        | some k => exact imgElems_congr k ta tb hi l base
      | _ => simp [imgAt]
    | _ => simp [layoutCompatible] at h
  | .zeroSize, b, h => by
    cases b with
    | zeroSize => exact ⟨rfl, fun _ _ => rfl⟩
    | _ => simp [layoutCompatible] at h
  | .boxed ta, b, h => by
    cases b with
    | boxed tb => exact ⟨rfl, fun _ _ => by simp [imgAt]⟩
    | _ => simp [layoutCompatible] at h
  | .reference ta, b, h => by
    cases b with
    | reference tb => exact ⟨rfl, fun _ _ => by simp [imgAt]⟩
    | _ => simp [layoutCompatible] at h
  | .slice ta, b, h => by
    cases b with
    | slice tb => exact ⟨rfl, fun _ _ => by simp [imgAt]⟩
    | _ => simp [layoutCompatible] at h
  | .option _, b, h => by cases b <;> simp [layoutCompatible] at h
  | .undefined, b, h => by cases b <;> simp [layoutCompatible] at h
  | .custom _, b, h => by cases b <;> simp [layoutCompatible] at h
  | .str, b, h => by cases b <;> simp [layoutCompatible] at h
  | .trait _ _, b, h => by cases b <;> simp [layoutCompatible] at h
  | .fnClosure _ _, b, h => by cases b <;> simp [layoutCompatible] at h
  | .recursion _, b, h => by cases b <;> simp [layoutCompatible] at h
  | .stdIoError, b, h => by cases b <;> simp [layoutCompatible] at h
  | .future _ _ _ _, b, h => by cases b <;> simp [layoutCompatible] at h
  | .uninitSlice, b, h => by cases b <;> simp [layoutCompatible] at h
  | .utcTimestamp, b, h => by cases b <;> simp [layoutCompatible] at h
theorem layout_imgF : ∀ (fa fb : SFieldL), fa.length = fb.length → layoutFields fa fb = true →
    ∀ base l, imgFields base fa l = imgFields base fb l
  | .nil, .nil, _, _ => fun _ _ => rfl
  | .nil, .cons _ _ _ _, hl, _ => by simp [SFieldL.length] at hl
  | .cons _ _ _ _, .nil, hl, _ => by simp [SFieldL.length] at hl
  | .cons _ ta oa ra, .cons _ tb ob rb, hl, h => by
    simp only [SFieldL.length, Nat.add_right_cancel_iff] at hl
    simp only [layoutFields, Bool.and_eq_true] at h
    obtain ⟨h1, h2⟩ := h
    have ihr := layout_imgF ra rb hl h2
    intro base l
    cases oa with
    | none => simp at h1
    | some x =>
      cases ob with
      | none => simp at h1
      | some y =>
        simp only [Bool.and_eq_true, decide_eq_true_eq] at h1
        obtain ⟨e, ht⟩ := h1
        subst e
        obtain ⟨_, hi⟩ := layout_img ta tb ht
        cases l with
        | nil => simp [imgFields]
        | cons v vs => simp only [imgFields, hi, ihr]
theorem layout_imgV : ∀ (va vb : SVariantL), va.length = vb.length → layoutVariants va vb = true → VariantsAgree va vb
  | .nil, .nil, _, _ => fun i => by simp [variantAt]
  | .nil, .cons _ _ _ _, hl, _ => by simp [SVariantL.length] at hl
  | .cons _ _ _ _, .nil, hl, _ => by simp [SVariantL.length] at hl
  | .cons _ da fa ra, .cons _ db fb rb, hl, h => by
    simp only [SVariantL.length, Nat.add_right_cancel_iff] at hl
    simp only [layoutVariants, Bool.and_eq_true, decide_eq_true_eq] at h
    obtain ⟨⟨⟨hd, hfl⟩, hf⟩, hr⟩ := h
    have ihf := layout_imgF fa fb hfl hf
    have ihr := layout_imgV ra rb hl hr
    intro i
    cases i with
    | zero => simp only [variantAt]; exact ⟨hd, ihf⟩
    | succ i => simp only [variantAt]; exact ihr i
end

/-! ### the same for memory as a whole, heap data of collections included -/

theorem holdsElems_congr (mem : Mem) (stride : Nat) (t t' : Schema) (h : ∀ base x, holdsAt mem base t x = holdsAt mem base t' x) :
    ∀ (l : VL) (base : Nat), holdsElems mem base stride t l = holdsElems mem base stride t' l
  | .nil, _ => by simp [holdsElems]
  | .cons x xs, base => by simp [holdsElems, h base x, holdsElems_congr mem stride t t' h xs (base + stride)]


/-- same variants, as far as memory is concerned -/
def VariantsAgreeH (mem : Mem) (va vb : SVariantL) : Prop :=
  ∀ i, match variantAt va i, variantAt vb i with
    | some (da, fa), some (db, fb) => da = db ∧ ∀ base l, holdsFields mem base fa l = holdsFields mem base fb l
    | none, none => True
    | _, _ => False

mutual
theorem layout_holds (mem : Mem) : ∀ (a b : Schema), layoutCompatible a b = true →
    ∀ base x, holdsAt mem base a x = holdsAt mem base b x
  | .struct _ sa aa fa, b, h => by
    cases b with
    | struct nb sb ab fb =>
      simp only [layoutCompatible, Bool.and_eq_true, decide_eq_true_eq] at h
      obtain ⟨⟨⟨⟨⟨hl, _⟩, _⟩, _⟩, _⟩, hf⟩ := h
      intro base x
      cases x with
      | tup l => simp only [holdsAt]; exact layout_holdsF mem fa fb hl hf base l
      | _ => simp [holdsAt]
    | _ => simp [layoutCompatible] at h
  | .enum _ va da ea sa aa, b, h => by
    cases b with
    | enum nb vb db eb sb ab =>
      simp only [layoutCompatible, Bool.and_eq_true, decide_eq_true_eq] at h
      obtain ⟨⟨⟨⟨⟨⟨⟨⟨_, _⟩, _⟩, _⟩, _⟩, _⟩, hd⟩, hl⟩, hv⟩ := h
      intro base x
      cases x with
      | alt i v =>
        cases v with
        | tup l =>
          simp only [holdsAt]
          have := layout_holdsV mem va vb hl hv i
          cases h1 : variantAt va i with
          | none =>
            cases h2 : variantAt vb i with
            | none => rfl
            | some q => rw [h1, h2] at this; exact absurd this (by simp)
          | some p =>
            cases h2 : variantAt vb i with
            | none => rw [h1, h2] at this; exact absurd this (by simp)
            | some q =>
              obtain ⟨d1, f1⟩ := p
              obtain ⟨d2, f2⟩ := q
              rw [h1, h2] at this
              simp only at this
              obtain ⟨e1, e2⟩ := this
              simp only [e1, hd, e2 base l]
        | _ => simp [holdsAt]
      | _ => simp [holdsAt]
    | _ => simp [layoutCompatible] at h
  | .prim pa, b, h => by
    cases b with
    | prim pb =>
      simp only [layoutCompatible, Bool.and_eq_true, decide_eq_true_eq] at h
      obtain ⟨_, e⟩ := h
      subst e
      exact fun _ _ => rfl
    | _ => simp [layoutCompatible] at h
  | .vector ta la, b, h => by
    cases b with
    | vector tb lb =>
      simp only [layoutCompatible, Bool.and_eq_true, bne_iff_ne, ne_eq, beq_iff_eq] at h
      obtain ⟨⟨⟨ht, _⟩, _⟩, el⟩ := h
      subst el
      have hs := (layout_img ta tb ht).1
      have hi := layout_holds mem ta tb ht
      intro base x
      cases x with
      | seq l =>
        simp only [holdsAt, hs]
        cases la with
        | unknown => rfl
        | _ =>
          cases headerAt mem base _ with
          | none => rfl
          | some pn =>
            obtain ⟨ptr, n⟩ := pn
            cases schemaSize tb with
            | none => rfl
            | some k => simp only [holdsElems_congr mem k ta tb hi l ptr]
      | _ => simp [holdsAt]
    | _ => simp [layoutCompatible] at h
  | .array ta na, b, h => by
    cases b with
    | array tb nb =>
      simp only [layoutCompatible, Bool.and_eq_true, decide_eq_true_eq] at h
      obtain ⟨_, ht⟩ := h
      have hs := (layout_img ta tb ht).1
      have hi := layout_holds mem ta tb ht
      intro base x
      cases x with
      | tup l =>
        simp only [holdsAt, hs]
        cases schemaSize tb with
        | none => rfl
        | some k => exact holdsElems_congr mem k ta tb hi l base
      | _ => simp [holdsAt]
    | _ => simp [layoutCompatible] at h
  | .zeroSize, b, h => by
    cases b with
    | zeroSize => exact fun _ _ => rfl
    | _ => simp [layoutCompatible] at h
  | .boxed ta, b, h => by
    cases b with
    | boxed tb => exact fun _ _ => by simp [holdsAt]
    | _ => simp [layoutCompatible] at h
  | .reference ta, b, h => by
    cases b with
    | reference tb => exact fun _ _ => by simp [holdsAt]
    | _ => simp [layoutCompatible] at h
  | .slice ta, b, h => by
    cases b with
    | slice tb => exact fun _ _ => by simp [holdsAt]
    | _ => simp [layoutCompatible] at h
  | .option _, b, h => by cases b <;> simp [layoutCompatible] at h
  | .undefined, b, h => by cases b <;> simp [layoutCompatible] at h
  | .custom _, b, h => by cases b <;> simp [layoutCompatible] at h
  | .str, b, h => by cases b <;> simp [layoutCompatible] at h
  | .trait _ _, b, h => by cases b <;> simp [layoutCompatible] at h
  | .fnClosure _ _, b, h => by cases b <;> simp [layoutCompatible] at h
  | .recursion _, b, h => by cases b <;> simp [layoutCompatible] at h
  | .stdIoError, b, h => by cases b <;> simp [layoutCompatible] at h
  | .future _ _ _ _, b, h => by cases b <;> simp [layoutCompatible] at h
  | .uninitSlice, b, h => by cases b <;> simp [layoutCompatible] at h
  | .utcTimestamp, b, h => by cases b <;> simp [layoutCompatible] at h
theorem layout_holdsF (mem : Mem) : ∀ (fa fb : SFieldL), fa.length = fb.length → layoutFields fa fb = true →
    ∀ base l, holdsFields mem base fa l = holdsFields mem base fb l
  | .nil, .nil, _, _ => fun _ _ => rfl
  | .nil, .cons _ _ _ _, hl, _ => by simp [SFieldL.length] at hl
  | .cons _ _ _ _, .nil, hl, _ => by simp [SFieldL.length] at hl
  | .cons _ ta oa ra, .cons _ tb ob rb, hl, h => by
    simp only [SFieldL.length, Nat.add_right_cancel_iff] at hl
    simp only [layoutFields, Bool.and_eq_true] at h
    obtain ⟨h1, h2⟩ := h
    have ihr := layout_holdsF mem ra rb hl h2
    intro base l
    cases oa with
    | none => simp at h1
    | some x =>
      cases ob with
      | none => simp at h1
      | some y =>
        simp only [Bool.and_eq_true, decide_eq_true_eq] at h1
        obtain ⟨e, ht⟩ := h1
        subst e
        have hi := layout_holds mem ta tb ht
        cases l with
        | nil => simp [holdsFields]
        | cons v vs => simp only [holdsFields, hi, ihr]
theorem layout_holdsV (mem : Mem) : ∀ (va vb : SVariantL), va.length = vb.length → layoutVariants va vb = true → VariantsAgreeH mem va vb
  | .nil, .nil, _, _ => fun i => by simp [variantAt]
  | .nil, .cons _ _ _ _, hl, _ => by simp [SVariantL.length] at hl
  | .cons _ _ _ _, .nil, hl, _ => by simp [SVariantL.length] at hl
  | .cons _ da fa ra, .cons _ db fb rb, hl, h => by
    simp only [SVariantL.length, Nat.add_right_cancel_iff] at hl
    simp only [layoutVariants, Bool.and_eq_true, decide_eq_true_eq] at h
    obtain ⟨⟨⟨hd, hfl⟩, hf⟩, hr⟩ := h
    have ihf := layout_holdsF mem fa fb hfl hf
    have ihr := layout_holdsV mem ra rb hl hr
    intro i
    cases i with
    | zero => simp only [variantAt]; exact ⟨hd, ihf⟩
    | succ i => simp only [variantAt]; exact ihr i
end

end Sfv
