/-
  Sfv.Lemmas.Crypto — the encrypted stream: round trip, and what tampering does.
-/
import Sfv.Model.Crypto
import Sfv.Lemmas.Bytes
namespace Sfv

/-! ### tampering, structurally -/

theorem Tampered.ne {a a' : Bytes} (h : Tampered a a') : a' ≠ a := by
  rcases h with ⟨t, ht, rfl⟩ | ⟨pos, v, hp, hv, rfl⟩
  · intro e
    have := congrArg List.length e
    simp at this; omega
  · intro e
    have := congrArg (fun l => l[pos]?) e
    simp [List.getElem?_set, hp] at this
    exact hv this

theorem Tampered.length_le {a a' : Bytes} (h : Tampered a a') : a'.length ≤ a.length := by
  rcases h with ⟨t, ht, rfl⟩ | ⟨pos, v, hp, hv, rfl⟩
  · simp; omega
  · simp

/-- a tampering of `a ++ b` hits `a` (and either cuts the data there or leaves `b` in place behind a
    same-length `a'`) or leaves `a` alone and hits `b` -/
theorem Tampered.append {a b d : Bytes} (h : Tampered (a ++ b) d) :
    (∃ a', Tampered a a' ∧ ((d = a' ∧ a'.length < a.length) ∨ (d = a' ++ b ∧ a'.length = a.length)))
    ∨ (∃ b', Tampered b b' ∧ d = a ++ b') := by
  rcases h with ⟨t, ht, rfl⟩ | ⟨pos, v, hp, hv, rfl⟩
  · by_cases hlt : t < a.length
    · left
      refine ⟨a.take t, .inl ⟨t, hlt, rfl⟩, .inl ⟨?_, by simp; omega⟩⟩
      rw [List.take_append_of_le_length (by omega)]
    · right
      simp only [List.length_append] at ht
      refine ⟨b.take (t - a.length), .inl ⟨t - a.length, by omega, rfl⟩, ?_⟩
      rw [List.take_append]
      congr 1
      exact List.take_of_length_le (by omega)
  · simp only [List.length_append] at hp
    by_cases hlt : pos < a.length
    · left
      refine ⟨a.set pos v, .inr ⟨pos, v, hlt, ?_, rfl⟩, .inr ⟨?_, by simp⟩⟩
      · rwa [List.getElem_append_left hlt] at hv
      · rw [List.set_append_left _ _ hlt]
    · right
      have hge : a.length ≤ pos := by omega
      refine ⟨b.set (pos - a.length) v, .inr ⟨pos - a.length, v, by omega, ?_, rfl⟩, ?_⟩
      · rwa [List.getElem_append_right hge] at hv
      · rw [List.set_append_right _ _ hge]

/-! ### frames -/

/-- facts about the head frame that both theorems need -/
theorem head_frame (A : Aead) (prod) (hI : Ideal A prod) (n : NonceSeq) (c : Bytes)
    (hmem : (n.advance.val, c, A.sealF n.advance.val c) ∈ prod) (hc : c.length ≤ cryptoBuf) :
    (A.sealF n.advance.val c).length = c.length + tagLen
    ∧ A.openF n.advance.val (A.sealF n.advance.val c) = some c
    ∧ ofLE (leBytes 8 (c.length + tagLen)) = c.length + tagLen := by
  obtain ⟨_, h2, h3⟩ := hI.sealed _ hmem
  refine ⟨h3, h2, ofLE_leBytes 8 _ ?_⟩
  unfold cryptoBuf at hc; unfold tagLen
  have : (256 : Nat) ^ 8 = 18446744073709551616 := by decide
  omega

theorem decFrames_framesBytes (A : Aead) (prod) (hI : Ideal A prod) : ∀ (chunks : List Bytes) (n : NonceSeq) (fuel : Nat),
    (∀ e ∈ produced A n chunks, e ∈ prod) → (∀ c ∈ chunks, c ≠ [] ∧ c.length ≤ cryptoBuf) →
    fuel > (framesBytes A n chunks).length →
    decFrames A fuel n (framesBytes A n chunks) = (chunks.flatten, .clean)
  | [], n, fuel, _, _, hf => by
    cases fuel with
    | zero => simp [framesBytes] at hf
    | succ f => simp [framesBytes, decFrames]
  | c :: cs, n, fuel, hp, hc, hf => by
    cases fuel with
    | zero => simp at hf
    | succ f =>
      have hmem : (n.advance.val, c, A.sealF n.advance.val c) ∈ prod := hp _ (by simp [produced])
      obtain ⟨hcne, hcl⟩ := hc c (by simp)
      obtain ⟨hl, ho, hle⟩ := head_frame A prod hI n c hmem hcl
      have h8 := leBytes_length 8 (c.length + tagLen)
      simp only [framesBytes] at hf ⊢
      simp only [List.length_append, h8, hl] at hf
      have hne : leBytes 8 (c.length + tagLen) ++ A.sealF n.advance.val c ++ framesBytes A n.advance cs ≠ [] := by
        intro e; have := congrArg List.length e; simp [h8] at this
      have htake : (leBytes 8 (c.length + tagLen) ++ A.sealF n.advance.val c ++ framesBytes A n.advance cs).take 8
          = leBytes 8 (c.length + tagLen) := by
        rw [List.append_assoc, List.take_append_of_le_length (by omega), List.take_of_length_le (by omega)]
      have hdrop : (leBytes 8 (c.length + tagLen) ++ A.sealF n.advance.val c ++ framesBytes A n.advance cs).drop 8
          = A.sealF n.advance.val c ++ framesBytes A n.advance cs := by
        rw [List.append_assoc, List.drop_append_of_le_length (by omega), List.drop_of_length_le (by omega)]
        rfl
      simp only [decFrames, hne, if_false, htake, hle, hdrop, List.length_append, h8, hl]
      have h1 : ¬ (8 + (c.length + tagLen) + (framesBytes A n.advance cs).length < 8) := by omega
      have h2 : ¬ (c.length + tagLen > cryptoBuf + tagLen) := by omega
      have h3 : ¬ (c.length + tagLen + (framesBytes A n.advance cs).length < c.length + tagLen) := by omega
      simp only [h1, h2, h3, if_false]
      have h4 : (A.sealF n.advance.val c ++ framesBytes A n.advance cs).take (c.length + tagLen) = A.sealF n.advance.val c := by
        rw [List.take_append_of_le_length (by omega), List.take_of_length_le (by omega)]
      have h5 : (A.sealF n.advance.val c ++ framesBytes A n.advance cs).drop (c.length + tagLen) = framesBytes A n.advance cs := by
        rw [List.drop_append_of_le_length (by omega), List.drop_of_length_le (by omega)]; rfl
      rw [h4, ho, h5]
      simp only [frameCont]
      rw [decFrames_framesBytes A prod hI cs n.advance f (fun e he => hp e (by simp [produced, he]))
        (fun c' hc' => hc c' (by simp [hc'])) (by omega)]
      simp

/-- one step of the frame parser on data that starts with a complete 8 byte length word -/
theorem decFrames_step (A : Aead) (f : Nat) (n : NonceSeq) (hd x : Bytes) (h8 : hd.length = 8) :
    decFrames A (f + 1) n (hd ++ x) =
      if ofLE hd > cryptoBuf + tagLen then ([], .failed .crypto)
      else if x.length < ofLE hd then ([], .failed .eof)
      else frameCont (A.openF n.advance.val (x.take (ofLE hd))) (decFrames A f n.advance (x.drop (ofLE hd))) := by
  have hne : hd ++ x ≠ [] := by
    intro e; have := congrArg List.length e; simp [h8] at this
  have htake : (hd ++ x).take 8 = hd := by
    rw [List.take_append_of_le_length (by omega), List.take_of_length_le (by omega)]
  have hdrop : (hd ++ x).drop 8 = x := by
    rw [List.drop_append_of_le_length (by omega), List.drop_of_length_le (by omega)]; rfl
  have h1 : ¬ ((hd ++ x).length < 8) := by simp [h8]
  simp only [decFrames, hne, if_false, h1, htake, hdrop]

/-- data shorter than a length word is never a frame -/
theorem decFrames_short (A : Aead) (f : Nat) (n : NonceSeq) (d : Bytes) (h : d.length < 8) :
    decFrames A (f + 1) n d = ([], if d = [] then .clean else .failed .eof) := by
  by_cases hd : d = []
  · simp [decFrames, hd]
  · simp [decFrames, hd, h]

/-- Tampering with the frames of an encrypted stream: what still authenticates is the plaintext of the
    frames before the one that was hit — at least one frame's worth is missing. -/
theorem decFrames_tampered (A : Aead) (prod) (hI : Ideal A prod) : ∀ (chunks : List Bytes) (n : NonceSeq) (fuel : Nat) (d : Bytes),
    (∀ e ∈ produced A n chunks, e ∈ prod) → (∀ c ∈ chunks, c ≠ [] ∧ c.length ≤ cryptoBuf) →
    fuel > d.length → Tampered (framesBytes A n chunks) d →
    ∃ j, j < chunks.length ∧ (decFrames A fuel n d).1 = (chunks.take j).flatten
  | [], n, fuel, d, _, _, _, ht => by
    rcases ht with ⟨t, ht, _⟩ | ⟨pos, v, hp, _, _⟩
    · simp [framesBytes] at ht
    · simp [framesBytes] at hp
  | c :: cs, n, fuel, d, hp, hc, hf, ht => by
    cases fuel with
    | zero => simp at hf
    | succ f =>
      have hmem : (n.advance.val, c, A.sealF n.advance.val c) ∈ prod := hp _ (by simp [produced])
      obtain ⟨hcne, hcl⟩ := hc c (by simp)
      obtain ⟨hl, ho, hle⟩ := head_frame A prod hI n c hmem hcl
      have h8 := leBytes_length 8 (c.length + tagLen)
      -- a ciphertext other than the sealed one does not open under this frame's nonce
      have noopen : ∀ c' : Bytes, c' ≠ A.sealF n.advance.val c → A.openF n.advance.val c' = none := by
        intro c' hne
        cases hopen : A.openF n.advance.val c' with
        | none => rfl
        | some p =>
          have hin := hI.int _ _ _ hopen
          have := hI.nonce_once _ hin _ hmem rfl
          simp only [Prod.mk.injEq] at this
          exact absurd this.2.2 hne
      have zero : ∀ r : Bytes × Term, r.1 = [] → ∃ j, j < (c :: cs).length ∧ r.1 = ((c :: cs).take j).flatten :=
        fun r hr => ⟨0, by simp, by simp [hr]⟩
      simp only [framesBytes, List.append_assoc] at ht
      rcases ht.append with ⟨hd', hth, hd⟩ | ⟨x, htx, rfl⟩
      · -- the length word was hit
        rcases hd with ⟨hd, hlt⟩ | ⟨hd, hlen⟩
        · -- data ends inside the length word
          subst hd
          rw [h8] at hlt
          rw [decFrames_short A f n _ hlt]
          exact ⟨0, by simp, by simp [frameCont]⟩
        · -- a different length word of the same size
          subst hd
          have h8' : hd'.length = 8 := by rw [hlen, h8]
          have hne : ofLE hd' ≠ c.length + tagLen := by
            intro e
            have h1 := leBytes_ofLE hd'
            rw [h8', e] at h1
            exact hth.ne h1.symm
          rw [decFrames_step A f n hd' _ h8']
          by_cases hbig : ofLE hd' > cryptoBuf + tagLen
          · simp only [hbig, if_true]
            exact ⟨0, by simp, by simp [frameCont]⟩
          · simp only [hbig, if_false]
            by_cases hshort : (A.sealF n.advance.val c ++ framesBytes A n.advance cs).length < ofLE hd'
            · simp only [hshort, if_true]
              exact ⟨0, by simp, by simp [frameCont]⟩
            · simp only [hshort, if_false]
              rw [noopen]
              · exact ⟨0, by simp, by simp [frameCont]⟩
              · intro e
                have := congrArg List.length e
                rw [List.length_take, hl] at this
                omega
      · -- the length word is intact
        rw [decFrames_step A f n _ _ h8, hle]
        have hmax : ¬ (c.length + tagLen > cryptoBuf + tagLen) := by omega
        simp only [hmax, if_false]
        rcases htx.append with ⟨ct', htc, hx⟩ | ⟨rest', htr, rfl⟩
        · -- the ciphertext was hit
          rcases hx with ⟨hx, hlt⟩ | ⟨hx, hlen⟩
          · -- data ends inside the ciphertext
            subst hx
            rw [hl] at hlt
            simp only [hlt, if_true]
            exact ⟨0, by simp, by simp [frameCont]⟩
          · subst hx
            have hl' : ct'.length = c.length + tagLen := by rw [hlen, hl]
            have h3 : ¬ ((ct' ++ framesBytes A n.advance cs).length < c.length + tagLen) := by simp; omega
            simp only [h3, if_false]
            have h4 : (ct' ++ framesBytes A n.advance cs).take (c.length + tagLen) = ct' := by
              rw [List.take_append_of_le_length (by omega), List.take_of_length_le (by omega)]
            rw [h4, noopen ct' htc.ne]
            exact ⟨0, by simp, by simp [frameCont]⟩
        · -- the head frame is intact: it opens, and the tampering lies behind it
          have h3 : ¬ ((A.sealF n.advance.val c ++ rest').length < c.length + tagLen) := by simp; omega
          simp only [h3, if_false]
          have h4 : (A.sealF n.advance.val c ++ rest').take (c.length + tagLen) = A.sealF n.advance.val c := by
            rw [List.take_append_of_le_length (by omega), List.take_of_length_le (by omega)]
          have h5 : (A.sealF n.advance.val c ++ rest').drop (c.length + tagLen) = rest' := by
            rw [List.drop_append_of_le_length (by omega), List.drop_of_length_le (by omega)]; rfl
          rw [h4, ho, h5]
          simp only [frameCont]
          have hfl : f > rest'.length := by simp only [List.length_append, h8, hl] at hf; omega
          obtain ⟨j, hj, ih⟩ := decFrames_tampered A prod hI cs n.advance f rest'
            (fun e he => hp e (by simp [produced, he])) (fun c' hc' => hc c' (by simp [hc'])) hfl htr
          exact ⟨j + 1, by simp; omega, by simp [ih]⟩

/-! ### nonce sequence -/

theorem NonceSeq.advance_wf (s : NonceSeq) (h : s.wf) : s.advance.wf := by
  unfold NonceSeq.advance NonceSeq.wf at *
  simp only
  constructor
  · split
    · exact Nat.mod_lt _ (by decide)
    · exact h.1
  · exact Nat.mod_lt _ (by decide)

/-- the nonce identifies the state it was derived from: two streams with different stored nonces never
    use the same nonce for their first frame -/
theorem NonceSeq.advance_inj (s s' : NonceSeq) (h : s.wf) (h' : s'.wf) (e : s.advance.val = s'.advance.val) : s = s' := by
  obtain ⟨a, b⟩ := s
  obtain ⟨a', b'⟩ := s'
  unfold NonceSeq.wf at h h'
  simp only at h h'
  unfold NonceSeq.advance NonceSeq.val at e
  simp only [Prod.mk.injEq] at e
  obtain ⟨e1, e2⟩ := e
  have hb : b = b' := by omega
  subst hb
  split at e1 <;> simp only [NonceSeq.mk.injEq, and_true] <;> omega

/-- the two words form a 96 bit counter -/
theorem NonceSeq.advance_cnt (s : NonceSeq) (h : s.wf) : s.advance.cnt = (s.cnt + 1) % 2 ^ 96 := by
  obtain ⟨a, b⟩ := s
  unfold NonceSeq.wf at h
  simp only at h
  unfold NonceSeq.advance NonceSeq.cnt
  simp only
  split <;> omega

theorem NonceSeq.cnt_inj (s s' : NonceSeq) (h : s.wf) (h' : s'.wf) (e : s.cnt = s'.cnt) : s = s' := by
  obtain ⟨a, b⟩ := s
  obtain ⟨a', b'⟩ := s'
  unfold NonceSeq.wf at h h'
  unfold NonceSeq.cnt at e
  simp only at h h' e
  simp only [NonceSeq.mk.injEq]
  omega

theorem NonceSeq.bytes_length (s : NonceSeq) : s.bytes.length = 12 := by
  simp [NonceSeq.bytes, leBytes_length]

/-- every nonce the writer uses for `chunks` is a distinct counter value (fewer than 2^96 frames) -/
theorem produced_cnt (A : Aead) : ∀ (chunks : List Bytes) (n : NonceSeq), n.wf →
    ∀ e ∈ produced A n chunks, ∃ m : NonceSeq, m.wf ∧ e.1 = m.val ∧ ∃ j, 1 ≤ j ∧ j ≤ chunks.length ∧ m.cnt = (n.cnt + j) % 2 ^ 96
  | [], _, _, e, he => by simp [produced] at he
  | c :: cs, n, hn, e, he => by
    simp only [produced, List.mem_cons] at he
    rcases he with rfl | he
    · exact ⟨n.advance, n.advance_wf hn, rfl, 1, by omega, by simp, n.advance_cnt hn⟩
    · obtain ⟨m, hm, h1, j, hj1, hj2, hj3⟩ := produced_cnt A cs n.advance (n.advance_wf hn) e he
      refine ⟨m, hm, h1, j + 1, by omega, by simp; omega, ?_⟩
      rw [hj3, n.advance_cnt hn]
      omega

/-- … so the writer never uses a nonce twice within one stream -/
theorem produced_nonce_once (A : Aead) : ∀ (chunks : List Bytes) (n : NonceSeq), n.wf → chunks.length < 2 ^ 96 →
    ∀ e ∈ produced A n chunks, ∀ e' ∈ produced A n chunks, e.1 = e'.1 → e = e'
  | [], _, _, _, e, he, _, _, _ => by simp [produced] at he
  | c :: cs, n, hn, hl, e, he, e', he', heq => by
    simp only [produced, List.mem_cons] at he he'
    simp only [List.length_cons] at hl
    have tail : ∀ x ∈ produced A n.advance cs, x.1 ≠ n.advance.val := by
      intro x hx hxe
      obtain ⟨m, hm, h1, j, hj1, hj2, hj3⟩ := produced_cnt A cs n.advance (n.advance_wf hn) x hx
      rw [h1] at hxe
      have : m = n.advance := by
        obtain ⟨a, b⟩ := m
        cases hna : n.advance with
        | mk a' b' =>
          rw [hna] at hxe
          simp only [NonceSeq.val, Prod.mk.injEq] at hxe
          simp [hxe.1, hxe.2]
      subst this
      have hlt : n.advance.cnt < 2 ^ 96 := by
        have := n.advance_wf hn
        unfold NonceSeq.wf at this
        unfold NonceSeq.cnt
        omega
      omega
    rcases he with rfl | he <;> rcases he' with rfl | he'
    · rfl
    · exact absurd heq.symm (tail _ he')
    · exact absurd heq (tail _ he)
    · exact produced_nonce_once A cs n.advance (n.advance_wf hn) (by omega) e he e' he' heq

/-! ### whole stream -/

theorem pow8 : (256 : Nat) ^ 8 = 2 ^ 64 := by decide
theorem pow4 : (256 : Nat) ^ 4 = 2 ^ 32 := by decide

/-- the nonce written at the head of a stream is read back -/
theorem parsedNonce_enc (A : Aead) (n0 : NonceSeq) (hn : n0.wf) (x : Bytes) : parsedNonce (n0.bytes ++ x) = n0 := by
  obtain ⟨a, b⟩ := n0
  unfold NonceSeq.wf at hn
  simp only at hn
  unfold parsedNonce NonceSeq.bytes
  simp only
  have e1 : (leBytes 8 a ++ leBytes 4 b ++ x).take 8 = leBytes 8 a := by
    rw [List.append_assoc, List.take_append_of_le_length (by simp [leBytes_length]),
      List.take_of_length_le (by simp [leBytes_length])]
  have e2 : ((leBytes 8 a ++ leBytes 4 b ++ x).drop 8).take 4 = leBytes 4 b := by
    rw [List.append_assoc, List.drop_append_of_le_length (by simp [leBytes_length]),
      List.drop_of_length_le (by simp [leBytes_length]), List.nil_append,
      List.take_append_of_le_length (by simp [leBytes_length]), List.take_of_length_le (by simp [leBytes_length])]
  have p8 := pow8
  have p4 := pow4
  rw [e1, e2, ofLE_leBytes 8 a (by omega), ofLE_leBytes 4 b (by omega)]


theorem decStream_encStream (A : Aead) (prod) (hI : Ideal A prod) (n0 : NonceSeq) (hn : n0.wf) (chunks : List Bytes)
    (hp : ∀ e ∈ produced A n0 chunks, e ∈ prod) (hc : ∀ c ∈ chunks, c ≠ [] ∧ c.length ≤ cryptoBuf) :
    decStream A (encStream A n0 chunks) = (chunks.flatten, .clean) := by
  unfold decStream encStream
  have h12 := n0.bytes_length
  have h1 : ¬ ((n0.bytes ++ framesBytes A n0 chunks).length < 12) := by simp [h12]
  simp only [h1, if_false]
  have hd : (n0.bytes ++ framesBytes A n0 chunks).drop 12 = framesBytes A n0 chunks := by
    rw [List.drop_append_of_le_length (by omega), List.drop_of_length_le (by omega)]; rfl
  rw [hd, parsedNonce_enc A n0 hn]
  exact decFrames_framesBytes A prod hI chunks n0 _ hp hc (by simp only [List.length_append]; omega)

theorem parsedNonce_wf (d : Bytes) : (parsedNonce d).wf := by
  unfold parsedNonce NonceSeq.wf
  simp only
  constructor
  · have := ofLE_lt (d.take 8)
    have h : (d.take 8).length ≤ 8 := by simp; omega
    have : (256:Nat) ^ (d.take 8).length ≤ 256 ^ 8 := Nat.pow_le_pow_right (by decide) h
    have := pow8
    omega
  · have := ofLE_lt ((d.drop 8).take 4)
    have h : ((d.drop 8).take 4).length ≤ 4 := by simp; omega
    have : (256:Nat) ^ ((d.drop 8).take 4).length ≤ 256 ^ 4 := Nat.pow_le_pow_right (by decide) h
    have := pow4
    omega

theorem parsedNonce_bytes (nb x : Bytes) (h : nb.length = 12) : (parsedNonce (nb ++ x)).bytes = nb := by
  unfold parsedNonce NonceSeq.bytes
  simp only
  have e1 : (nb ++ x).take 8 = nb.take 8 := List.take_append_of_le_length (by omega)
  have e2 : ((nb ++ x).drop 8).take 4 = nb.drop 8 := by
    rw [List.drop_append_of_le_length (by omega), List.take_append_of_le_length (by simp; omega),
      List.take_of_length_le (by simp; omega)]
  rw [e1, e2]
  have l1 : (nb.take 8).length = 8 := by simp; omega
  have l2 : (nb.drop 8).length = 4 := by simp; omega
  have := leBytes_ofLE (nb.take 8)
  have := leBytes_ofLE (nb.drop 8)
  rw [l1] at *
  rw [l2] at *
  simp_all

/-- C14, stream level: after any single-byte replacement or truncation of an encrypted stream, what still
    authenticates is the plaintext of the frames before the damage: at least the last frame is missing. -/
theorem decStream_tampered (A : Aead) (prod) (hI : Ideal A prod) (n0 : NonceSeq) (hn : n0.wf) (chunks : List Bytes)
    (hne : chunks ≠ [])
    (hp : ∀ e ∈ produced A n0 chunks, e ∈ prod) (hc : ∀ c ∈ chunks, c ≠ [] ∧ c.length ≤ cryptoBuf)
    (d : Bytes) (ht : Tampered (encStream A n0 chunks) d) :
    ∃ j, j < chunks.length ∧ (decStream A d).1 = (chunks.take j).flatten := by
  have hlen : 0 < chunks.length := List.length_pos_iff.mpr hne
  have h12 := n0.bytes_length
  unfold encStream at ht
  rcases ht.append with ⟨nb, htn, hd⟩ | ⟨x, htx, rfl⟩
  · rcases hd with ⟨hd, hlt⟩ | ⟨hd, hl⟩
    · -- cut inside the nonce: `CryptoReader::new` fails
      subst hd
      rw [h12] at hlt
      exact ⟨0, hlen, by simp [decStream, hlt]⟩
    · -- a different nonce: the first frame was sealed under another one
      subst hd
      have hl12 : nb.length = 12 := by rw [hl, h12]
      cases chunks with
      | nil => exact absurd rfl hne
      | cons c cs =>
        refine ⟨0, hlen, ?_⟩
        have h1 : ¬ ((nb ++ framesBytes A n0 (c :: cs)).length < 12) := by simp [hl12]
        have hd : (nb ++ framesBytes A n0 (c :: cs)).drop 12 = framesBytes A n0 (c :: cs) := by
          rw [List.drop_append_of_le_length (by omega), List.drop_of_length_le (by omega)]; rfl
        have hmem : (n0.advance.val, c, A.sealF n0.advance.val c) ∈ prod := hp _ (by simp [produced])
        obtain ⟨hcne, hcl⟩ := hc c (by simp)
        obtain ⟨hl', ho, hle⟩ := head_frame A prod hI n0 c hmem hcl
        have h8 := leBytes_length 8 (c.length + tagLen)
        -- the parsed nonce differs from the one the stream was written with
        have hnne : parsedNonce (nb ++ framesBytes A n0 (c :: cs)) ≠ n0 := by
          intro e
          have := parsedNonce_bytes nb (framesBytes A n0 (c :: cs)) hl12
          rw [e] at this
          exact htn.ne this.symm
        have hvne : (parsedNonce (nb ++ framesBytes A n0 (c :: cs))).advance.val ≠ n0.advance.val := by
          intro e
          exact hnne (NonceSeq.advance_inj _ _ (parsedNonce_wf _) hn e)
        simp only [decStream, h1, if_false, hd]
        simp only [framesBytes, List.append_assoc]
        rw [decFrames_step A _ _ _ _ h8, hle]
        have hmax : ¬ (c.length + tagLen > cryptoBuf + tagLen) := by omega
        have h3 : ¬ ((A.sealF n0.advance.val c ++ framesBytes A n0.advance cs).length < c.length + tagLen) := by simp; omega
        have h4 : (A.sealF n0.advance.val c ++ framesBytes A n0.advance cs).take (c.length + tagLen) = A.sealF n0.advance.val c := by
          rw [List.take_append_of_le_length (by omega), List.take_of_length_le (by omega)]
        simp only [hmax, h3, if_false, h4]
        cases hopen : A.openF (parsedNonce (nb ++ (leBytes 8 (c.length + tagLen) ++ (A.sealF n0.advance.val c ++ framesBytes A n0.advance cs)))).advance.val
            (A.sealF n0.advance.val c) with
        | none => simp [frameCont]
        | some p =>
          exfalso
          have hin := hI.int _ _ _ hopen
          have := hI.ct_once _ hin _ hmem rfl
          simp only [Prod.mk.injEq] at this
          apply hvne
          simp only [framesBytes, List.append_assoc]
          exact this.1
  · -- the nonce is intact
    have h1 : ¬ ((n0.bytes ++ x).length < 12) := by simp [h12]
    have hd : (n0.bytes ++ x).drop 12 = x := by
      rw [List.drop_append_of_le_length (by omega), List.drop_of_length_le (by omega)]; rfl
    simp only [decStream, h1, if_false, hd, parsedNonce_enc A n0 hn]
    exact decFrames_tampered A prod hI chunks n0 _ x hp hc (by simp only [List.length_append]; omega) htx

/-- nothing sealed under this key (another password): no frame opens -/
theorem decStream_wrong_key (A' : Aead) (hnone : ∀ nv c, A'.openF nv c = none) (A : Aead) (n0 : NonceSeq)
    (chunks : List Bytes) (hne : chunks ≠ []) (hc : ∀ c ∈ chunks, c.length ≤ cryptoBuf)
    (hseal : ∀ nv c, (A.sealF nv c).length = c.length + tagLen) :
    (decStream A' (encStream A n0 chunks)).1 = [] ∧ (decStream A' (encStream A n0 chunks)).2 ≠ .clean := by
  cases chunks with
  | nil => exact absurd rfl hne
  | cons c cs =>
    have h12 := n0.bytes_length
    have hcl := hc c (by simp)
    have h8 := leBytes_length 8 (c.length + tagLen)
    have hle : ofLE (leBytes 8 (c.length + tagLen)) = c.length + tagLen := by
      apply ofLE_leBytes
      unfold cryptoBuf at hcl; unfold tagLen
      have : (256 : Nat) ^ 8 = 18446744073709551616 := by decide
      omega
    unfold decStream encStream
    have h1 : ¬ ((n0.bytes ++ framesBytes A n0 (c :: cs)).length < 12) := by simp [h12]
    have hd : (n0.bytes ++ framesBytes A n0 (c :: cs)).drop 12 = framesBytes A n0 (c :: cs) := by
      rw [List.drop_append_of_le_length (by omega), List.drop_of_length_le (by omega)]; rfl
    simp only [h1, if_false, hd]
    simp only [framesBytes, List.append_assoc]
    rw [decFrames_step A' _ _ _ _ h8, hle]
    have hmax : ¬ (c.length + tagLen > cryptoBuf + tagLen) := by omega
    have h3 : ¬ ((A.sealF n0.advance.val c ++ framesBytes A n0.advance cs).length < c.length + tagLen) := by
      simp [hseal]
    simp only [hmax, h3, if_false, hnone, frameCont]
    simp

/-! ### the loader over a decrypted stream -/

theorem RP.runTerm_clean {α : Type} : ∀ (p : RP α) (P : Bytes), p.runTerm P .clean = (p.runWhole P).1
  | .ret a, P => rfl
  | .fail e, P => rfl
  | .read n k, P => by
    simp only [RP.runTerm, RP.runWhole]
    split
    · exact RP.runTerm_clean (k (P.take n)) (P.drop n)
    · rfl

/-- a reader program that consumed more than `P'.length` bytes of `P` cannot finish on the prefix `P'`,
    however the stream ends: it reports an I/O error -/
theorem RP.prefix_fails {α : Type} : ∀ (p : RP α) (P P' rest : Bytes) (t : Term) (a : α),
    p.runWhole P = (.val a, rest) → P'.length + rest.length < P.length → P' <+: P →
    ∃ e, p.runTerm P' t = .io e
  | .ret a', P, P', rest, t, a, h, hl, _ => by
    simp only [RP.runWhole, Prod.mk.injEq] at h
    obtain ⟨_, h2⟩ := h
    subst h2; omega
  | .fail e, P, P', rest, t, a, h, _, _ => by simp [RP.runWhole] at h
  | .read n k, P, P', rest, t, a, h, hl, hpre => by
    simp only [RP.runWhole] at h
    split at h
    · rename_i hge
      simp only [RP.runTerm]
      by_cases hn : P'.length ≥ n
      · simp only [hn, if_true]
        obtain ⟨s, rfl⟩ := hpre
        have e1 : (P' ++ s).take n = P'.take n := List.take_append_of_le_length hn
        have e2 : (P' ++ s).drop n = P'.drop n ++ s := List.drop_append_of_le_length hn
        rw [e1, e2] at h
        have hrl : rest.length ≤ (P'.drop n ++ s).length := by
          simp only [List.length_append, List.length_drop] at hl ⊢; omega
        exact RP.prefix_fails (k (P'.take n)) (P'.drop n ++ s) (P'.drop n) rest t a h
          (by simp only [List.length_append, List.length_drop] at hl ⊢; omega) ⟨s, rfl⟩
      · simp only [hn, if_false]
        cases t with
        | clean => exact ⟨_, rfl⟩
        | failed e => cases e <;> exact ⟨_, rfl⟩
    · simp at h

/-! ### what the writer emits -/

theorem opsBytes_append : ∀ (a b : List WOp), opsBytes (a ++ b) = opsBytes a ++ opsBytes b
  | [], b => rfl
  | .w x :: a, b => by simp [opsBytes, opsBytes_append a b]
  | .flush :: a, b => by simp [opsBytes, opsBytes_append a b]

/-- nonce state after sealing `k` chunks -/
def NonceSeq.after : NonceSeq → Nat → NonceSeq
  | n, 0 => n
  | n, k + 1 => n.advance.after k

theorem frameOps_spec (A : Aead) : ∀ (cs : List Bytes) (n : NonceSeq),
    (frameOps A n cs).1 = n.after cs.length ∧ opsBytes (frameOps A n cs).2 = framesBytes A n cs
  | [], n => by simp [frameOps, NonceSeq.after, opsBytes, framesBytes]
  | c :: cs, n => by
    obtain ⟨h1, h2⟩ := frameOps_spec A cs n.advance
    simp only [frameOps, List.length_cons, NonceSeq.after, opsBytes, framesBytes]
    exact ⟨h1, by rw [h2]; simp⟩

theorem framesBytes_append (A : Aead) : ∀ (a b : List Bytes) (n : NonceSeq),
    framesBytes A n (a ++ b) = framesBytes A n a ++ framesBytes A (n.after a.length) b
  | [], b, n => by simp [framesBytes, NonceSeq.after]
  | c :: a, b, n => by
    simp only [List.cons_append, framesBytes, List.length_cons, NonceSeq.after, framesBytes_append A a b n.advance,
      List.append_assoc]

theorem chunksOf_spec : ∀ (fuel : Nat) (buf : Bytes), fuel > buf.length →
    (chunksOf fuel buf).flatten = buf ∧ ∀ c ∈ chunksOf fuel buf, c ≠ [] ∧ c.length ≤ cryptoBuf
  | 0, buf, h => by omega
  | fuel + 1, buf, h => by
    simp only [chunksOf]
    split
    · rename_i he; subst he; simp
    · rename_i he
      have hpos : 0 < buf.length := List.length_pos_iff.mpr he
      have hb : 0 < cryptoBuf := by decide
      obtain ⟨ih1, ih2⟩ := chunksOf_spec fuel (buf.drop cryptoBuf) (by simp only [List.length_drop]; omega)
      refine ⟨by simp [ih1], ?_⟩
      intro c hc
      simp only [List.mem_cons] at hc
      rcases hc with rfl | hc
      · constructor
        · intro e
          have := congrArg List.length e
          simp only [List.length_take, List.length_nil] at this
          omega
        · simp only [List.length_take]; omega
      · exact ih2 c hc

/-- the chunks a `CryptoWriter` seals for a sequence of writes and the final flush -/
def CW.chunks : Bytes → List Bytes → List Bytes
  | buf, [] => chunksOf (buf.length + 1) buf
  | buf, b :: bs =>
    if (buf ++ b).length > cryptoBuf then chunksOf ((buf ++ b).length + 1) (buf ++ b) ++ CW.chunks [] bs
    else CW.chunks (buf ++ b) bs

theorem CW.chunks_spec : ∀ (ws : List Bytes) (buf : Bytes),
    (CW.chunks buf ws).flatten = buf ++ ws.flatten ∧ ∀ c ∈ CW.chunks buf ws, c ≠ [] ∧ c.length ≤ cryptoBuf
  | [], buf => by
    simp only [CW.chunks, List.flatten_nil, List.append_nil]
    exact chunksOf_spec _ _ (by omega)
  | b :: bs, buf => by
    simp only [CW.chunks]
    split
    · obtain ⟨h1, h2⟩ := chunksOf_spec ((buf ++ b).length + 1) (buf ++ b) (by omega)
      obtain ⟨g1, g2⟩ := CW.chunks_spec bs []
      refine ⟨by rw [List.flatten_append, h1, g1]; simp, ?_⟩
      intro c hc
      simp only [List.mem_append] at hc
      rcases hc with hc | hc
      · exact h2 c hc
      · exact g2 c hc
    · obtain ⟨g1, g2⟩ := CW.chunks_spec bs (buf ++ b)
      exact ⟨by simp [g1], g2⟩

theorem CW.run_spec (A : Aead) : ∀ (ws : List Bytes) (s : CW),
    opsBytes (CW.run A s ws) = framesBytes A s.nonce (CW.chunks s.buf ws)
  | [], s => by
    simp only [CW.run, CW.flush, CW.chunks]
    exact (frameOps_spec A _ _).2
  | b :: bs, s => by
    simp only [CW.run, CW.write, CW.chunks]
    split
    · simp only [CW.flush]
      rw [opsBytes_append, (frameOps_spec A _ _).2, CW.run_spec A bs, framesBytes_append]
      simp only
      rw [(frameOps_spec A _ _).1]
    · simp only [opsBytes_append, opsBytes, List.nil_append]
      rw [CW.run_spec A bs]

/-- what `CryptoWriter` puts on the underlying writer is the stream of the chunks it sealed -/
theorem cryptoWriterOps_spec (A : Aead) (n0 : NonceSeq) (ws : List Bytes) :
    opsBytes (cryptoWriterOps A n0 ws) = encStream A n0 (CW.chunks [] ws) := by
  simp only [cryptoWriterOps, opsBytes, encStream, NonceSeq.bytes, List.append_assoc]
  rw [CW.run_spec A ws]

theorem CW.chunksProg_spec : ∀ (prog : List CWOp) (buf : Bytes),
    (CW.chunksProg buf prog).flatten = buf ++ CW.written prog ∧ ∀ c ∈ CW.chunksProg buf prog, c ≠ [] ∧ c.length ≤ cryptoBuf
  | [], buf => by
    simp only [CW.chunksProg, CW.written, List.append_nil]
    exact chunksOf_spec _ _ (by omega)
  | .write b :: ops, buf => by
    simp only [CW.chunksProg, CW.written]
    split
    · obtain ⟨h1, h2⟩ := chunksOf_spec ((buf ++ b).length + 1) (buf ++ b) (by omega)
      obtain ⟨g1, g2⟩ := CW.chunksProg_spec ops []
      refine ⟨by rw [List.flatten_append, h1, g1]; simp, ?_⟩
      intro c hc
      simp only [List.mem_append] at hc
      rcases hc with hc | hc
      · exact h2 c hc
      · exact g2 c hc
    · obtain ⟨g1, g2⟩ := CW.chunksProg_spec ops (buf ++ b)
      exact ⟨by simp [g1], g2⟩
  | .flush :: ops, buf => by
    simp only [CW.chunksProg, CW.written]
    obtain ⟨h1, h2⟩ := chunksOf_spec (buf.length + 1) buf (by omega)
    obtain ⟨g1, g2⟩ := CW.chunksProg_spec ops []
    refine ⟨by rw [List.flatten_append, h1, g1]; simp, ?_⟩
    intro c hc
    simp only [List.mem_append] at hc
    rcases hc with hc | hc
    · exact h2 c hc
    · exact g2 c hc

theorem CW.runProg_spec (A : Aead) : ∀ (prog : List CWOp) (s : CW),
    opsBytes (CW.runProg A s prog) = framesBytes A s.nonce (CW.chunksProg s.buf prog)
  | [], s => by
    simp only [CW.runProg, CW.flush, CW.chunksProg]
    exact (frameOps_spec A _ _).2
  | .write b :: ops, s => by
    simp only [CW.runProg, CW.write, CW.chunksProg]
    split
    · simp only [CW.flush]
      rw [opsBytes_append, (frameOps_spec A _ _).2, CW.runProg_spec A ops, framesBytes_append]
      simp only
      rw [(frameOps_spec A _ _).1]
    · simp only [opsBytes_append, opsBytes, List.nil_append]
      rw [CW.runProg_spec A ops]
  | .flush :: ops, s => by
    simp only [CW.runProg, CW.flush, CW.chunksProg]
    rw [opsBytes_append, (frameOps_spec A _ _).2, CW.runProg_spec A ops, framesBytes_append]
    simp only
    rw [(frameOps_spec A _ _).1]

theorem cryptoWriterProgOps_spec (A : Aead) (n0 : NonceSeq) (prog : List CWOp) :
    opsBytes (cryptoWriterProgOps A n0 prog) = encStream A n0 (CW.chunksProg [] prog) := by
  simp only [cryptoWriterProgOps, opsBytes, encStream, NonceSeq.bytes, List.append_assoc]
  rw [CW.runProg_spec A prog]

/-- without explicit flushes the program is the write sequence of `CW.chunks` -/
theorem CW.chunksProg_writes : ∀ (ws : List Bytes) (buf : Bytes), CW.chunksProg buf (ws.map .write) = CW.chunks buf ws
  | [], buf => by simp [CW.chunksProg, CW.chunks]
  | b :: bs, buf => by
    simp only [List.map_cons, CW.chunksProg, CW.chunks]
    split
    · rw [CW.chunksProg_writes bs []]
    · rw [CW.chunksProg_writes bs (buf ++ b)]

/-! ### arbitrary damage -/

/-- Any damage to the frames (not only one byte or a cut): as long as the stored data is not the original frames
    followed by something, what authenticates is the plaintext of fewer frames than were written. -/
theorem decFrames_damaged (A : Aead) (prod) (hI : Ideal A prod) : ∀ (chunks : List Bytes) (n : NonceSeq) (fuel : Nat) (d : Bytes),
    (∀ e ∈ produced A n chunks, e ∈ prod) → (∀ c ∈ chunks, c ≠ [] ∧ c.length ≤ cryptoBuf) →
    fuel > d.length → ¬ (framesBytes A n chunks <+: d) →
    ∃ j, j < chunks.length ∧ (decFrames A fuel n d).1 = (chunks.take j).flatten
  | [], n, fuel, d, _, _, _, hnp => by
    exact absurd (by simp [framesBytes]) hnp
  | c :: cs, n, fuel, d, hp, hc, hf, hnp => by
    cases fuel with
    | zero => simp at hf
    | succ f =>
      have hmem : (n.advance.val, c, A.sealF n.advance.val c) ∈ prod := hp _ (by simp [produced])
      obtain ⟨hcne, hcl⟩ := hc c (by simp)
      obtain ⟨hl, ho, hle⟩ := head_frame A prod hI n c hmem hcl
      have h8 := leBytes_length 8 (c.length + tagLen)
      have noopen : ∀ c' : Bytes, c' ≠ A.sealF n.advance.val c → A.openF n.advance.val c' = none := by
        intro c' hne
        cases hopen : A.openF n.advance.val c' with
        | none => rfl
        | some p =>
          have hin := hI.int _ _ _ hopen
          have := hI.nonce_once _ hin _ hmem rfl
          simp only [Prod.mk.injEq] at this
          exact absurd this.2.2 hne
      by_cases hshort : d.length < 8
      · rw [decFrames_short A f n d hshort]
        exact ⟨0, by simp, by simp⟩
      · -- d = hd ++ x with an 8 byte length word
        have hsplit : d = d.take 8 ++ d.drop 8 := (List.take_append_drop 8 d).symm
        have hd8 : (d.take 8).length = 8 := by simp; omega
        rw [hsplit, decFrames_step A f n (d.take 8) (d.drop 8) hd8]
        by_cases hbig : ofLE (d.take 8) > cryptoBuf + tagLen
        · simp only [hbig, if_true]; exact ⟨0, by simp, by simp⟩
        · simp only [hbig, if_false]
          by_cases hsh : (d.drop 8).length < ofLE (d.take 8)
          · simp only [hsh, if_true]; exact ⟨0, by simp, by simp⟩
          · simp only [hsh, if_false]
            by_cases hct : (d.drop 8).take (ofLE (d.take 8)) = A.sealF n.advance.val c
            · -- the head frame is the original one: the damage lies behind it
              have hlen : ofLE (d.take 8) = c.length + tagLen := by
                have := congrArg List.length hct
                rw [List.length_take, hl] at this
                omega
              have hword : d.take 8 = leBytes 8 (c.length + tagLen) := by
                have h1 := leBytes_ofLE (d.take 8)
                rw [hd8, hlen] at h1
                exact h1.symm
              rw [hct, ho]
              simp only [frameCont]
              have hrest : ¬ (framesBytes A n.advance cs <+: (d.drop 8).drop (ofLE (d.take 8))) := by
                intro hpre
                apply hnp
                obtain ⟨t, ht⟩ := hpre
                refine ⟨t, ?_⟩
                simp only [framesBytes, List.append_assoc]
                rw [ht, ← hct, ← hword, List.take_append_drop, List.take_append_drop]
              have hfl : f > ((d.drop 8).drop (ofLE (d.take 8))).length := by
                simp only [List.length_drop]; simp only [Nat.lt_succ_iff] at hf; omega
              obtain ⟨j, hj, ih⟩ := decFrames_damaged A prod hI cs n.advance f _
                (fun e he => hp e (by simp [produced, he])) (fun c' hc' => hc c' (by simp [hc'])) hfl hrest
              refine ⟨j + 1, by simp; omega, ?_⟩
              simp only [List.take_succ_cons, List.flatten_cons]
              rw [ih]
            · rw [noopen _ hct]
              exact ⟨0, by simp, by simp [frameCont]⟩


/-- the same at stream level, when the stored nonce is the one the stream was written with: whatever else was done
    to the stored bytes (several bytes changed, frames exchanged, replayed or removed, data cut or inserted), unless
    the original frames are all still there in front, fewer frames than were written authenticate -/
theorem decStream_damaged (A : Aead) (prod) (hI : Ideal A prod) (n0 : NonceSeq) (hn : n0.wf) (chunks : List Bytes)
    (hp : ∀ e ∈ produced A n0 chunks, e ∈ prod) (hc : ∀ c ∈ chunks, c ≠ [] ∧ c.length ≤ cryptoBuf)
    (x : Bytes) (hx : ¬ (framesBytes A n0 chunks <+: x)) :
    ∃ j, j < chunks.length ∧ (decStream A (n0.bytes ++ x)).1 = (chunks.take j).flatten := by
  have h12 := n0.bytes_length
  have h1 : ¬ ((n0.bytes ++ x).length < 12) := by simp [h12]
  have hd : (n0.bytes ++ x).drop 12 = x := by
    rw [List.drop_append_of_le_length (by omega), List.drop_of_length_le (by omega)]; rfl
  simp only [decStream, h1, if_false, hd, parsedNonce_enc A n0 hn]
  exact decFrames_damaged A prod hI chunks n0 _ x hp hc (by simp only [List.length_append]; omega) hx

/-- The limit of the format (a finding, not a theorem about safety): a frame is bound to its position only through
    the nonce counter, and the counter's start is stored in the clear in front of the frames.  Storing the next
    counter value and removing the first frame gives a stream in which every remaining frame authenticates: it
    decrypts, with a clean end, to the plaintext *without its first chunk*. -/
theorem decStream_first_frame_removed (A : Aead) (prod) (hI : Ideal A prod) (n0 : NonceSeq) (hn : n0.wf) (c : Bytes) (cs : List Bytes)
    (hp : ∀ e ∈ produced A n0 (c :: cs), e ∈ prod) (hc : ∀ c' ∈ c :: cs, c' ≠ [] ∧ c'.length ≤ cryptoBuf) :
    decStream A (n0.advance.bytes ++ framesBytes A n0.advance cs) = (cs.flatten, .clean) := by
  have := decStream_encStream A prod hI n0.advance (NonceSeq.advance_wf n0 hn) cs
    (fun e he => hp e (by simp [produced, he])) (fun c' hc' => hc c' (by simp [hc']))
  simpa [encStream] using this

end Sfv
