/-
  Sfv.Model.Locks — the three process-global caches of savefile-abi behind mutexes, threads that take and
  release them, and the get-or-insert that `AbiConnection::new_internal` performs under the template lock.

  `LIBRARY_CACHE`, `ENTRY_CACHE` (both taken by `get_symbol_for`, entry first) and `ABI_CONNECTION_TEMPLATES`
  (taken by `new_internal`).  A thread is a program of instructions; a state is the list of threads plus the
  template cache.  std's `Mutex` is not reentrant: a thread that tries to take a lock it already holds blocks
  forever, like any other taker.
-/
namespace Sfv

inductive Lock where
  | entry | library | templates
deriving DecidableEq, Repr

/-- the order in which the code takes the locks -/
def Lock.rank : Lock → Nat
  | .entry => 0 | .library => 1 | .templates => 2

inductive Instr where
  | acq (l : Lock)
  | rel (l : Lock)
  | work                 -- anything that touches no global lock (negotiation, calls into the other side)
  | getOrInsert (key : Nat)   -- look the template up, compute and insert it if absent; result goes to the thread
deriving DecidableEq, Repr

structure Thread where
  prog : List Instr
  held : List Lock
  results : List (Nat × Nat)   -- (key, template) pairs this thread obtained, newest first
deriving DecidableEq, Repr

structure LState where
  threads : List Thread
  cache : List (Nat × Nat)
deriving Repr

/-- program discipline: a lock is only taken when everything held ranks below it; only held locks are
    released; the template cache is only touched under its lock; nothing is held at the end -/
def Ordered : List Instr → List Lock → Prop
  | [], held => held = []
  | .acq l :: rest, held => (∀ h ∈ held, h.rank < l.rank) ∧ Ordered rest (l :: held)
  | .rel l :: rest, held => l ∈ held ∧ Ordered rest (held.erase l)
  | .work :: rest, held => Ordered rest held
  | .getOrInsert _ :: rest, held => Lock.templates ∈ held ∧ Ordered rest held

/-- thread `t` can take its next step in `s` -/
def Enabled (ts : List Thread) (t : Thread) : Prop :=
  match t.prog with
  | [] => False
  | .acq l :: _ => ∀ u ∈ ts, l ∉ u.held
  | _ :: _ => True

/-- the template a key gets: a function of the key alone (both sides' definitions are fixed for a process) -/
def lookupOr (compute : Nat → Nat) (cache : List (Nat × Nat)) (k : Nat) : Nat × List (Nat × Nat) :=
  match cache.lookup k with
  | some v => (v, cache)
  | none => (compute k, (k, compute k) :: cache)

/-- one step of thread `t` (its effect on itself and on the cache) -/
def stepThread (compute : Nat → Nat) (t : Thread) (cache : List (Nat × Nat)) : Thread × List (Nat × Nat) :=
  match t.prog with
  | [] => (t, cache)
  | .acq l :: rest => ({ t with prog := rest, held := l :: t.held }, cache)
  | .rel l :: rest => ({ t with prog := rest, held := t.held.erase l }, cache)
  | .work :: rest => ({ t with prog := rest }, cache)
  | .getOrInsert k :: rest =>
    let r := lookupOr compute cache k
    ({ t with prog := rest, results := (k, r.1) :: t.results }, r.2)

/-- replace the i-th thread -/
def setThread : List Thread → Nat → Thread → List Thread
  | [], _, _ => []
  | _ :: ts, 0, t => t :: ts
  | u :: ts, i + 1, t => u :: setThread ts i t

/-- the scheduler picks thread `i`; if it is enabled it steps, otherwise nothing happens -/
inductive Step (compute : Nat → Nat) : LState → LState → Prop where
  | mk (s : LState) (i : Nat) (t : Thread) (hi : s.threads[i]? = some t) (he : Enabled s.threads t) :
      Step compute s { threads := setThread s.threads i (stepThread compute t s.cache).1,
                       cache := (stepThread compute t s.cache).2 }

def WF (ts : List Thread) : Prop := ∀ t ∈ ts, Ordered t.prog t.held

/-- how many times lock `l` is held, over all threads -/
def countHeld (ts : List Thread) (l : Lock) : Nat := (ts.map (fun t => t.held.count l)).sum

/-- mutual exclusion: a lock is held at most once, by at most one thread -/
def Excl (ts : List Thread) : Prop := ∀ l, countHeld ts l ≤ 1

def CacheOK (compute : Nat → Nat) (cache : List (Nat × Nat)) : Prop := ∀ k v, (k, v) ∈ cache → v = compute k

def ResultsOK (compute : Nat → Nat) (ts : List Thread) : Prop := ∀ t ∈ ts, ∀ k v, (k, v) ∈ t.results → v = compute k

def remaining (ts : List Thread) : Nat := (ts.map (·.prog.length)).sum

def Finished (ts : List Thread) : Prop := ∀ t ∈ ts, t.prog = []

/-! ### the programs of the code -/

/-- `get_symbol_for`: entry cache, then library cache; both released on return -/
def progGetSymbol : List Instr := [.acq .entry, .acq .library, .work, .rel .library, .rel .entry]
/-- `new_internal` for key `k`: template lock, get-or-insert (negotiation inside), instance creation (the guard
    lives to the end of the function), release -/
def progNewInternal (k : Nat) : List Instr := [.acq .templates, .getOrInsert k, .work, .rel .templates]
/-- `load_shared_library` -/
def progLoadLibrary (k : Nat) : List Instr := progGetSymbol ++ progNewInternal k
/-- a method call whose arguments make the implementation create `n` further connections (closures, boxed
    traits): the caller holds no global lock while the call runs -/
def progCall : List Nat → List Instr
  | [] => [.work]
  | k :: ks => .work :: (progNewInternal k ++ progCall ks)

end Sfv
