/-
  Sfv.Model.Schema — the `Schema` tree, its three on-disk formats (library format versions 0, 1, 2),
  `diff_schema` and `layout_compatible`.

  Mirrors savefile/src/lib.rs: `Schema`, `SchemaStruct`, `SchemaEnum`, `Field`, `Variant`, `SchemaPrimitive`,
  `VecOrStringLayout`, `AbiTraitDefinition`/`AbiMethod`/`AbiMethodInfo`/`AbiMethodArgument` and their
  `Serialize`/`Deserialize` impls; `diff_schema` with helpers; `Schema::layout_compatible`.
  Names are UTF-8 byte strings.  Format 0 has no writer in the code base any more: `encSchema 0` is the
  reconstruction of the historic writer as the inverse of the format-0 branches of the reader.
-/
import Sfv.Model.Wire
namespace Sfv

inductive VLayout where
  | unknown | dataCapLen | dataLenCap | capDataLen | lenDataCap | capLenData | lenCapData | lenData | dataLen
deriving DecidableEq, Repr

def VLayout.code : VLayout → Nat
  | .unknown => 0 | .dataCapLen => 1 | .dataLenCap => 2 | .capDataLen => 3 | .lenDataCap => 4
  | .capLenData => 5 | .lenCapData => 6 | .lenData => 7 | .dataLen => 8

def VLayout.ofCode : Nat → VLayout
  | 1 => .dataCapLen | 2 => .dataLenCap | 3 => .capDataLen | 4 => .lenDataCap
  | 5 => .capLenData | 6 => .lenCapData | 7 => .lenData | 8 => .dataLen | _ => .unknown

inductive SPrim where
  | i8 | u8 | i16 | u16 | i32 | u32 | i64 | u64 | str (l : VLayout) | f32 | f64 | bool | canary1 | i128 | u128 | char
deriving DecidableEq, Repr

def SPrim.code : SPrim → Nat
  | .i8 => 1 | .u8 => 2 | .i16 => 3 | .u16 => 4 | .i32 => 5 | .u32 => 6 | .i64 => 7 | .u64 => 8 | .str _ => 9
  | .f32 => 10 | .f64 => 11 | .bool => 12 | .canary1 => 13 | .i128 => 14 | .u128 => 15 | .char => 16

mutual
inductive Schema where
  | struct (name : Bytes) (size align : Option Nat) (fields : SFieldL)
  | enum (name : Bytes) (variants : SVariantL) (dsize : Nat) (explicit : Bool) (size align : Option Nat)
  | prim (p : SPrim)
  | vector (t : Schema) (l : VLayout)
  | array (t : Schema) (count : Nat)
  | option (t : Schema)
  | undefined
  | zeroSize
  | custom (s : Bytes)
  | boxed (t : Schema)
  | slice (t : Schema)
  | str
  | reference (t : Schema)
  | trait (mutSelf : Bool) (d : TraitDef)
  | fnClosure (mutSelf : Bool) (d : TraitDef)
  | recursion (depth : Nat)
  | stdIoError
  | future (d : TraitDef) (send sync unpin : Bool)
  | uninitSlice
  | utcTimestamp
inductive SFieldL where
  | nil
  | cons (name : Bytes) (t : Schema) (off : Option Nat) (rest : SFieldL)
inductive SVariantL where
  | nil
  | cons (name : Bytes) (discr : Nat) (fields : SFieldL) (rest : SVariantL)
inductive TraitDef where
  | mk (name : Bytes) (methods : MethodL) (sync send : Bool)
inductive MethodL where
  | nil
  | cons (name : Bytes) (ret : Schema) (receiver : Nat) (isAsync : Bool) (args : SchemaL) (rest : MethodL)
inductive SchemaL where
  | nil
  | cons (s : Schema) (rest : SchemaL)
end

def SFieldL.length : SFieldL → Nat
  | .nil => 0 | .cons _ _ _ r => r.length + 1
def SVariantL.length : SVariantL → Nat
  | .nil => 0 | .cons _ _ _ r => r.length + 1
def MethodL.length : MethodL → Nat
  | .nil => 0 | .cons _ _ _ _ _ r => r.length + 1
def SchemaL.length : SchemaL → Nat
  | .nil => 0 | .cons _ r => r.length + 1

/-! ### writer -/

def encStr (b : Bytes) : Bytes := leBytes 8 b.length ++ b
def encBool (b : Bool) : Bytes := [if b then 1 else 0]
def encOptNat : Option Nat → Bytes
  | none => [0]
  | some n => 1 :: leBytes 8 n
def u8 (n : Nat) : UInt8 := UInt8.ofNat (n % 256)

def plusSync : Bytes := [43, 83, 121, 110, 99]   -- "+Sync"
def plusSend : Bytes := [43, 83, 101, 110, 100]  -- "+Send"

def effectiveName (name : Bytes) (sync send : Bool) : Bytes :=
  name ++ (if sync then plusSync else []) ++ (if send then plusSend else [])

/-- receiver codes of `AbiMethodInfo`: 100 = &self, 101 = &mut self, 102 = Pin<&mut Self> -/
def receiverOk (n : Nat) : Bool := n == 100 || n == 101 || n == 102

mutual
def encSchema (v : Nat) : Schema → Bytes
  | .struct name size align fs =>
    1 :: (encStr name ++ leBytes 8 fs.length ++ (if v > 0 then encOptNat size ++ encOptNat align else [])
          ++ encFields v fs)
  | .enum name vs dsize expl size align =>
    2 :: (encStr name ++ leBytes 8 vs.length ++ encVariants v vs
          ++ (if v > 0 then [u8 dsize] ++ encBool expl ++ encOptNat size ++ encOptNat align else []))
  | .prim p => 3 :: (u8 p.code :: (match p with | .str l => if v > 0 then [u8 l.code] else [] | _ => []))
  | .vector t l => 4 :: (encSchema v t ++ (if v > 0 then [u8 l.code] else []))
  | .undefined => [5]
  | .zeroSize => [6]
  | .option t => 7 :: encSchema v t
  | .array t n => 8 :: (leBytes 8 n ++ encSchema v t)
  | .custom s => 9 :: encStr s
  | .boxed t => 10 :: encSchema v t
  | .fnClosure m d => 11 :: (encBool m ++ encDef v d)
  | .slice t => 12 :: encSchema v t
  | .str => [13]
  | .reference t => 14 :: encSchema v t
  | .trait m d => 15 :: (encBool m ++ encDef v d)
  | .recursion d => 16 :: leBytes 8 d
  | .stdIoError => [17]
  | .future d send sync unpin =>
    18 :: (u8 ((if send then 1 else 0) + (if sync then 2 else 0) + (if unpin then 4 else 0)) :: encDef v d)
  | .uninitSlice => [19]
  | .utcTimestamp => [20]
def encFields (v : Nat) : SFieldL → Bytes
  | .nil => []
  | .cons name t off rest =>
    encStr name ++ encSchema v t ++ (if v > 0 then encOptNat off else []) ++ encFields v rest
def encVariants (v : Nat) : SVariantL → Bytes
  | .nil => []
  | .cons name discr fs rest =>
    encStr name ++ [u8 discr] ++ leBytes 8 fs.length ++ encFields v fs ++ encVariants v rest
def encDef (v : Nat) : TraitDef → Bytes
  | .mk name methods sync send =>
    encStr (effectiveName name sync send) ++ leBytes 8 methods.length ++ encMethods v methods
def encMethods (v : Nat) : MethodL → Bytes
  | .nil => []
  | .cons name ret recv isAsync args rest =>
    encStr name ++ encSchema v ret ++ (if v ≥ 2 then [u8 recv] ++ encBool isAsync else [])
      ++ leBytes 8 args.length ++ encSchemaL v args ++ encMethods v rest
def encSchemaL (v : Nat) : SchemaL → Bytes
  | .nil => []
  | .cons s rest => encSchema v s ++ encSchemaL v rest
end

/-! ### reader (fuel-driven: every nested call spends one unit) -/

def readStr (cfg : Cfg) (bs : Bytes) : DecR Bytes :=
  match readLE 8 bs with
  | .error e => .error e
  | .ok (n, r) =>
    if cfg.sanity && decide (n > 1000000) then .error (.err .general)
    else match takeN n r with
      | none => .error (.err .eof)
      | some (b, r') => if validUtf8 b then .ok (b, r') else .error (.err .utf8)

def readOptNat (bs : Bytes) : DecR (Option Nat) :=
  match readLE 1 bs with
  | .error e => .error e
  | .ok (t, r) =>
    if t = 1 then
      match readLE 8 r with
      | .error e => .error e
      | .ok (n, r') => .ok (some n, r')
    else .ok (none, r)

def readBool (bs : Bytes) : DecR Bool :=
  match readLE 1 bs with
  | .error e => .error e
  | .ok (t, r) => .ok (t == 1, r)

/-- split a trait name at `+`: the name proper and its suffix segments -/
def splitPlus : Bytes → Bytes × List Bytes
  | [] => ([], [])
  | c :: rest =>
    let (h, t) := splitPlus rest
    if c = 43 then ([], h :: t) else (c :: h, t)

def parseTraitName (full : Bytes) : Option (Bytes × Bool × Bool) :=
  let (name, segs) := splitPlus full
  let sync := [83, 121, 110, 99]
  let send := [83, 101, 110, 100]
  if segs.all (fun s => s == sync || s == send) then
    some (name, segs.any (· == sync), segs.any (· == send))
  else none

def primOfCode (cfg : Cfg) (v : Nat) (c : Nat) (r : Bytes) : DecR SPrim :=
  match c with
  | 1 => .ok (.i8, r) | 2 => .ok (.u8, r) | 3 => .ok (.i16, r) | 4 => .ok (.u16, r)
  | 5 => .ok (.i32, r) | 6 => .ok (.u32, r) | 7 => .ok (.i64, r) | 8 => .ok (.u64, r)
  | 9 =>
    if v > 0 then
      match readLE 1 r with
      | .error e => .error e
      | .ok (l, r') => .ok (.str (VLayout.ofCode l), r')
    else .ok (.str .unknown, r)
  | 10 => .ok (.f32, r) | 11 => .ok (.f64, r) | 12 => .ok (.bool, r) | 13 => .ok (.canary1, r)
  | 14 => .ok (.i128, r) | 15 => .ok (.u128, r) | 16 => .ok (.char, r)
  | _ => .error (.err .general)

mutual
def decSchema (cfg : Cfg) (v : Nat) : Nat → Bytes → DecR Schema
  | 0, _ => .error (.err .general)
  | f+1, bs =>
    match readLE 1 bs with
    | .error e => .error e
    | .ok (tag, r) =>
      match tag with
      | 1 =>
        match readStr cfg r with
        | .error e => .error e
        | .ok (name, r1) =>
          match readLE 8 r1 with
          | .error e => .error e
          | .ok (n, r2) =>
            if v > 0 then
              match readOptNat r2 with
              | .error e => .error e
              | .ok (size, r3) =>
                match readOptNat r3 with
                | .error e => .error e
                | .ok (align, r4) =>
                  match decFields cfg v f n r4 with
                  | .error e => .error e
                  | .ok (fs, r5) => .ok (.struct name size align fs, r5)
            else
              match decFields cfg v f n r2 with
              | .error e => .error e
              | .ok (fs, r5) => .ok (.struct name none none fs, r5)
      | 2 =>
        match readStr cfg r with
        | .error e => .error e
        | .ok (name, r1) =>
          match readLE 8 r1 with
          | .error e => .error e
          | .ok (n, r2) =>
            match decVariants cfg v f n r2 with
            | .error e => .error e
            | .ok (vs, r3) =>
              if v > 0 then
                match readLE 1 r3 with
                | .error e => .error e
                | .ok (dsize, r4) =>
                  match readBool r4 with
                  | .error e => .error e
                  | .ok (expl, r5) =>
                    match readOptNat r5 with
                    | .error e => .error e
                    | .ok (size, r6) =>
                      match readOptNat r6 with
                      | .error e => .error e
                      | .ok (align, r7) => .ok (.enum name vs dsize expl size align, r7)
              else .ok (.enum name vs 1 false none none, r3)
      | 3 =>
        match readLE 1 r with
        | .error e => .error e
        | .ok (c, r1) =>
          match primOfCode cfg v c r1 with
          | .error e => .error e
          | .ok (p, r2) => .ok (.prim p, r2)
      | 4 =>
        match decSchema cfg v f r with
        | .error e => .error e
        | .ok (t, r1) =>
          if v > 0 then
            match readLE 1 r1 with
            | .error e => .error e
            | .ok (l, r2) => .ok (.vector t (VLayout.ofCode l), r2)
          else .ok (.vector t .unknown, r1)
      | 5 => .ok (.undefined, r)
      | 6 => .ok (.zeroSize, r)
      | 7 =>
        match decSchema cfg v f r with
        | .error e => .error e
        | .ok (t, r1) => .ok (.option t, r1)
      | 8 =>
        match readLE 8 r with
        | .error e => .error e
        | .ok (n, r1) =>
          match decSchema cfg v f r1 with
          | .error e => .error e
          | .ok (t, r2) => .ok (.array t n, r2)
      | 9 =>
        match readStr cfg r with
        | .error e => .error e
        | .ok (s, r1) => .ok (.custom s, r1)
      | 10 =>
        match decSchema cfg v f r with
        | .error e => .error e
        | .ok (t, r1) => .ok (.boxed t, r1)
      | 11 =>
        match readBool r with
        | .error e => .error e
        | .ok (m, r1) =>
          match decDef cfg v f r1 with
          | .error e => .error e
          | .ok (d, r2) => .ok (.fnClosure m d, r2)
      | 12 =>
        match decSchema cfg v f r with
        | .error e => .error e
        | .ok (t, r1) => .ok (.slice t, r1)
      | 13 => .ok (.str, r)
      | 14 =>
        match decSchema cfg v f r with
        | .error e => .error e
        | .ok (t, r1) => .ok (.reference t, r1)
      | 15 =>
        match readBool r with
        | .error e => .error e
        | .ok (m, r1) =>
          match decDef cfg v f r1 with
          | .error e => .error e
          | .ok (d, r2) => .ok (.trait m d, r2)
      | 16 =>
        match readLE 8 r with
        | .error e => .error e
        | .ok (n, r1) => .ok (.recursion n, r1)
      | 17 => .ok (.stdIoError, r)
      | 18 =>
        match readLE 1 r with
        | .error e => .error e
        | .ok (mask, r1) =>
          match decDef cfg v f r1 with
          | .error e => .error e
          | .ok (d, r2) => .ok (.future d (mask % 2 == 1) ((mask / 2) % 2 == 1) ((mask / 4) % 2 == 1), r2)
      | 19 => .ok (.uninitSlice, r)
      | 20 => .ok (.utcTimestamp, r)
      | _ => .error (.err .general)
def decFields (cfg : Cfg) (v : Nat) : Nat → Nat → Bytes → DecR SFieldL
  | _, 0, bs => .ok (.nil, bs)
  | 0, _+1, _ => .error (.err .general)
  | f+1, n+1, bs =>
    match readStr cfg bs with
    | .error e => .error e
    | .ok (name, r1) =>
      match decSchema cfg v f r1 with
      | .error e => .error e
      | .ok (t, r2) =>
        if v > 0 then
          match readOptNat r2 with
          | .error e => .error e
          | .ok (off, r3) =>
            match decFields cfg v f n r3 with
            | .error e => .error e
            | .ok (rest, r4) => .ok (.cons name t off rest, r4)
        else
          match decFields cfg v f n r2 with
          | .error e => .error e
          | .ok (rest, r4) => .ok (.cons name t none rest, r4)
def decVariants (cfg : Cfg) (v : Nat) : Nat → Nat → Bytes → DecR SVariantL
  | _, 0, bs => .ok (.nil, bs)
  | 0, _+1, _ => .error (.err .general)
  | f+1, n+1, bs =>
    match readStr cfg bs with
    | .error e => .error e
    | .ok (name, r1) =>
      match readLE 1 r1 with
      | .error e => .error e
      | .ok (discr, r2) =>
        match readLE 8 r2 with
        | .error e => .error e
        | .ok (nf, r3) =>
          match decFields cfg v f nf r3 with
          | .error e => .error e
          | .ok (fs, r4) =>
            match decVariants cfg v f n r4 with
            | .error e => .error e
            | .ok (rest, r5) => .ok (.cons name discr fs rest, r5)
def decDef (cfg : Cfg) (v : Nat) : Nat → Bytes → DecR TraitDef
  | 0, _ => .error (.err .general)
  | f+1, bs =>
    match readStr cfg bs with
    | .error e => .error e
    | .ok (full, r1) =>
      match parseTraitName full with
      | none => .error (.err .general)
      | some (name, sync, send) =>
        match readLE 8 r1 with
        | .error e => .error e
        | .ok (n, r2) =>
          if cfg.sanity && decide (n > 1000000) then .error (.err .general)
          else match decMethods cfg v f n r2 with
            | .error e => .error e
            | .ok (ms, r3) => .ok (.mk name ms sync send, r3)
def decMethods (cfg : Cfg) (v : Nat) : Nat → Nat → Bytes → DecR MethodL
  | _, 0, bs => .ok (.nil, bs)
  | 0, _+1, _ => .error (.err .general)
  | f+1, n+1, bs =>
    match readStr cfg bs with
    | .error e => .error e
    | .ok (name, r1) =>
      match decSchema cfg v f r1 with
      | .error e => .error e
      | .ok (ret, r2) =>
        match (if v ≥ 2 then
                match readLE 1 r2 with
                | .error e => .error e
                | .ok (rc, r3) =>
                  if receiverOk rc then
                    match readBool r3 with
                    | .error e => .error e
                    | .ok (a, r4) => .ok ((rc, a), r4)
                  else .error (.err .wrongVersion)
              else .ok ((100, false), r2) : DecR (Nat × Bool)) with
        | .error e => .error e
        | .ok ((rc, isAsync), r4) =>
          match readLE 8 r4 with
          | .error e => .error e
          | .ok (na, r5) =>
            if cfg.sanity && decide (na > 1000000) then .error (.err .general)
            else match decSchemaL cfg v f na r5 with
              | .error e => .error e
              | .ok (args, r6) =>
                match decMethods cfg v f n r6 with
                | .error e => .error e
                | .ok (rest, r7) => .ok (.cons name ret rc isAsync args rest, r7)
def decSchemaL (cfg : Cfg) (v : Nat) : Nat → Nat → Bytes → DecR SchemaL
  | _, 0, bs => .ok (.nil, bs)
  | 0, _+1, _ => .error (.err .general)
  | f+1, n+1, bs =>
    match decSchema cfg v f bs with
    | .error e => .error e
    | .ok (s, r1) =>
      match decSchemaL cfg v f n r1 with
      | .error e => .error e
      | .ok (rest, r2) => .ok (.cons s rest, r2)
end

end Sfv
