/-
  Sfv.Model.Evolve — schema evolution: edit steps on field lists and the relation
  "everything the older grammar encodes, the newer grammar encodes identically" (`encExt`).

  A later definition `B` of a type carries its history in its attributes, so `wireOf B i` is what `B`
  believes version `i` looked like; `saveWire A i` is what the program of that time (`A`, current at `i`)
  actually wrote.  `encExt (saveWire A i) (wireOf B i)` is the bridge between the two; the edit-step lemmas
  in `Sfv.Lemmas.Evolve` show the documented edits establish it.
-/
import Sfv.Model.Ty
namespace Sfv

def FieldL.app : FieldL → FieldL → FieldL
  | .nil, b => b
  | .cons a t as fs, b => .cons a t as (fs.app b)

def VariantL.app : VariantL → VariantL → VariantL
  | .nil, b => b
  | .cons n r d fs vs, b => .cons n r d fs (vs.app b)

def WL.app : WL → WL → WL
  | .nil, b => b
  | .cons t ts, b => .cons t (ts.app b)

mutual
/-- `b` encodes every value `a` encodes, to the same bytes: identical up to reading strategy
    (bulk / limit annotations) and up to alternatives appended to tagged unions -/
def encExt : W → W → Bool
  | .fixed k, .fixed k' => k == k'
  | .bool, .bool => true
  | .char, .char => true
  | .str c, .str c' => c == c'
  | .seq m t, .seq m' t' => (m.cap == m'.cap) && encExt t t'
  | .opt t, .opt t' => encExt t t'
  | .res a b, .res a' b' => encExt a a' && encExt b b'
  | .prod ts, .prod ts' => encExtL ts ts'
  | .rep n _ t, .rep n' _ t' => (n == n') && encExt t t'
  | .tagged w alts, .tagged w' alts' => (w == w') && encExtPrefix alts alts'
  | .canary, .canary => true
  | .sysTime, .sysTime => true
  | _, _ => false
def encExtL : WL → WL → Bool
  | .nil, .nil => true
  | .cons t ts, .cons t' ts' => encExt t t' && encExtL ts ts'
  | _, _ => false
/-- alternatives of `a` are a prefix of those of `b` -/
def encExtPrefix : WL → WL → Bool
  | .nil, _ => true
  | .cons t ts, .cons t' ts' => encExt t t' && encExtPrefix ts ts'
  | .cons _ _, .nil => false
end

def WL.append : WL → WL → WL
  | .nil, b => b
  | .cons t ts, b => .cons t (ts.append b)

/-- a product inside a product contributes its components: `struct { a: (u8, u16), b: u32 }` is the byte
    sequence `u8 u16 u32` -/
def spliceProds : WL → WL
  | .nil => .nil
  | .cons (.prod us) ts => us.append (spliceProds ts)
  | .cons t ts => .cons t (spliceProds ts)

mutual
/-- products flattened, one-component products replaced by their component (names and nesting of structs and
    tuples are not part of the bytes) -/
def normW : W → W
  | .seq m t => .seq m (normW t)
  | .opt t => .opt (normW t)
  | .res a b => .res (normW a) (normW b)
  | .prod ts =>
    match spliceProds (normWL ts) with
    | .cons t .nil => t
    | fs => .prod fs
  | .rep n b t => .rep n b (normW t)
  | .tagged w alts => .tagged w (normWL alts)
  | w => w
def normWL : WL → WL
  | .nil => .nil
  | .cons t ts => .cons (normW t) (normWL ts)
end

mutual
/-- structural comparison of two grammars (reading strategy, size limits and capacities aside) -/
def wireEqvS : W → W → Bool
  | .fixed k, .fixed k' => k == k'
  | .bool, .bool => true
  | .char, .char => true
  | .str _, .str _ => true
  | .seq _ t, .seq _ t' => wireEqvS t t'
  | .opt t, .opt t' => wireEqvS t t'
  | .res a b, .res a' b' => wireEqvS a a' && wireEqvS b b'
  | .prod ts, .prod ts' => wireEqvSL ts ts'
  | .rep n _ t, .rep n' _ t' => (n == n') && wireEqvS t t'
  | .tagged w alts, .tagged w' alts' => (w == w') && wireEqvSPrefix alts alts'
  | .canary, .canary => true
  | .sysTime, .sysTime => true
  -- a `SystemTime` is written as one 16 byte integer: the same layout as any other 16 byte primitive
  | .sysTime, .fixed k => k == 16
  | .fixed k, .sysTime => k == 16
  | _, _ => false
def wireEqvSL : WL → WL → Bool
  | .nil, .nil => true
  | .cons t ts, .cons t' ts' => wireEqvS t t' && wireEqvSL ts ts'
  | _, _ => false
/-- the reader may know variants appended after the writer's version -/
def wireEqvSPrefix : WL → WL → Bool
  | .nil, _ => true
  | .cons t ts, .cons t' ts' => wireEqvS t t' && wireEqvSPrefix ts ts'
  | .cons _ _, .nil => false
end

/-- the two grammars describe the same bytes: compared after flattening products -/
def wireEqv (a b : W) : Bool := wireEqvS (normW a) (normW b)

end Sfv
