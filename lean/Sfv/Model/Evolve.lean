/-
  Sfv.Model.Evolve — schema evolution: edit steps on field lists and the relation
  "everything the older grammar encodes, the newer grammar encodes identically" (`encExt`).

  A later definition `B` of a type carries its history in its attributes, so `wireOf B i` is what `B`
  believes version `i` looked like; `saveWire A i` is what the program of that time (`A`, current at `i`)
  actually wrote.  `encExt (saveWire A i) (wireOf B i)` is the bridge between the two; the edit-step lemmas
  in `Sfv.Lemmas.Evolve` show the documented edits establish it.
-/
import Sfv.Model.Ty
namespace Sfv

def FieldL.app : FieldL → FieldL → FieldL
  | .nil, b => b
  | .cons a t as fs, b => .cons a t as (fs.app b)

def VariantL.app : VariantL → VariantL → VariantL
  | .nil, b => b
  | .cons n r d fs vs, b => .cons n r d fs (vs.app b)

def WL.app : WL → WL → WL
  | .nil, b => b
  | .cons t ts, b => .cons t (ts.app b)

mutual
/-- `b` encodes every value `a` encodes, to the same bytes: identical up to reading strategy
    (bulk / limit annotations) and up to alternatives appended to tagged unions -/
def encExt : W → W → Bool
  | .fixed k, .fixed k' => k == k'
  | .bool, .bool => true
  | .char, .char => true
  | .str c, .str c' => c == c'
  | .seq m t, .seq m' t' => (m.cap == m'.cap) && encExt t t'
  | .opt t, .opt t' => encExt t t'
  | .res a b, .res a' b' => encExt a a' && encExt b b'
  | .prod ts, .prod ts' => encExtL ts ts'
  | .rep n _ t, .rep n' _ t' => (n == n') && encExt t t'
  | .tagged w alts, .tagged w' alts' => (w == w') && encExtPrefix alts alts'
  | .canary, .canary => true
  | .sysTime, .sysTime => true
  | _, _ => false
def encExtL : WL → WL → Bool
  | .nil, .nil => true
  | .cons t ts, .cons t' ts' => encExt t t' && encExtL ts ts'
  | _, _ => false
/-- alternatives of `a` are a prefix of those of `b` -/
def encExtPrefix : WL → WL → Bool
  | .nil, _ => true
  | .cons t ts, .cons t' ts' => encExt t t' && encExtPrefix ts ts'
  | .cons _ _, .nil => false
end

mutual
/-- the two grammars describe the same bytes (reading strategy, size limits and capacities aside) -/
def wireEqv : W → W → Bool
  | .fixed k, .fixed k' => k == k'
  | .bool, .bool => true
  | .char, .char => true
  | .str _, .str _ => true
  | .seq _ t, .seq _ t' => wireEqv t t'
  | .opt t, .opt t' => wireEqv t t'
  | .res a b, .res a' b' => wireEqv a a' && wireEqv b b'
  | .prod ts, .prod ts' => wireEqvL ts ts'
  | .rep n _ t, .rep n' _ t' => (n == n') && wireEqv t t'
  | .tagged w alts, .tagged w' alts' => (w == w') && wireEqvPrefix alts alts'
  | .canary, .canary => true
  | .sysTime, .sysTime => true
  -- a `SystemTime` is written as one 16 byte integer: the same layout as any other 16 byte primitive
  | .sysTime, .fixed k => k == 16
  | .fixed k, .sysTime => k == 16
  | _, _ => false
def wireEqvL : WL → WL → Bool
  | .nil, .nil => true
  | .cons t ts, .cons t' ts' => wireEqv t t' && wireEqvL ts ts'
  | _, _ => false
/-- the reader may know variants appended after the writer's version -/
def wireEqvPrefix : WL → WL → Bool
  | .nil, _ => true
  | .cons t ts, .cons t' ts' => wireEqv t t' && wireEqvPrefix ts ts'
  | .cons _ _, .nil => false
end

end Sfv
