/-
  Sfv.Model.SchemaWf — well-formedness of schema values (what a `Schema` built by real code satisfies),
  the normal form a schema takes after a trip through format `v`, and the fuel a reader needs.
-/
import Sfv.Model.SchemaDiff
namespace Sfv

def wfName (cfg : Cfg) (b : Bytes) : Bool :=
  validUtf8 b && decide (b.length < 2^64) && (!cfg.sanity || decide (b.length ≤ 1000000))

def wfOpt : Option Nat → Bool
  | none => true
  | some n => decide (n < 2^64)

def noPlus (b : Bytes) : Bool := b.all (fun c => c != 43)

def wfCount (cfg : Cfg) (n : Nat) : Bool := decide (n < 2^64) && (!cfg.sanity || decide (n ≤ 1000000))

mutual
def wfS (cfg : Cfg) : Schema → Bool
  | .struct name size align fs => wfName cfg name && wfOpt size && wfOpt align && decide (fs.length < 2^64) && wfSF cfg fs
  | .enum name vs dsize _ size align =>
    wfName cfg name && decide (vs.length < 2^64) && decide (dsize < 256) && wfOpt size && wfOpt align && wfSV cfg vs
  | .prim _ => true
  | .vector t _ => wfS cfg t
  | .array t n => decide (n < 2^64) && wfS cfg t
  | .option t => wfS cfg t
  | .custom s => wfName cfg s
  | .boxed t => wfS cfg t
  | .slice t => wfS cfg t
  | .reference t => wfS cfg t
  | .trait _ d => wfD cfg d
  | .fnClosure _ d => wfD cfg d
  | .recursion n => decide (n < 2^64)
  | .future d _ _ _ => wfD cfg d
  | _ => true
def wfSF (cfg : Cfg) : SFieldL → Bool
  | .nil => true
  | .cons name t off rest => wfName cfg name && wfS cfg t && wfOpt off && wfSF cfg rest
def wfSV (cfg : Cfg) : SVariantL → Bool
  | .nil => true
  | .cons name discr fs rest =>
    wfName cfg name && decide (discr < 256) && decide (fs.length < 2^64) && wfSF cfg fs && wfSV cfg rest
def wfD (cfg : Cfg) : TraitDef → Bool
  | .mk name ms sync send =>
    noPlus name && wfName cfg (effectiveName name sync send) && wfCount cfg ms.length && wfM cfg ms
def wfM (cfg : Cfg) : MethodL → Bool
  | .nil => true
  | .cons name ret recv _ args rest =>
    wfName cfg name && wfS cfg ret && receiverOk recv && wfCount cfg args.length && wfSL cfg args && wfM cfg rest
def wfSL (cfg : Cfg) : SchemaL → Bool
  | .nil => true
  | .cons s rest => wfS cfg s && wfSL cfg rest
end

mutual
/-- what comes back after writing and reading at library format version `v` -/
def normS (v : Nat) : Schema → Schema
  | .struct name size align fs => .struct name (if v > 0 then size else none) (if v > 0 then align else none) (normSF v fs)
  | .enum name vs dsize expl size align =>
    if v > 0 then .enum name (normSV v vs) dsize expl size align else .enum name (normSV v vs) 1 false none none
  | .prim (.str l) => .prim (.str (if v > 0 then l else .unknown))
  | .prim p => .prim p
  | .vector t l => .vector (normS v t) (if v > 0 then l else .unknown)
  | .array t n => .array (normS v t) n
  | .option t => .option (normS v t)
  | .boxed t => .boxed (normS v t)
  | .slice t => .slice (normS v t)
  | .reference t => .reference (normS v t)
  | .trait m d => .trait m (normD v d)
  | .fnClosure m d => .fnClosure m (normD v d)
  | .future d a b c => .future (normD v d) a b c
  | s => s
def normSF (v : Nat) : SFieldL → SFieldL
  | .nil => .nil
  | .cons name t off rest => .cons name (normS v t) (if v > 0 then off else none) (normSF v rest)
def normSV (v : Nat) : SVariantL → SVariantL
  | .nil => .nil
  | .cons name discr fs rest => .cons name discr (normSF v fs) (normSV v rest)
def normD (v : Nat) : TraitDef → TraitDef
  | .mk name ms sync send => .mk name (normM v ms) sync send
def normM (v : Nat) : MethodL → MethodL
  | .nil => .nil
  | .cons name ret recv isAsync args rest =>
    .cons name (normS v ret) (if v ≥ 2 then recv else 100) (if v ≥ 2 then isAsync else false) (normSL v args) (normM v rest)
def normSL (v : Nat) : SchemaL → SchemaL
  | .nil => .nil
  | .cons s rest => .cons (normS v s) (normSL v rest)
end

mutual
/-- fuel that suffices to read a schema back -/
def sizeS : Schema → Nat
  | .struct _ _ _ fs => 1 + sizeSF fs
  | .enum _ vs _ _ _ _ => 1 + sizeSV vs
  | .vector t _ => 1 + sizeS t
  | .array t _ => 1 + sizeS t
  | .option t => 1 + sizeS t
  | .boxed t => 1 + sizeS t
  | .slice t => 1 + sizeS t
  | .reference t => 1 + sizeS t
  | .trait _ d => 1 + sizeD d
  | .fnClosure _ d => 1 + sizeD d
  | .future d _ _ _ => 1 + sizeD d
  | _ => 1
def sizeSF : SFieldL → Nat
  | .nil => 0
  | .cons _ t _ rest => 1 + sizeS t + sizeSF rest
def sizeSV : SVariantL → Nat
  | .nil => 0
  | .cons _ _ fs rest => 1 + sizeSF fs + sizeSV rest
def sizeD : TraitDef → Nat
  | .mk _ ms _ _ => 1 + sizeM ms
def sizeM : MethodL → Nat
  | .nil => 0
  | .cons _ ret _ _ args rest => 1 + sizeS ret + sizeSL args + sizeM rest
def sizeSL : SchemaL → Nat
  | .nil => 0
  | .cons s rest => 1 + max (sizeS s) (sizeSL rest)   -- a one-byte schema pays for one list cell only
end

end Sfv
