/-
  Sfv.Model.Image — the memory image a schema prescribes for a value.

  A schema with complete layout information (sizes, alignments, field offsets, discriminant width) says where
  every primitive of a value lies in memory.  `imgAt base s x` is the list of (address, byte) pairs that `s`
  prescribes for the (wire-order) value `x` placed at `base`; bytes the schema says nothing about (padding,
  pointer words of `String`/`Vec`/`Box`/references) are simply absent.  `none`: the schema does not determine
  the image (an unknown offset or size, a node without memory format).

  `Schema::layout_compatible` is meant to guarantee that two schemas prescribe the same image
  (`Sfv.Props.C11`); the correspondence checks that the real memory of values agrees with the image of their
  real schema wherever the schema claims a layout.
-/
import Sfv.Model.SchemaDiff
namespace Sfv

abbrev Img := List (Nat × UInt8)

def bytesAt : Nat → Bytes → Img
  | _, [] => []
  | base, b :: bs => (base, b) :: bytesAt (base + 1) bs

/-- size in memory of a primitive; `String` is three pointer-sized words; `Canary1` is zero sized -/
def SPrim.memSize : SPrim → Nat
  | .i8 | .u8 | .bool => 1
  | .i16 | .u16 => 2
  | .i32 | .u32 | .f32 | .char => 4
  | .i64 | .u64 | .f64 => 8
  | .i128 | .u128 => 16
  | .str _ => 24
  | .canary1 => 0

/-- does the image of this primitive consist of its little-endian value (else: nothing prescribed) -/
def SPrim.plain : SPrim → Bool
  | .str _ | .canary1 => false
  | _ => true

def schemaSize : Schema → Option Nat
  | .struct _ size _ _ => size
  | .enum _ _ _ _ size _ => size
  | .prim p => some p.memSize
  | .vector _ _ => some 24
  | .array t n => (schemaSize t).map (· * n)
  | .zeroSize => some 0
  | .boxed _ => some 8
  | .reference _ => some 8
  | .slice _ => some 16
  | .str => some 16
  | _ => none

def optApp (a b : Option Img) : Option Img :=
  match a, b with
  | some x, some y => some (x ++ y)
  | _, _ => none

/-- the i-th variant of an enum schema: its recorded discriminant and its fields -/
def variantAt : SVariantL → Nat → Option (Nat × SFieldL)
  | .nil, _ => none
  | .cons _ discr fs _, 0 => some (discr, fs)
  | .cons _ _ _ rest, i + 1 => variantAt rest i

mutual
def imgAt (base : Nat) : Schema → V → Option Img
  | .prim p, v =>
    if p.plain then
      match v with
      | .num n => some (bytesAt base (leBytes p.memSize n))
      | _ => none
    else some []
  | .struct _ _ _ fs, .tup l => imgFields base fs l
  | .enum _ vs dsize _ _ _, .alt i (.tup l) =>
    -- the discriminant (as the schema records it) in the first `dsize` bytes, then the variant's fields
    match variantAt vs i with
    | some (discr, fs) => optApp (some (bytesAt base (leBytes dsize discr))) (imgFields base fs l)
    | none => none
  | .array t _, .tup l =>
    match schemaSize t with
    | some k => imgElems base k t l
    | none => none
  | .zeroSize, _ => some []
  | .vector _ _, _ => some []
  | .boxed _, _ => some []
  | .reference _, _ => some []
  | .slice _, _ => some []
  | .str, _ => some []
  | _, _ => none
def imgFields (base : Nat) : SFieldL → VL → Option Img
  | .nil, .nil => some []
  | .cons _ t (some off) rest, .cons x xs => optApp (imgAt (base + off) t x) (imgFields base rest xs)
  | _, _ => none
def imgElems (base : Nat) (stride : Nat) (t : Schema) : VL → Option Img
  | .nil => some []
  | .cons x xs => optApp (imgAt base t x) (imgElems (base + stride) stride t xs)
end

/-- does memory `mem` (a byte per address, `none` = not readable/uninitialised) agree with an image -/
def imgHolds (img : Img) (mem : Nat → Option UInt8) : Bool :=
  img.all fun (a, b) => mem a == some b

/-! ### the heap: collections with a known header layout

`imgAt` leaves the words of a `Vec`/`String` header and everything behind them open.  `holdsAt` reads memory as a
whole: for a collection whose schema records where pointer and length lie in the header, the data the pointer
leads to has to hold the elements, recursively. -/

/-- memory: a byte per readable address -/
abbrev Mem := Nat → Option UInt8

def memHas (mem : Mem) : Nat → Bytes → Bool
  | _, [] => true
  | a, b :: bs => (mem a == some b) && memHas mem (a + 1) bs

/-- little-endian word of `n` bytes at `a`, if all of it is readable -/
def readWordLE (mem : Mem) : Nat → Nat → Option Nat
  | _, 0 => some 0
  | a, n + 1 =>
    match mem a, readWordLE mem (a + 1) n with
    | some b, some r => some (b.toNat + 256 * r)
    | _, _ => none

/-- positions (in 8 byte words) of the data pointer and of the length in a `Vec`/`String`/slice header -/
def VLayout.words : VLayout → Option (Nat × Nat)
  | .unknown => none
  | .dataCapLen => some (0, 2)
  | .dataLenCap => some (0, 1)
  | .capDataLen => some (1, 2)
  | .lenDataCap => some (1, 0)
  | .capLenData => some (2, 1)
  | .lenCapData => some (2, 0)
  | .lenData => some (1, 0)
  | .dataLen => some (0, 1)

/-- the header of a collection at `base` under layout `lay`: (address of the data, number of elements) -/
def headerAt (mem : Mem) (base : Nat) (lay : VLayout) : Option (Nat × Nat) :=
  match lay.words with
  | none => none
  | some (d, l) =>
    match readWordLE mem (base + 8 * d) 8, readWordLE mem (base + 8 * l) 8 with
    | some p, some n => some (p, n)
    | _, _ => none

mutual
/-- `mem` holds, at `base`, a representation of `x` as the schema prescribes it — the heap data of vectors and
    strings with a known header layout included, recursively.  Where the schema prescribes nothing (padding,
    pointers of boxes and references, collections of unknown layout) nothing is demanded. -/
def holdsAt (mem : Mem) (base : Nat) : Schema → V → Bool
  | .prim p, v =>
    if p.plain then
      match v with
      | .num n => memHas mem base (leBytes p.memSize n)
      | _ => false
    else
      match p, v with
      | .str lay, .bytes b =>
        match lay with
        | .unknown => true
        | _ =>
          match headerAt mem base lay with
          | some (ptr, n) => (n == b.length) && memHas mem ptr b
          | none => false
      | _, _ => true
  | .struct _ _ _ fs, .tup l => holdsFields mem base fs l
  | .enum _ vs dsize _ _ _, .alt i (.tup l) =>
    match variantAt vs i with
    | some (discr, fs) => memHas mem base (leBytes dsize discr) && holdsFields mem base fs l
    | none => false
  | .array t _, .tup l =>
    match schemaSize t with
    | some k => holdsElems mem base k t l
    | none => false
  | .zeroSize, _ => true
  | .vector t lay, .seq l =>
    match lay with
    | .unknown => true
    | _ =>
      match headerAt mem base lay, schemaSize t with
      | some (ptr, n), some k => (n == l.length) && holdsElems mem ptr k t l
      | _, _ => false
  | .vector _ _, _ => true
  | .boxed _, _ => true
  | .reference _, _ => true
  | .slice _, _ => true
  | .str, _ => true
  | _, _ => false
def holdsFields (mem : Mem) (base : Nat) : SFieldL → VL → Bool
  | .nil, .nil => true
  | .cons _ t (some off) rest, .cons x xs => holdsAt mem (base + off) t x && holdsFields mem base rest xs
  | _, _ => false
def holdsElems (mem : Mem) (base : Nat) (stride : Nat) (t : Schema) : VL → Bool
  | .nil => true
  | .cons x xs => holdsAt mem base t x && holdsElems mem (base + stride) stride t xs
end

end Sfv
