/-
  Sfv.Model.Image — the memory image a schema prescribes for a value.

  A schema with complete layout information (sizes, alignments, field offsets, discriminant width) says where
  every primitive of a value lies in memory.  `imgAt base s x` is the list of (address, byte) pairs that `s`
  prescribes for the (wire-order) value `x` placed at `base`; bytes the schema says nothing about (padding,
  pointer words of `String`/`Vec`/`Box`/references) are simply absent.  `none`: the schema does not determine
  the image (an unknown offset or size, a node without memory format).

  `Schema::layout_compatible` is meant to guarantee that two schemas prescribe the same image
  (`Sfv.Props.C11`); the correspondence checks that the real memory of values agrees with the image of their
  real schema wherever the schema claims a layout.
-/
import Sfv.Model.SchemaDiff
namespace Sfv

abbrev Img := List (Nat × UInt8)

def bytesAt : Nat → Bytes → Img
  | _, [] => []
  | base, b :: bs => (base, b) :: bytesAt (base + 1) bs

/-- size in memory of a primitive; `String` is three pointer-sized words; `Canary1` is zero sized -/
def SPrim.memSize : SPrim → Nat
  | .i8 | .u8 | .bool => 1
  | .i16 | .u16 => 2
  | .i32 | .u32 | .f32 | .char => 4
  | .i64 | .u64 | .f64 => 8
  | .i128 | .u128 => 16
  | .str _ => 24
  | .canary1 => 0

/-- does the image of this primitive consist of its little-endian value (else: nothing prescribed) -/
def SPrim.plain : SPrim → Bool
  | .str _ | .canary1 => false
  | _ => true

def schemaSize : Schema → Option Nat
  | .struct _ size _ _ => size
  | .enum _ _ _ _ size _ => size
  | .prim p => some p.memSize
  | .vector _ _ => some 24
  | .array t n => (schemaSize t).map (· * n)
  | .zeroSize => some 0
  | .boxed _ => some 8
  | .reference _ => some 8
  | .slice _ => some 16
  | .str => some 16
  | _ => none

def optApp (a b : Option Img) : Option Img :=
  match a, b with
  | some x, some y => some (x ++ y)
  | _, _ => none

/-- the i-th variant of an enum schema: its recorded discriminant and its fields -/
def variantAt : SVariantL → Nat → Option (Nat × SFieldL)
  | .nil, _ => none
  | .cons _ discr fs _, 0 => some (discr, fs)
  | .cons _ _ _ rest, i + 1 => variantAt rest i

mutual
def imgAt (base : Nat) : Schema → V → Option Img
  | .prim p, v =>
    if p.plain then
      match v with
      | .num n => some (bytesAt base (leBytes p.memSize n))
      | _ => none
    else some []
  | .struct _ _ _ fs, .tup l => imgFields base fs l
  | .enum _ vs dsize _ _ _, .alt i (.tup l) =>
    -- the discriminant (as the schema records it) in the first `dsize` bytes, then the variant's fields
    match variantAt vs i with
    | some (discr, fs) => optApp (some (bytesAt base (leBytes dsize discr))) (imgFields base fs l)
    | none => none
  | .array t _, .tup l =>
    match schemaSize t with
    | some k => imgElems base k t l
    | none => none
  | .zeroSize, _ => some []
  | .vector _ _, _ => some []
  | .boxed _, _ => some []
  | .reference _, _ => some []
  | .slice _, _ => some []
  | .str, _ => some []
  | _, _ => none
def imgFields (base : Nat) : SFieldL → VL → Option Img
  | .nil, .nil => some []
  | .cons _ t (some off) rest, .cons x xs => optApp (imgAt (base + off) t x) (imgFields base rest xs)
  | _, _ => none
def imgElems (base : Nat) (stride : Nat) (t : Schema) : VL → Option Img
  | .nil => some []
  | .cons x xs => optApp (imgAt base t x) (imgElems (base + stride) stride t xs)
end

/-- does memory `mem` (a byte per address, `none` = not readable/uninitialised) agree with an image -/
def imgHolds (img : Img) (mem : Nat → Option UInt8) : Bool :=
  img.all fun (a, b) => mem a == some b

end Sfv
