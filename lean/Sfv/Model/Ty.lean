/-
  Sfv.Model.Ty — type descriptors with version attributes and memory layouts, and their
  compilation to the wire grammar.

  `Ty` is what `#[derive(Savefile)]` sees (fields with `savefile_versions`,
  `savefile_versions_as`, `Removed`/`AbiRemoved`, `savefile_ignore`, defaults; variants with
  version ranges; `repr`), plus the memory layout rustc chose (an *input*: size, alignment,
  field offsets), plus the library types.  `wireOf T v` is the wire grammar a reader at data
  version `v` expects; `saveWire T v` what a writer at `v` emits; `fill`/`proj` convert between
  wire values and memory values (defaults, conversions, removed fields).

  Mirrors savefile-derive: `serialize.rs`, `deserialize.rs`, `lib.rs:52-217` (field gates),
  `lib.rs:1027-1441` (packed decision), `common.rs:69-79,127-421` (attributes);
  savefile/src/lib.rs: library `Serialize`/`Deserialize`/`Packed` impls.
-/
import Sfv.Model.Wire
namespace Sfv

inductive Prim where
  | u8 | i8 | u16 | i16 | u32 | i32 | u64 | i64 | u128 | i128
  | f32 | f64 | bool | char | usize | isize | unit
deriving DecidableEq, Repr

/-- encoded width in bytes (`usize`/`isize` travel as 64 bit) -/
def Prim.wireWidth : Prim → Nat
  | .u8 | .i8 | .bool => 1
  | .u16 | .i16 => 2
  | .u32 | .i32 | .f32 | .char => 4
  | .u64 | .i64 | .f64 | .usize | .isize => 8
  | .u128 | .i128 => 16
  | .unit => 0

/-- size in memory on the modelled target (x86-64) -/
def Prim.memSize : Prim → Nat := Prim.wireWidth

/-- alignment on the modelled target (x86-64, rustc ≥ 1.77: 16 for 128-bit integers) -/
def Prim.memAlign : Prim → Nat
  | .unit => 1
  | p => p.wireWidth

/-- `impl Packed for <prim>`: everything but `usize`/`isize` -/
def Prim.packed : Prim → Bool
  | .usize | .isize => false
  | _ => true

def Prim.wire : Prim → W
  | .bool => .bool
  | .char => .char
  | .unit => .prod .nil
  | p => .fixed p.wireWidth

/-- inclusive range of data versions; `hi = u32::MAX` means open -/
structure VerRange where
  lo : Nat
  hi : Nat
deriving DecidableEq, Repr

def u32Max : Nat := 4294967295
def VerRange.all : VerRange := ⟨0, u32Max⟩
def VerRange.has (r : VerRange) (v : Nat) : Bool := decide (r.lo ≤ v) && decide (v ≤ r.hi)
def VerRange.isAll (r : VerRange) : Bool := r.lo == 0 && r.hi == u32Max

/-- `AttrsResult::min_safe_version` -/
def VerRange.minSafe (r : VerRange) : Nat :=
  max (if r.hi < u32Max then r.hi + 1 else 0) r.lo

inductive Removal where
  | no | removed | abi
deriving DecidableEq, Repr

structure FieldAttr where
  name : String
  r : VerRange := .all
  rm : Removal := .no
  ignore : Bool := false
  /-- value the field takes when it is not read from the stream
      (`Default::default()`, `savefile_default_val`, `savefile_default_fn`) — user code, a parameter -/
  dflt : V := .tup .nil
  /-- value an `AbiRemoved` field writes (`ValueConstructor::make_value()`) — user code, a parameter -/
  ctor : V := .tup .nil
  /-- byte offset of the field in memory -/
  off : Nat := 0

inductive ReprAttr where
  | rust | c | int (bytes : Nat) | cInt (bytes : Nat) | transparent
deriving DecidableEq, Repr

/-- memory layout facts of a struct / enum / tuple as measured (an input to the model) -/
structure Lay where
  size : Nat := 0
  align : Nat := 1
deriving DecidableEq, Repr

/-- how a transparent wrapper takes part in schemas and the packed decision -/
inductive WrapKind where
  | boxed   -- Box, Rc, Arc: schema goes through the recursion guard
  | plain   -- Mutex, RwLock, RefCell, Cow: transparent
  | cell    -- Cell<T>: transparent, and `Packed` iff `T` is
deriving DecidableEq, Repr

inductive SeqKind where
  | vec                  -- Vec<T>: bulk-capable, 1 000 000 guard on the regular path
  | slice                -- Box<[T]> / Arc<[T]>: as `vec` (read through Vec<T>); memory layout unknown to the schema
  | indexSet             -- IndexSet: as `plain`; its schema wraps the key in a one-field struct
  | plain                -- VecDeque, BinaryHeap, SmallVec, IndexSet: element-wise, no guard
  | set                  -- HashSet, BTreeSet: as `plain`; iteration order is not part of the value, duplicates collapse
  | bag                  -- BinaryHeap: as `plain`; iteration order is not part of the value
  | arrayVec (cap : Nat) -- ArrayVec<T, cap>: bulk-capable, capacity check
deriving DecidableEq, Repr

mutual
inductive Ty where
  | prim (p : Prim)
  | str (cap : Option Nat) (std : Bool)            -- `std`: std `String` (known memory layout); else Arc<str>, PathBuf, ArrayString
  | seq (k : SeqKind) (t : Ty)
  | map (btree : Bool) (k v : Ty)                  -- HashMap / IndexMap (`btree = false`) or BTreeMap
  | opt (t : Ty)
  | res (a b : Ty)
  | wrap (k : WrapKind) (t : Ty)                   -- Box, Rc, Arc, RefCell, Mutex, RwLock, Cow, Cell
  | tup (lay : Lay) (offs : List Nat) (ts : TyL)
  | arr (n : Nat) (t : Ty)
  | struct (name : String) (repr : ReprAttr) (lay : Lay) (fs : FieldL)
  | enum (name : String) (repr : ReprAttr) (lay : Lay) (vs : VariantL)
  | ip | sock | canary | sysTime | duration | ioErr
inductive TyL where
  | nil
  | cons (t : Ty) (ts : TyL)
inductive FieldL where
  | nil
  | cons (a : FieldAttr) (t : Ty) (as : AsL) (fs : FieldL)
inductive AsL where
  | nil
  | cons (r : VerRange) (old : Ty) (conv : Nat) (rest : AsL)
inductive VariantL where
  | nil
  | cons (name : String) (r : VerRange) (discr : Option Nat) (fs : FieldL) (vs : VariantL)
end

def VariantL.length : VariantL → Nat
  | .nil => 0
  | .cons _ _ _ _ vs => vs.length + 1

def FieldL.length : FieldL → Nat
  | .nil => 0
  | .cons _ _ _ fs => fs.length + 1

/-- explicit integer repr → its width -/
def ReprAttr.explicitSize : ReprAttr → Option Nat
  | .int b | .cInt b => some b
  | _ => none

/-- `get_enum_size`: discriminant width on the wire -/
def tagWidth (r : ReprAttr) (nVariants : Nat) : Nat :=
  match r.explicitSize with
  | some b => b
  | none => if nVariants ≤ 256 then 1 else if nVariants ≤ 65536 then 2 else 4

/-! ### memory sizes (only for types that can take part in a packed layout) -/

mutual
def memSize : Ty → Option Nat
  | .prim p => some p.memSize
  | .arr n t => (memSize t).map (n * ·)
  | .wrap .cell t => memSize t
  | .tup lay _ _ => some lay.size
  | .struct _ _ lay _ => some lay.size
  | .enum _ _ lay _ => some lay.size
  | _ => none
end

def memAlign : Ty → Nat
  | .prim p => p.memAlign
  | .arr _ t => memAlign t
  | .wrap .cell t => memAlign t
  | .tup lay _ _ => lay.align
  | .struct _ _ lay _ => lay.align
  | .enum _ _ lay _ => lay.align
  | _ => 8

/-! ### the packed decision, condition for condition as the code computes it -/

/-- offset chain of `implement_reprc_struct`: consecutive fields adjacent, first at 0, last ends at size -/
def chainOk (size : Nat) : List (Nat × Nat) → Bool   -- (offset, size) per field, declaration order
  | [] => true
  | (o, s) :: rest =>
    decide (o = 0) && go size o s rest
where
  go (size : Nat) (o s : Nat) : List (Nat × Nat) → Bool
    | [] => decide (o + s = size)
    | (o', s') :: rest => decide (o + s = o') && go size o' s' rest

mutual
def isPacked : Ty → Nat → Bool
  | .prim p, _ => p.packed
  | .arr _ t, v => isPacked t v
  | .wrap .cell t, v => isPacked t v
  | .tup lay offs ts, v =>
    -- `impl Packed for (T1,..)`: first at 0, (middle offsets,) sizes sum to the total, all members packed
    allPackedL ts v && tupleChain lay.size offs ts
  | .struct _ _ lay fs, v =>
    !anyIgnore fs && !anyUnversionedRemoved fs && !anyClosedLive fs
      && decide (v ≥ minSafeFields fs)
      && fieldsPacked fs v
      && (match fieldSpans fs with | some sp => chainOk lay.size sp | none => false)
  | .enum _ repr lay vs, v =>
    repr.explicitSize.isSome
      && !anyExplicitDiscr vs
      && !anyIgnoreV vs
      && !anyClosedLiveV vs
      && decide (v ≥ minSafeVariants vs)
      && variantsFieldsPacked vs v
      && (!anyFieldsV vs || variantsChain (tagWidth repr vs.length) lay.size vs)
  | _, _ => false
def allPackedL : TyL → Nat → Bool
  | .nil, _ => true
  | .cons t ts, v => isPacked t v && allPackedL ts v
/-- every field that contributes a `repr_c_optimization_safe` conjunct is packed
    (removed fields with a version range contribute none) -/
def fieldsPacked : FieldL → Nat → Bool
  | .nil, _ => true
  | .cons a t _ fs, v =>
    (if a.rm != .no && !a.r.isAll then true else isPacked t v) && fieldsPacked fs v
def variantsFieldsPacked : VariantL → Nat → Bool
  | .nil, _ => true
  | .cons _ _ _ fs vs, v => enumFieldsPacked fs v && variantsFieldsPacked vs v
/-- enums ask every field type (removed or not: `Removed<T>` is itself `Packed::yes`) -/
def enumFieldsPacked : FieldL → Nat → Bool
  | .nil, _ => true
  | .cons a t _ fs, v => (if a.rm != .no then true else isPacked t v) && enumFieldsPacked fs v
def anyIgnore : FieldL → Bool
  | .nil => false
  | .cons a _ _ fs => a.ignore || anyIgnore fs
def anyIgnoreV : VariantL → Bool
  | .nil => false
  | .cons _ _ _ fs vs => anyIgnore fs || anyIgnoreV vs
def anyExplicitDiscr : VariantL → Bool
  | .nil => false
  | .cons _ _ d _ vs => d.isSome || anyExplicitDiscr vs
def anyFieldsV : VariantL → Bool
  | .nil => false
  | .cons _ _ _ fs vs => (match fs with | .nil => false | _ => true) || anyFieldsV vs
/-- a field that is still in memory (not `Removed`) but absent from later versions of the wire format -/
def anyClosedLive : FieldL → Bool
  | .nil => false
  | .cons a _ _ fs => (a.rm == .no && decide (a.r.hi < u32Max)) || anyClosedLive fs
def anyClosedLiveV : VariantL → Bool
  | .nil => false
  | .cons _ _ _ fs vs => anyClosedLive fs || anyClosedLiveV vs
def anyUnversionedRemoved : FieldL → Bool
  | .nil => false
  | .cons a _ _ fs => (a.rm != .no && a.r.isAll) || anyUnversionedRemoved fs
def minSafeFields : FieldL → Nat
  | .nil => 0
  | .cons a _ _ fs => max (if a.r.isAll then 0 else a.r.minSafe) (minSafeFields fs)
def minSafeVariants : VariantL → Nat
  | .nil => 0
  | .cons _ _ _ fs vs => max (minSafeFieldsEnum fs) (minSafeVariants vs)
def minSafeFieldsEnum : FieldL → Nat
  | .nil => 0
  | .cons a _ _ fs => max a.r.minSafe (minSafeFieldsEnum fs)
/-- (offset, memory size) of every field; `none` if some size is unknown to the model -/
def fieldSpans : FieldL → Option (List (Nat × Nat))
  | .nil => some []
  | .cons a t _ fs =>
    let sz := if a.rm != .no then some 0 else memSize t
    match sz, fieldSpans fs with
    | some s, some rest => some ((a.off, s) :: rest)
    | _, _ => none
def tupleChain (size : Nat) : List Nat → TyL → Bool
  | offs, ts =>
    match tupleSpans offs ts with
    | some sp => chainOk size sp
    | none => false
def tupleSpans : List Nat → TyL → Option (List (Nat × Nat))
  | _, .nil => some []
  | [], .cons _ _ => none
  | o :: offs, .cons t ts =>
    match memSize t, tupleSpans offs ts with
    | some s, some rest => some ((o, s) :: rest)
    | _, _ => none
/-- per variant with fields: first field right after the tag, fields adjacent, last ends at the enum's size;
    variants without fields contribute no condition (known finding D2: such a variant leaves padding) -/
def variantsChain (tagw size : Nat) : VariantL → Bool
  | .nil => true
  | .cons _ _ _ fs vs =>
    (match fs with
     | .nil => true
     | _ => match fieldSpans fs with
       | some ((o, s) :: rest) => decide (o = tagw) && chainOk.go size o s rest
       | _ => false)
    && variantsChain tagw size vs
end

/-! ### compilation to the wire grammar -/

def seqMode (k : SeqKind) (bulk : Option (Nat × Nat)) : SeqMode :=
  match k with
  | .vec => { limit := bulk.isNone, bulk := bulk, cap := none }
  | .slice => { limit := bulk.isNone, bulk := bulk, cap := none }
  | .plain | .set | .bag | .indexSet => { limit := false, bulk := none, cap := none }
  | .arrayVec c => { limit := false, bulk := bulk, cap := some c }

def bulkInfo (t : Ty) (v : Nat) : Option (Nat × Nat) :=
  if isPacked t v then (memSize t).map (·, memAlign t) else none

def ipWire : W := .tagged 1 (.cons (.prod (.cons (.fixed 4) .nil)) (.cons (.prod (.cons (.fixed 16) .nil)) .nil))
def sockWire : W :=
  .tagged 1 (.cons (.prod (.cons (.fixed 2) (.cons (.fixed 4) .nil)))
            (.cons (.prod (.cons (.fixed 2) (.cons (.fixed 16) (.cons (.fixed 4) (.cons (.fixed 4) .nil))))) .nil))

mutual
/-- what a reader at data version `v` expects -/
def wireOf : Ty → Nat → W
  | .prim p, _ => p.wire
  | .str cap _, _ => .str cap
  | .seq k t, v => .seq (seqMode k (match k with | .plain | .set | .bag | .indexSet => none | _ => bulkInfo t v)) (wireOf t v)
  | .map _ k x, v => .seq {} (.prod (.cons (wireOf k v) (.cons (wireOf x v) .nil)))
  | .opt t, v => .opt (wireOf t v)
  | .res a b, v => .res (wireOf a v) (wireOf b v)
  | .wrap _ t, v => wireOf t v
  | .tup _ _ ts, v => .prod (wireOfL ts v)
  | .arr n t, v => .rep n (if isPacked t v then memSize t else none) (wireOf t v)
  | .struct _ _ _ fs, v => .prod (wireFields fs v)
  | .enum _ repr _ vs, v => .tagged (tagWidth repr vs.length) (wireVariants vs v)
  | .ip, _ => ipWire
  | .sock, _ => sockWire
  | .canary, _ => .canary
  | .sysTime, _ => .sysTime
  | .duration, _ => .fixed 16
  | .ioErr, _ => .prod (.cons (.fixed 2) (.cons (.str none) .nil))
def wireOfL : TyL → Nat → WL
  | .nil, _ => .nil
  | .cons t ts, v => .cons (wireOf t v) (wireOfL ts v)
def wireFields : FieldL → Nat → WL
  | .nil, _ => .nil
  | .cons a t as fs, v =>
    if a.ignore then wireFields fs v
    else match wireAs as v with
      | some w => .cons w (wireFields fs v)
      | none => if a.r.has v then .cons (wireOf t v) (wireFields fs v) else wireFields fs v
/-- `savefile_versions_as`: the old type read at versions in its range -/
def wireAs : AsL → Nat → Option W
  | .nil, _ => none
  | .cons r old _ rest, v => if r.has v then some (wireOf old v) else wireAs rest v
def wireVariants : VariantL → Nat → WL
  | .nil, _ => .nil
  | .cons _ _ _ fs vs, v => .cons (.prod (wireFields fs v)) (wireVariants vs v)
end

mutual
/-- what a writer at data version `v` emits (`savefile_versions_as` plays no part when writing) -/
def saveWire : Ty → Nat → W
  | .prim p, _ => p.wire
  | .str cap _, _ => .str cap
  | .seq k t, v => .seq (seqMode k (match k with | .plain | .set | .bag | .indexSet => none | _ => bulkInfo t v)) (saveWire t v)
  | .map _ k x, v => .seq {} (.prod (.cons (saveWire k v) (.cons (saveWire x v) .nil)))
  | .opt t, v => .opt (saveWire t v)
  | .res a b, v => .res (saveWire a v) (saveWire b v)
  | .wrap _ t, v => saveWire t v
  | .tup _ _ ts, v => .prod (saveWireL ts v)
  | .arr n t, v => .rep n (if isPacked t v then memSize t else none) (saveWire t v)
  | .struct _ _ _ fs, v => .prod (saveFields fs v)
  | .enum _ repr _ vs, v => .tagged (tagWidth repr vs.length) (saveVariants vs v)
  | .ip, _ => ipWire
  | .sock, _ => sockWire
  | .canary, _ => .canary
  | .sysTime, _ => .sysTime
  | .duration, _ => .fixed 16
  | .ioErr, _ => .prod (.cons (.fixed 2) (.cons (.str none) .nil))
def saveWireL : TyL → Nat → WL
  | .nil, _ => .nil
  | .cons t ts, v => .cons (saveWire t v) (saveWireL ts v)
def saveFields : FieldL → Nat → WL
  | .nil, _ => .nil
  | .cons a t _ fs, v =>
    if a.ignore then saveFields fs v
    else if a.r.has v then .cons (saveWire t v) (saveFields fs v) else saveFields fs v
def saveVariants : VariantL → Nat → WL
  | .nil, _ => .nil
  | .cons _ _ _ fs vs, v => .cons (.prod (saveFields fs v)) (saveVariants vs v)
end

/-! ### wire value ⇄ memory value -/

/-- some `savefile_versions_as` range contains `v` -/
def asHas : AsL → Nat → Bool
  | .nil, _ => false
  | .cons r _ _ rest, v => r.has v || asHas rest v

/-- user-supplied conversion functions of `savefile_versions_as` (`From` or a named function) -/
abbrev UserFns := Nat → V → V

def unitV : V := .tup .nil

/-- `Duration::deserialize`: seconds are truncated to 64 bit (`as u64`) -/
def durCanon (n : Nat) : Nat := ((n / nanosPerSec) % 2^64) * nanosPerSec + n % nanosPerSec

def mapVL (f : V → V) : VL → VL
  | .nil => .nil
  | .cons x xs => .cons (f x) (mapVL f xs)

/-- apply `f`/`g` to the components of every well-formed pair -/
def mapPairs (f g : V → V) : VL → VL
  | .nil => .nil
  | .cons (.tup (.cons a (.cons b .nil))) rest => .cons (.tup (.cons (f a) (.cons (g b) .nil))) (mapPairs f g rest)
  | .cons y rest => .cons y (mapPairs f g rest)

mutual
/- memory value built from the wire value read at version `v` -/
def fill (env : UserFns) : Ty → Nat → V → V
  | .seq _ t, v, .seq l => .seq (mapVL (fill env t v) l)
  | .map _ k x, v, .seq l => .seq (mapPairs (fill env k v) (fill env x v) l)
  | .opt t, v, .some x => .some (fill env t v x)
  | .res a _, v, .alt 1 x => .alt 1 (fill env a v x)
  | .res _ b, v, .alt 0 x => .alt 0 (fill env b v x)
  | .wrap _ t, v, x => fill env t v x
  | .tup _ _ ts, v, .tup l => .tup (fillL env ts v l)
  | .arr _ t, v, .tup l => .tup (mapVL (fill env t v) l)
  | .struct _ _ _ fs, v, .tup l => .tup (fillFields env fs v l)
  | .enum _ _ _ vs, v, .alt i (.tup l) => .alt i (.tup (fillVariant env vs v i l))
  | .duration, _, .num n => .num (durCanon n)
  | _, _, x => x
def fillL (env : UserFns) : TyL → Nat → VL → VL
  | .cons t ts, v, .cons x xs => .cons (fill env t v x) (fillL env ts v xs)
  | _, _, l => l
def fillFields (env : UserFns) : FieldL → Nat → VL → VL
  | .nil, _, _ => .nil
  | .cons a t as fs, v, l =>
    if a.ignore then .cons a.dflt (fillFields env fs v l)
    else if asHas as v then
        match l with
        | .cons x xs => .cons (fillAs env as v x) (fillFields env fs v xs)
        | .nil => .nil
      else
        if a.r.has v then
          match l with
          | .cons x xs => .cons (if a.rm != .no then unitV else fill env t v x) (fillFields env fs v xs)
          | .nil => .nil
        else .cons (if a.rm != .no then unitV else a.dflt) (fillFields env fs v l)
def fillAs (env : UserFns) : AsL → Nat → V → V
  | .nil, _, x => x
  | .cons r old conv rest, v, x => if r.has v then env conv (fill env old v x) else fillAs env rest v x
def fillVariant (env : UserFns) : VariantL → Nat → Nat → VL → VL
  | .nil, _, _, l => l
  | .cons _ _ _ fs _, v, 0, l => fillFields env fs v l
  | .cons _ _ _ _ vs, v, i+1, l => fillVariant env vs v i l
end

/-- reasons a writer refuses a value (the Rust code panics) -/
inductive SaveFail where
  | removedAlive          -- `Removed<T>::serialize`
  | variantAbsent         -- "Enum …, variant … is not present in version …"
  | shape                 -- the value does not have the shape of the type (never for real values)
deriving DecidableEq, Repr

def mapMVL (f : V → Except SaveFail V) : VL → Except SaveFail VL
  | .nil => .ok .nil
  | .cons x xs =>
    match f x, mapMVL f xs with
    | .ok a, .ok b => .ok (.cons a b)
    | .error e, _ => .error e
    | _, .error e => .error e

def mapMPairs (f g : V → Except SaveFail V) : VL → Except SaveFail VL
  | .nil => .ok .nil
  | .cons (.tup (.cons a (.cons b .nil))) rest =>
    match f a, g b, mapMPairs f g rest with
    | .ok a', .ok b', .ok r => .ok (.cons (.tup (.cons a' (.cons b' .nil))) r)
    | .error e, _, _ => .error e
    | _, .error e, _ => .error e
    | _, _, .error e => .error e
  | .cons _ _ => .error .shape

mutual
/- wire value a writer at version `v` produces from a memory value -/
def proj : Ty → Nat → V → Except SaveFail V
  | .seq _ t, v, .seq l => (mapMVL (proj t v) l).map .seq
  | .map _ k x, v, .seq l => (mapMPairs (proj k v) (proj x v) l).map .seq
  | .opt _, _, .none => .ok .none
  | .opt t, v, .some x => (proj t v x).map .some
  | .res a _, v, .alt 1 x => (proj a v x).map (.alt 1)
  | .res _ b, v, .alt 0 x => (proj b v x).map (.alt 0)
  | .wrap _ t, v, x => proj t v x
  | .tup _ _ ts, v, .tup l => (projL ts v l).map .tup
  | .arr _ t, v, .tup l => (mapMVL (proj t v) l).map .tup
  | .struct _ _ _ fs, v, .tup l => (projFields fs v l).map .tup
  | .enum _ _ _ vs, v, .alt i (.tup l) => (projVariant vs v i l).map (fun l' => .alt i (.tup l'))
  | _, _, x => .ok x
def projL : TyL → Nat → VL → Except SaveFail VL
  | .nil, _, .nil => .ok .nil
  | .cons t ts, v, .cons x xs =>
    match proj t v x, projL ts v xs with
    | .ok a, .ok b => .ok (.cons a b)
    | .error e, _ => .error e
    | _, .error e => .error e
  | _, _, _ => .error .shape
def projFields : FieldL → Nat → VL → Except SaveFail VL
  | .nil, _, .nil => .ok .nil
  | .cons a t _ fs, v, .cons x xs =>
    if a.ignore then projFields fs v xs
    else if a.r.has v then
      match a.rm with
      | .removed => .error .removedAlive
      | .abi =>
        match projFields fs v xs with
        | .ok b => .ok (.cons a.ctor b)
        | .error e => .error e
      | .no =>
        match proj t v x, projFields fs v xs with
        | .ok a', .ok b => .ok (.cons a' b)
        | .error e, _ => .error e
        | _, .error e => .error e
    else projFields fs v xs
  | _, _, _ => .error .shape
def projVariant : VariantL → Nat → Nat → VL → Except SaveFail VL
  | .nil, _, _, _ => .error .shape
  | .cons _ r _ fs _, v, 0, l => if r.has v then projFields fs v l else .error .variantAbsent
  | .cons _ _ _ _ vs, v, i+1, l => projVariant vs v i l
end

/-- outcome of saving -/
inductive SaveR where
  | ok (b : Bytes)
  | panic (f : SaveFail)
  | unencodable          -- value outside the type's domain (never for real values)
deriving DecidableEq, Repr

/-- `Serializer::bare_serialize(w, v, x)` -/
def save (T : Ty) (v : Nat) (x : V) : SaveR :=
  match proj T v x with
  | .error e => .panic e
  | .ok wv =>
    match enc (saveWire T v) wv with
    | some b => .ok b
    | none => .unencodable

/-- `Deserializer::bare_deserialize::<T>(r, v)` -/
def load (cfg : Cfg) (env : UserFns) (T : Ty) (v : Nat) (bs : Bytes) : DecR V :=
  match dec cfg false (wireOf T v) bs with
  | .error e => .error e
  | .ok (wv, r) => .ok (fill env T v wv, r)

end Sfv
