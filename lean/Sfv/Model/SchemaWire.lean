/-
  Sfv.Model.SchemaWire — reading a schema as a grammar.

  `schemaWire s` is the wire grammar a generic, schema-driven reader follows (`none` where a schema node
  gives a reader nothing to go on: `Custom`, `Undefined`, traits, recursion markers).  `parse` is that
  reader.  `erase` strips reading strategy (bulk / limit / capacity) from a grammar: what is left is
  exactly the byte structure.  A type's schema is *faithful* when `schemaWire (schemaOf T v) = erase
  (saveWire T v)`.
-/
import Sfv.Model.SchemaOf
namespace Sfv

/-- a grammar no value inhabits and no byte string satisfies -/
def wNever : W := .tagged 0 .nil

def primWire : SPrim → W
  | .i8 | .u8 => .fixed 1
  | .i16 | .u16 => .fixed 2
  | .i32 | .u32 | .f32 => .fixed 4
  | .i64 | .u64 | .f64 => .fixed 8
  | .i128 | .u128 => .fixed 16
  | .str _ => .str none
  | .bool => .bool
  | .canary1 => .canary
  | .char => .char

def optMap2 {α β γ} (f : α → β → γ) : Option α → Option β → Option γ
  | some a, some b => some (f a b)
  | _, _ => none

mutual
def schemaWire : Schema → Option W
  | .struct _ _ _ fs => (schemaWireF fs).map .prod
  | .enum _ vs dsize _ _ _ => (schemaWireV vs 0).map (.tagged dsize)
  | .prim p => some (primWire p)
  | .vector t _ => (schemaWire t).map (.seq {})
  | .array t n => (schemaWire t).map (.rep n none)
  | .option t => (schemaWire t).map .opt
  | .zeroSize => some (.prod .nil)
  | .boxed t => schemaWire t
  | .reference t => schemaWire t
  | .slice t => (schemaWire t).map (.seq {})
  | .str => some (.str none)
  | .stdIoError => some (.prod (.cons (.fixed 2) (.cons (.str none) .nil)))
  | .utcTimestamp => some (.fixed 8)
  | _ => none
def schemaWireF : SFieldL → Option WL
  | .nil => some .nil
  | .cons _ t _ rest => optMap2 WL.cons (schemaWire t) (schemaWireF rest)
/-- alternatives in discriminant order; only the aligned case (variant i has discriminant i) is a grammar -/
def schemaWireV : SVariantL → Nat → Option WL
  | .nil, _ => some .nil
  | .cons _ discr fs rest, i =>
    if discr = i then optMap2 WL.cons ((schemaWireF fs).map .prod) (schemaWireV rest (i + 1)) else none
end

/-- the generic schema-driven reader -/
def parse (cfg : Cfg) (s : Schema) (bs : Bytes) : Option (DecR V) :=
  (schemaWire s).map (fun w => dec cfg false w bs)

mutual
/- byte structure of a grammar: reading strategy and capacities removed -/
def erase : W → W
  | .str _ => .str none
  | .seq _ t => .seq {} (erase t)
  | .opt t => .opt (erase t)
  | .res a b => .res (erase a) (erase b)
  | .prod ts => .prod (eraseL ts)
  | .rep n _ t => .rep n none (erase t)
  | .tagged w alts => .tagged w (eraseL alts)
  | w => w
def eraseL : WL → WL
  | .nil => .nil
  | .cons t ts => .cons (erase t) (eraseL ts)
end

/-! ### when is the schema of a type a faithful description? -/

mutual
/- no recursion guard met while computing `schemaOf sc T v ctx` finds its key in the context -/
def guardsMiss : Ty → Nat → List String → Bool
  | .seq k t, v, ctx =>
    (match k with
     | .arrayVec _ => guardsMiss t v ctx
     | _ => (ctxIndex (keyOf t) ctx 0).isNone && guardsMiss t v (ctx ++ [keyOf t]))
  | .map btree k x, v, ctx =>
    (ctxIndex (keyOf k) ctx 0).isNone && guardsMiss k v (ctx ++ [keyOf k])
      && (ctxIndex (if btree then keyOf x else keyOf k) ctx 0).isNone
      && guardsMiss x v (ctx ++ [if btree then keyOf x else keyOf k])
  | .opt t, v, ctx => guardsMiss t v ctx
  | .res a b, v, ctx => guardsMiss a v ctx && guardsMiss b v ctx
  | .wrap k t, v, ctx =>
    (match k with
     | .boxed => (ctxIndex (keyOf t) ctx 0).isNone && guardsMiss t v (ctx ++ [keyOf t])
     | _ => guardsMiss t v ctx)
  | .tup _ _ ts, v, ctx => guardsMissL ts v ctx
  | .arr _ t, v, ctx => (ctxIndex (keyOf t) ctx 0).isNone && guardsMiss t v (ctx ++ [keyOf t])
  | .struct _ _ _ fs, v, ctx => guardsMissF fs v ctx
  | .enum _ _ _ vs, v, ctx => guardsMissV vs v ctx
  | _, _, _ => true
def guardsMissL : TyL → Nat → List String → Bool
  | .nil, _, _ => true
  | .cons t ts, v, ctx => guardsMiss t v ctx && guardsMissL ts v ctx
def guardsMissF : FieldL → Nat → List String → Bool
  | .nil, _, _ => true
  | .cons _ t as fs, v, ctx => guardsMiss t v ctx && guardsMissA as v ctx && guardsMissF fs v ctx
def guardsMissA : AsL → Nat → List String → Bool
  | .nil, _, _ => true
  | .cons _ old _ rest, v, ctx => guardsMiss old v ctx && guardsMissA rest v ctx
def guardsMissV : VariantL → Nat → List String → Bool
  | .nil, _, _ => true
  | .cons _ _ _ fs vs, v, ctx => guardsMissF fs v ctx && guardsMissV vs v ctx
end

mutual
/- the fragment for which faithfulness is proved: everything but `Result`, `SocketAddr`, `Duration`/
    `SystemTime`/`io::Error` (shape-only schemas), `savefile_versions_as` fields inside their range,
    `IndexSet` (key wrapped in a struct), enums with more than 256 variants or with variants not yet alive at `v` -/
def frag : Ty → Nat → Bool
  | .prim _, _ => true
  | .str _ _, _ => true
  | .seq k t, v => (match k with | .indexSet => false | _ => true) && frag t v
  | .map _ k x, v => frag k v && frag x v
  | .opt t, v => frag t v
  | .res _ _, _ => false
  | .wrap _ t, v => frag t v
  | .tup _ _ ts, v => fragL ts v
  | .arr _ t, v => frag t v
  | .struct _ _ _ fs, v => fragF fs v
  | .enum _ _ _ vs, v => decide (vs.length ≤ 256) && fragV vs v
  | .ip, _ => true
  | .canary, _ => true
  | .sysTime, _ => false
  | .duration, _ => false
  | _, _ => false
def fragL : TyL → Nat → Bool
  | .nil, _ => true
  | .cons t ts, v => frag t v && fragL ts v
def fragF : FieldL → Nat → Bool
  | .nil, _ => true
  | .cons a t as fs, v => frag t v && !asHas as v && fragF fs v
def fragV : VariantL → Nat → Bool
  | .nil, _ => true
  | .cons _ r _ fs vs, v => r.has v && fragF fs v && fragV vs v
end

end Sfv
