/-
  Sfv.Model.IntrospectImpls — how a library `Introspect` impl serves children (`introspect_child`) and how it
  counts them (`introspect_len`), as a small closed vocabulary.  tools/translate.py classifies every impl in
  savefile/src/lib.rs into this vocabulary (anything it does not recognise is `unknown`, which no row may be).
-/
namespace Sfv

inductive IChild where
  | none                -- `None` for every index
  | pairs               -- key and value of entry `index / 2`: 2·len children
  | nth                 -- element `index` of a container of `len` elements
  | consts (k : Nat)    -- `if index == 0 … if index == k-1 … None`
  | atMost (k : Nat)    -- as `consts k` unless the lock is poisoned (then none)
  | delegate            -- the inner value's children
  | optDelegate         -- the inner value's children if there is an inner value
  | unknown
deriving DecidableEq, Repr

inductive ILen where
  | dflt                -- trait default: count `introspect_child` until `None`, give up at `MAX_CHILDREN`
  | selfLen
  | selfLen2
  | const (k : Nat)
  | delegate
  | optDelegate
  | unknown
deriving DecidableEq, Repr

structure IImpl where
  name : String
  child : IChild
  len : ILen
deriving Repr

/-- facts about a value the two functions depend on -/
structure IFacts where
  n : Nat            -- `self.len()` (for an array: `N`)
  inner : Nat        -- number of children of the inner value
  innerLen : Nat     -- what the inner value's `introspect_len` reports
  present : Bool     -- `Option`: is there an inner value
  healthy : Bool     -- `std::sync::Mutex`: not poisoned

/-- number of children that can be fetched by index (they are consecutive from 0 in every kind) -/
def IChild.count (f : IFacts) : IChild → Option Nat
  | .none => some 0
  | .pairs => some (2 * f.n)
  | .nth => some f.n
  | .consts k => some k
  | .atMost k => some (if f.healthy then k else 0)
  | .delegate => some f.inner
  | .optDelegate => some (if f.present then f.inner else 0)
  | .unknown => Option.none

def ILen.value (maxChildren : Nat) (f : IFacts) (count : Nat) : ILen → Option Nat
  | .dflt => some (min count maxChildren)
  | .selfLen => some f.n
  | .selfLen2 => some (f.n * 2)
  | .const k => some k
  | .delegate => some f.innerLen
  | .optDelegate => some (if f.present then f.innerLen else 0)
  | .unknown => Option.none

/-- the decidable criterion the generated table is checked against -/
def IImpl.ok (maxChildren : Nat) (i : IImpl) : Bool :=
  match i.child, i.len with
  | .none, .dflt => true
  | .none, .const k => k == 0
  | .pairs, .selfLen2 => true
  | .nth, .selfLen => true
  | .consts k, .dflt => decide (k ≤ maxChildren)
  | .consts k, .const k' => k == k'
  | .atMost k, .dflt => decide (k ≤ maxChildren)
  | .delegate, .delegate => true
  | .optDelegate, .optDelegate => true
  | _, _ => false

/-- `introspect_len` agrees with the number of children served, for every value — given that it does for
    the inner value (the property is established bottom-up over the structure of the type) -/
def IImpl.Consistent (maxChildren : Nat) (i : IImpl) : Prop :=
  ∀ f : IFacts, f.innerLen = f.inner →
    ∃ c, i.child.count f = some c ∧ i.len.value maxChildren f c = some c

end Sfv
