/-
  Sfv.Model.Crypto — the encrypted stream: `RandomNonceSequence`, `CryptoWriter` (buffering, chunk frames),
  `CryptoReader` (frame parser).  AES-256-GCM itself is a parameter (`Aead`): `seal`/`open_` under the key
  derived from the password; what is assumed about it is stated where it is used (`Ideal`).

  Stream layout:  nonce (8 + 4 bytes LE) ++ frame*,   frame = LE64 (|chunk| + 16) ++ seal nonce_i chunk,
  where nonce_i is the i-th value of the nonce sequence (advanced before each frame).
-/
import Sfv.Model.Bytes
import Sfv.Model.Stream
namespace Sfv

/-- `CRYPTO_BUFSIZE` -/
def cryptoBuf : Nat := 100000
/-- AES-GCM tag length -/
def tagLen : Nat := 16

/-- the AEAD under one key: nonce → plaintext → ciphertext ++ tag, and back -/
structure Aead where
  sealF : Nat × Nat → Bytes → Bytes
  openF : Nat × Nat → Bytes → Option Bytes

/-- `RandomNonceSequence { data1: u64, data2: u32 }` -/
structure NonceSeq where
  d1 : Nat
  d2 : Nat
deriving DecidableEq, Repr

/-- `advance`: `data2 = data2.wrapping_add(1); if data2 == 0 { data1 = data1.wrapping_add(1) }`; the nonce is the new state -/
def NonceSeq.advance (s : NonceSeq) : NonceSeq :=
  let d2 := (s.d2 + 1) % 2 ^ 32
  { d1 := if d2 = 0 then (s.d1 + 1) % 2 ^ 64 else s.d1, d2 := d2 }

def NonceSeq.val (s : NonceSeq) : Nat × Nat := (s.d1, s.d2)
def NonceSeq.bytes (s : NonceSeq) : Bytes := leBytes 8 s.d1 ++ leBytes 4 s.d2
def NonceSeq.wf (s : NonceSeq) : Prop := s.d1 < 2 ^ 64 ∧ s.d2 < 2 ^ 32
/-- the 96-bit counter the two words form -/
def NonceSeq.cnt (s : NonceSeq) : Nat := s.d1 * 2 ^ 32 + s.d2

/-! ### writer -/

/-- the frames `flush` emits for the buffered plaintext: chunks of at most `cryptoBuf` bytes -/
def chunksOf : Nat → Bytes → List Bytes
  | 0, _ => []
  | fuel + 1, buf => if buf = [] then [] else buf.take cryptoBuf :: chunksOf fuel (buf.drop cryptoBuf)

def frameOps (A : Aead) : NonceSeq → List Bytes → NonceSeq × List WOp
  | n, [] => (n, [])
  | n, c :: cs =>
    let n' := n.advance
    let (n'', ops) := frameOps A n' cs
    (n'', .w (leBytes 8 (c.length + tagLen)) :: .w (A.sealF n'.val c) :: .flush :: ops)

/-- state of a `CryptoWriter` -/
structure CW where
  buf : Bytes
  nonce : NonceSeq

/-- `flush`: everything buffered goes out as frames -/
def CW.flush (A : Aead) (s : CW) : CW × List WOp :=
  let (n, ops) := frameOps A s.nonce (chunksOf (s.buf.length + 1) s.buf)
  ({ buf := [], nonce := n }, ops)

/-- `write(buf)`: buffer; flush when more than `cryptoBuf` bytes are buffered -/
def CW.write (A : Aead) (s : CW) (b : Bytes) : CW × List WOp :=
  let s' := { s with buf := s.buf ++ b }
  if s'.buf.length > cryptoBuf then s'.flush A else (s', [])

/-- the operations on the underlying writer for a sequence of writes followed by the final `flush`
    (`CryptoWriter::new` writes the nonce first) -/
def CW.run (A : Aead) : CW → List Bytes → List WOp
  | s, [] => (s.flush A).2
  | s, b :: bs => let (s', ops) := s.write A b; ops ++ CW.run A s' bs

def cryptoWriterOps (A : Aead) (n0 : NonceSeq) (writes : List Bytes) : List WOp :=
  .w (leBytes 8 n0.d1) :: .w (leBytes 4 n0.d2) :: CW.run A { buf := [], nonce := n0 } writes

/-- a program driving a `CryptoWriter` the way user code does: writes and explicit flushes; the final flush
    (`flush_final`, or the one in `Drop`) is implicit at the end -/
inductive CWOp where
  | write (b : Bytes)
  | flush

def CW.runProg (A : Aead) : CW → List CWOp → List WOp
  | s, [] => (s.flush A).2
  | s, .write b :: ops => let (s', o) := s.write A b; o ++ CW.runProg A s' ops
  | s, .flush :: ops => let (s', o) := s.flush A; o ++ CW.runProg A s' ops

def cryptoWriterProgOps (A : Aead) (n0 : NonceSeq) (prog : List CWOp) : List WOp :=
  .w (leBytes 8 n0.d1) :: .w (leBytes 4 n0.d2) :: CW.runProg A { buf := [], nonce := n0 } prog

/-- the plaintext chunks such a program seals, in order -/
def CW.chunksProg : Bytes → List CWOp → List Bytes
  | buf, [] => chunksOf (buf.length + 1) buf
  | buf, .write b :: ops =>
    if (buf ++ b).length > cryptoBuf then chunksOf ((buf ++ b).length + 1) (buf ++ b) ++ CW.chunksProg [] ops
    else CW.chunksProg (buf ++ b) ops
  | buf, .flush :: ops => chunksOf (buf.length + 1) buf ++ CW.chunksProg [] ops

/-- everything the program wrote -/
def CW.written : List CWOp → Bytes
  | [] => []
  | .write b :: ops => b ++ CW.written ops
  | .flush :: ops => CW.written ops

/-- the frames, as bytes, for given chunks -/
def framesBytes (A : Aead) : NonceSeq → List Bytes → Bytes
  | _, [] => []
  | n, c :: cs => leBytes 8 (c.length + tagLen) ++ A.sealF n.advance.val c ++ framesBytes A n.advance cs

/-- what the writer sealed: (nonce, plaintext, ciphertext) -/
def produced (A : Aead) : NonceSeq → List Bytes → List ((Nat × Nat) × Bytes × Bytes)
  | _, [] => []
  | n, c :: cs => (n.advance.val, c, A.sealF n.advance.val c) :: produced A n.advance cs

def encStream (A : Aead) (n0 : NonceSeq) (chunks : List Bytes) : Bytes := n0.bytes ++ framesBytes A n0 chunks

/-! ### reader -/

inductive CrErr where
  | eof | crypto | fuel
deriving DecidableEq, Repr

/-- how the decrypted stream ends -/
inductive Term where
  | clean                -- end of the underlying data at a frame boundary: `read` returns what is left, then 0
  | failed (e : CrErr)   -- the next frame cannot be read: `read` returns this error
deriving DecidableEq, Repr

/-- a frame that authenticates contributes its plaintext; one that does not ends the stream -/
def frameCont (o : Option Bytes) (r : Bytes × Term) : Bytes × Term :=
  match o with
  | none => ([], .failed .crypto)
  | some p => (p ++ r.1, r.2)

/-- all plaintext that can be obtained from the frames, and how the stream ends -/
def decFrames (A : Aead) : Nat → NonceSeq → Bytes → Bytes × Term
  | 0, _, _ => ([], .failed .fuel)
  | fuel + 1, n, data =>
    if data = [] then ([], .clean)
    else if data.length < 8 then ([], .failed .eof)
    else
      let len := ofLE (data.take 8)
      if len > cryptoBuf + tagLen then ([], .failed .crypto)
      else if (data.drop 8).length < len then ([], .failed .eof)
      else
        frameCont (A.openF n.advance.val ((data.drop 8).take len)) (decFrames A fuel n.advance ((data.drop 8).drop len))

/-- the stored nonce parsed back (`RandomNonceSequence::deserialize`) -/
def parsedNonce (d : Bytes) : NonceSeq := { d1 := ofLE (d.take 8), d2 := ofLE ((d.drop 8).take 4) }

/-- `CryptoReader::new` + everything it can deliver -/
def decStream (A : Aead) (data : Bytes) : Bytes × Term :=
  if data.length < 12 then ([], .failed .eof)
  else decFrames A (data.length + 1) (parsedNonce data) (data.drop 12)

/-- a reader program over a decrypted stream: the bytes that authenticate, then the terminal condition -/
def RP.runTerm {α : Type} : RP α → Bytes → Term → ROutcome α
  | .ret a, _, _ => .val a
  | .fail e, _, _ => .decodeErr e
  | .read n k, data, t =>
    if data.length ≥ n then (k (data.take n)).runTerm (data.drop n) t
    else match t with
      | .clean => .io .eof
      | .failed .eof => .io .eof
      | .failed _ => .io (.kind 1)

/-- one stored byte replaced by a different value, or the data cut short -/
def Tampered (orig data : Bytes) : Prop :=
  (∃ t, t < orig.length ∧ data = orig.take t)
  ∨ (∃ pos v, ∃ h : pos < orig.length, v ≠ orig[pos] ∧ data = orig.set pos v)

/-- what is assumed of AES-GCM under the key in use, relative to everything sealed with it (`prod`) -/
structure Ideal (A : Aead) (prod : List ((Nat × Nat) × Bytes × Bytes)) : Prop where
  /-- correctness: what was sealed opens to its plaintext, and carries a 16 byte tag -/
  sealed : ∀ e ∈ prod, A.sealF e.1 e.2.1 = e.2.2 ∧ A.openF e.1 e.2.2 = some e.2.1 ∧ e.2.2.length = e.2.1.length + tagLen
  /-- integrity of ciphertexts: nothing opens except what was sealed, under the nonce it was sealed with -/
  int : ∀ nv c p, A.openF nv c = some p → (nv, p, c) ∈ prod
  /-- a nonce is used once -/
  nonce_once : ∀ e ∈ prod, ∀ e' ∈ prod, e.1 = e'.1 → e = e'
  /-- ciphertexts sealed under different nonces differ -/
  ct_once : ∀ e ∈ prod, ∀ e' ∈ prod, e.2.2 = e'.2.2 → e = e'

end Sfv
