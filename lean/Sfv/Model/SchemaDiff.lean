/-
  Sfv.Model.SchemaDiff — `diff_schema` (as a three-valued result: same / differ / panic) and
  `Schema::layout_compatible`, transcribed arm for arm, with the code's evaluation order
  (first difference wins, so a later panic site is only reached if everything before it agrees).
-/
import Sfv.Model.Schema
namespace Sfv

inductive DiffR where
  | same
  | differ
  | panicFuture   -- "Futures are only supported in return position"
deriving DecidableEq, Repr

/-- sequential composition with early exit -/
def DiffR.andThen (a : DiffR) (b : DiffR) : DiffR :=
  match a with
  | .same => b
  | other => other

/-- `b.methods.iter().find(|x| x.name == name)`: argument list of the first method called `name` -/
def findMethodArgs : MethodL → Bytes → Option SchemaL
  | .nil, _ => none
  | .cons n _ _ _ args rest, name => if n = name then some args else findMethodArgs rest name

def findMethodRet : MethodL → Bytes → Option Schema
  | .nil, _ => none
  | .cons n ret _ _ _ rest, name => if n = name then some ret else findMethodRet rest name

mutual
def diff : Schema → Schema → Bool → DiffR
  | .struct _ _ _ fa, .struct _ _ _ fb, _ => diffFieldsLen fa fb
  | .enum _ va da _ _ _, .enum _ vb db _ _ _, _ =>
    if va.length ≠ vb.length then .differ
    else if da ≠ db then .differ
    else diffVariants va vb
  | .prim a, .prim b, _ =>
    if a = b then .same
    else match a, b with
      | .str _, .str _ => .same
      | _, _ => .differ
  | .vector a _, .vector b _, _ => diff a b false
  | .option a, .option b, _ => diff a b false
  | .undefined, .undefined, _ => .differ
  | .zeroSize, .zeroSize, _ => .same
  | .array a na, .array b nb, _ => if na ≠ nb then .differ else diff a b false
  | .custom a, .custom b, _ => if a = b then .same else .differ
  | .str, .str, _ => .same
  | .utcTimestamp, .utcTimestamp, _ => .same
  | .stdIoError, .stdIoError, _ => .same
  | .boxed a, .boxed b, rp => diff a b rp
  | .reference a, .reference b, rp => diff a b rp
  | .slice a, .slice b, rp => diff a b rp
  | .trait ma da, .trait mb db, rp => if ma ≠ mb then .differ else diffDef da db rp
  | .fnClosure ma da, .fnClosure mb db, rp => if ma ≠ mb then .differ else diffDef da db rp
  | .recursion a, .recursion b, _ => if a = b then .same else .differ
  | .future da sa ya ua, .future db sb yb ub, rp =>
    if !rp then .panicFuture
    else if (sa && !sb) || (ya && !yb) || (ua && !ub) then .differ
    else diffDef da db rp
  | .uninitSlice, .uninitSlice, _ => .same
  | _, _, _ => .differ
def diffFields : SFieldL → SFieldL → DiffR
  | .nil, .nil => .same
  | .cons _ ta _ ra, .cons _ tb _ rb => (diff ta tb false).andThen (diffFields ra rb)
  | _, _ => .differ   -- unreachable behind the length check of `diffFieldsLen`
def diffVariants : SVariantL → SVariantL → DiffR
  | .nil, .nil => .same
  | .cons na da fa ra, .cons nb db fb rb =>
    if na ≠ nb then .differ
    else if da ≠ db then .differ
    else (diffFieldsLen fa fb).andThen (diffVariants ra rb)
  | _, _ => .differ
/- `diff_fields`: the length check comes first, then field by field -/
def diffFieldsLen : SFieldL → SFieldL → DiffR
  | a, b => if a.length ≠ b.length then .differ else diffFields a b
def diffDef : TraitDef → TraitDef → Bool → DiffR
  | .mk _ ma _ _, .mk _ mb _ _, rp => diffMethods ma mb rp
/- for every method of `a` that `b` also has (by name): same argument count, arguments pairwise equal, and the
   same return type (compared as a return value: it may be a future) -/
def diffMethods : MethodL → MethodL → Bool → DiffR
  | .nil, _, _ => .same
  | .cons name ret _ _ args rest, mb, rp =>
    DiffR.andThen
      (match findMethodArgs mb name, findMethodRet mb name with
       | some bargs, some bret =>
         if args.length ≠ bargs.length then DiffR.differ else (diffArgs args bargs rp).andThen (diff ret bret true)
       | _, _ => DiffR.same)
      (diffMethods rest mb rp)
def diffArgs : SchemaL → SchemaL → Bool → DiffR
  | .cons a ra, .cons b rb, rp => (diff a b rp).andThen (diffArgs ra rb rp)
  | _, _, _ => .same
end

/-! ### layout compatibility -/

def optSome (a : Option Nat) : Bool := a.isSome

mutual
def layoutCompatible : Schema → Schema → Bool
  | .struct _ sa aa fa, .struct _ sb ab fb =>
    decide (fa.length = fb.length) && aa.isSome && sa.isSome && decide (aa = ab) && decide (sa = sb)
      && layoutFields fa fb
  | .enum _ va da ea sa aa, .enum _ vb db eb sb ab =>
    ea && eb && aa.isSome && sa.isSome && decide (aa = ab) && decide (sa = sb) && decide (da = db)
      && decide (va.length = vb.length) && layoutVariants va vb
  | .prim a, .prim b =>
    (match a, b with
     | .str la, .str lb => !(la == .unknown || lb == .unknown)
     | _, _ => true) && decide (a = b)
  | .vector a la, .vector b lb => layoutCompatible a b && la != .unknown && lb != .unknown && la == lb
  | .array a na, .array b nb => decide (na = nb) && layoutCompatible a b
  | .option _, .option _ => false
  | .zeroSize, .zeroSize => true
  | .custom _, .custom _ => false
  | .fnClosure _ _, .fnClosure _ _ => false
  | .boxed a, .boxed b => layoutCompatible a b
  | .reference a, .reference b => layoutCompatible a b
  | .slice a, .slice b => layoutCompatible a b
  | _, _ => false
def layoutFields : SFieldL → SFieldL → Bool
  | .cons _ ta oa ra, .cons _ tb ob rb =>
    (match oa, ob with
     | some x, some y => decide (x = y) && layoutCompatible ta tb
     | _, _ => false) && layoutFields ra rb
  | _, _ => true
def layoutVariants : SVariantL → SVariantL → Bool
  | .cons _ da fa ra, .cons _ db fb rb =>
    decide (da = db) && decide (fa.length = fb.length) && layoutFields fa fb && layoutVariants ra rb
  | _, _ => true
end

end Sfv
