/-
  Sfv.Model.Bytes — byte-level primitives of the savefile wire format.
  Mirrors `Serializer::write_*` / `Deserializer::read_*` (savefile/src/lib.rs):
  every fixed-width primitive is little endian; `usize`/`isize` travel as 64 bit.
  No imports: this file is part of the compiled driver.
-/
namespace Sfv

abbrev Bytes := List UInt8

/-- `k` little-endian bytes of `n` (low byte first); higher bits are dropped. -/
def leBytes : Nat → Nat → Bytes
  | 0, _ => []
  | k+1, n => UInt8.ofNat (n % 256) :: leBytes k (n / 256)

/-- value of a little-endian byte string -/
def ofLE : Bytes → Nat
  | [] => 0
  | b :: bs => b.toNat + 256 * ofLE bs

/-- exact read of `k` bytes: the model of `read_exact` on an in-memory reader -/
def takeN (k : Nat) (bs : Bytes) : Option (Bytes × Bytes) :=
  if k ≤ bs.length then some (bs.take k, bs.drop k) else none

/-! ### UTF-8 validity (as `core::str::from_utf8`): shortest form, no surrogates, ≤ U+10FFFF -/

def isCont (b : UInt8) : Bool := 0x80 ≤ b.toNat && b.toNat ≤ 0xBF

/-- fuel-free structural validator: consumes one scalar value per step -/
def validUtf8 : Bytes → Bool
  | [] => true
  | b0 :: rest =>
    let n0 := b0.toNat
    if n0 < 0x80 then validUtf8 rest
    else if 0xC2 ≤ n0 && n0 ≤ 0xDF then
      match rest with
      | b1 :: r => isCont b1 && validUtf8 r
      | _ => false
    else if 0xE0 ≤ n0 && n0 ≤ 0xEF then
      match rest with
      | b1 :: b2 :: r =>
        let n1 := b1.toNat
        let ok1 :=
          if n0 = 0xE0 then 0xA0 ≤ n1 && n1 ≤ 0xBF
          else if n0 = 0xED then 0x80 ≤ n1 && n1 ≤ 0x9F
          else isCont b1
        ok1 && isCont b2 && validUtf8 r
      | _ => false
    else if 0xF0 ≤ n0 && n0 ≤ 0xF4 then
      match rest with
      | b1 :: b2 :: b3 :: r =>
        let n1 := b1.toNat
        let ok1 :=
          if n0 = 0xF0 then 0x90 ≤ n1 && n1 ≤ 0xBF
          else if n0 = 0xF4 then 0x80 ≤ n1 && n1 ≤ 0x8F
          else isCont b1
        ok1 && isCont b2 && isCont b3 && validUtf8 r
      | _ => false
    else false

/-- Unicode scalar value: what `char::try_from(u32)` accepts -/
def validChar (n : Nat) : Bool := n < 0xD800 || (0xE000 ≤ n && n < 0x110000)

end Sfv
