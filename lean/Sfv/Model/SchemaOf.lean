/-
  Sfv.Model.SchemaOf — the schema a type reports for a data version (`WithSchema::schema`), including
  the recursion guard (`WithSchemaContext::possible_recursion`) exactly as coded, the hand-written
  `WithSchema` impls of the library types and the derive macro's output (`implement_withschema`).

  Platform facts the schemas record (memory layout of `Vec` and `String` as probed at run time) are
  parameters (`SCfg`).  Known unfaithful schemas are transcribed as they are (findings D3, D15, D16).
-/
import Sfv.Model.Ty
import Sfv.Model.Schema
namespace Sfv

structure SCfg where
  vecLayout : VLayout := .unknown
  strLayout : VLayout := .unknown

def strBytes (s : String) : Bytes := s.toUTF8.toList

def TyL.length : TyL → Nat
  | .nil => 0
  | .cons _ ts => ts.length + 1

/-- stands in for `TypeId`: structurally equal descriptors are the same type -/
def primKey : Prim → String
  | .u8 => "u8" | .i8 => "i8" | .u16 => "u16" | .i16 => "i16" | .u32 => "u32" | .i32 => "i32"
  | .u64 => "u64" | .i64 => "i64" | .u128 => "u128" | .i128 => "i128" | .f32 => "f32" | .f64 => "f64"
  | .bool => "bool" | .char => "char" | .usize => "usize" | .isize => "isize" | .unit => "()"

mutual
def keyOf : Ty → String
  | .prim p => primKey p
  | .str cap std => "str[" ++ toString cap.isSome ++ toString std ++ "]"
  | .seq k t => (match k with
      | .vec => "Vec" | .slice => "Slice" | .plain => "Seq" | .set => "Set" | .bag => "Heap"
      | .indexSet => "IndexSet" | .arrayVec c => "ArrayVec" ++ toString c) ++ "<" ++ keyOf t ++ ">"
  | .map b k x => (if b then "BTreeMap<" else "HashMap<") ++ keyOf k ++ "," ++ keyOf x ++ ">"
  | .opt t => "Option<" ++ keyOf t ++ ">"
  | .res a b => "Result<" ++ keyOf a ++ "," ++ keyOf b ++ ">"
  | .wrap k t => (match k with | .boxed => "Box<" | .plain => "Wrap<" | .cell => "Cell<") ++ keyOf t ++ ">"
  | .tup _ _ ts => "(" ++ keyOfL ts ++ ")"
  | .arr n t => "[" ++ keyOf t ++ ";" ++ toString n ++ "]"
  | .struct name _ _ _ => "struct " ++ name
  | .enum name _ _ _ => "enum " ++ name
  | .ip => "IpAddr" | .sock => "SocketAddr" | .canary => "Canary1" | .sysTime => "SystemTime"
  | .duration => "Duration" | .ioErr => "io::Error"
def keyOfL : TyL → String
  | .nil => ""
  | .cons t ts => keyOf t ++ "," ++ keyOfL ts
end

/-- position of a key in the guard context -/
def ctxIndex (key : String) : List String → Nat → Option Nat
  | [], _ => none
  | k :: rest, i => if k == key then some i else ctxIndex key rest (i + 1)

/-- `WithSchemaContext::possible_recursion::<T>(cb)` -/
def guard (ctx : List String) (key : String) (cb : List String → Schema) : Schema :=
  match ctxIndex key ctx 0 with
  | some depth => .recursion (ctx.length - depth)
  | none => cb (ctx ++ [key])

def primSchema : Prim → Schema
  | .u8 => .prim .u8 | .i8 => .prim .i8 | .u16 => .prim .u16 | .i16 => .prim .i16
  | .u32 => .prim .u32 | .i32 => .prim .i32 | .u64 => .prim .u64 | .i64 => .prim .i64
  | .u128 => .prim .u128 | .i128 => .prim .i128 | .f32 => .prim .f32 | .f64 => .prim .f64
  | .bool => .prim .bool | .char => .prim .char
  | .usize => .prim .u64 | .isize => .prim .i64     -- 64-bit target
  | .unit => .zeroSize

def ipSchemaVariants : SVariantL :=
  .cons (strBytes "IPV4") 0 (.cons (strBytes "0") (.prim .u32) none .nil)
  (.cons (strBytes "IPV6") 1 (.cons (strBytes "0") (.prim .u128) none .nil) .nil)

def oneU128 (structName fieldName : String) : Schema :=
  .struct (strBytes structName) none none (.cons (strBytes fieldName) (.prim .u128) none .nil)

def SFieldL.append : SFieldL → SFieldL → SFieldL
  | .nil, b => b
  | .cons n t o rest, b => .cons n t o (rest.append b)

mutual
def schemaOf (sc : SCfg) : Ty → Nat → List String → Schema
  | .prim p, _, _ => primSchema p
  | .str _ std, _, _ => .prim (.str (if std then sc.strLayout else .unknown))
  | .seq k t, v, ctx =>
    match k with
    | .vec => .vector (guard ctx (keyOf t) (schemaOf sc t v)) sc.vecLayout
    | .arrayVec _ => .vector (schemaOf sc t v ctx) .unknown
    | .indexSet =>
      .vector (.struct (strBytes "Key") none none
        (.cons (strBytes "key") (guard ctx (keyOf t) (schemaOf sc t v)) none .nil)) .unknown
    | _ => .vector (guard ctx (keyOf t) (schemaOf sc t v)) .unknown
  | .map btree k x, v, ctx =>
    .vector (.struct (strBytes "KeyValuePair") none none
      (.cons (strBytes "key") (guard ctx (keyOf k) (schemaOf sc k v)) none
      -- HashMap / IndexMap guard the *value* with the key's type (finding D3); BTreeMap with its own
      (.cons (strBytes "value") (guard ctx (if btree then keyOf x else keyOf k) (schemaOf sc x v)) none .nil))) .unknown
  | .opt t, v, ctx => .option (schemaOf sc t v ctx)
  | .res a b, v, ctx =>
    -- both discriminants are 0 in the code (finding D16)
    .enum (strBytes "Result")
      (.cons (strBytes "Ok") 0 (.cons (strBytes "ok") (schemaOf sc a v ctx) none .nil)
      (.cons (strBytes "Err") 0 (.cons (strBytes "err") (schemaOf sc b v ctx) none .nil) .nil))
      1 false none none
  | .wrap k t, v, ctx =>
    match k with
    | .boxed => guard ctx (keyOf t) (schemaOf sc t v)
    | _ => schemaOf sc t v ctx
  | .tup lay offs ts, v, ctx =>
    .struct (strBytes (toString ts.length ++ "-Tuple")) (some lay.size) (some lay.align) (schemaOfTup sc ts v ctx offs 0)
  | .arr n t, v, ctx => .array (guard ctx (keyOf t) (schemaOf sc t v)) n
  | .struct name _ lay fs, v, ctx =>
    .struct (strBytes name) (some lay.size) (some lay.align) (schemaOfFields sc fs v ctx true)
  | .enum name repr lay vs, v, ctx =>
    -- explicit discriminant values are not recorded (the schema holds the variant index): such an enum claims
    -- no memory layout — no offsets, not `has_explicit_repr`
    .enum (strBytes name) (schemaOfVariants sc vs v ctx (repr.explicitSize.isSome && !anyExplicitDiscr vs) 0)
      (tagWidth repr vs.length)
      ((match repr with | .c | .cInt _ => true | _ => false) && !anyExplicitDiscr vs)
      (some lay.size) (some lay.align)
  | .ip, _, _ => .enum (strBytes "IpAddr") ipSchemaVariants 1 false none none
  | .sock, _, _ => .enum (strBytes "SocketAddr") ipSchemaVariants 1 false none none   -- port etc. missing (finding D16)
  | .canary, _, _ => .prim .canary1
  | .sysTime, _, _ => oneU128 "SystemTime" "SystemTimeDuration"
  | .duration, _, _ => oneU128 "Duration" "Duration"
  | .ioErr, _, _ => .stdIoError
def schemaOfTup (sc : SCfg) : TyL → Nat → List String → List Nat → Nat → SFieldL
  | .nil, _, _, _, _ => .nil
  | .cons t ts, v, ctx, offs, i =>
    .cons (strBytes (toString i)) (schemaOf sc t v ctx) offs.head? (schemaOfTup sc ts v ctx offs.tail (i + 1))
/-- `implement_withschema`: `known` = offsets are recorded (structs; enum variants of explicitly sized enums) -/
def schemaOfFields (sc : SCfg) : FieldL → Nat → List String → Bool → SFieldL
  | .nil, _, _, _ => .nil
  | .cons a t as fs, v, ctx, known =>
    let rest := schemaOfFields sc fs v ctx known
    if a.ignore then rest
    else if a.r.isAll then .cons (strBytes a.name) (schemaOf sc t v ctx) (if known then some a.off else none) rest
    else
      (schemaOfAs sc as v ctx (strBytes a.name)).append
        (if a.r.has v then
          .cons (strBytes a.name) (schemaOf sc t v ctx)
            (if known && a.r.hi == u32Max then some a.off else none) rest
         else rest)
def schemaOfAs (sc : SCfg) : AsL → Nat → List String → Bytes → SFieldL
  | .nil, _, _, _ => .nil
  | .cons r old _ rest, v, ctx, name =>
    if r.has v then .cons name (schemaOf sc old v ctx) none (schemaOfAs sc rest v ctx name)
    else schemaOfAs sc rest v ctx name
/-- variants alive at `v`; the discriminant is the declaration index truncated to `u8` (finding D16) -/
def schemaOfVariants (sc : SCfg) : VariantL → Nat → List String → Bool → Nat → SVariantL
  | .nil, _, _, _, _ => .nil
  | .cons name r _ fs vs, v, ctx, explicit, idx =>
    let rest := schemaOfVariants sc vs v ctx explicit (idx + 1)
    if r.has v then
      .cons (strBytes name) (idx % 256)
        (schemaOfFields sc fs v ctx (explicit && (match fs with | .nil => false | _ => true))) rest
    else rest
end

end Sfv
