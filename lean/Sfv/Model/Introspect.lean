/-
  Sfv.Model.Introspect — the `Introspector` navigation state machine over a rose tree, and the flat
  indexing of an `IntrospectionResult`.

  Mirrors savefile/src/lib.rs `Introspector::{dive, do_introspect}` and
  `IntrospectionResult::{total_index, total_len}`.  Every place where the Rust code indexes a vector,
  unwraps an option or subtracts `usize`s is an explicit `panic` outcome here, so "navigation never
  panics" is unreachability of those outcomes.
-/
import Sfv.Model.Bytes
namespace Sfv

mutual
/-- an introspectable value as the navigator sees it: its children, in index order, each with its key -/
inductive ITree where
  | node (kids : ITreeL)
inductive ITreeL where
  | nil
  | cons (key : Bytes) (t : ITree) (rest : ITreeL)
end

def ITree.hasKids : ITree → Bool
  | .node .nil => false
  | .node (.cons _ _ _) => true

structure PathElem where
  key : Bytes
  dis : Nat
  maxChildren : Nat
deriving DecidableEq, Repr

inductive NavCmd where
  | expand (depth : Nat) (key : Bytes) (dis : Nat)
  | selectNth (depth index : Nat)
  | nothing
  | up
deriving DecidableEq, Repr

inductive NavErr where
  | badDepth | unknownKey | noChildren | indexOutOfRange | alreadyAtTop
deriving DecidableEq, Repr

inductive NavSite where
  | cmdTaken      -- `navigation_command.take().unwrap()`
  | pathPop       -- `self.path.pop().unwrap()`
  | index         -- `frame.keyvals[..]` out of bounds
  | subtract      -- `index - *cur` underflow
deriving DecidableEq, Repr

inductive NavFail where
  | err (e : NavErr)
  | panic (s : NavSite)
deriving DecidableEq, Repr

structure KeyVal where
  key : Bytes
  dis : Nat
  depth : Nat
  hasChildren : Bool
  selected : Bool
deriving DecidableEq, Repr

structure Frame where
  selected : Option Nat
  keyvals : List KeyVal
  limitReached : Bool
deriving DecidableEq, Repr

/-- `child_load_count`; `usize::MAX` for "no limit" -/
def noLimit : Nat := 2^64 - 1

def countKey (m : List (Bytes × Nat)) (k : Bytes) : Nat :=
  match m with
  | [] => 0
  | (k', n) :: rest => if k' = k then n else countKey rest k

def bumpKey (m : List (Bytes × Nat)) (k : Bytes) : List (Bytes × Nat) :=
  match m with
  | [] => [(k, 1)]
  | (k', n) :: rest => if k' = k then (k', n + 1) :: rest else (k', n) :: bumpKey rest k

/-- mutable state of one `dive` activation while it walks the children -/
structure Loop where
  path : List PathElem
  cmd : Option NavCmd
  curPath : Option PathElem
  index : Nat
  selected : Option Nat
  keyvals : List KeyVal          -- in order
  limitReached : Bool
  dis : List (Bytes × Nat)
  selectNth : Option Nat
  sub : List Frame               -- result of the (at most one) nested dive

/-- the `Some(index) == do_select_nth` step: (path, do_select_nth, cur_path) afterwards -/
def selStep (limit : Nat) (key : Bytes) (st : Loop) : List PathElem × Option Nat × Option PathElem :=
  if some st.index = st.selectNth then
    let p := st.path ++ [{ key := key, dis := countKey st.dis key, maxChildren := limit }]
    (p, none, p.getLast?)
  else (st.path, st.selectNth, st.curPath)

/-- is this child the one the path selects at this depth (first match only) -/
def isSelected (st : Loop) (curPath : Option PathElem) (key : Bytes) : Bool :=
  st.selected.isNone && (match curPath with
    | some cp => cp.key = key && cp.dis = countKey st.dis key
    | none => false)

def mkKV (depth : Nat) (key : Bytes) (st : Loop) (hasCh sel : Bool) : KeyVal :=
  { key := key, dis := countKey st.dis key, depth := depth, hasChildren := hasCh, selected := sel }

/-- child is not selected -/
def noSel (st : Loop) (p : List PathElem × Option Nat × Option PathElem) (kv : KeyVal) : Loop :=
  { st with path := p.1, curPath := p.2.2, keyvals := st.keyvals ++ [kv], selectNth := p.2.1 }
/-- child is selected but has no children of its own -/
def selLeaf (st : Loop) (p : List PathElem × Option Nat × Option PathElem) (kv : KeyVal) : Loop :=
  { st with path := p.1, curPath := p.2.2, selected := some st.index, keyvals := st.keyvals ++ [kv], selectNth := p.2.1 }
/-- child is selected and was dived into: `path'`, `frames` are what the nested dive produced -/
def selDeep (st : Loop) (p : List PathElem × Option Nat × Option PathElem) (kv : KeyVal)
    (path' : List PathElem) (frames : List Frame) : Loop :=
  { st with path := path', cmd := none, curPath := p.2.2, selected := some st.index, keyvals := st.keyvals ++ [kv],
            selectNth := p.2.1, sub := frames }

/-- `*disambig_counter += 1; index += 1; if index >= max_children { limit_reached = true; break }` -/
def finish (limit : Nat) (key : Bytes) (st : Loop) : Loop × Bool :=
  let st' := { st with dis := bumpKey st.dis key, index := st.index + 1 }
  let maxc := match st'.curPath with | some cp => cp.maxChildren | none => limit
  if st'.index ≥ maxc then ({ st' with limitReached := true }, true) else (st', false)

/-- command handling at the top of `dive`: (path, cur_path, do_select_nth, err_if_key_not_found) -/
def divePre (limit depth : Nat) (path : List PathElem) (cmd : NavCmd) :
    Except NavFail (List PathElem × Option PathElem × Option Nat × Bool) :=
  match cmd with
  | .expand d key dis =>
    if d > path.length then .error (.err .badDepth)
    else if depth = d then
      let p := path.take depth ++ [{ key := key, dis := dis, maxChildren := limit }]
      .ok (p, p[depth]?, none, true)
    else .ok (path, path[depth]?, none, false)
  | .selectNth d i => .ok (path, path[depth]?, if depth = d then some i else none, false)
  | _ => .ok (path, path[depth]?, none, false)

def loopInit (cmd : NavCmd) (path : List PathElem) (curPath : Option PathElem) (sel : Option Nat) : Loop :=
  { path := path, cmd := some cmd, curPath := curPath, index := 0, selected := none,
    keyvals := [], limitReached := false, dis := [], selectNth := sel, sub := [] }

/-- what `dive` does after its loop -/
def divePost (errIfNotFound : Bool) (st : Loop) : List PathElem × Except NavFail (List Frame) :=
  if st.selectNth.isSome then
    (st.path, .error (.err (if st.index = 0 then .noChildren else .indexOutOfRange)))
  else if errIfNotFound && st.selected.isNone then
    match st.path.reverse with
    | [] => (st.path, .error (.panic .pathPop))
    | _ :: restRev => (restRev.reverse, .error (.err .unknownKey))
  else
    (st.path, .ok ({ selected := st.selected, keyvals := st.keyvals, limitReached := st.limitReached } :: st.sub))

mutual
/-- `dive(depth, object, command)`: returns the new path and the frames from `depth` downwards -/
def dive (limit : Nat) (depth : Nat) : ITree → List PathElem → NavCmd → List PathElem × Except NavFail (List Frame)
  | .node kids, path, cmd =>
    match divePre limit depth path cmd with
    | .error e => (path, .error e)
    | .ok (path1, curPath1, sel, errIfNotFound) =>
      match diveLoop limit depth kids (loopInit cmd path1 curPath1 sel) with
      | (p, .error e) => (p, .error e)
      | (_, .ok st) => divePost errIfNotFound st
/-- the `loop { if let Some(child) = object.introspect_child(index) … }` of `dive` -/
def diveLoop (limit : Nat) (depth : Nat) : ITreeL → Loop → List PathElem × Except NavFail Loop
  | .nil, st => (st.path, .ok st)
  | .cons key child rest, st =>
    let p := selStep limit key st
    let stepped : List PathElem × Except NavFail Loop :=
      if isSelected st p.2.2 key then
        if child.hasKids then
          match st.cmd with
          | none => (p.1, .error (.panic .cmdTaken))
          | some c =>
            match dive limit (depth + 1) child p.1 c with
            | (p', .error e) => (p', .error e)
            | (p', .ok frames) => (p', .ok (selDeep st p (mkKV depth key st true true) p' frames))
        else (p.1, .ok (selLeaf st p (mkKV depth key st false true)))
      else (p.1, .ok (noSel st p (mkKV depth key st child.hasKids false)))
    match stepped with
    | (p', .error e) => (p', .error e)
    | (_, .ok st') =>
      match finish limit key st' with
      | (s, true) => (s.path, .ok s)
      | (s, false) => diveLoop limit depth rest s
end

structure NavResult where
  frames : List Frame
  totalLen : Nat
deriving DecidableEq, Repr

def sumLens (fs : List Frame) : Nat := (fs.map (·.keyvals.length)).sum

/-- `Up` pops the path before diving -/
def navPre (path : List PathElem) (cmd : NavCmd) : Except NavFail (List PathElem) :=
  match cmd with
  | .up => if path.isEmpty then .error (.err .alreadyAtTop) else .ok path.dropLast
  | _ => .ok path

/-- `Introspector::do_introspect` -/
def doIntrospect (limit : Nat) (tree : ITree) (path : List PathElem) (cmd : NavCmd) :
    List PathElem × Except NavFail NavResult :=
  match navPre path cmd with
  | .error e => (path, .error e)
  | .ok path1 =>
    match dive limit 0 tree path1 cmd with
    | (p, .error e) => (p, .error e)
    | (p, .ok frames) => (p, .ok { frames := frames, totalLen := sumLens frames })

/-- `total_index_impl`: (result, cur) -/
def totalIndexImpl (index : Nat) : List Frame → Nat → Except NavSite (Option KeyVal) × Nat
  | [], cur => (.ok none, cur)
  | frame :: deeper, cur =>
    match frame.selected with
    | some sel =>
      if index ≤ cur + sel then
        if index < cur then (.error .subtract, cur)
        else match frame.keyvals[index - cur]? with
          | some kv => (.ok (some kv), cur)
          | none => (.error .index, cur)
      else
        match totalIndexImpl index deeper (cur + sel + 1) with
        | (.error s, c) => (.error s, c)
        | (.ok (some kv), c) => (.ok (some kv), c)
        | (.ok none, c) =>
          if index < c then (.error .subtract, c)
          else if (index - c) + (sel + 1) < frame.keyvals.length then
            match frame.keyvals[(index - c) + (sel + 1)]? with
            | some kv => (.ok (some kv), c)
            | none => (.error .index, c)
          else if frame.keyvals.length < sel + 1 then (.error .subtract, c)
          else (.ok none, c + (frame.keyvals.length - (sel + 1)))
    | none =>
      if index < cur then (.error .subtract, cur)
      else if index - cur < frame.keyvals.length then
        match frame.keyvals[index - cur]? with
        | some kv => (.ok (some kv), cur)
        | none => (.error .index, cur)
      else (.ok none, cur + frame.keyvals.length)

def totalIndex (r : NavResult) (index : Nat) : Except NavSite (Option KeyVal) :=
  (totalIndexImpl index r.frames 0).1

end Sfv
