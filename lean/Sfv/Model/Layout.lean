/-
  Sfv.Model.Layout — what a value looks like in memory, relationally.

  `MemOK T x mem` says: `mem` (the `size_of::<T>()` bytes of a value) is consistent with the layout
  facts recorded in `T` — every field's image sits at its offset, the enum tag sits at offset 0 and holds
  the discriminant, primitives are little endian (the modelled target) — and says *nothing* about bytes
  that no field covers (padding is arbitrary, possibly uninitialised).  The soundness theorem of the
  packed fast path (`Sfv.Props.C04`) quantifies over every such memory.
-/
import Sfv.Model.Ty
namespace Sfv

def slice (mem : Bytes) (o s : Nat) : Bytes := (mem.drop o).take s

/-- consecutive images: `mem` is the concatenation of one image per element -/
def AllCat (P : V → Bytes → Prop) : VL → Bytes → Prop
  | .nil, mem => mem = []
  | .cons x xs, mem => ∃ a b, mem = a ++ b ∧ P x a ∧ AllCat P xs b

/-- discriminant value stored in memory for variant `i` (explicit values, else previous + 1) -/
def discrOf : VariantL → Nat → Nat → Nat
  | .nil, _, next => next
  | .cons _ _ d _ _, 0, next => d.getD next
  | .cons _ _ d _ vs, i+1, next => discrOf vs i (d.getD next + 1)

mutual
def MemOK : Ty → V → Bytes → Prop
  | .prim p, x, mem =>
    match p, x with
    | .unit, .tup .nil => mem = []
    | .bool, .num n => n < 2 ∧ mem = [UInt8.ofNat n]
    | .char, .num n => validChar n = true ∧ mem = leBytes 4 n
    | .unit, _ => False
    | p, .num n => n < 256 ^ p.memSize ∧ mem = leBytes p.memSize n
    | _, _ => False
  | .arr _ t, .tup l, mem => AllCat (MemOK t) l mem
  | .wrap .cell t, x, mem => MemOK t x mem
  | .tup lay offs ts, .tup l, mem => mem.length = lay.size ∧ MemOKTup offs ts l mem
  | .struct _ _ lay fs, .tup l, mem => mem.length = lay.size ∧ MemOKFields fs l mem
  | .enum _ repr lay vs, .alt i (.tup l), mem =>
    mem.length = lay.size
    ∧ slice mem 0 (tagWidth repr vs.length) = leBytes (tagWidth repr vs.length) (discrOf vs i 0)
    ∧ MemOKVariant vs i l mem
  | _, _, _ => False
/-- every (non-removed) field's image sits at the field's offset -/
def MemOKFields : FieldL → VL → Bytes → Prop
  | .nil, .nil, _ => True
  | .cons a t _ fs, .cons x xs, mem =>
    (a.rm ≠ .no ∨ ∃ sz, memSize t = some sz ∧ MemOK t x (slice mem a.off sz)) ∧ MemOKFields fs xs mem
  | _, _, _ => False
def MemOKTup : List Nat → TyL → VL → Bytes → Prop
  | _, .nil, .nil, _ => True
  | o :: offs, .cons t ts, .cons x xs, mem =>
    (∃ sz, memSize t = some sz ∧ MemOK t x (slice mem o sz)) ∧ MemOKTup offs ts xs mem
  | _, _, _, _ => False
def MemOKVariant : VariantL → Nat → VL → Bytes → Prop
  | .nil, _, _, _ => False
  | .cons _ _ _ fs _, 0, l, mem => MemOKFields fs l mem
  | .cons _ _ _ _ vs, i+1, l, mem => MemOKVariant vs i l mem
end

mutual
/-- no enum inside `T` mixes field-less variants with variants that have fields
    (for those the code's packed decision is unsound: known finding D2) -/
def d2Free : Ty → Bool
  | .arr _ t => d2Free t
  | .wrap _ t => d2Free t
  | .tup _ _ ts => d2FreeL ts
  | .struct _ _ _ fs => d2FreeF fs
  | .enum _ _ _ vs => (!anyFieldsV vs || !anyUnitV vs) && d2FreeV vs
  | _ => true
def d2FreeL : TyL → Bool
  | .nil => true
  | .cons t ts => d2Free t && d2FreeL ts
def d2FreeF : FieldL → Bool
  | .nil => true
  | .cons _ t _ fs => d2Free t && d2FreeF fs
def d2FreeV : VariantL → Bool
  | .nil => true
  | .cons _ _ _ fs vs => d2FreeF fs && d2FreeV vs
def anyUnitV : VariantL → Bool
  | .nil => false
  | .cons _ _ _ fs vs => (match fs with | .nil => true | _ => false) || anyUnitV vs
end

end Sfv
