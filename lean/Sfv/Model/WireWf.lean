/-
  Sfv.Model.WireWf — side conditions of the wire grammar:
  `fixedSize` (encoded size of fixed-size grammars), `WfW` (bulk annotations carry the true
  element size) and `lim` (documented size limits a value must respect to be loadable).
-/
import Sfv.Model.Wire
namespace Sfv

def add2 : Option Nat → Option Nat → Option Nat
  | some a, some b => some (a + b)
  | _, _ => none

mutual
/- encoded size in bytes, when it does not depend on the value -/
def fixedSize : W → Option Nat
  | .fixed k => some k
  | .bool => some 1
  | .char => some 4
  | .str _ => none
  | .seq _ _ => none
  | .opt _ => none
  | .res _ _ => none
  | .prod ts => fixedSizeL ts
  | .rep n _ t => (fixedSize t).map (n * ·)
  | .tagged w alts =>
    match alts with
    | .nil => none
    | .cons t ts =>
      match fixedSize t with
      | none => none
      | some s => if allSize s ts then some (w + s) else none
  | .canary => some 4
  | .sysTime => some 16
def fixedSizeL : WL → Option Nat
  | .nil => some 0
  | .cons t ts =>
    add2 (fixedSize t) (fixedSizeL ts)
def allSize (s : Nat) : WL → Bool
  | .nil => true
  | .cons t ts => (fixedSize t == some s) && allSize s ts
end

mutual
/- bulk annotations are truthful about the element's encoded size -/
def wfW : W → Bool
  | .seq m t =>
    wfW t && (match m.bulk with | some (esz, al) => (fixedSize t == some esz) && decide (al ≥ 1) | none => true)
  | .opt t => wfW t
  | .res a b => wfW a && wfW b
  | .prod ts => wfWL ts
  | .rep _ bulk t => wfW t && (match bulk with | some esz => fixedSize t == some esz | none => true)
  | .tagged _ alts => wfWL alts
  | _ => true
def wfWL : WL → Bool
  | .nil => true
  | .cons t ts => wfW t && wfWL ts
end

mutual
/- the value respects the size limits under which the reader accepts it -/
def lim (cfg : Cfg) : W → V → Bool
  | .str cap, .bytes b => !(cfg.sanity && cap.isNone) || decide (b.length ≤ 1000000)
  | .seq m t, .seq l =>
    limAll cfg t l
    && (match m.bulk with
        | some (esz, al) => decide (esz * l.length ≤ 2^63 - al) || m.cap.isSome
        | none => !(cfg.sanity && m.limit) || decide (l.length ≤ 1000000))
  | .opt t, .some v => lim cfg t v
  | .res a _, .alt 1 v => lim cfg a v
  | .res _ b, .alt 0 v => lim cfg b v
  | .prod ts, .tup l => limProd cfg ts l
  | .rep _ _ t, .tup l => limAll cfg t l
  | .tagged _ alts, .alt i v => limAlt cfg alts i v
  | _, _ => true
def limAll (cfg : Cfg) : W → VL → Bool
  | _, .nil => true
  | t, .cons v vs => lim cfg t v && limAll cfg t vs
def limProd (cfg : Cfg) : WL → VL → Bool
  | .cons t ts, .cons v vs => lim cfg t v && limProd cfg ts vs
  | _, _ => true
def limAlt (cfg : Cfg) : WL → Nat → V → Bool
  | .nil, _, _ => true
  | .cons t _, 0, v => lim cfg t v
  | .cons _ ts, i+1, v => limAlt cfg ts i v
end

end Sfv
