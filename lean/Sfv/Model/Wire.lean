/-
  Sfv.Model.Wire — the wire grammar `W`, wire values `V`, encoder `enc`, decoder `dec`.

  Everything savefile puts on the wire for a *fixed* data version is an instance of `W`;
  type definitions with version attributes compile to `W` in `Sfv.Model.Ty`.
  The decoder is not totalised: where the Rust code would panic or materialise an invalid
  value it returns `Fail.panic site` / `Fail.ub site`, so that "malformed input is safe"
  (C06) is a reachability statement about this function.

  Mirrors (savefile/src/lib.rs): primitive readers/writers, `String`, `Vec`-likes
  (regular and bulk paths), `Option`, `Result`, tuples, arrays, derived structs/enums,
  `IpAddr`/`SocketAddr` (as `tagged`), `Canary1`, `SystemTime`, `ArrayVec`/`ArrayString`.
-/
import Sfv.Model.Bytes
namespace Sfv

/-- error classes the harness can observe (a coarsening of `SavefileError`) -/
inductive ErrC where
  | eof        -- IOError(UnexpectedEof) from an exact read
  | utf8       -- InvalidUtf8
  | general    -- GeneralError (bad enum tag, bad magic, sanity limits, …)
  | capacity   -- ArrayvecCapacityError
  | badchar    -- InvalidChar
  | alloc      -- MemoryAllocationLayoutError
  | timestamp  -- TimestampOutOfRange
  | wrongVersion -- WrongVersion
deriving DecidableEq, Repr

/-- places where the implementation can panic / produce an invalid value -/
inductive Site where
  | mulOverflow   -- `elem_size * num_elems` in the bulk `Vec` reader
  | sysTime       -- `UNIX_EPOCH ± duration` overflow
  | bulkBool      -- bulk read materialises a `bool` that is neither 0 nor 1
  | bulkChar      -- bulk read materialises a non-scalar `char`
  | bulkTag       -- bulk read materialises an enum with an undeclared discriminant
deriving DecidableEq, Repr

inductive Fail where
  | err (c : ErrC)
  | panic (s : Site)
  | ub (s : Site)
deriving DecidableEq, Repr

/-- configuration of the build under test -/
structure Cfg where
  /-- cargo feature `size_sanity_checks` -/
  sanity : Bool := true
  /-- true while the implementation still has the unchecked `elem_size * num_elems` (D5) -/
  quirkMulOverflow : Bool := false
  /-- true while `SystemTime::deserialize` still panics on out-of-range values (D4) -/
  quirkSysTimePanic : Bool := false
deriving Repr

/-- how a length-prefixed sequence is read -/
structure SeqMode where
  /-- guarded by the 1 000 000 element limit when `size_sanity_checks` is on -/
  limit : Bool := false
  /-- `some (elem_size, align)`: bulk path (`read_exact` of `elem_size * n` bytes into raw memory) -/
  bulk : Option (Nat × Nat) := none
  /-- `some c`: `ArrayVec` with capacity `c` -/
  cap : Option Nat := none
deriving DecidableEq, Repr

mutual
inductive W where
  | fixed (k : Nat)                     -- k-byte little-endian unsigned (ints, float bits, usize as 8)
  | bool
  | char
  | str (cap : Option Nat)              -- u64 length + UTF-8; `some c` = ArrayString<c>
  | seq (m : SeqMode) (t : W)           -- u64 length + items
  | opt (t : W)                         -- 1 = Some, 0 = None
  | res (a b : W)                       -- 1 = Ok a, 0 = Err b
  | prod (ts : WL)                      -- fields in order
  | rep (n : Nat) (bulk : Option Nat) (t : W)  -- `[T; n]`; `some elem_size` = bulk path
  | tagged (w : Nat) (alts : WL)        -- w-byte discriminant = index into alts
  | canary
  | sysTime
inductive WL where
  | nil
  | cons (t : W) (ts : WL)
end

mutual
inductive V where
  | num (n : Nat)
  | bytes (b : Bytes)
  | seq (l : VL)
  | none
  | some (v : V)
  | tup (l : VL)
  | alt (i : Nat) (v : V)
inductive VL where
  | nil
  | cons (v : V) (vs : VL)
end

def VL.length : VL → Nat
  | .nil => 0
  | .cons _ vs => vs.length + 1

def WL.length : WL → Nat
  | .nil => 0
  | .cons _ ts => ts.length + 1

def VL.replicate : Nat → V → VL
  | 0, _ => .nil
  | n+1, v => .cons v (VL.replicate n v)

def canaryMagic : Nat := 0x47566843

/-! ### SystemTime value domain (Linux: i64 seconds + nanoseconds) -/

def nanosPerSec : Nat := 1000000000

/-- `u128_duration_nanos`: note the truncating `as u64` on the seconds -/
def durOfNanos (m : Nat) : Nat × Nat :=
  if m > 2^64 - 1 then ((m / nanosPerSec) % 2^64, m % nanosPerSec) else (m / nanosPerSec, m % nanosPerSec)

/-- Is `UNIX_EPOCH + (secs, nanos)` representable? -/
def sysTimeAddOk (secs : Nat) : Bool := secs < 2^63
/-- Is `UNIX_EPOCH - (secs, nanos)` representable? (borrow when nanos > 0) -/
def sysTimeSubOk (secs nanos : Nat) : Bool := if nanos = 0 then secs ≤ 2^63 else secs + 1 ≤ 2^63

/-- canonical wire value of the time a decoded word denotes (what re-saving would write) -/
def sysTimeCanon (n : Nat) : Option Nat :=
  if n ≥ 2^127 then
    let (s, ns) := durOfNanos (n - 2^127)
    if sysTimeSubOk s ns then
      let tot := s * nanosPerSec + ns
      some (if tot = 0 then 0 else tot + 2^127)
    else Option.none
  else
    let (s, ns) := durOfNanos n
    if sysTimeAddOk s then some (s * nanosPerSec + ns) else Option.none

/-- `n` exceeds an optional capacity -/
def overCap (cap : Option Nat) (n : Nat) : Bool :=
  match cap with
  | some c => decide (n > c)
  | none => false

/-! ### Encoder: the documented format -/

/-- concatenation of two optional encodings -/
def cat2 : Option Bytes → Option Bytes → Option Bytes
  | some a, some b => some (a ++ b)
  | _, _ => none

mutual
def enc : W → V → Option Bytes
  | .fixed k, .num n => if n < 256 ^ k then some (leBytes k n) else none
  | .bool, .num n => if n < 2 then some [UInt8.ofNat n] else none
  | .char, .num n => if validChar n then some (leBytes 4 n) else none
  | .str cap, .bytes b =>
      if validUtf8 b && decide (b.length < 2^64) && !overCap cap b.length
      then some (leBytes 8 b.length ++ b) else none
  | .seq m t, .seq l =>
      if decide (l.length < 2^64) && !overCap m.cap l.length
      then (encAll t l).map (leBytes 8 l.length ++ ·) else none
  | .opt _, .none => some [0]
  | .opt t, .some v => (enc t v).map ((1 : UInt8) :: ·)
  | .res a _, .alt 1 v => (enc a v).map ((1 : UInt8) :: ·)
  | .res _ b, .alt 0 v => (enc b v).map ((0 : UInt8) :: ·)
  | .prod ts, .tup l => encProd ts l
  | .rep n _ t, .tup l => if l.length = n then encAll t l else none
  | .tagged w alts, .alt i v => if i < 256 ^ w then (encAlt alts i v).map (leBytes w i ++ ·) else none
  | .canary, .tup .nil => some (leBytes 4 canaryMagic)
  | .sysTime, .num n => if n < 256 ^ 16 ∧ sysTimeCanon n = some n then some (leBytes 16 n) else none
  | _, _ => none
def encAll : W → VL → Option Bytes
  | _, .nil => some []
  | t, .cons v vs =>
    cat2 (enc t v) (encAll t vs)
def encProd : WL → VL → Option Bytes
  | .nil, .nil => some []
  | .cons t ts, .cons v vs =>
    cat2 (enc t v) (encProd ts vs)
  | _, _ => none
def encAlt : WL → Nat → V → Option Bytes
  | .nil, _, _ => none
  | .cons t _, 0, v => enc t v
  | .cons _ ts, i+1, v => encAlt ts i v
end

/-! ### Decoder: what the implementation does with arbitrary bytes -/

abbrev DecR (α : Type) := Except Fail (α × Bytes)

def repeatDec (f : Bytes → DecR V) : Nat → Bytes → DecR VL
  | 0, bs => .ok (.nil, bs)
  | n+1, bs =>
    match f bs with
    | .error e => .error e
    | .ok (v, r) =>
      match repeatDec f n r with
      | .error e => .error e
      | .ok (vs, r') => .ok (.cons v vs, r')

def readLE (k : Nat) (bs : Bytes) : DecR Nat :=
  match takeN k bs with
  | none => .error (.err .eof)
  | some (a, r) => .ok (ofLE a, r)

/- `u = true`: the bytes are being reinterpreted in place (bulk path), so values with
   invalid bit patterns are *materialised* instead of rejected. -/
mutual
def dec (cfg : Cfg) (u : Bool) : W → Bytes → DecR V
  | .fixed k, bs =>
    match readLE k bs with
    | .error e => .error e
    | .ok (n, r) => .ok (.num n, r)
  | .bool, bs =>
    match readLE 1 bs with
    | .error e => .error e
    | .ok (n, r) =>
      if u then (if n < 2 then .ok (.num n, r) else .error (.ub .bulkBool))
      else .ok (.num (if n = 1 then 1 else 0), r)
  | .char, bs =>
    match readLE 4 bs with
    | .error e => .error e
    | .ok (n, r) =>
      if validChar n then .ok (.num n, r)
      else if u then .error (.ub .bulkChar) else .error (.err .badchar)
  | .str cap, bs =>
    match readLE 8 bs with
    | .error e => .error e
    | .ok (n, r) =>
      if overCap cap n then .error (.err .capacity)
      else if cfg.sanity && cap.isNone && decide (n > 1000000) then .error (.err .general)
      else match takeN n r with
        | none => .error (.err .eof)
        | some (b, r') => if validUtf8 b then .ok (.bytes b, r') else .error (.err .utf8)
  | .seq m t, bs =>
    match readLE 8 bs with
    | .error e => .error e
    | .ok (n, r) =>
      if overCap m.cap n then .error (.err .capacity)
      else match m.bulk with
        | some (esz, al) =>
          if n = 0 then .ok (.seq .nil, r)
          else if esz * n ≥ 2^64 && m.cap.isNone then
            (if cfg.quirkMulOverflow then .error (.panic .mulOverflow) else .error (.err .alloc))
          else if esz * n > 2^63 - al && m.cap.isNone then .error (.err .alloc)
          else if esz * n > r.length then .error (.err .eof)
          else match repeatDec (dec cfg true t) n r with
            | .error e => .error e
            | .ok (l, r') => .ok (.seq l, r')
        | none =>
          if cfg.sanity && m.limit && decide (n > 1000000) then .error (.err .general)
          else match repeatDec (dec cfg u t) n r with
            | .error e => .error e
            | .ok (l, r') => .ok (.seq l, r')
  | .opt t, bs =>
    match readLE 1 bs with
    | .error e => .error e
    | .ok (n, r) =>
      if n = 1 then
        match dec cfg u t r with
        | .error e => .error e
        | .ok (v, r') => .ok (.some v, r')
      else .ok (.none, r)
  | .res a b, bs =>
    match readLE 1 bs with
    | .error e => .error e
    | .ok (n, r) =>
      if n = 1 then
        match dec cfg u a r with
        | .error e => .error e
        | .ok (v, r') => .ok (.alt 1 v, r')
      else
        match dec cfg u b r with
        | .error e => .error e
        | .ok (v, r') => .ok (.alt 0 v, r')
  | .prod ts, bs =>
    match decProd cfg u ts bs with
    | .error e => .error e
    | .ok (l, r) => .ok (.tup l, r)
  | .rep n bulk t, bs =>
    match bulk with
    | some esz =>
      if esz * n > bs.length then .error (.err .eof)
      else match repeatDec (dec cfg true t) n bs with
        | .error e => .error e
        | .ok (l, r) => .ok (.tup l, r)
    | none =>
      match repeatDec (dec cfg u t) n bs with
      | .error e => .error e
      | .ok (l, r) => .ok (.tup l, r)
  | .tagged w alts, bs =>
    match readLE w bs with
    | .error e => .error e
    | .ok (i, r) =>
      match decAlt cfg u alts i r with
      | .error e => .error e
      | .ok (v, r') => .ok (.alt i v, r')
  | .canary, bs =>
    match readLE 4 bs with
    | .error e => .error e
    | .ok (n, r) => if n = canaryMagic then .ok (.tup .nil, r) else .error (.err .general)
  | .sysTime, bs =>
    match readLE 16 bs with
    | .error e => .error e
    | .ok (n, r) =>
      match sysTimeCanon n with
      | some c => .ok (.num c, r)
      | none => if cfg.quirkSysTimePanic then .error (.panic .sysTime) else .error (.err .timestamp)
def decProd (cfg : Cfg) (u : Bool) : WL → Bytes → DecR VL
  | .nil, bs => .ok (.nil, bs)
  | .cons t ts, bs =>
    match dec cfg u t bs with
    | .error e => .error e
    | .ok (v, r) =>
      match decProd cfg u ts r with
      | .error e => .error e
      | .ok (vs, r') => .ok (.cons v vs, r')
def decAlt (cfg : Cfg) (u : Bool) : WL → Nat → Bytes → DecR V
  | .nil, _, _ => if u then .error (.ub .bulkTag) else .error (.err .general)
  | .cons t _, 0, bs => dec cfg u t bs
  | .cons _ ts, i+1, bs => decAlt cfg u ts i bs
end

end Sfv
