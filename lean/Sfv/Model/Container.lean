/-
  Sfv.Model.Container — the file container: fixed header, optional schema section, payload.
  Mirrors `Serializer::save_impl` / `Deserializer::load_impl` (savefile/src/lib.rs).

  The schema section is a parameter here (`SchemaCodec`): its bytes are produced by `encS` and
  consumed by `decS`, and the loader asks `compat` whether the stored schema matches the expected
  one.  `Sfv.Model.Schema` instantiates it with the real schema format.
  Compression (bzip2) wraps schema section + payload and is a parameter too (`Comp`).
-/
import Sfv.Model.Ty
namespace Sfv

def magic : Bytes := [115, 97, 118, 101, 102, 105, 108, 101, 0]   -- "savefile\0"
def currentLibVersion : Nat := 2

structure Header where
  lib : Nat
  ver : Nat
  compressed : Bool
deriving DecidableEq, Repr

def encHeader (h : Header) : Bytes :=
  magic ++ leBytes 2 h.lib ++ leBytes 4 h.ver ++ [if h.compressed then 1 else 0]

/-- failures of the container layer (coarsened like `ErrC`) -/
inductive LoadErr where
  | eof            -- reader ran dry
  | notSavefile    -- GeneralError "File is not in new savefile-format."
  | futureLib      -- GeneralError "… future, incompatible version of the savefile crate."
  | wrongVersion   -- WrongVersion: file data version newer than the program's
  | schema         -- IncompatibleSchema
  | payload (f : Fail)
  | schemaSection (f : Fail)
  | decompress
deriving DecidableEq, Repr

/-- `load_impl` header checks, in the order the code performs them; `memVer` is the program's version.
    Returns the header and the rest; nothing after the header has been looked at. -/
def decHeader (memVer : Nat) (bs : Bytes) : Except LoadErr (Header × Bytes) :=
  match takeN 9 bs with
  | none => .error .eof
  | some (m, r1) =>
    if m ≠ magic then .error .notSavefile else
    match takeN 2 r1 with
    | none => .error .eof
    | some (l, r2) =>
      let lib := ofLE l
      if lib > currentLibVersion then .error .futureLib else
      match takeN 4 r2 with
      | none => .error .eof
      | some (v, r3) =>
        let ver := ofLE v
        if ver > memVer then .error .wrongVersion else
        match r3 with
        | [] => .error .eof
        | c :: r4 => .ok ({ lib := lib, ver := ver, compressed := c ≠ 0 }, r4)

/-- the schema section as seen by the container -/
structure SchemaCodec (S : Type) where
  /-- bytes of a schema at a library format version -/
  encS : Nat → S → Bytes
  /-- read a schema section written at a library format version -/
  decS : Nat → Bytes → Except Fail (S × Bytes)
  /-- `diff_schema(memory, file) = None` -/
  compat : S → S → Bool

/-- `save` / `save_noschema` (uncompressed): header, schema (if any), payload -/
def saveFile {S} (sc : SchemaCodec S) (schema : Option S) (T : Ty) (v : Nat) (x : V) : SaveR :=
  match save T v x with
  | .ok payload =>
    .ok (encHeader { lib := currentLibVersion, ver := v, compressed := false }
          ++ (match schema with | some s => sc.encS currentLibVersion s | none => [])
          ++ payload)
  | other => other

/-- `load` / `load_noschema` of an uncompressed file.  `expected file_ver` is the schema of the type
    being loaded at the *file's* version (`none` = `load_noschema`). The payload is read at the
    file's version.  Returns the value and the unread rest. -/
def loadFile {S} (cfg : Cfg) (env : UserFns) (sc : SchemaCodec S) (expected : Option (Nat → S))
    (T : Ty) (memVer : Nat) (bs : Bytes) : Except LoadErr (V × Bytes) :=
  match decHeader memVer bs with
  | .error e => .error e
  | .ok (h, r) =>
    if h.compressed then .error .decompress else
    match expected with
    | some exp =>
      match sc.decS h.lib r with
      | .error f => .error (.schemaSection f)
      | .ok (s, r') =>
        if sc.compat (exp h.ver) s then
          match load cfg env T h.ver r' with
          | .error f => .error (.payload f)
          | .ok res => .ok res
        else .error .schema
    | none =>
      match load cfg env T h.ver r with
      | .error f => .error (.payload f)
      | .ok res => .ok res

end Sfv
