/-
  Sfv.Model.AbiCall — the parts of an ABI call that are logic: the argument buffer (`FlexBuffer`: 64 bytes
  inline, then the heap), how a panic payload becomes the message the caller sees, and who drops a trait
  object that crossed the boundary.
-/
import Sfv.Model.Bytes
namespace Sfv

/-! ### FlexBuffer -/

def flexInline : Nat := 64

inductive Flex where
  | stack (position : Nat) (data : Bytes)   -- `data` are the `position` initialised bytes of the inline array
  | spill (v : Bytes)
deriving DecidableEq, Repr

def Flex.new : Flex := .stack 0 []

/-- `impl Write for FlexBuffer` -/
def Flex.write : Flex → Bytes → Flex
  | .stack pos data, buf =>
    if pos + buf.length ≤ flexInline then .stack (pos + buf.length) (data ++ buf)
    else .spill (data.take pos ++ buf)
  | .spill v, buf => .spill (v ++ buf)

/-- what `as_ptr()`/`len()` hand to the other side -/
def Flex.contents : Flex → Bytes
  | .stack pos data => data.take pos
  | .spill v => v

def Flex.len : Flex → Nat
  | .stack pos _ => pos
  | .spill v => v.length

def Flex.Ok : Flex → Prop
  | .stack pos data => pos = data.length ∧ pos ≤ flexInline
  | .spill _ => True

/-! ### panics -/

/-- what `catch_unwind` hands back: `panic!("literal")` carries a `&'static str`, `panic!("… {}", x)` a `String`,
    `panic_any(v)` anything else -/
inductive Payload where
  | lit (s : String)
  | fmt (s : String)
  | other
deriving DecidableEq, Repr

/-- the message sent to the caller, given which payload types the entry point recognises (`downcast_ref`) -/
def panicMessage (knowsStr knowsString : Bool) : Payload → Option String
  | .lit s => if knowsStr then some s else none
  | .fmt s => if knowsString then some s else none
  | .other => none

/-! ### ownership of trait objects across the boundary -/

inductive Owning where
  | owned | notOwned
deriving DecidableEq, Repr

/-- how a trait object travels: moved (`Box<dyn T>` argument or return value, owned closure) or lent (`&dyn T`) -/
inductive Passing where
  | moved | lent
deriving DecidableEq, Repr

/-- the receiving side wraps the object in an `AbiConnection` with this ownership (`take_ownership` in the macro) -/
def receivedAs : Passing → Owning
  | .moved => .owned
  | .lent => .notOwned

/-- `impl Drop for AbiConnection`: number of `DropInstance` messages sent when the wrapper is dropped -/
def dropMessages : Owning → Nat
  | .owned => 1
  | .notOwned => 0

/-- An object that crossed the boundary: the sender keeps owning it iff it was lent; the receiver's wrapper is
    dropped `wrapperDrops` times (1 in safe code).  Total number of times the object itself is destroyed:
    by the receiver's `DropInstance`, plus by the sender if it still owns it. -/
def destroyed (p : Passing) : Nat :=
  dropMessages (receivedAs p) + (match p with | .moved => 0 | .lent => 1)

end Sfv
