/-
  Sfv.Model.Stream — the `Write`/`Read` boundary: a scripted underlying stream (what each `write`/`read`/`flush`
  call does: accept or deliver some bytes, report `Interrupted`, return `Ok(0)`, fail) and the two std loops
  savefile performs all its I/O through: `write_all` and `read_exact`.

  The serializer is a *writer program* — a list of `write_all`/`flush` operations executed until the first
  error.  A deserializer is a *reader program* — a tree of `read_exact` requests whose continuation depends on
  the bytes delivered (`RP`).  Both are arbitrary here: the theorems hold for every program.
-/
import Sfv.Model.Bytes
namespace Sfv

inductive IoE where
  | kind (k : Nat)      -- a hard error of the underlying stream, passed through
  | writeZero           -- `write_all`: the writer accepted nothing
  | eof                 -- `read_exact`: the reader delivered nothing
deriving DecidableEq, Repr

/-- what one call on the underlying writer does -/
inductive WOut where
  | acc (n : Nat)       -- accepts up to `n` bytes of what is offered
  | intr                -- `ErrorKind::Interrupted`
  | zero                -- `Ok(0)`
  | err (k : Nat)       -- hard error
deriving DecidableEq, Repr

/-- `std::io::Write::write_all` over a script (an exhausted script accepts everything):
    (rest of the script, bytes accepted so far, result) -/
def writeAll : List WOut → Bytes → Bytes → List WOut × Bytes × Except IoE Unit
  | sc, [], acc => (sc, acc, .ok ())
  | [], b :: buf, acc => ([], acc ++ (b :: buf), .ok ())
  | .acc n :: sc, b :: buf, acc =>
    if n = 0 then (sc, acc, .error .writeZero)
    else writeAll sc ((b :: buf).drop (min n (b :: buf).length)) (acc ++ (b :: buf).take (min n (b :: buf).length))
  | .intr :: sc, b :: buf, acc => writeAll sc (b :: buf) acc
  | .zero :: sc, _ :: _, acc => (sc, acc, .error .writeZero)
  | .err k :: sc, _ :: _, acc => (sc, acc, .error (.kind k))

inductive WOp where
  | w (bytes : Bytes)   -- `write_all(bytes)`
  | flush
deriving DecidableEq, Repr

/-- one `flush` call; the flush script says which calls fail (exhausted: they succeed) -/
def doFlush : List Bool → List Bool × Except IoE Unit
  | [] => ([], .ok ())
  | true :: fs => (fs, .ok ())
  | false :: fs => (fs, .error (.kind 0))

/-- a writer program: operations in order, stop at the first error (`?`) -/
def runOps : List WOut → List Bool → List WOp → Bytes → Bytes × Except IoE Unit
  | _, _, [], acc => (acc, .ok ())
  | sc, fs, .w b :: ops, acc =>
    match writeAll sc b acc with
    | (sc', acc', .ok ()) => runOps sc' fs ops acc'
    | (_, acc', .error e) => (acc', .error e)
  | sc, fs, .flush :: ops, acc =>
    match doFlush fs with
    | (fs', .ok ()) => runOps sc fs' ops acc
    | (_, .error e) => (acc, .error e)

/-- the bytes a writer program emits when nothing goes wrong -/
def opsBytes : List WOp → Bytes
  | [] => []
  | .w b :: ops => b ++ opsBytes ops
  | .flush :: ops => opsBytes ops

/-- a script in which nothing fails: short writes and interruptions only -/
def benignW : List WOut → Bool
  | [] => true
  | .acc n :: sc => decide (n ≥ 1) && benignW sc
  | .intr :: sc => benignW sc
  | _ => false

/-! ### reading -/

inductive ROut where
  | got (n : Nat)       -- delivers up to `n` bytes
  | intr
  | err (k : Nat)
deriving DecidableEq, Repr

/-- `std::io::Read::read_exact` over a script (an exhausted script delivers everything asked for):
    (rest of the script, data left, result) -/
def readExact : List ROut → Bytes → Nat → Bytes → List ROut × Bytes × Except IoE Bytes
  | sc, data, 0, got => (sc, data, .ok got)
  | [], data, want + 1, got =>
    if data.length ≥ want + 1 then ([], data.drop (want + 1), .ok (got ++ data.take (want + 1)))
    else ([], [], .error .eof)
  | .got n :: sc, data, want + 1, got =>
    if n = 0 ∨ data = [] then (sc, data, .error .eof)
    else
      let k := min n (min (want + 1) data.length)
      readExact sc (data.drop k) (want + 1 - k) (got ++ data.take k)
  | .intr :: sc, data, want + 1, got => readExact sc data (want + 1) got
  | .err k :: sc, data, _ + 1, _ => (sc, data, .error (.kind k))

def benignR : List ROut → Bool
  | [] => true
  | .got n :: sc => decide (n ≥ 1) && benignR sc
  | .intr :: sc => benignR sc
  | .err _ :: _ => false

/-- a reader program: what a deserializer is, as far as the stream can tell -/
inductive RP (α : Type) where
  | ret (a : α)
  | fail (e : Nat)                       -- a decoding error (not an I/O error)
  | read (n : Nat) (k : Bytes → RP α)    -- `read_exact` of `n` bytes, then continue

inductive ROutcome (α : Type) where
  | val (a : α)
  | decodeErr (e : Nat)
  | io (e : IoE)

/-- run over a scripted, chunked reader -/
def RP.run {α : Type} : RP α → List ROut → Bytes → ROutcome α × Bytes
  | .ret a, _, data => (.val a, data)
  | .fail e, _, data => (.decodeErr e, data)
  | .read n k, sc, data =>
    match readExact sc data n [] with
    | (sc', data', .ok bs) => (k bs).run sc' data'
    | (_, data', .error e) => (.io e, data')

/-- run over the whole byte string at once (what the model's decoders do) -/
def RP.runWhole {α : Type} : RP α → Bytes → ROutcome α × Bytes
  | .ret a, data => (.val a, data)
  | .fail e, data => (.decodeErr e, data)
  | .read n k, data =>
    if data.length ≥ n then (k (data.take n)).runWhole (data.drop n)
    else (.io .eof, [])

end Sfv
