/-
  Sfv.Model.Abi — the decisions savefile-abi takes from trait definitions alone:

  * `AbiTraitDefinition::verify_backward_compatible` (savefile/src/lib.rs)
  * the compatibility ledger `verify_compatiblity` over a directory of per-version definition files
  * `arg_layout_compatible` and `AbiConnection::analyze_and_create` (savefile-abi/src/lib.rs): which methods
    connect, which arguments travel by reference, which definition pairs are refused
  * version negotiation in `new_internal`
-/
import Sfv.Model.SchemaDiff
import Sfv.Model.Container
namespace Sfv

/-- `Ok(())`, `Err(IncompatibleSchema)`, or the panic of `diff_schema` on a future outside return position -/
inductive VbcR where
  | ok | err | panicFuture
deriving DecidableEq, Repr

structure MethodSig where
  ret : Schema
  receiver : Nat
  isAsync : Bool
  args : SchemaL

/-- `methods.iter().find(|x| x.name == name)` -/
def findMethod : MethodL → Bytes → Option MethodSig
  | .nil, _ => none
  | .cons n ret rc asy args rest, name =>
    if n = name then some { ret := ret, receiver := rc, isAsync := asy, args := args } else findMethod rest name

def VbcR.ofDiff : DiffR → VbcR
  | .same => .ok
  | .differ => .err
  | .panicFuture => .panicFuture

def VbcR.andThen (a : VbcR) (b : VbcR) : VbcR :=
  match a with
  | .ok => b
  | other => other

/-- the loop over the old definition's methods in `verify_compatible_with_old_impl`;
    `retPos`: the position flag the code passes when it compares return values (`none`: the trait's own flag) -/
def verifyMethods (retPos : Option Bool) (newMs : MethodL) : MethodL → Bool → VbcR
  | .nil, _ => .ok
  | .cons name ret _ asy args rest, rp =>
    match findMethod newMs name with
    | none => .err                                       -- "has been removed"
    | some nm =>
      if nm.isAsync ≠ asy then .err                      -- async_trait heuristic changed
      else if nm.args.length ≠ args.length then .err     -- number of arguments
      else
        ((VbcR.ofDiff (diff nm.ret ret (retPos.getD rp))).andThen (VbcR.ofDiff (diffArgs nm.args args rp))).andThen
          (verifyMethods retPos newMs rest rp)

/-- `self.verify_backward_compatible(_, old, is_return_position)`; `self` is the caller's / newer definition -/
def verifyBackwardCompatible (retPos : Option Bool) : TraitDef → TraitDef → Bool → VbcR
  | .mk _ newMs nsync nsend, .mk _ oldMs osync osend, rp =>
    if rp && ((!osync && nsync) || (!osend && nsend)) then .err
    else if !rp && ((osync && !nsync) || (osend && !nsend)) then .err
    else verifyMethods retPos newMs oldMs rp

/-! ### the ledger -/

/-- a definition file: `save_file_noschema(path, fv, &def)` -/
def encDefFile (fv : Nat) (d : TraitDef) : Bytes :=
  encHeader { lib := currentLibVersion, ver := fv, compressed := false } ++ encDef fv d

inductive LedgerR where
  | ok
  | incompatible          -- verify_backward_compatible said no
  | unreadable            -- a stored file does not load
  | panic
deriving DecidableEq, Repr

/-- `load_file_noschema(path, memVer)` of a definition: read in the format the file says it has -/
def decDefFile (cfg : Cfg) (memVer : Nat) (bs : Bytes) : Option TraitDef :=
  match decHeader memVer bs with
  | .error _ => none
  | .ok (h, r) =>
    if h.compressed then none
    else match decDef cfg h.ver (r.length + 2) r with
      | .ok (d, _) => some d
      | .error _ => none

/-- one run of `verify_compatiblity`: versions `v, v+1, …` (fuel many), files keyed by version;
    `fvSave`/`fvLoad`: the data version the code passes to `save_file_noschema` / `load_file_noschema` -/
def ledgerRun (cfg : Cfg) (retPos : Option Bool) (fvSave fvLoad : Nat) (defs : Nat → TraitDef) :
    Nat → Nat → List (Nat × Bytes) → List (Nat × Bytes) × LedgerR
  | 0, _, files => (files, .ok)
  | fuel + 1, v, files =>
    match files.lookup v with
    | some bs =>
      match decDefFile cfg fvLoad bs with
      | none => (files, .unreadable)
      | some prev =>
        match verifyBackwardCompatible retPos (defs v) prev false with
        | .ok => ledgerRun cfg retPos fvSave fvLoad defs fuel (v + 1) files
        | .err => (files, .incompatible)
        | .panicFuture => (files, .panic)
    | none => ledgerRun cfg retPos fvSave fvLoad defs fuel (v + 1) (files ++ [(v, encDefFile fvSave (defs v))])

/-- `verify_compatiblity::<T>(dir)` for an interface whose latest version is `latest` -/
def verifyCompatibility (cfg : Cfg) (retPos : Option Bool) (fvSave fvLoad : Nat) (defs : Nat → TraitDef) (latest : Nat)
    (files : List (Nat × Bytes)) :=
  ledgerRun cfg retPos fvSave fvLoad defs (latest + 1) 0 files

/-! ### connection analysis -/

inductive AnaErr where
  | incompatible     -- IncompatibleSchema
  | general          -- GeneralError (argument count, internal errors)
  | tooManyArgs
deriving DecidableEq, Repr

inductive AnaFail where
  | err (e : AnaErr)
  | panic            -- more than 64 methods; a future outside return position
deriving DecidableEq, Repr

def liftVbc : VbcR → Except AnaFail Unit
  | .ok => .ok ()
  | .err => .error (.err .incompatible)
  | .panicFuture => .error .panic

/-- `a == b` on schemas (derived `PartialEq`): decided on the format-2 encoding, which determines the schema -/
def sameSchema (a b : Schema) : Bool := encSchema 2 a == encSchema 2 b

/-- `arg_layout_compatible`: may this argument be passed as a bare reference -/
def argLayoutCompatible (retPos : Option Bool) : Schema → Schema → Schema → Schema → Bool → Except AnaFail Bool
  | .future _ _ _ _, .future _ _ _ _, ea, eb, rp =>
    match ea, eb with
    | .future da sa ya ua, .future db sb yb ub =>
      if (sa && !sb) || (ya && !yb) || (ua && !ub) then .error (.err .incompatible)
      else match liftVbc (verifyBackwardCompatible retPos da db rp) with
        | .error e => .error e
        | .ok () => .ok true
    | _, _ => .error (.err .incompatible)
  | .fnClosure a1 _, .fnClosure b1 _, ea, eb, rp =>
    match ea, eb with
    | .fnClosure ea1 da, .fnClosure eb1 db =>
      match liftVbc (verifyBackwardCompatible retPos da db rp) with
      | .error e => .error e
      | .ok () => .ok (a1 == b1 && a1 == ea1 && a1 == eb1)
    | _, _ => .error (.err .incompatible)
  | .boxed na, .boxed nb, ea, eb, rp =>
    match ea, eb with
    | .boxed ea2, .boxed eb2 => argLayoutCompatible retPos na nb ea2 eb2 rp
    | _, _ => .error (.err .incompatible)
  | .trait sa _, .trait sb _, ea, eb, rp =>
    if sa ≠ sb then .error (.err .incompatible)
    else match ea, eb with
      | .trait ea1 da, .trait eb1 db =>
        if ea1 ≠ eb1 then .error (.err .incompatible)
        else match liftVbc (verifyBackwardCompatible retPos da db rp) with
          | .error e => .error e
          | .ok () => .ok true
      | _, _ => .error (.err .incompatible)
  | a, b, ea, eb, _ => .ok (layoutCompatible a b && sameSchema a ea && sameSchema b eb)

structure ConnMethod where
  name : Bytes
  calleeNum : Option Nat
  mask : Nat
deriving DecidableEq, Repr

def methodIndex : MethodL → Bytes → Nat → Option Nat
  | .nil, _, _ => none
  | .cons n _ _ _ _ rest, name, i => if n = name then some i else methodIndex rest name (i + 1)

/-- the per-argument loop: effective schemas must not differ; the mask collects by-reference arguments -/
def anaArgs (retPos : Option Bool) : SchemaL → SchemaL → SchemaL → SchemaL → Nat → Nat → Except AnaFail Nat
  | .cons e1 re1, .cons e2 re2, .cons n1 rn1, .cons n2 rn2, idx, mask =>
    match diff e1 e2 false with
    | .differ => .error (.err .incompatible)
    | .panicFuture => .error .panic
    | .same =>
      match argLayoutCompatible retPos n1 n2 e1 e2 false with
      | .error e => .error e
      | .ok c => anaArgs retPos re1 re2 rn1 rn2 (idx + 1) (if c then mask + 2 ^ idx else mask)
  | _, _, _, _, _, mask => .ok mask

def anaMethod (retPos : Option Bool) (callerEff calleeEff : MethodL) (calleeNative : MethodL) (name : Bytes) (cn : MethodSig) :
    Except AnaFail ConnMethod :=
  match methodIndex calleeNative name 0, findMethod calleeNative name with
  | some num, some ceeN =>
    match findMethod calleeEff name with
    | none => .error (.err .general)
    | some ceeE =>
      match findMethod callerEff name with
      | none => .error (.err .general)
      | some cerE =>
        if cn.args.length ≠ ceeN.args.length then .error (.err .general)
        else if cn.args.length ≠ cerE.args.length then .error (.err .general)
        else if cn.args.length ≠ ceeE.args.length then .error (.err .general)
        else if cn.args.length > 64 then .error (.err .tooManyArgs)
        else
          match diff cerE.ret ceeE.ret true with
          | .differ => .error (.err .incompatible)
          | .panicFuture => .error .panic
          | .same =>
            match anaArgs retPos cerE.args ceeE.args cn.args ceeN.args 0 0 with
            | .error e => .error e
            | .ok mask =>
              -- the return value: diffed again, and its layout decision computed (errors propagate), not recorded
              match argLayoutCompatible retPos cn.ret ceeN.ret cerE.ret ceeE.ret true with
              | .error e => .error e
              | .ok _ => .ok { name := name, calleeNum := some num, mask := mask }
  | _, _ => .ok { name := name, calleeNum := none, mask := 0 }

def anaMethods (retPos : Option Bool) (callerEff calleeEff calleeNative : MethodL) : MethodL → Except AnaFail (List ConnMethod)
  | .nil => .ok []
  | .cons name ret rc asy args rest =>
    match anaMethod retPos callerEff calleeEff calleeNative name { ret := ret, receiver := rc, isAsync := asy, args := args } with
    | .error e => .error e
    | .ok m =>
      match anaMethods retPos callerEff calleeEff calleeNative rest with
      | .error e => .error e
      | .ok ms => .ok (m :: ms)

def TraitDef.methods : TraitDef → MethodL
  | .mk _ ms _ _ => ms

/-- `analyze_and_create` -/
def analyze (retPos : Option Bool) (callerEff calleeEff callerNative calleeNative : TraitDef) : Except AnaFail (List ConnMethod) :=
  if callerNative.methods.length > 64 then .error .panic
  else anaMethods retPos callerEff.methods calleeEff.methods calleeNative.methods callerNative.methods

/-- `new_internal`: the effective version is the lower of the two latest versions; each side describes itself
    at its own latest version (native) and at the effective version -/
def connect (retPos : Option Bool) (callerDefs calleeDefs : Nat → TraitDef) (callerLatest calleeLatest : Nat) :
    Nat × Except AnaFail (List ConnMethod) :=
  let eff := min callerLatest calleeLatest
  (eff, analyze retPos (callerDefs eff) (calleeDefs eff) (callerDefs callerLatest) (calleeDefs calleeLatest))

end Sfv
