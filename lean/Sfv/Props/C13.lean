/-
  Sfv.Props.C13 — Schema values persist exactly; comparison is reflexive and complete.

  `encSchema v` / `decSchema v` are the three on-disk schema formats (tied to the code by S-schemawire).
  `c13_rt2`, `c13_rt1`, `c13_rt0` : a well-formed schema written at format 2 / 1 / 0 reads back (followed by
        anything, with the fuel the loader uses) as itself / itself minus method receiver+async flags /
        itself minus every memory-layout annotation; a data-file schema is unchanged by format 1.
        (Format 0 has no writer left in the code base: `encSchema 0` is its reconstruction.)
  `c13_stored_is_compared` : the loader compares exactly the schema decoded from the stored bytes at the
        file's library version.
  `c13_refl`  : comparing a data schema with itself reports no difference; `Undefined` is the coded exception.
  `c13_complete_*` : each single change that alters the wire layout is reported as a difference.
-/
import Sfv.Lemmas.SchemaMono
import Sfv.Props.C07
import Sfv.Lemmas.SchemaMisc
import Sfv.Model.Container
namespace Sfv

theorem c13_rt2 (cfg : Cfg) (s : Schema) (r : Bytes) (hw : wfS cfg s = true) :
    decSchema cfg 2 ((encSchema 2 s ++ r).length + 1) (encSchema 2 s ++ r) = .ok (s, r) := by
  have := schema_rt_len cfg 2 s r hw
  rwa [normS_ge2 2 (by omega) s] at this

theorem c13_rt1 (cfg : Cfg) (s : Schema) (r : Bytes) (hw : wfS cfg s = true) :
    decSchema cfg 1 ((encSchema 1 s ++ r).length + 1) (encSchema 1 s ++ r) = .ok (normS 1 s, r)
    ∧ (dataS s = true → normS 1 s = s) :=
  ⟨schema_rt_len cfg 1 s r hw, normS_ge1_data 1 (by omega) s⟩

theorem c13_rt0 (cfg : Cfg) (s : Schema) (r : Bytes) (hw : wfS cfg s = true) :
    decSchema cfg 0 ((encSchema 0 s ++ r).length + 1) (encSchema 0 s ++ r) = .ok (normS 0 s, r) :=
  schema_rt_len cfg 0 s r hw

/-- the schema codec the container uses: stored bytes are decoded at the file's library version and
    compared with `diff_schema(memory, file)` -/
def realSchemaCodec (cfg : Cfg) : SchemaCodec Schema :=
  { encS := encSchema
    decS := fun lib bs => decSchema cfg lib (bs.length + 1) bs
    compat := fun mem file => diff mem file false == .same }

/-- what gets compared on load is the schema that was stored (format 2 writer, any well-formed schema) -/
theorem c13_stored_is_compared (cfg : Cfg) (env : UserFns) (T : Ty) (memVer v : Nat) (stored : Schema)
    (expected : Nat → Schema) (payload : Bytes)
    (hv : v ≤ memVer) (hv32 : v < 2^32) (hw : wfS cfg stored = true) :
    loadFile cfg env (realSchemaCodec cfg) (some expected) T memVer
        (encHeader { lib := currentLibVersion, ver := v, compressed := false } ++ (encSchema 2 stored ++ payload))
      = (if diff (expected v) stored false = .same then
           (match load cfg env T v payload with
            | .error f => .error (.payload f)
            | .ok res => .ok res)
         else .error .schema) := by
  unfold loadFile
  have hh : decHeader memVer (encHeader { lib := currentLibVersion, ver := v, compressed := false } ++ (encSchema 2 stored ++ payload))
      = .ok ({ lib := currentLibVersion, ver := v, compressed := false }, encSchema 2 stored ++ payload) := by
    -- header round trip (lemma of the container model, restated to avoid the import cycle)
    have hlib : currentLibVersion < 256 ^ 2 := by decide
    have hver : v < 256 ^ 4 := by
      have : (256:Nat)^4 = 2^32 := by decide
      omega
    unfold decHeader encHeader
    simp only [List.append_assoc]
    have hm : takeN 9 (magic ++ (leBytes 2 currentLibVersion ++ (leBytes 4 v ++ ([if false = true then 1 else 0] ++ (encSchema 2 stored ++ payload)))))
        = some (magic, leBytes 2 currentLibVersion ++ (leBytes 4 v ++ ([if false = true then 1 else 0] ++ (encSchema 2 stored ++ payload)))) := by
      simp [takeN, magic]
    rw [hm]
    simp only [ne_eq, not_true_eq_false, if_false]
    have h2 : takeN 2 (leBytes 2 currentLibVersion ++ (leBytes 4 v ++ ([if false = true then 1 else 0] ++ (encSchema 2 stored ++ payload))))
        = some (leBytes 2 currentLibVersion, leBytes 4 v ++ ([if false = true then 1 else 0] ++ (encSchema 2 stored ++ payload))) := by
      simp [takeN, leBytes]
    rw [h2]
    simp only [ofLE_leBytes 2 currentLibVersion hlib]
    simp only [gt_iff_lt, Nat.lt_irrefl, if_false]
    have h4 : takeN 4 (leBytes 4 v ++ ([if false = true then 1 else 0] ++ (encSchema 2 stored ++ payload)))
        = some (leBytes 4 v, [if false = true then 1 else 0] ++ (encSchema 2 stored ++ payload)) := by
      simp [takeN, leBytes]
    rw [h4]
    simp only [ofLE_leBytes 4 v hver]
    have : ¬ (v > memVer) := by omega
    simp [this]
  rw [hh]
  simp only [Bool.false_eq_true, if_false, realSchemaCodec]
  have := c13_rt2 cfg stored payload hw
  simp only [currentLibVersion] at this ⊢
  rw [this]
  by_cases hd : diff (expected v) stored false = .same
  · simp only [hd, beq_self_eq_true, if_true]
    cases load cfg env T v payload <;> rfl
  · have : (diff (expected v) stored false == DiffR.same) = false := by simpa using hd
    simp [this, hd]

/-- reflexivity on everything a data file's schema can contain -/
theorem c13_refl (s : Schema) (rp : Bool) (h : dataS s = true) : diff s s rp = .same :=
  (diff_iff_shapeEq s s rp h h).mpr (shapeEq_refl s h)

/-- the coded, documented exception -/
theorem c13_undefined_not_refl (rp : Bool) : diff .undefined .undefined rp = .differ := by simp [diff]

/-! single changes that alter the wire layout are reported -/

theorem c13_complete_primitive (a b : SPrim) (rp : Bool) (h : a.shape ≠ b.shape) :
    diff (.prim a) (.prim b) rp = .differ := by
  cases a <;> cases b <;> simp_all [diff, SPrim.shape, SPrim.code]

theorem c13_complete_field_count (na nb : Bytes) (sa sb aa ab : Option Nat) (fa fb : SFieldL) (rp : Bool)
    (h : fa.length ≠ fb.length) : diff (.struct na sa aa fa) (.struct nb sb ab fb) rp = .differ := by
  simp [diff, diffFieldsLen, h]

theorem c13_complete_variant_count (na nb : Bytes) (va vb : SVariantL) (da db : Nat) (ea eb : Bool)
    (sa sb aa ab : Option Nat) (rp : Bool) (h : va.length ≠ vb.length) :
    diff (.enum na va da ea sa aa) (.enum nb vb db eb sb ab) rp = .differ := by
  simp [diff, h]

theorem c13_complete_discriminant_width (na nb : Bytes) (va vb : SVariantL) (da db : Nat) (ea eb : Bool)
    (sa sb aa ab : Option Nat) (rp : Bool) (h : da ≠ db) :
    diff (.enum na va da ea sa aa) (.enum nb vb db eb sb ab) rp = .differ := by
  by_cases hl : va.length = vb.length <;> simp [diff, h, hl]

theorem c13_complete_variant_name (na nb : Bytes) (da db : Nat) (fa fb : SFieldL) (ra rb : SVariantL) (h : na ≠ nb) :
    diffVariants (.cons na da fa ra) (.cons nb db fb rb) = .differ := by
  simp [diffVariants, h]

theorem c13_complete_variant_discriminant (n : Bytes) (da db : Nat) (fa fb : SFieldL) (ra rb : SVariantL) (h : da ≠ db) :
    diffVariants (.cons n da fa ra) (.cons n db fb rb) = .differ := by
  simp [diffVariants, h]

theorem c13_complete_array_length (a b : Schema) (na nb : Nat) (rp : Bool) (h : na ≠ nb) :
    diff (.array a na) (.array b nb) rp = .differ := by
  simp [diff, h]

/-- a schema never has the shape of itself wrapped in an option or a vector -/
theorem shape_wrap_ne : ∀ (t : Schema), shapeEq t (.option t) = false ∧ ∀ l, shapeEq t (.vector t l) = false
  | .option t => ⟨by simp only [shapeEq]; exact (shape_wrap_ne t).1, fun l => by simp [shapeEq]⟩
  | .vector t l' => ⟨by simp [shapeEq], fun l => by simp only [shapeEq]; exact (shape_wrap_ne t).2 l'⟩
  | .struct _ _ _ _ => ⟨by simp [shapeEq], fun l => by simp [shapeEq]⟩
  | .enum _ _ _ _ _ _ => ⟨by simp [shapeEq], fun l => by simp [shapeEq]⟩
  | .prim _ => ⟨by simp [shapeEq], fun l => by simp [shapeEq]⟩
  | .array _ _ => ⟨by simp [shapeEq], fun l => by simp [shapeEq]⟩
  | .undefined => ⟨by simp [shapeEq], fun l => by simp [shapeEq]⟩
  | .zeroSize => ⟨by simp [shapeEq], fun l => by simp [shapeEq]⟩
  | .custom _ => ⟨by simp [shapeEq], fun l => by simp [shapeEq]⟩
  | .boxed _ => ⟨by simp [shapeEq], fun l => by simp [shapeEq]⟩
  | .slice _ => ⟨by simp [shapeEq], fun l => by simp [shapeEq]⟩
  | .str => ⟨by simp [shapeEq], fun l => by simp [shapeEq]⟩
  | .reference _ => ⟨by simp [shapeEq], fun l => by simp [shapeEq]⟩
  | .trait _ _ => ⟨by simp [shapeEq], fun l => by simp [shapeEq]⟩
  | .fnClosure _ _ => ⟨by simp [shapeEq], fun l => by simp [shapeEq]⟩
  | .recursion _ => ⟨by simp [shapeEq], fun l => by simp [shapeEq]⟩
  | .stdIoError => ⟨by simp [shapeEq], fun l => by simp [shapeEq]⟩
  | .future _ _ _ _ => ⟨by simp [shapeEq], fun l => by simp [shapeEq]⟩
  | .uninitSlice => ⟨by simp [shapeEq], fun l => by simp [shapeEq]⟩
  | .utcTimestamp => ⟨by simp [shapeEq], fun l => by simp [shapeEq]⟩

/-- wrapping a schema in an option or a vector is a difference (and so is any reordering that changes a
    shape, by `c05_diff_iff`) -/
theorem c13_complete_wrapping (s : Schema) (l : VLayout) (rp : Bool) (h : dataS s = true) :
    diff s (.option s) rp ≠ .same ∧ diff s (.vector s l) rp ≠ .same := by
  have ho : dataS (.option s) = true := by simpa [dataS] using h
  have hv : dataS (.vector s l) = true := by simpa [dataS] using h
  constructor
  · intro hd
    have := (diff_iff_shapeEq s (.option s) rp h ho).mp hd
    rw [(shape_wrap_ne s).1] at this; cases this
  · intro hd
    have := (diff_iff_shapeEq s (.vector s l) rp h hv).mp hd
    rw [(shape_wrap_ne s).2 l] at this; cases this

/-- non-vacuity: a well-formed data schema with layout annotations -/
example : wfS {} (.struct [80] (some 8) (some 4)
      (.cons [97] (.prim .u32) (some 0) (.cons [98] (.vector (.prim (.str .capDataLen)) .capDataLen) (some 4) .nil))) = true
    ∧ dataS (.struct [80] (some 8) (some 4)
      (.cons [97] (.prim .u32) (some 0) (.cons [98] (.vector (.prim (.str .capDataLen)) .capDataLen) (some 4) .nil))) = true := by
  simp [wfS, wfSF, wfName, wfOpt, validUtf8, SFieldL.length, dataS, dataSF]

/-- the real schema section reader does not look beyond what it consumes (this discharges the hypothesis of
    `c07_file_prefix` for the real format) -/
theorem c13_reader_monotone (cfg : Cfg) (s : Bytes) (lib : Nat) (bs : Bytes) (sch : Schema) (r' : Bytes)
    (h : (realSchemaCodec cfg).decS lib bs = .ok (sch, r')) :
    (realSchemaCodec cfg).decS lib (bs ++ s) = .ok (sch, r' ++ s) := by
  simp only [realSchemaCodec] at h ⊢
  exact decSchema_mono cfg lib s bs (bs.length + 1) ((bs ++ s).length + 1) sch r' h (by simp)

/-- C07 for plain files with the real schema codec, no hypothesis left about the schema reader: whenever the
    complete file loads and is consumed entirely, no strict prefix of it loads -/
theorem c13_plain_file_prefix (cfg : Cfg) (env : UserFns) (expected : Option (Nat → Schema))
    (T : Ty) (memVer : Nat) (p s : Bytes) (x : V)
    (hfull : loadFile cfg env (realSchemaCodec cfg) expected T memVer (p ++ s) = .ok (x, []))
    (hs : s ≠ []) :
    ∀ x' r', loadFile cfg env (realSchemaCodec cfg) expected T memVer p ≠ .ok (x', r') :=
  c07_file_prefix cfg env (realSchemaCodec cfg) expected T memVer p s x
    (fun s lib bs sch r' h => c13_reader_monotone cfg s lib bs sch r' h) hfull hs

end Sfv
