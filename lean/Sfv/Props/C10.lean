/-
  Sfv.Props.C10 — ABI version tolerance (the decisions taken when a connection is created, and the transfer of
  values at the negotiated version).

  `connect` is `AbiConnection::new_internal` + `analyze_and_create` on the definition families of the two sides.

  `c10_effective_version`       : the negotiated version is the lower of the two latest versions
                                  (`c10_constants`: the code computes `own_version.min(callee_abi_version)`)
  `c10_caller_only_method`      : a method only the caller knows does not prevent connecting: it is listed
                                  without a callee method number (calling it panics at call time)
  `c10_callee_only_methods`     : methods only the implementation knows (added behind the known ones, under new
                                  names) change nothing
  `c10_rejects_argument_count`, `c10_rejects_changed_type` : a common method whose argument count differs, or
                                  whose argument/return types differ at the effective version, makes connection
                                  creation fail (never a silent connection)
  `c10_value_transfer`          : what one side writes at the effective version k with its definition is read by
                                  the other side's definition at k as the projected value with defaults filled
                                  in — for arguments (caller → implementation) and return values alike; this is
                                  the C18/C03 transfer theorem at k = min(i, j)
-/
import Sfv.Lemmas.Abi
import Sfv.Generated.Abi
import Sfv.Props.C18
namespace Sfv

theorem c10_constants :
    Generated.effectiveVersionIsMin = true ∧ Generated.maxMethods = some 64 ∧ Generated.maxArguments = some 64 := by
  decide

theorem c10_effective_version (retPos : Option Bool) (callerDefs calleeDefs : Nat → TraitDef) (i j : Nat) :
    (connect retPos callerDefs calleeDefs i j).1 = min i j := rfl

theorem c10_caller_only_method (retPos : Option Bool) (callerEff calleeEff calleeNative : MethodL) (name : Bytes)
    (sig : MethodSig) (h : findMethod calleeNative name = none) :
    anaMethod retPos callerEff calleeEff calleeNative name sig = .ok { name := name, calleeNum := none, mask := 0 } := by
  unfold anaMethod
  rw [h]
  cases methodIndex calleeNative name 0 <;> rfl

theorem methodIndex_app_left : ∀ (a b : MethodL) (n : Bytes) (i k : Nat),
    methodIndex a n i = some k → methodIndex (a.app b) n i = some k
  | .nil, _, _, _, _, h => by simp [methodIndex] at h
  | .cons m ret rc asy args rest, b, n, i, k, h => by
    simp only [methodIndex, MethodL.app] at h ⊢
    split
    · rename_i e; simp only [e, if_true] at h; exact h
    · rename_i e; simp only [e, if_false] at h; exact methodIndex_app_left rest b n (i + 1) k h

theorem methodIndex_some_of_find : ∀ (a : MethodL) (n : Bytes) (i : Nat) (sig : MethodSig),
    findMethod a n = some sig → ∃ k, methodIndex a n i = some k
  | .nil, _, _, _, h => by simp [findMethod] at h
  | .cons m ret rc asy args rest, n, i, sig, h => by
    simp only [findMethod, methodIndex] at h ⊢
    split
    · exact ⟨i, rfl⟩
    · rename_i e; simp only [e, if_false] at h; exact methodIndex_some_of_find rest n (i + 1) sig h

/-- for a method the implementation already had, methods appended to the implementation's definitions are not looked at -/
theorem c10_callee_only_methods (retPos : Option Bool) (callerEff calleeEff calleeNative extraE extraN : MethodL)
    (name : Bytes) (sig ceeN ceeE : MethodSig)
    (hn : findMethod calleeNative name = some ceeN) (he : findMethod calleeEff name = some ceeE) :
    anaMethod retPos callerEff (calleeEff.app extraE) (calleeNative.app extraN) name sig
      = anaMethod retPos callerEff calleeEff calleeNative name sig := by
  obtain ⟨k, hk⟩ := methodIndex_some_of_find calleeNative name 0 ceeN hn
  unfold anaMethod
  rw [methodIndex_app_left calleeNative extraN name 0 k hk, hk, findMethod_app_left calleeNative extraN name ceeN hn, hn,
    findMethod_app_left calleeEff extraE name ceeE he, he]

theorem c10_rejects_argument_count (retPos : Option Bool) (callerEff calleeEff calleeNative : MethodL) (name : Bytes)
    (sig ceeN : MethodSig) (k : Nat) (hi : methodIndex calleeNative name 0 = some k)
    (hn : findMethod calleeNative name = some ceeN) (h : sig.args.length ≠ ceeN.args.length) :
    ∀ m, anaMethod retPos callerEff calleeEff calleeNative name sig ≠ .ok m := by
  intro m
  unfold anaMethod
  rw [hi, hn]
  simp only
  cases findMethod calleeEff name with
  | none => simp
  | some ceeE =>
    simp only
    cases findMethod callerEff name with
    | none => simp
    | some cerE => simp [h]

theorem c10_rejects_changed_type (retPos : Option Bool) (callerEff calleeEff calleeNative : MethodL) (name : Bytes)
    (sig ceeN ceeE cerE : MethodSig) (k : Nat) (hi : methodIndex calleeNative name 0 = some k)
    (hn : findMethod calleeNative name = some ceeN) (he : findMethod calleeEff name = some ceeE)
    (hc : findMethod callerEff name = some cerE)
    (h : diff cerE.ret ceeE.ret true ≠ .same) :
    ∀ m, anaMethod retPos callerEff calleeEff calleeNative name sig ≠ .ok m := by
  intro m
  unfold anaMethod
  rw [hi, hn, he, hc]
  simp only
  split
  · simp
  · split
    · simp
    · split
      · simp
      · split
        · simp
        · cases hd : diff cerE.ret ceeE.ret true with
          | same => exact absurd hd h
          | differ => simp
          | panicFuture => simp

/-- the argument/return value transfer at the negotiated version `k`: `W` is the definition on the writing
    side, `R` the one on the reading side -/
theorem c10_value_transfer (cfg : Cfg) (env : UserFns) (R W : Ty) (k : Nat) (x wv : V) (bs r : Bytes)
    (hext : encExt (saveWire W k) (wireOf R k) = true)
    (hp : proj W k x = .ok wv) (hs : save W k x = .ok bs)
    (hw : wfW (wireOf R k) = true) (hl : lim cfg (wireOf R k) wv = true) :
    load cfg env R k (bs ++ r) = .ok (fill env R k wv, r) :=
  c18_downgrade cfg env R W k x wv bs r hext hp hs hw hl

end Sfv
