/-
  Sfv.Props.C17 — Introspection is self-consistent and navigation never panics.

  (a) reported number of children = number of children that can be fetched by index
      `c17_impl_sound`       : the decidable criterion `IImpl.ok` implies `introspect_len` equals the number of
                               children served, for every value (`IImpl.Consistent`), given the same for the
                               inner value — so it holds for every composed type by induction on the type.
      `c17_table`            : every `Introspect` impl of savefile/src/lib.rs, as classified from the *current*
                               source by tools/translate.py, meets the criterion (no impl is `unknown`).
      `c17_len_children`     : hence every library impl is consistent.
      `c17_derived`          : a derived impl serving k fields reports k; `c17_derive_facts` ties the shape of
                               the generated code (consecutive indices, `#field_count`) to the current macro source.
  (b) navigation
      `c17_nav_never_panics` : `do_introspect` reaches none of the panic sites (`unwrap` of the taken command,
                               `path.pop().unwrap()`), from *any* path state, for any tree, limit and command.
      `c17_history`          : therefore along any command sequence no step panics, and every result satisfies
                               the flat-index law.
      `c17_flat`             : for every result `do_introspect` returns, `total_index(i)` never panics (index
                               arithmetic, vector indexing), yields the i-th element of the depth-first
                               enumeration, and is `Some` exactly for `i < total_len()`.
-/
import Sfv.Lemmas.Introspect
import Sfv.Generated.Introspect
namespace Sfv

/-! ### (a) `introspect_len` vs children served -/

theorem c17_impl_sound (m : Nat) (i : IImpl) (h : i.ok m = true) : i.Consistent m := by
  intro f hf
  obtain ⟨name, child, len⟩ := i
  cases child <;> cases len <;> simp [IImpl.ok] at h <;>
    simp [IChild.count, ILen.value, hf] <;> first | omega | skip
  all_goals (first | (subst h; rfl) | (split <;> omega) | omega)

theorem c17_table :
    Generated.maxChildren = some 10000 ∧ Generated.defaultLenIsCountUpToMax = true
    ∧ Generated.introspectImpls.all (IImpl.ok 10000) = true := by
  decide

theorem c17_len_children (i : IImpl) (h : i ∈ Generated.introspectImpls) : i.Consistent 10000 :=
  c17_impl_sound 10000 i (List.all_eq_true.mp c17_table.2.2 i h)

/-- a derived impl: `k` index arms `if index == j { return Some(..) }` for j = 0..k-1, `introspect_len` = `k` -/
theorem c17_derived (k : Nat) : ({ name := "derived", child := .consts k, len := .const k } : IImpl).Consistent 10000 :=
  c17_impl_sound 10000 _ (by simp [IImpl.ok])

theorem c17_derive_facts :
    Generated.derive_consecutive = true ∧ Generated.derive_structLen = true ∧ Generated.derive_enumLen = true := by
  decide

/-- the default `introspect_len` is *not* consistent for containers that can exceed `MAX_CHILDREN`
    (this is why `[T; N]` needs its own `introspect_len`; the table has no such row) -/
example : ¬ ({ name := "x", child := .nth, len := .dflt } : IImpl).Consistent 10000 := by
  intro h
  obtain ⟨c, h1, h2⟩ := h { n := 10001, inner := 0, innerLen := 0, present := true, healthy := true } rfl
  simp [IChild.count] at h1
  subst h1
  simp [ILen.value] at h2

/-! ### (b) navigation -/

theorem c17_nav_never_panics (limit : Nat) (t : ITree) (path : List PathElem) (cmd : NavCmd) (s : NavSite) :
    (doIntrospect limit t path cmd).2 ≠ .error (.panic s) :=
  (doIntrospect_ok limit t path cmd).1 s

theorem c17_flat (limit : Nat) (t : ITree) (path : List PathElem) (cmd : NavCmd) (r : NavResult)
    (h : (doIntrospect limit t path cmd).2 = .ok r) (i : Nat) :
    totalIndex r i = .ok ((flatten r.frames)[i]?)
    ∧ (((flatten r.frames)[i]?).isSome = true ↔ i < r.totalLen) := by
  obtain ⟨hw, _, hlen⟩ := (doIntrospect_ok limit t path cmd).2 r h
  have hs := (tii_spec r.frames 0 i hw (Nat.zero_le _)).1
  simp only [Nat.sub_zero] at hs
  refine ⟨hs, ?_⟩
  rw [hlen, ← flatten_length r.frames hw]
  simp

/-- the introspector driven by a command sequence: the results, in order -/
def runCmds (limit : Nat) (t : ITree) : List PathElem → List NavCmd → List (Except NavFail NavResult)
  | _, [] => []
  | path, c :: cs => (doIntrospect limit t path c).2 :: runCmds limit t (doIntrospect limit t path c).1 cs

theorem c17_history (limit : Nat) (t : ITree) : ∀ (cmds : List NavCmd) (path : List PathElem),
    ∀ out ∈ runCmds limit t path cmds,
      (∀ s, out ≠ .error (.panic s))
      ∧ (∀ r, out = .ok r → ∀ i, ∃ x, totalIndex r i = .ok x ∧ (x.isSome = true ↔ i < r.totalLen))
  | [], _ => by simp [runCmds]
  | c :: cs, path => by
    intro out hout
    simp only [runCmds, List.mem_cons] at hout
    cases hout with
    | inl h =>
      subst h
      refine ⟨fun s => c17_nav_never_panics limit t path c s, ?_⟩
      intro r hr i
      exact ⟨_, c17_flat limit t path c r hr i⟩
    | inr h => exact c17_history limit t cs _ out h

/-! ### the statements are not vacuous -/

/-- a struct with two fields, the second a two-element vector -/
def exTree : ITree :=
  .node (.cons [97] (.node .nil) (.cons [98] (.node (.cons [48] (.node .nil) (.cons [49] (.node .nil) .nil))) .nil))

/-- selecting child 1 at depth 0 yields two frames, four elements in all -/
example : ∃ r, (doIntrospect noLimit exTree [] (.selectNth 0 1)).2 = .ok r ∧ r.frames.length = 2 ∧ r.totalLen = 4 := by
  refine ⟨_, rfl, ?_, ?_⟩ <;> decide

example : (doIntrospect noLimit exTree [] (.expand 0 [99] 0)).2 = .error (.err .unknownKey) := by rfl
example : (doIntrospect noLimit exTree [] .up).2 = .error (.err .alreadyAtTop) := by rfl

end Sfv
