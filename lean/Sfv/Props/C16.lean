/-
  Sfv.Props.C16 — ABI connections are safe to create and use concurrently.

  Threads are programs over the three process-global locks of savefile-abi (Model/Locks.lean); the scheduler
  is arbitrary.  The programs of the code (`c16_lock_sites`, from the current source: which function takes which
  lock in which order; that a panic under a lock does not leave it poisoned for the other threads) follow the lock order
  entry < library < templates (`c16_programs_ordered`).  For every interleaving:

  `c16_no_user_code_under_lock` : no destructor or method of user code is invoked while a global lock is held
                            (from the current source) — the threads of the model take no other locks
  `c16_mutual_exclusion`  : a lock is never held twice
  `c16_no_deadlock`       : while some thread is unfinished, some thread can move
  `c16_all_complete`      : every run has exactly as many steps as there are instructions, and ends with every
                            thread finished holding nothing — no deadlock, no livelock
  `c16_same_results`      : every template a thread obtains for a key is the one a sequential execution computes
                            for that key (first use or cached, whoever inserted it)
-/
import Sfv.Lemmas.Locks
import Sfv.Generated.Locks
namespace Sfv

theorem c16_lock_sites :
    Generated.lockSites = [("get_symbol_for", ["ENTRY_CACHE", "LIBRARY_CACHE"]), ("new_internal", ["ABI_CONNECTION_TEMPLATES"])]
    ∧ Generated.rawLockCalls = ["Guard::lock"]
    ∧ Generated.lockIgnoresPoison = true := by
  decide

/-- The model's threads take no lock of their own and re-enter nothing while they hold one of the three global
    locks.  In the code this is so as long as no *user* code runs under a guard: what is sent to the other side's
    entry point while the template guard is alive are the two interrogations (library code) and `CreateInstance`
    (a constructor; for a shared library it runs against that library's own copy of the three locks).  A destructor
    (`DropInstance`) or a method (`RegularCall`) under the guard could take any lock, the template lock included. -/
theorem c16_no_user_code_under_lock :
    Generated.protocolUnderTemplatesLock.all (fun p => ["InterrogateVersion", "InterrogateMethods", "CreateInstance"].contains p) = true := by
  decide

/-- Concurrent calls on a *shared* connection reach one implementation object from several threads at once.  The
    library can only promise the sequential results (`c16_same_results` is about connection creation; a call is the
    implementation's own code) if safe code cannot share a connection whose implementation is not `Sync`: the
    unsafe `Sync` impl of `AbiConnection<T>` has to ask `T: Sync`, the `Send` impl `T: Send`. -/
theorem c16_connection_auto_traits :
    (Generated.connSyncBounds.getD []).contains "Sync" = true ∧ (Generated.connSendBounds.getD []).contains "Send" = true := by
  decide

theorem c16_programs_ordered (k : Nat) (ks : List Nat) :
    Ordered progGetSymbol [] ∧ Ordered (progNewInternal k) [] ∧ Ordered (progLoadLibrary k) [] ∧ Ordered (progCall ks) [] := by
  refine ⟨by simp [progGetSymbol, Ordered, Lock.rank], by simp [progNewInternal, Ordered], ?_, ?_⟩
  · simp [progLoadLibrary, progGetSymbol, progNewInternal, Ordered, Lock.rank]
  · induction ks with
    | nil => simp [progCall, Ordered]
    | cons k ks ih =>
      simp only [progCall, progNewInternal, List.cons_append, List.nil_append, Ordered]
      simp [ih]

/-- an initial state: nothing held, nothing cached, every program follows the lock order -/
def Initial (s : LState) : Prop :=
  s.cache = [] ∧ ∀ t ∈ s.threads, t.held = [] ∧ t.results = [] ∧ Ordered t.prog []

theorem initial_inv (compute : Nat → Nat) (s : LState) (h : Initial s) : Inv compute s := by
  obtain ⟨hc, ht⟩ := h
  refine ⟨?_, ?_, ?_, ?_⟩
  · intro t htm
    obtain ⟨h1, _, h3⟩ := ht t htm
    rw [h1]; exact h3
  · intro l
    have : ∀ ts : List Thread, (∀ t ∈ ts, t.held = []) → countHeld ts l = 0 := by
      intro ts
      induction ts with
      | nil => intro _; rfl
      | cons u us ih =>
        intro hh
        simp only [countHeld, List.map_cons, List.sum_cons]
        have h1 := hh u (by simp)
        have h2 := ih (fun t ht' => hh t (by simp [ht']))
        simp only [countHeld] at h2
        simp [h1, h2]
    have := this s.threads (fun t htm => (ht t htm).1)
    omega
  · intro k v hm; rw [hc] at hm; simp at hm
  · intro t htm k v hm
    rw [(ht t htm).2.1] at hm; simp at hm

theorem c16_mutual_exclusion (compute : Nat → Nat) (s s' : LState) (n : Nat) (h0 : Initial s) (hr : Run compute n s s') (l : Lock) :
    countHeld s'.threads l ≤ 1 :=
  (run_inv compute n s s' hr (initial_inv compute s h0)).1.excl l

theorem c16_no_deadlock (compute : Nat → Nat) (s s' : LState) (n : Nat) (h0 : Initial s) (hr : Run compute n s s')
    (hnf : ¬ Finished s'.threads) : ∃ s'', Step compute s' s'' :=
  can_step compute s' (run_inv compute n s s' hr (initial_inv compute s h0)).1 hnf

theorem c16_all_complete (compute : Nat → Nat) (s s' : LState) (n : Nat) (h0 : Initial s) (hr : Run compute n s s') :
    n ≤ remaining s.threads ∧ (n = remaining s.threads ↔ Finished s'.threads)
    ∧ (Finished s'.threads → ∀ t ∈ s'.threads, t.held = []) := by
  obtain ⟨hi, hrem⟩ := run_inv compute n s s' hr (initial_inv compute s h0)
  refine ⟨by omega, ?_, ?_⟩
  · rw [finished_iff_remaining]; omega
  · intro hf t ht
    have := hi.wf t ht
    rw [hf t ht] at this
    exact this

theorem c16_same_results (compute : Nat → Nat) (s s' : LState) (n : Nat) (h0 : Initial s) (hr : Run compute n s s') :
    ∀ t ∈ s'.threads, ∀ k v, (k, v) ∈ t.results → v = compute k :=
  (run_inv compute n s s' hr (initial_inv compute s h0)).1.results

/-! ### not vacuous: two threads, one loading a library, one creating a connection for the same key -/

def exState : LState :=
  { threads := [{ prog := progLoadLibrary 7, held := [], results := [] }, { prog := progNewInternal 7, held := [], results := [] }],
    cache := [] }

example : Initial exState := by
  refine ⟨rfl, ?_⟩
  intro t ht
  simp only [exState, List.mem_cons, List.mem_nil_iff, or_false] at ht
  rcases ht with rfl | rfl
  · exact ⟨rfl, rfl, (c16_programs_ordered 7 []).2.2.1⟩
  · exact ⟨rfl, rfl, (c16_programs_ordered 7 []).2.1⟩

end Sfv
