/-
  Sfv.Props.C18 — Writing an older version yields data the older definition reads.

  `B` is the current definition (version n), `A` the definition that was current at version `k ≤ n`.
  `c18_downgrade`      : if everything `saveWire B k` encodes is encoded identically by `wireOf A k`
                         (`encExt`, checked for every zoo family), then what `B` writes at `k` is read by `A`
                         as `fill env A k` of the projected value, consuming exactly the bytes written.
  `c18_writer_*`       : field addition and `AbiRemoved` removal leave the *writer's* grammar of every older
                         version unchanged (later fields omitted), at any position.
  `c18_abi_removed`    : at a version where an `AbiRemoved` field is alive the writer emits the constructed
                         value; `c18_later_field_omitted`: a field added later is not written.
  `c18_variant_absent` : a variant that does not exist at the written version is refused (the Rust code
                         panics with "variant … is not present in version …").
  `c18_packed_gate`    : the packed fast path is only taken at versions at which every version-gated field
                         is present and every removed one absent, and then memory equals the encoding at that
                         version (C04).
-/
import Sfv.Lemmas.Evolve
import Sfv.Lemmas.PackedImage
namespace Sfv

theorem c18_downgrade (cfg : Cfg) (env : UserFns) (A B : Ty) (k : Nat) (x wv : V) (bs r : Bytes)
    (hext : encExt (saveWire B k) (wireOf A k) = true)
    (hp : proj B k x = .ok wv) (hs : save B k x = .ok bs)
    (hw : wfW (wireOf A k) = true) (hl : lim cfg (wireOf A k) wv = true) :
    load cfg env A k (bs ++ r) = .ok (fill env A k wv, r) := by
  unfold save at hs
  rw [hp] at hs
  simp only at hs
  cases he : enc (saveWire B k) wv with
  | none => simp [he] at hs
  | some b =>
    simp only [he, SaveR.ok.injEq] at hs
    subst hs
    have := enc_ext (saveWire B k) (wireOf A k) wv b hext he
    unfold load
    rw [rt cfg (wireOf A k) wv false b r this hw hl]

theorem c18_writer_add_field (pre suf : FieldL) (a : FieldAttr) (t : Ty) (as : AsL) (n k : Nat) (hk : k < n)
    (hr : a.r.lo = n) :
    saveFields (pre.app (.cons a t as suf)) k = saveFields (pre.app suf) k :=
  save_add_field pre suf a t as n k hk hr

theorem c18_writer_remove_field (pre suf : FieldL) (a : FieldAttr) (t : Ty) (as : AsL) (n k : Nat)
    (hk : k < n) (hhi : a.r.hi ≥ n - 1) :
    saveFields (pre.app (.cons { a with rm := .abi, r := ⟨a.r.lo, n - 1⟩ } t as suf)) k
      = saveFields (pre.app (.cons a t as suf)) k :=
  save_remove_field pre suf a t as .abi n k hk hhi

/-- an `AbiRemoved` field alive at the written version is filled with the constructed value -/
theorem c18_abi_removed (a : FieldAttr) (t : Ty) (as : AsL) (fs : FieldL) (k : Nat) (x : V) (xs rest : VL)
    (hig : a.ignore = false) (hh : a.r.has k = true) (hrm : a.rm = .abi) (hr : projFields fs k xs = .ok rest) :
    projFields (.cons a t as fs) k (.cons x xs) = .ok (.cons a.ctor rest) := by
  simp [projFields, hig, hh, hrm, hr]

/-- a field added after the written version is omitted -/
theorem c18_later_field_omitted (a : FieldAttr) (t : Ty) (as : AsL) (fs : FieldL) (k : Nat) (x : V) (xs : VL)
    (hig : a.ignore = false) (hh : a.r.has k = false) :
    projFields (.cons a t as fs) k (.cons x xs) = projFields fs k xs := by
  simp [projFields, hig, hh]

/-- a plain `Removed` field alive at the written version cannot be written (documented: use `AbiRemoved`) -/
theorem c18_removed_alive_refused (a : FieldAttr) (t : Ty) (as : AsL) (fs : FieldL) (k : Nat) (x : V) (xs : VL)
    (hig : a.ignore = false) (hh : a.r.has k = true) (hrm : a.rm = .removed) :
    projFields (.cons a t as fs) k (.cons x xs) = .error .removedAlive := by
  simp [projFields, hig, hh, hrm]

theorem c18_variant_absent (n : String) (r : VerRange) (d : Option Nat) (fs : FieldL) (vs : VariantL) (k : Nat) (l : VL)
    (hh : r.has k = false) : projVariant (.cons n r d fs vs) k 0 l = .error .variantAbsent := by
  simp [projVariant, hh]

theorem c18_packed_gate (name : String) (repr : ReprAttr) (lay : Lay) (fs : FieldL) (k : Nat) (x : V) (mem bs : Bytes)
    (hk : k ≤ u32Max) (hd : d2Free (.struct name repr lay fs) = true) (hw : wfLay (.struct name repr lay fs) = true)
    (hp : isPacked (.struct name repr lay fs) k = true)
    (hm : MemOK (.struct name repr lay fs) x mem) (hs : save (.struct name repr lay fs) k x = .ok bs) :
    fieldsOK fs k = true ∧ mem = bs := by
  have hwf : wfLayF fs = true := by simp only [wfLay, Bool.and_eq_true] at hw; exact hw.1
  have hp' := hp
  simp only [isPacked, Bool.and_eq_true, Bool.not_eq_true', decide_eq_true_eq] at hp'
  obtain ⟨⟨⟨⟨⟨hig, hur⟩, hcl⟩, hms⟩, hfp⟩, _⟩ := hp'
  refine ⟨fieldsOK_of_struct k hk fs hig hur hcl hms hfp (rangesWf_of_wfLayF fs hwf), ?_⟩
  unfold save at hs
  cases hq : proj (.struct name repr lay fs) k x with
  | error e => simp [hq] at hs
  | ok wv =>
    simp only [hq] at hs
    cases he : enc (saveWire (.struct name repr lay fs) k) wv with
    | none => simp [he] at hs
    | some b =>
      simp only [he, SaveR.ok.injEq] at hs
      subst hs
      exact packed_image k hk _ x mem wv b hp hd hw hm hq he

/-- non-vacuity: `B` (field `b` AbiRemoved after 0, `d` added at 2) written at version 0 is what `A` reads -/
example :
    let A : Ty := .struct "T" .c {} (.cons { name := "a" } (.prim .u16) .nil (.cons { name := "b" } (.prim .u16) .nil .nil))
    let B : Ty := .struct "T" .c {}
      (.cons { name := "a" } (.prim .u16) .nil
      (.cons { name := "b", r := ⟨0, 0⟩, rm := .abi, ctor := .num 0 } (.prim .u16) .nil
      (.cons { name := "d", r := ⟨2, u32Max⟩ } (.prim .u64) .nil .nil)))
    encExt (saveWire B 0) (wireOf A 0) = true := by
  simp [saveWire, saveFields, wireOf, wireFields, wireAs, VerRange.has, VerRange.all, u32Max, Prim.wire,
    Prim.wireWidth, encExt, encExtL]

end Sfv
