/-
  Sfv.Props.C03 — Backward-compatible loading across schema evolution.

  A later definition `B` carries its history in its attributes; `wireOf B i` is the grammar `B` reads at
  file version `i`, `fill env B i` the memory value it builds (defaults, conversions, removed fields).
  The program of version `i` (`A`, current at `i`) wrote `saveWire A i`.

  `c03_upgrade`      : if everything `saveWire A i` encodes is encoded identically by `wireOf B i`
                       (`encExt`, a decidable relation checked for every zoo family on every run), then what
                       `A` saved at `i` loads in `B` as `fill env B i` of the saved wire value, consuming
                       exactly the bytes written.
  edit steps         : adding a field (any position, range `k..`), removing one (`Removed`/`AbiRemoved`,
                       range closed at `k-1`), converting one (`savefile_versions_as`), appending variants —
                       each leaves the grammar of every version `i < k` unchanged (variants: as a prefix),
                       at any position (`pre.app (… suf)`), hence through any sequence of steps.
  `c03_fill_*`       : what `fill` does per field: retained fields keep the saved value, removed fields
                       consume exactly their own value and disturb no neighbour, added fields take the
                       declared default, converted fields hold the conversion of the saved value.
-/
import Sfv.Lemmas.Evolve
namespace Sfv

theorem c03_upgrade (cfg : Cfg) (env : UserFns) (A B : Ty) (i : Nat) (x wv : V) (bs r : Bytes)
    (hext : encExt (saveWire A i) (wireOf B i) = true)
    (hp : proj A i x = .ok wv) (hs : save A i x = .ok bs)
    (hw : wfW (wireOf B i) = true) (hl : lim cfg (wireOf B i) wv = true) :
    load cfg env B i (bs ++ r) = .ok (fill env B i wv, r) := by
  unfold save at hs
  rw [hp] at hs
  simp only at hs
  cases he : enc (saveWire A i) wv with
  | none => simp [he] at hs
  | some b =>
    simp only [he, SaveR.ok.injEq] at hs
    subst hs
    have := enc_ext (saveWire A i) (wireOf B i) wv b hext he
    unfold load
    rw [rt cfg (wireOf B i) wv false b r this hw hl]

/-- adding a field at version `k` anywhere in a struct/variant leaves older grammars unchanged -/
theorem c03_add_field (pre suf : FieldL) (a : FieldAttr) (t : Ty) (k i : Nat) (hi : i < k) (hr : a.r.lo = k) :
    wireFields (pre.app (.cons a t .nil suf)) i = wireFields (pre.app suf) i :=
  wire_add_field pre suf a t k i hi hr

theorem c03_remove_field (pre suf : FieldL) (a : FieldAttr) (t : Ty) (as : AsL) (rm : Removal) (k i : Nat)
    (hi : i < k) (hhi : a.r.hi ≥ k - 1) :
    wireFields (pre.app (.cons { a with rm := rm, r := ⟨a.r.lo, k - 1⟩ } t as suf)) i
      = wireFields (pre.app (.cons a t as suf)) i :=
  wire_remove_field pre suf a t as rm k i hi hhi

theorem c03_convert_field (pre suf : FieldL) (a : FieldAttr) (told tnew : Ty) (as : AsL) (conv k i : Nat)
    (hi : i < k) (hhi : a.r.hi ≥ k - 1) (hdisj : asHas as i = true → a.r.has i = false)
    (hnoas : wireAs as i = none ∨ a.r.has i = false) :
    wireFields (pre.app (.cons { a with r := ⟨k, u32Max⟩ } tnew (.cons ⟨a.r.lo, k - 1⟩ told conv as) suf)) i
      = wireFields (pre.app (.cons a told as suf)) i :=
  wire_convert_field pre suf a told tnew as conv k i hi hhi hdisj hnoas

/-- appending variants: the old alternatives stay a prefix, old discriminants keep their meaning -/
theorem c03_append_variants (name : String) (repr : ReprAttr) (lay lay' : Lay) (vs more : VariantL) (i : Nat)
    (hw : tagWidth repr (vs.app more).length = tagWidth repr vs.length) :
    encExt (wireOf (.enum name repr lay vs) i) (wireOf (.enum name repr lay' (vs.app more)) i) = true := by
  simp only [wireOf, encExt, hw, beq_self_eq_true, Bool.true_and]
  rw [wireVariants_app]
  exact encExtPrefix_app _ _

/-- nesting: evolution inside a member carries over to the containing collection / option / struct field -/
theorem c03_nested (a b : W) (m m' : SeqMode) (h : encExt a b = true) (hc : m.cap = m'.cap) :
    encExt (.seq m a) (.seq m' b) = true ∧ encExt (.opt a) (.opt b) = true
    ∧ encExt (.prod (.cons a .nil)) (.prod (.cons b .nil)) = true := by
  simp [encExt, encExtL, h, hc]

/-! what `fill` does for the field at the head of a field list -/

theorem c03_fill_retained (env : UserFns) (a : FieldAttr) (t : Ty) (as : AsL) (fs : FieldL) (i : Nat) (x : V) (xs : VL)
    (hig : a.ignore = false) (hno : asHas as i = false) (hh : a.r.has i = true) (hrm : a.rm = .no) :
    fillFields env (.cons a t as fs) i (.cons x xs) = .cons (fill env t i x) (fillFields env fs i xs) := by
  simp [fillFields, hig, hno, hh, hrm]

/-- a removed field reads exactly its own value and discards it; the following fields see the rest -/
theorem c03_fill_removed (env : UserFns) (a : FieldAttr) (t : Ty) (as : AsL) (fs : FieldL) (i : Nat) (x : V) (xs : VL)
    (hig : a.ignore = false) (hno : asHas as i = false) (hh : a.r.has i = true) (hrm : a.rm ≠ .no) :
    fillFields env (.cons a t as fs) i (.cons x xs) = .cons unitV (fillFields env fs i xs) := by
  have : (a.rm != .no) = true := by simpa using hrm
  simp [fillFields, hig, hno, hh, this]

/-- a field that did not exist at version `i` takes its declared default and reads nothing -/
theorem c03_fill_added (env : UserFns) (a : FieldAttr) (t : Ty) (as : AsL) (fs : FieldL) (i : Nat) (l : VL)
    (hig : a.ignore = false) (hno : asHas as i = false) (hh : a.r.has i = false) (hrm : a.rm = .no) :
    fillFields env (.cons a t as fs) i l = .cons a.dflt (fillFields env fs i l) := by
  simp [fillFields, hig, hno, hh, hrm]

/-- a converted field holds the conversion of the saved (old-typed) value -/
theorem c03_fill_converted (env : UserFns) (a : FieldAttr) (t told : Ty) (conv : Nat) (r : VerRange) (as : AsL)
    (fs : FieldL) (i : Nat) (x : V) (xs : VL) (hig : a.ignore = false) (hr : r.has i = true) :
    fillFields env (.cons a t (.cons r told conv as) fs) i (.cons x xs)
      = .cons (env conv (fill env told i x)) (fillFields env fs i xs) := by
  simp [fillFields, hig, asHas, hr, fillAs]

/-- non-vacuity: a two-step history (add `c` at 1, convert `a: u16 → u32` at 1) and version 0 -/
example :
    let A : Ty := .struct "T" .rust {} (.cons { name := "a" } (.prim .u16) .nil (.cons { name := "b" } (.prim .u8) .nil .nil))
    let B : Ty := .struct "T" .rust {}
      (.cons { name := "a", r := ⟨1, u32Max⟩ } (.prim .u32) (.cons ⟨0, 0⟩ (.prim .u16) 0 .nil)
      (.cons { name := "b" } (.prim .u8) .nil
      (.cons { name := "c", r := ⟨1, u32Max⟩, dflt := .num 9 } (.prim .u32) .nil .nil)))
    encExt (saveWire A 0) (wireOf B 0) = true := by
  simp [saveWire, saveFields, wireOf, wireFields, wireAs, VerRange.has, VerRange.all, u32Max, Prim.wire,
    Prim.wireWidth, encExt, encExtL]

end Sfv
