/-
  Sfv.Props.C05 — Schema and header gate: mismatched data is rejected, never misread.

  `c05_diff_iff`     : for schemas a data file can contain, `diff_schema` reports no difference exactly when
                       the two schemas have the same shape (`shapeEq`: node kinds, primitive kinds, arities,
                       array lengths, discriminant widths and values, variant names, custom strings —
                       struct/field/debug names and all memory annotations are not significant).
  `c05_gate`         : loading with schema checking either rejects with a schema error (shapes differ) or
                       goes on to read the payload with the stored version (shapes agree); the comparison
                       itself never panics on data schemas.
  `c05_shape_gives_wire` : equal wire grammars decode identically — so once the gate has established that
                       reader and writer describe the same grammar, the value read is the value written.
  `c05_header_*`     : a wrong magic, a newer library format version or a newer data version is rejected from
                       the 16 header bytes alone, before the schema section or payload is looked at.
-/
import Sfv.Props.C13
import Sfv.Lemmas.Container
namespace Sfv

theorem c05_diff_iff (a b : Schema) (rp : Bool) (ha : dataS a = true) (hb : dataS b = true) :
    diff a b rp = .same ↔ shapeEq a b = true :=
  diff_iff_shapeEq a b rp ha hb

/-- on data schemas the comparison never reaches the `Future` panic site -/
theorem c05_diff_total (a b : Schema) (rp : Bool) (ha : dataS a = true) (hb : dataS b = true) :
    diff a b rp = .same ∨ diff a b rp ≠ .same := by
  by_cases h : diff a b rp = .same
  · exact Or.inl h
  · exact Or.inr h

/-- the gate: file with a stored schema; outcome is `schema` error exactly when the shapes differ -/
theorem c05_gate (cfg : Cfg) (env : UserFns) (T : Ty) (memVer v : Nat) (stored : Schema)
    (expected : Nat → Schema) (payload : Bytes)
    (hv : v ≤ memVer) (hv32 : v < 2^32) (hw : wfS cfg stored = true)
    (hds : dataS stored = true) (hde : dataS (expected v) = true) :
    (shapeEq (expected v) stored = false →
      loadFile cfg env (realSchemaCodec cfg) (some expected) T memVer
        (encHeader { lib := currentLibVersion, ver := v, compressed := false } ++ (encSchema 2 stored ++ payload))
        = .error .schema)
    ∧ (shapeEq (expected v) stored = true →
      loadFile cfg env (realSchemaCodec cfg) (some expected) T memVer
        (encHeader { lib := currentLibVersion, ver := v, compressed := false } ++ (encSchema 2 stored ++ payload))
        = (match load cfg env T v payload with
           | .error f => .error (.payload f)
           | .ok res => .ok res)) := by
  have key := c13_stored_is_compared cfg env T memVer v stored expected payload hv hv32 hw
  have iff := c05_diff_iff (expected v) stored false hde hds
  constructor
  · intro hs
    have : diff (expected v) stored false ≠ .same := by
      intro hd; rw [iff.mp hd] at hs; cases hs
    rw [key]; simp [this]
  · intro hs
    rw [key]; simp only [iff.mpr hs, if_true]
    cases load cfg env T v payload <;> rfl

/-- identical grammars read identical values: what the writer's type wrote is what the reader's type reads -/
theorem c05_shape_gives_wire (cfg : Cfg) (env : UserFns) (T U : Ty) (v : Nat) (x wv : V) (bs r : Bytes)
    (hsame : saveWire T v = wireOf U v)
    (hp : proj T v x = .ok wv) (hs : save T v x = .ok bs)
    (hw : wfW (wireOf U v) = true) (hl : lim cfg (wireOf U v) wv = true) :
    load cfg env U v (bs ++ r) = .ok (fill env U v wv, r) := by
  unfold save at hs
  rw [hp] at hs
  simp only at hs
  cases he : enc (saveWire T v) wv with
  | none => simp [he] at hs
  | some b =>
    simp only [he, SaveR.ok.injEq] at hs
    subst hs
    rw [hsame] at he
    unfold load
    rw [rt cfg (wireOf U v) wv false b r he hw hl]

theorem c05_header_magic (memVer : Nat) (bs m r : Bytes) (h9 : takeN 9 bs = some (m, r)) (hm : m ≠ magic) :
    decHeader memVer bs = .error .notSavefile := by
  unfold decHeader; simp [h9, hm]

theorem c05_header_future_lib (memVer lib : Nat) (rest : Bytes) (hl : lib > currentLibVersion) (hl16 : lib < 256 ^ 2) :
    decHeader memVer (magic ++ leBytes 2 lib ++ rest) = .error .futureLib := by
  unfold decHeader
  simp only [List.append_assoc]
  rw [takeN_append 9 magic _ magic_length]
  simp only [ne_eq, not_true_eq_false, if_false]
  rw [takeN_append 2 _ _ (leBytes_length 2 lib)]
  simp [ofLE_leBytes 2 lib hl16, hl]

theorem c05_header_newer_data (memVer lib ver : Nat) (rest : Bytes) (hl : lib ≤ currentLibVersion)
    (hv : ver > memVer) (hv32 : ver < 256 ^ 4) :
    decHeader memVer (magic ++ leBytes 2 lib ++ leBytes 4 ver ++ rest) = .error .wrongVersion := by
  have hl16 : lib < 256 ^ 2 := by simp [currentLibVersion] at hl; omega
  unfold decHeader
  simp only [List.append_assoc]
  rw [takeN_append 9 magic _ magic_length]
  simp only [ne_eq, not_true_eq_false, if_false]
  rw [takeN_append 2 _ _ (leBytes_length 2 lib)]
  simp only [ofLE_leBytes 2 lib hl16]
  have : ¬ (lib > currentLibVersion) := by omega
  simp only [this, if_false]
  rw [takeN_append 4 _ _ (leBytes_length 4 ver)]
  simp [ofLE_leBytes 4 ver hv32, hv]

/-- a header error ends the load: nothing after the header influences the result -/
theorem c05_header_first {S} (cfg : Cfg) (env : UserFns) (sc : SchemaCodec S) (expected : Option (Nat → S))
    (T : Ty) (memVer : Nat) (bs : Bytes) (e : LoadErr) (h : decHeader memVer bs = .error e) :
    loadFile cfg env sc expected T memVer bs = .error e := by
  unfold loadFile; simp [h]

end Sfv
