/-
  Sfv.Props.C08 — I/O faults surface as errors; results are independent of chunking.

  The underlying stream is a script: what each `write`/`flush`/`read` call does (accept or deliver some of the
  bytes, `Interrupted`, `Ok(0)`, a hard error).  savefile performs all its I/O through `write_all`, `flush` and
  `read_exact` (table obligation `c08_stream_calls`, from the current source), so a save is a *writer program*
  (operations executed until the first error) and a load is a *reader program* (`RP`).  The theorems hold for
  every program and every script:

  `c08_write_prefix`          : whatever the writer does, the bytes it accepted are a prefix of the fault-free output
  `c08_no_silent_success`     : if the save reports success, every byte was accepted
  `c08_short_writes_harmless` : short writes and interruptions (no hard fault) change neither result nor bytes
  `c08_read_chunking`         : short reads and interruptions do not change the result of a load
  `c08_read_fault_surfaces`   : with hard read errors the load either returns that I/O error or behaves exactly
                                as on the intact data (it finished before reaching the fault); never another value
  `c08_crypto_writer_stream`  : the encrypted writer is such a program; its fault-free output is the encrypted
                                stream of the chunks it sealed, whose plaintext is exactly what was written to it
-/
import Sfv.Lemmas.Stream
import Sfv.Lemmas.Crypto
import Sfv.Generated.StreamCalls
namespace Sfv

theorem c08_write_prefix (ops : List WOp) (sc : List WOut) (fs : List Bool) :
    (runOps sc fs ops []).1 <+: opsBytes ops := by
  obtain ⟨k, _, h1, _⟩ := runOps_prefix ops sc fs []
  rw [h1, List.nil_append]
  exact List.take_prefix _ _

theorem c08_no_silent_success (ops : List WOp) (sc : List WOut) (fs : List Bool)
    (h : (runOps sc fs ops []).2 = .ok ()) : (runOps sc fs ops []).1 = opsBytes ops := by
  simpa using runOps_ok_complete ops sc fs [] h

theorem c08_short_writes_harmless (ops : List WOp) (sc : List WOut) (fs : List Bool)
    (h : benignW sc = true) (hf : fs.all id = true) : runOps sc fs ops [] = (opsBytes ops, .ok ()) := by
  simpa using runOps_benign ops sc fs [] h hf

theorem c08_read_chunking {α : Type} (p : RP α) (sc : List ROut) (data : Bytes) (h : benignR sc = true) :
    (p.run sc data).1 = (p.runWhole data).1 :=
  RP.run_benign p sc data h

theorem c08_read_fault_surfaces {α : Type} (p : RP α) (sc : List ROut) (data : Bytes) :
    (p.run sc data).1 = (p.runWhole data).1 ∨ ∃ e, (p.run sc data).1 = .io e :=
  RP.run_result p sc data

theorem c08_crypto_writer_stream (A : Aead) (n0 : NonceSeq) (ws : List Bytes) :
    opsBytes (cryptoWriterOps A n0 ws) = encStream A n0 (CW.chunks [] ws)
    ∧ (CW.chunks [] ws).flatten = ws.flatten
    ∧ ∀ c ∈ CW.chunks [] ws, c ≠ [] ∧ c.length ≤ cryptoBuf := by
  obtain ⟨h1, h2⟩ := CW.chunks_spec ws []
  exact ⟨cryptoWriterOps_spec A n0 ws, by simpa using h1, h2⟩

/-- every method savefile calls on an underlying reader or writer is one of the `write_all`/`read_exact`
    family (byteorder's `write_u32::<LittleEndian>` etc. are `write_all`/`read_exact` of a fixed-size buffer),
    `flush`, `try_finish` (bzip2: end of stream), or — in `CryptoReader::read` only — the modelled raw `read`
    of the chunk length, and — in the adapter under the bzip2 encoder only — a raw `write` whose `Ok(0)` is
    turned into `WriteZero` (the encoder's own loop around it retries `Interrupted` and advances by the count
    returned: `write_all`); and no result of such a call is discarded -/
theorem c08_stream_calls :
    Generated.streamCallsUnknown = [] ∧ Generated.rawReadSites = ["CryptoReader::read"]
    ∧ Generated.rawWriteSites = ["NoZeroWrites::write"] ∧ Generated.swallowedResults = [] := by
  decide

/-! ### not vacuous -/

example : runOps [.acc 1, .intr, .acc 5, .err 7] [] [.w [1, 2, 3], .w [4, 5]] [] = ([1, 2, 3], .error (.kind 7)) := by rfl
example : runOps [.acc 1, .intr, .acc 5] [true] [.w [1, 2, 3], .flush, .w [4, 5]] [] = ([1, 2, 3, 4, 5], .ok ()) := by rfl
example : runOps [.zero] [] [.w [1]] [] = ([], .error .writeZero) := by rfl

end Sfv
