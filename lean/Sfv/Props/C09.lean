/-
  Sfv.Props.C09 — ABI calls are transparent: same effect as calling the implementation directly.

  What is logic is proved; the generated trampolines themselves are exercised, not modelled line by line
  (see the `abivals`, `abicall` suites: every operation through a connection is compared with the direct call).

  `c09_flexbuffer`          : whatever the sizes of the pieces written — below, at or across the 64 byte inline
                              limit — the buffer handed to the other side is the concatenation of the pieces
  `c09_value_transfer`      : a value written at the negotiated version and read back by the same definition is
                              the value (C01's round trip at the connection's version): arguments and returns
  `c09_by_ref_same_image`   : an argument passed by reference has the same prescribed memory image on both sides (C11)
  `c09_panic_message`       : a literal or formatted panic message reaches the caller verbatim, given the payload
                              types the entry point recognises (`c09_constants`: `&str` and `String`, from the source)
  `c09_dropped_exactly_once`: a trait object that crossed the boundary — moved or lent — is destroyed exactly once,
                              given the ownership the macro assigns (`c09_constants`: owned iff `take_ownership`)
-/
import Sfv.Model.AbiCall
import Sfv.Generated.AbiCall
import Sfv.Generated.Abi
import Sfv.Props.C18
import Sfv.Props.C11
namespace Sfv

theorem c09_constants :
    Generated.entryKnowsStrPayload = true ∧ Generated.entryKnowsStringPayload = true
    ∧ Generated.ownedIffTakeOwnership = true ∧ Generated.dropInstanceIffOwned = true
    ∧ Generated.flexBufferSize = some 64 := by
  decide

theorem flex_write_ok (f : Flex) (buf : Bytes) (h : f.Ok) : (f.write buf).Ok ∧ (f.write buf).contents = f.contents ++ buf
    ∧ (f.write buf).len = f.len + buf.length := by
  cases f with
  | stack pos data =>
    obtain ⟨h1, h2⟩ := h
    subst h1
    simp only [Flex.write]
    split
    · rename_i hle
      exact ⟨⟨by simp, hle⟩, by simp [Flex.contents, List.take_of_length_le], rfl⟩
    · exact ⟨trivial, by simp [Flex.contents], by simp [Flex.len]⟩
  | spill v => exact ⟨trivial, rfl, by simp [Flex.write, Flex.len]⟩

theorem c09_flexbuffer (pieces : List Bytes) :
    (pieces.foldl Flex.write Flex.new).contents = pieces.flatten
    ∧ (pieces.foldl Flex.write Flex.new).len = pieces.flatten.length := by
  have gen : ∀ (ps : List Bytes) (f : Flex), f.Ok →
      (ps.foldl Flex.write f).contents = f.contents ++ ps.flatten ∧ (ps.foldl Flex.write f).len = f.len + ps.flatten.length := by
    intro ps
    induction ps with
    | nil => intro f _; simp
    | cons p ps ih =>
      intro f hf
      obtain ⟨h1, h2, h3⟩ := flex_write_ok f p hf
      obtain ⟨g1, g2⟩ := ih (f.write p) h1
      simp only [List.foldl_cons, List.flatten_cons, List.length_append]
      rw [g1, g2, h2, h3]
      exact ⟨by simp, by omega⟩
  have := gen pieces Flex.new ⟨rfl, by decide⟩
  simpa [Flex.new, Flex.contents, Flex.len] using this

/-- the inline form is used exactly while everything fits in 64 bytes -/
example : (([List.replicate 60 0, List.replicate 4 1] : List Bytes).foldl Flex.write Flex.new) = .stack 64 (List.replicate 60 0 ++ List.replicate 4 1) := by
  decide
example : (([List.replicate 60 0, List.replicate 5 1] : List Bytes).foldl Flex.write Flex.new) = .spill (List.replicate 60 0 ++ List.replicate 5 1) := by
  decide

theorem c09_value_transfer (cfg : Cfg) (env : UserFns) (T : Ty) (k : Nat) (x wv : V) (bs r : Bytes)
    (hext : encExt (saveWire T k) (wireOf T k) = true)
    (hp : proj T k x = .ok wv) (hs : save T k x = .ok bs)
    (hw : wfW (wireOf T k) = true) (hl : lim cfg (wireOf T k) wv = true) :
    load cfg env T k (bs ++ r) = .ok (fill env T k wv, r) :=
  c18_downgrade cfg env T T k x wv bs r hext hp hs hw hl

theorem c09_by_ref_same_image (retPos : Option Bool) (a b ea eb : Schema) (rp : Bool) (h : plainKind a = true)
    (hok : argLayoutCompatible retPos a b ea eb rp = .ok true) (base : Nat) (x : V) :
    imgAt base a x = imgAt base b x :=
  (c11_by_ref_sound retPos a b ea eb rp h hok).1.2 base x

theorem c09_panic_message (s : String) :
    panicMessage true true (.lit s) = some s ∧ panicMessage true true (.fmt s) = some s := ⟨rfl, rfl⟩

/-- without the `String` downcast a formatted message is lost (the pinned behaviour, repaired) -/
example (s : String) : panicMessage true false (.fmt s) = none := rfl

theorem c09_dropped_exactly_once (p : Passing) : destroyed p = 1 := by cases p <;> rfl

end Sfv
