/-
  Sfv.Props.C14 — Encrypted files load only when intact and with the right password.

  AES-256-GCM is a parameter (`Aead`); what is assumed of it is `Ideal A prod`, relative to the list `prod` of
  everything sealed under the key: what was sealed opens to its plaintext and carries a 16 byte tag; nothing
  else opens (integrity of ciphertexts); ciphertexts sealed under different nonces differ.  That each nonce is
  used once is *proved* for the writer's nonce sequence (`c14_nonce_once`).  The loader is an arbitrary reader
  program `p` (C08).

  `c14_intact`          : the stream `CryptoWriter` emits decrypts to exactly what was written, ending cleanly;
                          the loader behaves as on the plaintext
  `c14_tampered_stream` : after replacing any one stored byte by another value, or cutting the stream anywhere,
                          only the plaintext of the frames before the damage authenticates
  `c14_tampered_load`   : hence a loader that, on the intact plaintext, read into the last frame, reports an
                          I/O error — never a value
  `c14_tampered_written`: for any write/flush program on a `CryptoWriter` and a loader that consumes exactly the
                          written plaintext, every cut or change of the stream fails the load (no empty frames)
  `c14_damaged_load`    : the same for *any* damage behind an intact nonce header (bytes changed, frames exchanged,
                          replayed, removed or inserted), not only one byte or a cut
  `c14_position_binding_partial` : finding D25 — with the stored nonce replaced by its successor and the first frame
                          removed, everything that is left authenticates: the format does not bind frames to the stream
  `c14_wrong_password`  : under a key nothing was sealed with, no frame opens: the loader gets no plaintext
  `c14_partial`         : the hypothesis "the loader read into the last frame" is needed (a loader that stops
                          earlier cannot notice that the last frame is gone).  For savefile it is checked per
                          file by the correspondence: the payload is bzip2-compressed and flushed before the end
                          of the compressed stream is written, so the last frame holds the final bits of the
                          data block; every saved file is cut at the start of its last frame and must not load.
-/
import Sfv.Lemmas.Crypto
namespace Sfv

theorem c14_intact {α : Type} (A : Aead) (prod) (hI : Ideal A prod) (n0 : NonceSeq) (hn : n0.wf) (ws : List Bytes)
    (hp : ∀ e ∈ produced A n0 (CW.chunks [] ws), e ∈ prod) (p : RP α) :
    decStream A (opsBytes (cryptoWriterOps A n0 ws)) = (ws.flatten, .clean)
    ∧ p.runTerm (decStream A (opsBytes (cryptoWriterOps A n0 ws))).1 (decStream A (opsBytes (cryptoWriterOps A n0 ws))).2
        = (p.runWhole ws.flatten).1 := by
  obtain ⟨h1, h2⟩ := CW.chunks_spec ws []
  have hd : decStream A (opsBytes (cryptoWriterOps A n0 ws)) = (ws.flatten, .clean) := by
    rw [cryptoWriterOps_spec, decStream_encStream A prod hI n0 hn _ hp h2, h1]; simp
  refine ⟨hd, ?_⟩
  rw [hd]
  exact RP.runTerm_clean p _

theorem c14_tampered_stream (A : Aead) (prod) (hI : Ideal A prod) (n0 : NonceSeq) (hn : n0.wf) (chunks : List Bytes)
    (hne : chunks ≠ []) (hp : ∀ e ∈ produced A n0 chunks, e ∈ prod) (hc : ∀ c ∈ chunks, c ≠ [] ∧ c.length ≤ cryptoBuf)
    (d : Bytes) (ht : Tampered (encStream A n0 chunks) d) :
    ∃ j, j < chunks.length ∧ (decStream A d).1 = (chunks.take j).flatten :=
  decStream_tampered A prod hI n0 hn chunks hne hp hc d ht

theorem length_le_flatten : ∀ (l : List Bytes) (x : Bytes), x ∈ l → x.length ≤ l.flatten.length
  | [], _, h => by simp at h
  | y :: l, x, h => by
    simp only [List.mem_cons] at h
    simp only [List.flatten_cons, List.length_append]
    rcases h with rfl | h
    · omega
    · have := length_le_flatten l x h; omega

theorem take_flatten_bound : ∀ (chunks : List Bytes) (j : Nat) (last : Bytes), j < chunks.length →
    chunks.getLast? = some last → ((chunks.take j).flatten).length + last.length ≤ chunks.flatten.length
  | [], j, _, h, _ => by simp at h
  | [c], j, last, h, hl => by
    simp only [List.length_cons, List.length_nil] at h
    have : j = 0 := by omega
    subst this
    simp only [List.getLast?_singleton, Option.some.injEq] at hl
    subst hl; simp
  | c :: c' :: cs, j, last, h, hl => by
    cases j with
    | zero =>
      simp only [List.take_zero, List.flatten_nil, List.length_nil, Nat.zero_add]
      have hm : last ∈ c :: c' :: cs := List.mem_of_getLast? hl
      exact length_le_flatten _ _ hm
    | succ j =>
      have hl' : (c' :: cs).getLast? = some last := by simpa [List.getLast?_cons_cons] using hl
      have := take_flatten_bound (c' :: cs) j last (by simpa using h) hl'
      simp only [List.take_succ_cons, List.flatten_cons, List.length_append] at this ⊢
      omega

theorem c14_tampered_load {α : Type} (A : Aead) (prod) (hI : Ideal A prod) (n0 : NonceSeq) (hn : n0.wf)
    (chunks : List Bytes) (last : Bytes) (hlast : chunks.getLast? = some last)
    (hp : ∀ e ∈ produced A n0 chunks, e ∈ prod) (hc : ∀ c ∈ chunks, c ≠ [] ∧ c.length ≤ cryptoBuf)
    (p : RP α) (a : α) (rest : Bytes)
    (hload : p.runWhole chunks.flatten = (.val a, rest)) (hinto : rest.length < last.length)
    (d : Bytes) (ht : Tampered (encStream A n0 chunks) d) :
    ∃ e, p.runTerm (decStream A d).1 (decStream A d).2 = .io e := by
  have hne : chunks ≠ [] := by intro e; subst e; simp at hlast
  obtain ⟨j, hj, hP⟩ := decStream_tampered A prod hI n0 hn chunks hne hp hc d ht
  rw [hP]
  have hb := take_flatten_bound chunks j last hj hlast
  refine RP.prefix_fails p chunks.flatten _ rest _ a hload (by omega) ?_
  have : chunks = chunks.take j ++ chunks.drop j := (List.take_append_drop j chunks).symm
  conv => rhs; rw [this, List.flatten_append]
  exact List.prefix_append _ _

theorem c14_wrong_password {α : Type} (A' : Aead) (hnone : ∀ nv c, A'.openF nv c = none) (A : Aead) (n0 : NonceSeq)
    (chunks : List Bytes) (hne : chunks ≠ []) (hc : ∀ c ∈ chunks, c.length ≤ cryptoBuf)
    (hseal : ∀ nv c, (A.sealF nv c).length = c.length + tagLen)
    (p : RP α) (a : α) (rest : Bytes) (hload : p.runWhole chunks.flatten = (.val a, rest))
    (hsome : rest.length < chunks.flatten.length) :
    ∃ e, p.runTerm (decStream A' (encStream A n0 chunks)).1 (decStream A' (encStream A n0 chunks)).2 = .io e := by
  obtain ⟨h1, _⟩ := decStream_wrong_key A' hnone A n0 chunks hne hc hseal
  rw [h1]
  exact RP.prefix_fails p chunks.flatten [] rest _ a hload (by simpa using hsome) List.nil_prefix

/-- **Every byte a `CryptoWriter` program puts out is protected**, the tail included: for any program of writes
    and flushes (flushes of an empty buffer included) that wrote at least one byte, and any loader that on the
    intact plaintext consumes exactly what was written (`rest = []`, which the correspondence checks for
    `savefile::load` on every saved file), every cut of the stream and every change of one stored byte makes the
    loader fail.  What carries the proof is that the writer never seals an empty chunk (`CW.chunksProg_spec`): an
    empty final frame would never be requested by the reader and so never authenticated.  The chunking of the real
    writer is compared with `CW.chunksProg` on write/flush programs around the chunk size (suite `cwprog`). -/
theorem c14_tampered_written {α : Type} (A : Aead) (prod) (hI : Ideal A prod) (n0 : NonceSeq) (hn : n0.wf)
    (prog : List CWOp) (hp : ∀ e ∈ produced A n0 (CW.chunksProg [] prog), e ∈ prod)
    (hne : CW.written prog ≠ [])
    (p : RP α) (a : α) (hload : p.runWhole (CW.written prog) = (.val a, []))
    (d : Bytes) (ht : Tampered (opsBytes (cryptoWriterProgOps A n0 prog)) d) :
    ∃ e, p.runTerm (decStream A d).1 (decStream A d).2 = .io e := by
  obtain ⟨h1, h2⟩ := CW.chunksProg_spec prog []
  simp only [List.nil_append] at h1
  rw [cryptoWriterProgOps_spec] at ht
  have hcne : CW.chunksProg [] prog ≠ [] := by
    intro e; rw [e] at h1; simp at h1; exact hne h1
  obtain ⟨last, hlast⟩ : ∃ last, (CW.chunksProg [] prog).getLast? = some last := by
    cases h : (CW.chunksProg [] prog).getLast? with
    | none => exact absurd (List.getLast?_eq_none_iff.mp h) hcne
    | some l => exact ⟨l, rfl⟩
  have hlne : last ≠ [] := (h2 last (List.mem_of_getLast? hlast)).1
  have hlpos : 0 < last.length := List.length_pos_iff.mpr hlne
  exact c14_tampered_load A prod hI n0 hn (CW.chunksProg [] prog) last hlast hp h2 p a [] (by rw [h1]; exact hload)
    (by simpa using hlpos) d ht

/-- the hypotheses of `c14_tampered_written` are satisfiable: one write, a loader that reads it whole -/
example : CW.written [.write [1, 2, 3], .flush, .flush] ≠ []
    ∧ (RP.read 3 (fun b => RP.ret b.length)).runWhole (CW.written [.write [1, 2, 3], .flush, .flush]) = (.val 3, []) :=
  ⟨by simp [CW.written], rfl⟩

/-- **Any** damage behind an intact nonce header — several bytes changed, frames exchanged, replayed, removed or
    inserted, data cut — not only one byte or a cut: unless the original frames are all still there in front, a
    loader that on the intact plaintext read into the last frame fails. -/
theorem c14_damaged_load {α : Type} (A : Aead) (prod) (hI : Ideal A prod) (n0 : NonceSeq) (hn : n0.wf)
    (chunks : List Bytes) (last : Bytes) (hlast : chunks.getLast? = some last)
    (hp : ∀ e ∈ produced A n0 chunks, e ∈ prod) (hc : ∀ c ∈ chunks, c ≠ [] ∧ c.length ≤ cryptoBuf)
    (p : RP α) (a : α) (rest : Bytes)
    (hload : p.runWhole chunks.flatten = (.val a, rest)) (hinto : rest.length < last.length)
    (x : Bytes) (hx : ¬ (framesBytes A n0 chunks <+: x)) :
    ∃ e, p.runTerm (decStream A (n0.bytes ++ x)).1 (decStream A (n0.bytes ++ x)).2 = .io e := by
  obtain ⟨j, hj, hP⟩ := decStream_damaged A prod hI n0 hn chunks hp hc x hx
  rw [hP]
  have hb := take_flatten_bound chunks j last hj hlast
  refine RP.prefix_fails p chunks.flatten _ rest _ a hload (by omega) ?_
  have : chunks = chunks.take j ++ chunks.drop j := (List.take_append_drop j chunks).symm
  conv => rhs; rw [this, List.flatten_append]
  exact List.prefix_append _ _


/-- what the stored data must not be for `c14_damaged_load`: the original frames followed by anything.  Exchanging
    the two frames of a two-frame stream is damage in this sense. -/
example (A : Aead) (n : NonceSeq) (a b : Bytes) (h : framesBytes A n [a, b] ≠ framesBytes A n [b, a])
    (hl : (framesBytes A n [a, b]).length = (framesBytes A n [b, a]).length) :
    ¬ (framesBytes A n [a, b] <+: framesBytes A n [b, a]) := by
  intro hp
  exact h (hp.eq_of_length hl)

/-- **The limit of the format (finding D25).**  A frame is bound to its position only through the nonce counter, and
    the counter's start is stored in the clear in front of the frames.  Storing the next counter value and removing
    the first frame gives a stream in which every remaining frame authenticates: it decrypts, with a clean end, to
    the plaintext without its first chunk.  `c14_damaged_load` therefore needs its intact-header hypothesis, and
    "any modification yields an error" is false of multi-frame streams whose plaintext makes sense from the second
    chunk on (shown on the real code by the `cwprog` suite). -/
theorem c14_position_binding_partial (A : Aead) (prod) (hI : Ideal A prod) (n0 : NonceSeq) (hn : n0.wf) (c : Bytes) (cs : List Bytes)
    (hp : ∀ e ∈ produced A n0 (c :: cs), e ∈ prod) (hc : ∀ c' ∈ c :: cs, c' ≠ [] ∧ c'.length ≤ cryptoBuf) :
    decStream A (n0.advance.bytes ++ framesBytes A n0.advance cs) = (cs.flatten, .clean) :=
  decStream_first_frame_removed A prod hI n0 hn c cs hp hc

/-- the writer uses each nonce once (fewer than 2^96 frames per stream) -/
theorem c14_nonce_once (A : Aead) (chunks : List Bytes) (n : NonceSeq) (hn : n.wf) (hl : chunks.length < 2 ^ 96) :
    ∀ e ∈ produced A n chunks, ∀ e' ∈ produced A n chunks, e.1 = e'.1 → e = e' :=
  produced_nonce_once A chunks n hn hl

/-- `c14_tampered_load` needs its hypothesis: a loader that does not read into the last frame does not
    notice that the frame is gone -/
theorem c14_partial : ∃ (p : RP Nat) (P' : Bytes), p.runWhole ([1, 2] ++ [3]) = (.val 7, [3]) ∧ P' = [1, 2]
    ∧ p.runTerm P' .clean = .val 7 :=
  ⟨.read 2 (fun _ => .ret 7), [1, 2], rfl, rfl, rfl⟩

end Sfv
