/-
  Sfv.Props.C04 — The packed fast path is transparent and only taken for padding-free layouts.

  `isPacked` mirrors `Packed::repr_c_optimization_safe(v)` condition for condition (library impls and
  the derive macro) on top of the *measured* layout, whatever field order rustc picked.

  `c04_sound`          : if the code judges `T` packed at `v`, then EVERY memory consistent with `T`'s layout
                         (padding bytes arbitrary) equals the field-by-field encoding of the value at `v` —
                         so there is no padding, fields are in wire order, and writing raw memory is
                         unobservable.  Hypotheses: descriptor sanity (`wfLay`), `v` is a u32, and `d2Free`.
  `c04_d2_counterexample` : without `d2Free` the statement is false (KNOWN FINDING D2): a `#[repr(u8)]` enum
                         mixing unit and field variants is judged packed, yet a unit variant leaves a byte of
                         padding that the raw write emits.
  `c04_bulk_write`     : the bulk write of a sequence (length word + raw memory of all elements) equals
                         the element-wise encoding.
  `c04_bulk_read`      : reading in place gives the same result as reading element by element, on every
                         valid encoding.
  `c04_version_gate`   : a struct is only judged packed at versions at which all its version-gated fields
                         are present and all removed ones absent.
  `c04_region`         : the deferred same-alignment region write: fields that are pairwise adjacent in
                         memory, in declaration order, form a region equal to the concatenation of their images.
-/
import Sfv.Lemmas.PackedImage
namespace Sfv

theorem c04_sound (T : Ty) (v : Nat) (x : V) (mem bs : Bytes) (hv : v ≤ u32Max)
    (hp : isPacked T v = true) (hd : d2Free T = true) (hw : wfLay T = true)
    (hm : MemOK T x mem) (hs : save T v x = .ok bs) : mem = bs := by
  unfold save at hs
  cases hq : proj T v x with
  | error e => simp [hq] at hs
  | ok wv =>
    simp only [hq] at hs
    cases he : enc (saveWire T v) wv with
    | none => simp [he] at hs
    | some b =>
      simp only [he, SaveR.ok.injEq] at hs
      subst hs
      exact packed_image v hv T x mem wv b hp hd hw hm hq he

/-- D2: `#[repr(u8)] enum E { A, B(u8) }` (size 2, `B`'s field at offset 1) is judged packed, but the
    memory of `E::A` with an arbitrary padding byte is not its one-byte encoding. -/
theorem c04_d2_counterexample :
    let T : Ty := .enum "E" (.int 1) { size := 2, align := 1 }
      (.cons "A" .all none .nil (.cons "B" .all none (.cons { name := "x0", off := 1 } (.prim .u8) .nil .nil) .nil))
    isPacked T 0 = true ∧ wfLay T = true ∧ MemOK T (.alt 0 (.tup .nil)) [0, 0xe0]
      ∧ save T 0 (.alt 0 (.tup .nil)) = .ok [0] ∧ d2Free T = false := by
  refine ⟨?_, ?_, ?_, ?_, ?_⟩
  · simp [isPacked, ReprAttr.explicitSize, anyExplicitDiscr, anyIgnoreV, anyIgnore, anyClosedLiveV, anyClosedLive,
      minSafeVariants, minSafeFieldsEnum, VerRange.minSafe, VerRange.all, u32Max, variantsFieldsPacked,
      enumFieldsPacked, Prim.packed, anyFieldsV, variantsChain, fieldSpans, memSize, Prim.memSize, Prim.wireWidth,
      tagWidth, VariantL.length, chainOk.go]
  · simp [wfLay, wfLayV, wfLayF, anyFieldsV]
  · simp [MemOK, MemOKVariant, MemOKFields, slice, tagWidth, ReprAttr.explicitSize, VariantL.length, discrOf, leBytes]
  · simp [save, proj, projVariant, projFields, VerRange.has, VerRange.all, u32Max, Except.map, saveWire, saveVariants,
      saveFields, tagWidth, ReprAttr.explicitSize, VariantL.length, enc, encAlt, encProd, leBytes]
  · simp [d2Free, anyFieldsV, anyUnitV]

/-- bulk write of `Vec<T>`-likes: length word followed by the raw memory of the elements -/
theorem c04_bulk_write (t : Ty) (v : Nat) (l : VL) (mem bs : Bytes) (hv : v ≤ u32Max)
    (hp : isPacked t v = true) (hd : d2Free t = true) (hw : wfLay t = true)
    (hm : AllCat (MemOK t) l mem) (hs : save (.seq .vec t) v (.seq l) = .ok bs) :
    bs = leBytes 8 l.length ++ mem := by
  unfold save at hs
  simp only [proj] at hs
  cases hq : mapMVL (proj t v) l with
  | error e => simp [hq, Except.map] at hs
  | ok wl =>
    simp only [hq, Except.map] at hs
    cases he : enc (saveWire (.seq .vec t) v) (.seq wl) with
    | none => simp [he] at hs
    | some b =>
      simp only [he, SaveR.ok.injEq] at hs
      subst hs
      simp only [saveWire, enc] at he
      split at he
      · obtain ⟨body, hbody, rfl⟩ := map_some' he
        have := allcat_eq (fun x mem wv bs hP hf he => packed_image v hv t x mem wv bs hp hd hw hP hf he) l mem wl body hm hq hbody
        rw [this, mapMVL_length l wl hq]
      · cases he

/-- reading in place agrees with reading element-wise on everything the encoder produces -/
theorem c04_bulk_read (cfg : Cfg) (w : W) (v : V) (bs r : Bytes)
    (h : enc w v = some bs) (hw : wfW w = true) (hl : lim cfg w v = true) :
    dec cfg true w (bs ++ r) = dec cfg false w (bs ++ r) := by
  rw [rt cfg w v true bs r h hw hl, rt cfg w v false bs r h hw hl]

theorem c04_version_gate (name : String) (repr : ReprAttr) (lay : Lay) (fs : FieldL) (v : Nat) (hv : v ≤ u32Max)
    (hw : wfLayF fs = true) (hp : isPacked (.struct name repr lay fs) v = true) :
    fieldsOK fs v = true ∧ v ≥ minSafeFields fs := by
  simp only [isPacked, Bool.and_eq_true, Bool.not_eq_true', decide_eq_true_eq] at hp
  obtain ⟨⟨⟨⟨⟨hig, hur⟩, hcl⟩, hms⟩, hfp⟩, _⟩ := hp
  exact ⟨fieldsOK_of_struct v hv fs hig hur hcl hms hfp (rangesWf_of_wfLayF fs hw), hms⟩

/-- adjacent spans in declaration order: each ends where the next begins -/
def adjacent : List (Nat × Nat) → Bool
  | (o, s) :: (o', s') :: rest => decide (o + s = o') && adjacent ((o', s') :: rest)
  | _ => true

def totalSize : List (Nat × Nat) → Nat
  | [] => 0
  | (_, s) :: rest => s + totalSize rest

theorem c04_region (mem : Bytes) : ∀ (spans : List (Nat × Nat)) (o s : Nat),
    adjacent ((o, s) :: spans) = true → o + s + totalSize spans ≤ mem.length →
    slice mem o (s + totalSize spans) = slice mem o s ++ (spans.map (fun p => slice mem p.1 p.2)).flatten
  | [], o, s, _, _ => by simp [totalSize]
  | (o', s') :: rest, o, s, ha, hb => by
    simp only [adjacent, Bool.and_eq_true, decide_eq_true_eq] at ha
    obtain ⟨hadj, hrest⟩ := ha
    simp only [totalSize] at hb ⊢
    have ih := c04_region mem rest o' s' hrest (by omega)
    simp only [List.map_cons, List.flatten_cons]
    rw [← ih]
    unfold slice
    rw [← hadj]
    rw [show s + (s' + totalSize rest) = s + (s' + totalSize rest) from rfl]
    rw [List.take_add, List.drop_drop]

/-- non-vacuity of `c04_sound`: a packed `#[repr(C)] struct { a: u32, b: u16, c: u16 }` and a memory for it -/
example :
    let T : Ty := .struct "P" .c { size := 8, align := 4 }
      (.cons { name := "a", off := 0 } (.prim .u32) .nil
      (.cons { name := "b", off := 4 } (.prim .u16) .nil
      (.cons { name := "c", off := 6 } (.prim .u16) .nil .nil)))
    isPacked T 0 = true ∧ d2Free T = true ∧ wfLay T = true
      ∧ MemOK T (.tup (.cons (.num 1) (.cons (.num 2) (.cons (.num 3) .nil)))) [1,0,0,0, 2,0, 3,0] := by
  refine ⟨?_, ?_, ?_, ?_⟩
  · simp [isPacked, anyIgnore, anyUnversionedRemoved, anyClosedLive, minSafeFields, fieldsPacked, fieldSpans, memSize,
      Prim.packed, Prim.memSize, Prim.wireWidth, VerRange.isAll, VerRange.all, u32Max, chainOk, chainOk.go]
  · simp [d2Free, d2FreeF]
  · simp [wfLay, wfLayF]
  · simp [MemOK, MemOKFields, memSize, Prim.memSize, Prim.wireWidth, slice, leBytes]

end Sfv
