/-
  Sfv.Props.C11 — By-reference argument passing only between provably identical layouts.

  `imgAt base s x` (Model/Image.lean) is the memory image schema `s` prescribes for value `x`: where each
  primitive lies (sizes, field offsets, discriminant width and recorded discriminant, array strides).

  `c11_same_image`        : `Schema::layout_compatible` only holds between schemas that prescribe the same size
                            and the same image for every value — by mutual induction over the schema tree
  `c11_same_memory`       : the same for memory as a whole (`holdsAt`), the heap included: if the schema records
                            where a `Vec`/`String` header keeps pointer and length, the elements behind the
                            pointer are part of what is prescribed, recursively — memory that represents `x`
                            under one of two layout-compatible schemas represents `x` under the other
  `c11_unknown_*`         : anything unknown (a size, an alignment, a field offset, a Vec/String layout probe),
                            an `Option`, a custom node: never layout compatible
  `c11_by_ref_decision`   : for an argument that is not a trait object / closure / future / box, the argument is
                            passed by reference exactly when the two native schemas are layout compatible and on
                            each side the native schema is the effective one
  `c11_by_ref_sound`      : hence a by-reference argument has the same image on both sides, and both sides'
                            in-memory types are the types the negotiated version describes
  `c11_mask_step`         : the compatibility mask gets bit `i` exactly when argument `i` is so judged

  That the *real* memory of values agrees with the image of their *real* schema, wherever the schema claims a
  layout, is checked by the correspondence (`smem` suite) for every zoo type; real cross-version calls with
  by-reference arguments are compared value by value (`abicall`).
-/
import Sfv.Lemmas.Image
import Sfv.Model.Abi
namespace Sfv

theorem c11_same_image (a b : Schema) (h : layoutCompatible a b = true) :
    schemaSize a = schemaSize b ∧ ∀ base x, imgAt base a x = imgAt base b x :=
  layout_img a b h

theorem c11_same_memory (mem : Mem) (a b : Schema) (h : layoutCompatible a b = true) (base : Nat) (x : V) :
    holdsAt mem base a x = holdsAt mem base b x :=
  layout_holds mem a b h base x

theorem c11_unknown_size (n n' : Bytes) (al al' sb : Option Nat) (fa fb : SFieldL) :
    layoutCompatible (.struct n none al fa) (.struct n' sb al' fb) = false := by
  simp [layoutCompatible]

theorem c11_unknown_alignment (n n' : Bytes) (sa sb al' : Option Nat) (fa fb : SFieldL) :
    layoutCompatible (.struct n sa none fa) (.struct n' sb al' fb) = false := by
  simp [layoutCompatible]

theorem c11_unknown_offset (na nb : Bytes) (ta tb : Schema) (ob : Option Nat) (ra rb : SFieldL) :
    layoutFields (.cons na ta none ra) (.cons nb tb ob rb) = false := by
  simp [layoutFields]

theorem c11_unknown_vec_layout (a b : Schema) (lb : VLayout) : layoutCompatible (.vector a .unknown) (.vector b lb) = false := by
  simp [layoutCompatible]

theorem c11_option_never (a b : Schema) : layoutCompatible (.option a) (.option b) = false := by
  simp [layoutCompatible]

theorem c11_enum_needs_explicit_repr (n n' : Bytes) (va vb : SVariantL) (da db : Nat) (eb : Bool) (sa sb aa ab : Option Nat) :
    layoutCompatible (.enum n va da false sa aa) (.enum n' vb db eb sb ab) = false := by
  simp [layoutCompatible]

/-- not a trait object, closure, future or box at the top -/
def plainKind : Schema → Bool
  | .future _ _ _ _ | .fnClosure _ _ | .boxed _ | .trait _ _ => false
  | _ => true

theorem c11_by_ref_decision (retPos : Option Bool) (a b ea eb : Schema) (rp : Bool) (h : plainKind a = true) :
    argLayoutCompatible retPos a b ea eb rp = .ok (layoutCompatible a b && sameSchema a ea && sameSchema b eb) := by
  cases a <;> simp [plainKind] at h <;> simp [argLayoutCompatible]

theorem c11_by_ref_sound (retPos : Option Bool) (a b ea eb : Schema) (rp : Bool) (h : plainKind a = true)
    (hok : argLayoutCompatible retPos a b ea eb rp = .ok true) :
    (schemaSize a = schemaSize b ∧ ∀ base x, imgAt base a x = imgAt base b x)
    ∧ sameSchema a ea = true ∧ sameSchema b eb = true := by
  rw [c11_by_ref_decision retPos a b ea eb rp h] at hok
  simp only [Except.ok.injEq, Bool.and_eq_true] at hok
  exact ⟨layout_img a b hok.1.1, hok.1.2, hok.2⟩

theorem c11_mask_step (retPos : Option Bool) (e1 e2 n1 n2 : Schema) (re1 re2 rn1 rn2 : SchemaL) (idx mask : Nat) (c : Bool)
    (hd : diff e1 e2 false = .same) (hc : argLayoutCompatible retPos n1 n2 e1 e2 false = .ok c) :
    anaArgs retPos (.cons e1 re1) (.cons e2 re2) (.cons n1 rn1) (.cons n2 rn2) idx mask
      = anaArgs retPos re1 re2 rn1 rn2 (idx + 1) (if c then mask + 2 ^ idx else mask) := by
  simp [anaArgs, hd, hc]

/-! ### not vacuous: two differently named structs with the same complete layout -/

def exA : Schema := .struct [65] (some 8) (some 4) (.cons [97] (.prim .u32) (some 0) (.cons [98] (.prim .u16) (some 4) .nil))
def exB : Schema := .struct [66] (some 8) (some 4) (.cons [120] (.prim .u32) (some 0) (.cons [121] (.prim .u16) (some 4) .nil))

example : layoutCompatible exA exB = true := by decide
example : imgAt 0 exA (.tup (.cons (.num 1) (.cons (.num 513) .nil)))
    = some [(0, 1), (1, 0), (2, 0), (3, 0), (4, 1), (5, 2)] := by decide

/-- a `Vec<u16>` in the standard header layout: pointer, capacity, length; the two elements lie where the
    pointer says -/
def exVec : Schema := .vector (.prim .u16) .dataCapLen
def exMem : Mem := fun a =>
  ([ (100, 200), (101, 0), (102, 0), (103, 0), (104, 0), (105, 0), (106, 0), (107, 0),   -- data pointer = 200
     (108, 4), (109, 0), (110, 0), (111, 0), (112, 0), (113, 0), (114, 0), (115, 0),     -- capacity = 4
     (116, 2), (117, 0), (118, 0), (119, 0), (120, 0), (121, 0), (122, 0), (123, 0),     -- length = 2
     (200, 1), (201, 2), (202, 255), (203, 0) ] : List (Nat × UInt8)).lookup a

example : holdsAt exMem 100 exVec (.seq (.cons (.num 513) (.cons (.num 255) .nil))) = true := by decide
example : holdsAt exMem 100 exVec (.seq (.cons (.num 513) (.cons (.num 256) .nil))) = false := by decide
/-- the same header read under another layout names another pointer: not a representation -/
example : holdsAt exMem 100 (.vector (.prim .u16) .lenDataCap) (.seq (.cons (.num 513) (.cons (.num 255) .nil))) = false := by decide

end Sfv
