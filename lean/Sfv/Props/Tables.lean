/-
  Sfv.Props.Tables — proof obligations over the tables regenerated from the Rust source on
  every run (`Sfv.Generated`), re-proved by the kernel against what the code says *now*:

   * the generated tables agree with the golden tables of the documented format (`Sfv.Pinned`)
     on every pinned entry — a consistent renumbering/re-sizing of writer *and* reader is a
     failing obligation here;
   * writer and reader tables are mutually inverse;
   * the model's own constants (`Prim.wireWidth`, `Prim.packed`, `canaryMagic`, tag rules, limits)
     are the ones the code uses.
-/
import Sfv.Model.Ty
import Sfv.Generated.Tables
import Sfv.Pinned.Tables
namespace Sfv

def primName : Prim → String
  | .u8 => "u8" | .i8 => "i8" | .u16 => "u16" | .i16 => "i16" | .u32 => "u32" | .i32 => "i32"
  | .u64 => "u64" | .i64 => "i64" | .u128 => "u128" | .i128 => "i128" | .f32 => "f32" | .f64 => "f64"
  | .bool => "bool" | .char => "char" | .usize => "usize" | .isize => "isize" | .unit => "()"

def allPrims : List Prim :=
  [.u8, .i8, .u16, .i16, .u32, .i32, .u64, .i64, .u128, .i128, .f32, .f64, .bool, .char, .usize, .isize]

def lookupS {α} (k : String) : List (String × α) → Option α
  | [] => none
  | (k', v) :: rest => if k == k' then some v else lookupS k rest

/-- width with which the code writes primitive `p`: `impl Serialize for p` → `write_X` → byteorder width -/
def codeWriteWidth (p : Prim) : Option (Nat × String) :=
  (lookupS (primName p) Generated.primSerializeVia).bind (fun m => lookupS m Generated.writerMethods)
def codeReadWidth (p : Prim) : Option (Nat × String) :=
  (lookupS (primName p) Generated.primDeserializeVia).bind (fun m => lookupS m Generated.readerMethods)

/-- T2/T3: every primitive is written and read with the model's width, little endian -/
theorem tables_prim_widths :
    allPrims.all (fun p => codeWriteWidth p == some (p.wireWidth, "LittleEndian")
                        && codeReadWidth p == some (p.wireWidth, "LittleEndian")) = true := by decide

/-- T4: `Packed::yes` exactly for the primitives the model treats as packed -/
theorem tables_prim_packed :
    (Prim.unit :: allPrims).all (fun p => lookupS (primName p) Generated.primPacked == some (if p.packed then "yes" else "no")) = true := by
  decide

/-- T1: header constants are the pinned ones; reader checks what the writer writes -/
theorem tables_header :
    Generated.magicWritten = Pinned.magicWritten ∧ Generated.magicExpected = Generated.magicWritten
    ∧ Generated.headerWrites = Pinned.headerWrites ∧ Generated.headerReads = Pinned.headerReads
    ∧ Generated.currentLibVersion = Pinned.currentLibVersion
    ∧ Generated.loadRejectsNewerLib = true ∧ Generated.loadRejectsNewerData = true := by decide

/-- T2 vs pinned: no primitive changed its width or byte order -/
theorem tables_methods_pinned :
    Generated.writerMethods = Pinned.writerMethods ∧ Generated.readerMethods = Pinned.readerMethods
    ∧ Generated.primSerializeVia = Pinned.primSerializeVia ∧ Generated.primDeserializeVia = Pinned.primDeserializeVia
    ∧ Generated.readBoolIsEqOne = true ∧ Generated.writeBoolOneZero = true := by decide

/-- option/result tags: `Some`/`Ok` = 1, `None`/`Err` = 0 -/
theorem tables_option_result_tags :
    Generated.optionSomeTag = some true ∧ Generated.optionNoneTag = some false
    ∧ Generated.resultOkTag = some true ∧ Generated.resultErrTag = some false := by decide

/-- T8: the io::ErrorKind numbering is pinned and the reader inverts the writer -/
theorem tables_error_kinds :
    Generated.errorKindWrite = Pinned.errorKindWrite ∧ Generated.errorKindRead = Pinned.errorKindRead
    ∧ Generated.errorKindWriteOther = Pinned.errorKindWriteOther
    ∧ Generated.errorKindWrite.all (fun (k, n) => Generated.errorKindRead.any (fun (n', k') => n == n' && k == k')) = true := by
  decide

/-- T10: limits and magic numbers are the model's -/
theorem tables_limits :
    Generated.stringSanityLimit = some 1000000 ∧ Generated.vecSanityLimit = some 1000000
    ∧ Generated.canaryWritten = some canaryMagic ∧ Generated.canaryExpected = some canaryMagic
    ∧ Generated.cryptoBufSize = some 100000 := by decide

/-- derive: discriminant width rule is the model's `tagWidth` -/
theorem tables_enum_tag_rule :
    Generated.enumTagLimits = [256, 65536]
    ∧ Generated.enumReprWidths = [("u8", 1), ("i8", 1), ("u16", 2), ("i16", 2), ("u32", 4), ("i32", 4)] := by decide

/-- T6: schema tags are pinned; every tag the writer emits is understood by the reader -/
theorem tables_schema_tags :
    Generated.schemaTagsWritten = Pinned.schemaTagsWritten
    ∧ Generated.schemaPrimTagsWritten = Pinned.schemaPrimTagsWritten
    ∧ Generated.schemaPrimTagsRead = Pinned.schemaPrimTagsRead
    ∧ Generated.schemaPrimTagsWritten.all (fun (k, n) => Generated.schemaPrimTagsRead.any (fun (n', k') => n == n' && k == k')) = true := by
  decide

/-- the comparison functions pair a schema kind only with itself, and with exactly the kinds the model pairs:
    every arm of `diff_schema` and of `Schema::layout_compatible` in the current source matches the same kind on both
    sides (a merged arm such as `Boxed | Reference | Slice` on both sides would compare a box with a slice) -/
theorem tables_schema_arms :
    Generated.diffSchemaArms = Pinned.diffSchemaArms ∧ Generated.layoutCompatibleArms = Pinned.layoutCompatibleArms
    ∧ (Generated.diffSchemaArms.getD []).all (fun p => p.1 == p.2) = true
    ∧ (Generated.layoutCompatibleArms.getD []).all (fun p => p.1 == p.2) = true
    ∧ Generated.diffSchemaArms.isSome = true ∧ Generated.layoutCompatibleArms.isSome = true := by decide

end Sfv
