/-
  Sfv.Props.C15 — The ABI compatibility ledger accepts compatible and rejects breaking changes.

  `verifyCompatibility` is `savefile_abi::verify_compatiblity` over a directory (files keyed by interface version);
  `verifyBackwardCompatible` is `AbiTraitDefinition::verify_backward_compatible`.  The constants the code uses
  (data version of the definition files, position flag for return values) come from the current source
  (`c15_constants`).

  `c15_first_run`        : on a directory without the interface every version is recorded and nothing is compared
  `c15_unchanged`        : a later run for the unchanged interface succeeds and rewrites nothing — for interfaces
                           with distinct method names whose methods take plain data and return plain data or a
                           future of plain data (async methods); `wfD`: names without '+', sizes within range
  `c15_accepts_new_version` : a run for an interface that gained a version records the new version, keeps the rest
  `c15_accepts_new_methods` : methods added behind the recorded ones are accepted
  `c15_accept_characterised` : a revision is accepted against a recorded definition exactly when every recorded
                           method still exists under its name with the same async flag, the same number of
                           arguments and no differing return or argument type
  `c15_rejects_*`        : hence a removed method, a changed argument count, a changed argument or return type
                           (any difference `diff_schema` reports: C13 shows it reports every change of wire shape)
                           is not accepted
-/
import Sfv.Lemmas.Abi
import Sfv.Generated.Abi
namespace Sfv

theorem c15_constants :
    Generated.ledgerSaveVersion = some 2 ∧ Generated.ledgerLoadVersion = some 2
    ∧ Generated.ledgerReturnPosition = some false
    ∧ Generated.vbcReturnPositionFound = true ∧ Generated.vbcReturnPosition = some true := by
  decide

theorem c15_first_run (cfg : Cfg) (retPos : Option Bool) (defs : Nat → TraitDef) (latest : Nat) :
    verifyCompatibility cfg retPos 2 2 defs latest [] = (newFiles defs 0 (latest + 1), .ok) := by
  unfold verifyCompatibility
  rw [ledgerRun_fresh cfg retPos defs (latest + 1) 0 [] (fun _ _ => rfl)]
  simp

theorem c15_unchanged (cfg : Cfg) (defs : Nat → TraitDef) (latest : Nat)
    (hw : ∀ v ≤ latest, wfD cfg (defs v) = true ∧ plainDef (defs v) = true) :
    verifyCompatibility cfg (some true) 2 2 defs latest (newFiles defs 0 (latest + 1))
      = (newFiles defs 0 (latest + 1), .ok) := by
  unfold verifyCompatibility
  apply ledgerRun_recorded
  intro v _ hv
  have := lookup_newFiles defs (latest + 1) 0 v [] (fun _ _ => rfl) (Nat.zero_le _) (by omega)
  simp only [List.nil_append] at this
  exact ⟨this, hw v (by omega)⟩

/-- the interface gains version `latest + 1`: the recorded versions are compared (unchanged), the new one is recorded -/
theorem c15_accepts_new_version (cfg : Cfg) (defs : Nat → TraitDef) (latest : Nat)
    (hw : ∀ v ≤ latest, wfD cfg (defs v) = true ∧ plainDef (defs v) = true) :
    verifyCompatibility cfg (some true) 2 2 defs (latest + 1) (newFiles defs 0 (latest + 1))
      = (newFiles defs 0 (latest + 1) ++ [(latest + 1, encDefFile 2 (defs (latest + 1)))], .ok) := by
  unfold verifyCompatibility
  -- split the run into the recorded versions and the new one
  have split : ∀ (n v0 : Nat) (files : List (Nat × Bytes)),
      (∀ v, v0 ≤ v → v < v0 + n → files.lookup v = some (encDefFile 2 (defs v)) ∧ wfD cfg (defs v) = true ∧ plainDef (defs v) = true) →
      files.lookup (v0 + n) = none →
      ledgerRun cfg (some true) 2 2 defs (n + 1) v0 files = (files ++ [(v0 + n, encDefFile 2 (defs (v0 + n)))], .ok) := by
    intro n
    induction n with
    | zero =>
      intro v0 files _ hnone
      simp only [Nat.add_zero] at hnone
      simp [ledgerRun, hnone]
    | succ n ih =>
      intro v0 files h hnone
      obtain ⟨h1, h2, h3⟩ := h v0 (Nat.le_refl _) (by omega)
      rw [ledgerRun]
      simp only [h1, decDefFile_encDefFile cfg _ h2, vbc_refl _ false h3]
      have := ih (v0 + 1) files (fun v hv hv' => h v (by omega) (by omega)) (by rwa [show v0 + 1 + n = v0 + (n + 1) by omega])
      rw [this, show v0 + 1 + n = v0 + (n + 1) by omega]
  have h := split (latest + 1) 0 (newFiles defs 0 (latest + 1))
    (fun v _ hv => by
      have := lookup_newFiles defs (latest + 1) 0 v [] (fun _ _ => rfl) (Nat.zero_le _) (by omega)
      simp only [List.nil_append] at this
      exact ⟨this, hw v (by omega)⟩)
    (by
      -- version `latest + 1` is not among the files of versions `0 … latest`
      have none_of : ∀ (n v0 v : Nat), v0 + n ≤ v → (newFiles defs v0 n).lookup v = none := by
        intro n
        induction n with
        | zero => intro v0 v _; simp [newFiles, List.lookup]
        | succ n ih =>
          intro v0 v hv
          simp only [newFiles, List.lookup]
          have : (v == v0) = false := by simp; omega
          simp only [this]
          exact ih (v0 + 1) v (by omega)
      exact none_of (latest + 1) 0 _ (by omega))
  simpa using h

theorem c15_accept_characterised (retPos : Option Bool) (name name' : Bytes) (newMs oldMs : MethodL) (sync send : Bool) :
    verifyBackwardCompatible retPos (.mk name newMs sync send) (.mk name' oldMs sync send) false = .ok
      ↔ oldMs.AllP (Kept retPos newMs false) := by
  simp only [verifyBackwardCompatible, Bool.not_false, Bool.false_and, Bool.true_and, Bool.false_eq_true, if_false]
  have h2 : ¬ (((sync && !sync) || (send && !send)) = true) := by cases sync <;> cases send <;> simp
  simp only [h2, if_false]
  exact verifyMethods_ok_iff retPos newMs false oldMs

theorem c15_accepts_new_methods (retPos : Option Bool) (newMs extra oldMs : MethodL)
    (h : verifyMethods retPos newMs oldMs false = .ok) : verifyMethods retPos (newMs.app extra) oldMs false = .ok :=
  verifyMethods_app retPos newMs extra oldMs false h

/-- a recorded method that no longer exists -/
theorem c15_rejects_removed_method (retPos : Option Bool) (newMs : MethodL) (n : Bytes) (ret : Schema) (rc : Nat)
    (asy : Bool) (args : SchemaL) (rest : MethodL) (h : findMethod newMs n = none) :
    verifyMethods retPos newMs (.cons n ret rc asy args rest) false = .err := by
  simp [verifyMethods, h]

/-- a recorded method whose number of arguments changed -/
theorem c15_rejects_argument_count (retPos : Option Bool) (newMs : MethodL) (n : Bytes) (ret : Schema) (rc : Nat)
    (asy : Bool) (args : SchemaL) (rest : MethodL) (sig : MethodSig) (hf : findMethod newMs n = some sig)
    (h : sig.args.length ≠ args.length) :
    verifyMethods retPos newMs (.cons n ret rc asy args rest) false ≠ .ok := by
  intro hok
  obtain ⟨⟨sig', e1, _, e3, _⟩, _⟩ := (verifyMethods_ok_iff retPos newMs false _).mp hok
  rw [hf] at e1
  simp only [Option.some.injEq] at e1
  subst e1
  exact h e3

/-- a recorded method one of whose types changed (return type, or any argument type) -/
theorem c15_rejects_type_change (retPos : Option Bool) (newMs : MethodL) (n : Bytes) (ret : Schema) (rc : Nat)
    (asy : Bool) (args : SchemaL) (rest : MethodL) (sig : MethodSig) (hf : findMethod newMs n = some sig)
    (h : diff sig.ret ret (retPos.getD false) ≠ .same ∨ diffArgs sig.args args false ≠ .same) :
    verifyMethods retPos newMs (.cons n ret rc asy args rest) false ≠ .ok := by
  intro hok
  obtain ⟨⟨sig', e1, _, _, d1, d2⟩, _⟩ := (verifyMethods_ok_iff retPos newMs false _).mp hok
  rw [hf] at e1
  simp only [Option.some.injEq] at e1
  subst e1
  rcases h with h | h
  · exact h d1
  · exact h d2

/-! ### not vacuous -/

def exDef : TraitDef :=
  .mk [73] (.cons [109] (.prim .u32) 100 false (.cons (.prim .u8) .nil)
           (.cons [110] (.future (.mk [70] (.cons [112] (.prim .u64) 102 false .nil .nil) false false) true false false) 100 true .nil .nil)) false true

example : plainDef exDef = true := by decide
example : wfD {} exDef = true := by decide

end Sfv
