/-
  Sfv.Props.C01 — Round-trip fidelity.

  `c01_wire_roundtrip`  : on the wire grammar, decoding the encoder's output (followed by anything)
                           returns the value and leaves exactly the remainder (exact consumption).
  `c01_load_save`       : the same for a type descriptor at a data version: what `save T v` wrote,
                           `load T v` reads back as `fill (proj x)`, consuming exactly those bytes.
  Both hold in the checked and in the bulk (in-place) reading mode, for every nesting of
  collections, options, results, tuples, arrays, structs and enums, with no bound on sizes.
-/
import Sfv.Lemmas.RoundTrip
import Sfv.Model.Ty
namespace Sfv

/-- C01 on the wire grammar. Hypotheses: the grammar's bulk annotations are truthful (`wfW`, discharged
    by `c04` for grammars compiled from types) and the value respects the documented size limits of the
    configuration (`lim`; vacuous when `size_sanity_checks` is off and sizes are below `isize::MAX`). -/
theorem c01_wire_roundtrip (cfg : Cfg) (w : W) (v : V) (u : Bool) (bs r : Bytes)
    (h : enc w v = some bs) (hw : wfW w = true) (hl : lim cfg w v = true) :
    dec cfg u w (bs ++ r) = .ok (v, r) :=
  rt cfg w v u bs r h hw hl

/-- exact consumption: with nothing after the encoding, nothing is left -/
theorem c01_consumes_exactly (cfg : Cfg) (w : W) (v : V) (bs : Bytes)
    (h : enc w v = some bs) (hw : wfW w = true) (hl : lim cfg w v = true) :
    dec cfg false w bs = .ok (v, []) := by
  have := rt cfg w v false bs [] h hw hl
  simpa using this

/-- C01 for a type descriptor at a version where reader and writer use the same grammar
    (no `savefile_versions_as` range covers `v`; true for the current version of every type). -/
theorem c01_load_save (cfg : Cfg) (env : UserFns) (T : Ty) (v : Nat) (x wv : V) (bs r : Bytes)
    (hp : proj T v x = .ok wv) (hs : save T v x = .ok bs)
    (hsame : saveWire T v = wireOf T v)
    (hw : wfW (wireOf T v) = true) (hl : lim cfg (wireOf T v) wv = true) :
    load cfg env T v (bs ++ r) = .ok (fill env T v wv, r) := by
  unfold save at hs
  rw [hp] at hs
  simp only at hs
  split at hs
  · next b hb =>
    cases hs
    rw [hsame] at hb
    unfold load
    rw [rt cfg (wireOf T v) wv false bs r hb hw hl]
  · cases hs

/-- non-vacuity: a nested value meeting every hypothesis -/
example :
    let w : W := .prod (.cons (.fixed 2) (.cons (.seq { bulk := some (1, 1) } .bool) (.cons (.opt (.str none)) .nil)))
    let v : V := .tup (.cons (.num 513) (.cons (.seq (.cons (.num 1) (.cons (.num 0) .nil))) (.cons (.some (.bytes [104, 105])) .nil)))
    enc w v = some [1, 2, 2, 0, 0, 0, 0, 0, 0, 0, 1, 0, 1, 2, 0, 0, 0, 0, 0, 0, 0, 104, 105]
      ∧ wfW w = true ∧ lim {} w v = true := by
  intro w v
  refine ⟨?_, ?_, ?_⟩
  · simp [w, v, enc, encProd, encAll, cat2, leBytes, validUtf8, overCap, VL.length]
  · simp [w, wfW, wfWL, fixedSize]
  · simp [w, v, lim, limProd, limAll, VL.length]

end Sfv
