/-
  Sfv.Props.C12 — Schemas are faithful: the schema of a type describes the bytes written for it.

  `schemaOf sc T v []` is what `get_schema::<T>(v)` returns (tied byte-for-byte to the code by S-schema),
  `schemaWire` reads a schema as the grammar a generic schema-driven reader follows, `erase (saveWire T v)`
  is the byte structure of what the writer emits.

  `c12_faithful`     : for every type in the fragment `frag` whose recursion guards all miss, the two
                       grammars are *equal*.
  `c12_parse_complete` : hence the generic reader parses everything `save T v` writes, completely
                       (nothing left over), and recovers the wire value: same field count and order,
                       primitive widths, sequence lengths, variant discriminants.
  `c12_no_recursion` : and the schema contains no recursion marker.
  Outside the fragment the statement is false in the code as it is (KNOWN FINDINGS, proved below):
  `c12_result_unfaithful` (both discriminants 0), `c12_socketaddr_unfaithful` (port etc. missing),
  `c12_hashmap_false_recursion` (value guarded with the key's type).
-/
import Sfv.Lemmas.Faithful
namespace Sfv

theorem c12_faithful (sc : SCfg) (T : Ty) (v : Nat) (hv : v ≤ u32Max)
    (hf : frag T v = true) (hg : guardsMiss T v [] = true) :
    schemaWire (schemaOf sc T v []) = some (erase (saveWire T v)) :=
  faithful sc v hv T [] hf hg

theorem c12_parse_complete (cfg : Cfg) (sc : SCfg) (T : Ty) (v : Nat) (x wv : V) (bs : Bytes) (hv : v ≤ u32Max)
    (hf : frag T v = true) (hg : guardsMiss T v [] = true)
    (hp : proj T v x = .ok wv) (hs : save T v x = .ok bs)
    (hl : lim cfg (erase (saveWire T v)) wv = true) :
    parse cfg (schemaOf sc T v []) bs = some (.ok (wv, [])) := by
  unfold parse
  rw [c12_faithful sc T v hv hf hg]
  simp only [Option.map_some]
  unfold save at hs
  rw [hp] at hs
  simp only at hs
  cases he : enc (saveWire T v) wv with
  | none => simp [he] at hs
  | some b =>
    simp only [he, SaveR.ok.injEq] at hs
    subst hs
    have h1 := enc_erase (saveWire T v) wv b he
    have := rt cfg (erase (saveWire T v)) wv false b [] h1 (wfW_erase _) hl
    simpa using this

theorem c12_no_recursion (sc : SCfg) (T : Ty) (v : Nat) (hv : v ≤ u32Max)
    (hf : frag T v = true) (hg : guardsMiss T v [] = true) :
    hasRecursion (schemaOf sc T v []) = false :=
  schemaWire_noRec _ _ (c12_faithful sc T v hv hf hg)

/-! known findings: the code's schemas for these types do not describe their bytes -/

/-- `Result<u8, u8>`: the schema gives both variants discriminant 0, the bytes use 1 (Ok) / 0 (Err) -/
theorem c12_result_unfaithful (sc : SCfg) :
    schemaWire (schemaOf sc (.res (.prim .u8) (.prim .u8)) 0 []) = none
    ∧ save (.res (.prim .u8) (.prim .u8)) 0 (.alt 1 (.num 7)) = .ok [1, 7] := by
  constructor
  · simp [schemaOf, schemaWire, schemaWireV, schemaWireF, optMap2, primSchema, primWire]
  · simp [save, proj, Except.map, saveWire, Prim.wire, Prim.wireWidth, enc, leBytes]

/-- `SocketAddr`: the schema is that of `IpAddr`; port, flow info and scope id are not described -/
theorem c12_socketaddr_unfaithful (sc : SCfg) :
    schemaWire (schemaOf sc .sock 0 []) = some ipWire ∧ erase (saveWire .sock 0) ≠ ipWire := by
  constructor
  · simp [schemaOf, schemaWire, schemaWireV, schemaWireF, optMap2, ipSchemaVariants, ipWire, primWire]
  · simp [saveWire, sockWire, ipWire, erase, eraseL]

/-- `HashMap<u32, Vec<u32>>`: a non-recursive type whose schema contains `Recursion(1)` -/
theorem c12_hashmap_false_recursion (sc : SCfg) :
    hasRecursion (schemaOf sc (.map false (.prim .u32) (.seq .vec (.prim .u32))) 0 []) = true := by
  simp [schemaOf, guard, ctxIndex, keyOf, primKey, hasRecursion, hasRecursionF, primSchema]

/-- non-vacuity of `c12_faithful`: a versioned struct holding a vector of tuples -/
example :
    let T : Ty := .struct "S" .rust {}
      (.cons { name := "a" } (.prim .u16) .nil
      (.cons { name := "b", r := ⟨1, u32Max⟩ } (.seq .vec (.tup {} [0, 4] (.cons (.prim .u32) (.cons (.str none true) .nil)))) .nil .nil))
    frag T 1 = true ∧ guardsMiss T 1 [] = true := by
  simp [frag, fragF, fragL, asHas, guardsMiss, guardsMissF, guardsMissA, guardsMissL, ctxIndex, keyOf, keyOfL, primKey]

end Sfv
