/-
  Sfv.Props.C06 — Malformed input is handled safely.

  The decoder model returns `panic site` / `ub site` exactly where the Rust code would panic or
  materialise an invalid value, so safety is unreachability of those outcomes:

  `c06_no_panic_no_ub` : in a repaired build (`cfg.repaired`), for every grammar whose bulk-read element
                         types have no invalid bit patterns (`safeBulk`), every failure on arbitrary bytes
                         is an ordinary error.
  `c06_load_safe`      : the same for `load T v` of a type descriptor.
  `c06_partial_bulk_niche` (KNOWN FINDING D8, kept visible): without `safeBulk` the statement is false —
                         `c06_bulk_bool_counterexample` exhibits `Vec<bool>` bytes `…02 ff` yielding `ub`.
  `c06_no_oversize`    : a returned sequence of n elements of minimal encoded size k consumed ≥ 8 + n·k bytes.
  `c06_suffix`         : what a successful load leaves unread is at most what it was given.
-/
import Sfv.Lemmas.Container
namespace Sfv

theorem c06_no_panic_no_ub (cfg : Cfg) (hc : cfg.repaired = true) (w : W) (bs : Bytes) (e : Fail)
    (hs : safeBulk w = true) (h : dec cfg false w bs = .error e) : ∃ c, e = .err c := by
  have := dec_safe cfg hc w false bs e hs (by simp) h
  cases e with
  | err c => exact ⟨c, rfl⟩
  | panic s => simp [Fail.isErr] at this
  | ub s => simp [Fail.isErr] at this

theorem c06_load_safe (cfg : Cfg) (env : UserFns) (hc : cfg.repaired = true) (T : Ty) (v : Nat) (bs : Bytes) (e : Fail)
    (hs : safeBulk (wireOf T v) = true) (h : load cfg env T v bs = .error e) : ∃ c, e = .err c := by
  unfold load at h
  cases hd : dec cfg false (wireOf T v) bs with
  | error e' =>
    simp only [hd, Except.error.injEq] at h; subst h
    exact c06_no_panic_no_ub cfg hc (wireOf T v) bs e' hs hd
  | ok y => simp [hd] at h

/-- the statement without the `safeBulk` hypothesis is false: `Vec<bool>` read through the bulk path
    keeps the bytes 2 and 255 as `bool`s (known finding D8) -/
theorem c06_bulk_bool_counterexample :
    dec {} false (.seq { bulk := some (1, 1) } .bool) [2,0,0,0,0,0,0,0, 2, 255] = .error (.ub .bulkBool) := by
  simp [dec, readLE, takeN, ofLE, repeatDec, overCap]

theorem c06_no_oversize (cfg : Cfg) (m : SeqMode) (t : W) (bs : Bytes) (l : VL) (r : Bytes)
    (h : dec cfg false (.seq m t) bs = .ok (.seq l, r)) :
    r.length + 8 + l.length * minSize t ≤ bs.length :=
  seq_count_bound cfg m t false bs l r h

theorem c06_suffix (cfg : Cfg) (w : W) (bs : Bytes) (v : V) (r : Bytes)
    (h : dec cfg false w bs = .ok (v, r)) : r.length + minSize w ≤ bs.length :=
  dec_consumes cfg w false bs v r h

/-- non-vacuity: `Vec<u32>` (bulk, 4-byte elements) is `safeBulk`; the default configuration is repaired -/
example : safeBulk (.seq { bulk := some (4, 4) } (.fixed 4)) = true ∧ ({} : Cfg).repaired = true := by
  simp [safeBulk, nicheFree, Cfg.repaired]

end Sfv
