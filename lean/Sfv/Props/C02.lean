/-
  Sfv.Props.C02 — Wire-format conformance.

  `enc` *is* the documented format, written independently of the code's structure.  The theorems below
  state its byte layout outright; the correspondence (S-enc) shows the implementation produces exactly
  these bytes, and `Sfv.Props.Tables` pins every table-shaped fact of the code to the golden tables.
-/
import Sfv.Lemmas.Container
namespace Sfv

/-- header: 9 magic bytes, u16 library format version, u32 data version, 1 compression flag — 16 bytes -/
theorem c02_header (h : Header) :
    encHeader h = [115, 97, 118, 101, 102, 105, 108, 101, 0] ++ leBytes 2 h.lib ++ leBytes 4 h.ver
                    ++ [if h.compressed then 1 else 0]
    ∧ (encHeader h).length = 16 := by
  constructor
  · rfl
  · simp [encHeader, magic, leBytes_length]

/-- primitives: fixed width, little endian (low byte first); `usize`/`isize` as 64 bit -/
theorem c02_primitives (p : Prim) (n : Nat) (hp : p ≠ .bool ∧ p ≠ .char ∧ p ≠ .unit) (h : n < 256 ^ p.wireWidth) :
    enc p.wire (.num n) = some (leBytes p.wireWidth n) ∧ Prim.usize.wireWidth = 8 ∧ Prim.isize.wireWidth = 8 := by
  refine ⟨?_, rfl, rfl⟩
  cases p <;> simp_all [Prim.wire, Prim.wireWidth, enc]

theorem c02_le_low_byte_first (k n : Nat) : leBytes (k+1) n = UInt8.ofNat (n % 256) :: leBytes k (n / 256) := rfl

/-- strings and sequences: 64-bit little-endian length, then the items -/
theorem c02_seq_string (m : SeqMode) (t : W) (l : VL) (body : Bytes) (b : Bytes)
    (hl : l.length < 2^64) (hcap : overCap m.cap l.length = false) (hb : encAll t l = some body)
    (hv : validUtf8 b = true) (hbl : b.length < 2^64) :
    enc (.seq m t) (.seq l) = some (leBytes 8 l.length ++ body)
    ∧ enc (.str none) (.bytes b) = some (leBytes 8 b.length ++ b) := by
  constructor
  · simp [enc, hl, hcap, hb]
  · simp [enc, hv, hbl, overCap]

/-- one-byte option/result tags: `Some`/`Ok` = 1, `None`/`Err` = 0 -/
theorem c02_option_result_tags (t a b : W) (v : V) (bs : Bytes) (h : enc t v = some bs)
    (ha : enc a v = some bs) (hb : enc b v = some bs) :
    enc (.opt t) .none = some [0] ∧ enc (.opt t) (.some v) = some (1 :: bs)
    ∧ enc (.res a b) (.alt 1 v) = some (1 :: bs) ∧ enc (.res a b) (.alt 0 v) = some (0 :: bs) := by
  simp [enc, h, ha, hb]

/-- struct fields are written in declaration order: the encoding of a product is the concatenation of
    the encodings of its fields -/
theorem c02_struct_order (t : W) (ts : WL) (v : V) (vs : VL) (a b : Bytes)
    (ha : enc t v = some a) (hb : encProd ts vs = some b) :
    enc (.prod (.cons t ts)) (.tup (.cons v vs)) = some (a ++ b) := by
  simp [enc, encProd, ha, hb, cat2]

/-- enum discriminant = variant index, in the declared width (1/2/4 bytes from `repr`, else from the
    number of variants), followed by the variant's fields -/
theorem c02_enum_tag (w : Nat) (alts : WL) (i : Nat) (v : V) (body : Bytes)
    (hi : i < 256 ^ w) (hb : encAlt alts i v = some body) :
    enc (.tagged w alts) (.alt i v) = some (leBytes w i ++ body) := by
  simp [enc, hi, hb]

theorem c02_enum_tag_width :
    tagWidth (.int 1) 3 = 1 ∧ tagWidth (.int 2) 3 = 2 ∧ tagWidth (.cInt 4) 3 = 4
    ∧ tagWidth .rust 256 = 1 ∧ tagWidth .rust 257 = 2 ∧ tagWidth .c 65536 = 2 ∧ tagWidth .rust 65537 = 4 := by
  decide

/-- determinism: the bytes are a function of type, version and value -/
theorem c02_deterministic (T : Ty) (v : Nat) (x y : V) (h : x = y) : save T v x = save T v y := by
  rw [h]

/-- the compiled grammar of a derived enum uses the declared discriminant width and one alternative per
    declared variant, in declaration order -/
theorem c02_enum_wire (name : String) (repr : ReprAttr) (lay : Lay) (vs : VariantL) (v : Nat) :
    wireOf (.enum name repr lay vs) v = .tagged (tagWidth repr vs.length) (wireVariants vs v) := by
  simp [wireOf]

end Sfv
