/-
  Sfv.Props.C07 — Truncated files are never accepted as different data.

  Core argument (`c07_prefix_general`): a loader whose success is independent of what follows the
  bytes it consumed (`*_mono`) and which consumes a complete file exactly cannot succeed on a strict
  prefix of that file.  Instances: the wire grammar, `load` of a type at a version, and the plain and
  schema-less file containers (header + [schema section] + payload).
-/
import Sfv.Lemmas.Container
namespace Sfv

/-- If reading `p ++ s` consumes everything and reading is monotone, reading `p` alone cannot succeed
    unless `s` is empty. -/
theorem c07_prefix_general {α ε : Type} (f : Bytes → Except ε (α × Bytes))
    (hmono : ∀ p s x r, f p = .ok (x, r) → f (p ++ s) = .ok (x, r ++ s))
    (p s : Bytes) (x : α) (hfull : f (p ++ s) = .ok (x, [])) (hs : s ≠ []) :
    ∀ x' r', f p ≠ .ok (x', r') := by
  intro x' r' hp
  have := hmono p s x' r' hp
  rw [hfull] at this
  simp only [Except.ok.injEq, Prod.mk.injEq] at this
  have h2 : ([] : Bytes) = r' ++ s := this.2
  have : s = [] := (List.append_eq_nil_iff.mp h2.symm).2
  exact hs this

/-- wire level: no strict prefix of an encoding decodes -/
theorem c07_wire_prefix (cfg : Cfg) (w : W) (v : V) (u : Bool) (bs p s : Bytes)
    (h : enc w v = some bs) (hw : wfW w = true) (hl : lim cfg w v = true)
    (hsplit : p ++ s = bs) (hs : s ≠ []) :
    ∀ v' r', dec cfg u w p ≠ .ok (v', r') := by
  subst hsplit
  apply c07_prefix_general (dec cfg u w) (fun p s x r hh => dec_mono cfg s w u p x r hh) p s v
  · have := rt cfg w v u (p ++ s) [] h hw hl
    simpa using this
  · exact hs

/-- file level (plain and schema-less containers): whenever loading the complete file succeeds and
    consumes it entirely, loading any strict prefix fails — it never yields a value, in particular
    never a different one.  (`hsc`: the schema-section reader is monotone; discharged for the real format
    by `c13_reader_monotone`, giving `c13_plain_file_prefix` without hypotheses on the reader.) -/
theorem c07_file_prefix {S} (cfg : Cfg) (env : UserFns) (sc : SchemaCodec S) (expected : Option (Nat → S))
    (T : Ty) (memVer : Nat) (p s : Bytes) (x : V)
    (hsc : ∀ s lib bs sch r', sc.decS lib bs = .ok (sch, r') → sc.decS lib (bs ++ s) = .ok (sch, r' ++ s))
    (hfull : loadFile cfg env sc expected T memVer (p ++ s) = .ok (x, []))
    (hs : s ≠ []) :
    ∀ x' r', loadFile cfg env sc expected T memVer p ≠ .ok (x', r') :=
  c07_prefix_general (loadFile cfg env sc expected T memVer)
    (fun p s x r hh => loadFile_mono cfg env sc expected T memVer p s x r (hsc s) hh) p s x hfull hs

/-- the header alone: every strict prefix of the 16 header bytes is rejected with `eof`-class failure or
    a header error, never accepted -/
theorem c07_header_prefix (memVer : Nat) (h : Header) (p s : Bytes)
    (hl : h.lib ≤ currentLibVersion) (hv : h.ver ≤ memVer) (hv32 : h.ver < 2^32)
    (hsplit : p ++ s = encHeader h) (hs : s ≠ []) :
    ∀ h' r', decHeader memVer p ≠ .ok (h', r') := by
  apply c07_prefix_general (decHeader memVer) (fun p s x r hh => decHeader_mono memVer p s x r hh) p s h
  · rw [hsplit]
    have := decHeader_encHeader h memVer [] hl hv hv32
    simpa using this
  · exact hs

/-- non-vacuity: a concrete encoding and a strict prefix of it -/
example : enc (.seq {} (.fixed 2)) (.seq (.cons (.num 7) .nil)) = some [1,0,0,0,0,0,0,0,7,0]
    ∧ ([1,0,0,0,0,0,0,0,7] : Bytes) ++ [0] = [1,0,0,0,0,0,0,0,7,0] := by
  constructor
  · simp [enc, encAll, cat2, leBytes, overCap, VL.length]
  · rfl

end Sfv
