/- Golden copy of the format-defining tables, taken from the pinned commit 322d5e5 (the documented format).
   New entries may be added by later versions; existing ones may not move. Never regenerated. -/
namespace Sfv.Pinned

def currentLibVersion : Option Nat := some 2
def magicWritten : Option (List Nat) := some [115, 97, 118, 101, 102, 105, 108, 101, 0]
def magicExpected : Option (List Nat) := some [115, 97, 118, 101, 102, 105, 108, 101, 0]
def headerWrites : List (String × String) := [("write_all", ""), ("write_u16", "LittleEndian"), ("write_u32", "LittleEndian"), ("write_u8", ""), ("write_u8", "")]
def headerReads : List (String × String) := [("read_exact", ""), ("read_u16", "LittleEndian"), ("read_u32", "LittleEndian"), ("read_u8", "")]
def loadRejectsNewerLib : Bool := true
def loadRejectsNewerData : Bool := true

def writerMethods : List (String × Nat × String) := [("bool", 1, "LittleEndian"), ("u8", 1, "LittleEndian"), ("i8", 1, "LittleEndian"), ("u16", 2, "LittleEndian"), ("i16", 2, "LittleEndian"), ("u32", 4, "LittleEndian"), ("i32", 4, "LittleEndian"), ("u64", 8, "LittleEndian"), ("i64", 8, "LittleEndian"), ("u128", 16, "LittleEndian"), ("i128", 16, "LittleEndian"), ("f32", 4, "LittleEndian"), ("f64", 8, "LittleEndian"), ("usize", 8, "LittleEndian"), ("isize", 8, "LittleEndian")]
def readerMethods : List (String × Nat × String) := [("bool", 1, "LittleEndian"), ("u8", 1, "LittleEndian"), ("i8", 1, "LittleEndian"), ("u16", 2, "LittleEndian"), ("i16", 2, "LittleEndian"), ("u32", 4, "LittleEndian"), ("i32", 4, "LittleEndian"), ("u64", 8, "LittleEndian"), ("i64", 8, "LittleEndian"), ("u128", 16, "LittleEndian"), ("i128", 16, "LittleEndian"), ("f32", 4, "LittleEndian"), ("f64", 8, "LittleEndian"), ("usize", 8, "LittleEndian"), ("isize", 8, "LittleEndian")]
def readBoolIsEqOne : Bool := true
def writeBoolOneZero : Bool := true

def primSerializeVia : List (String × String) := [("u8", "u8"), ("i8", "i8"), ("u16", "u16"), ("i16", "i16"), ("u32", "u32"), ("i32", "i32"), ("u64", "u64"), ("i64", "i64"), ("u128", "u128"), ("i128", "i128"), ("f32", "f32"), ("f64", "f64"), ("bool", "bool"), ("usize", "usize"), ("isize", "isize"), ("char", "u32")]
def primDeserializeVia : List (String × String) := [("u8", "u8"), ("i8", "i8"), ("u16", "u16"), ("i16", "i16"), ("u32", "u32"), ("i32", "i32"), ("u64", "u64"), ("i64", "i64"), ("u128", "u128"), ("i128", "i128"), ("f32", "f32"), ("f64", "f64"), ("bool", "bool"), ("usize", "usize"), ("isize", "isize"), ("char", "u32")]

def primPacked : List (String × String) := [("u8", "yes"), ("i8", "yes"), ("u16", "yes"), ("i16", "yes"), ("u32", "yes"), ("i32", "yes"), ("u64", "yes"), ("i64", "yes"), ("u128", "yes"), ("i128", "yes"), ("f32", "yes"), ("f64", "yes"), ("bool", "yes"), ("usize", "no"), ("isize", "no"), ("char", "yes"), ("()", "yes")]

def errorKindWrite : List (String × Nat) := [("NotFound", 1), ("PermissionDenied", 2), ("ConnectionRefused", 3), ("ConnectionReset", 4), ("ConnectionAborted", 7), ("NotConnected", 8), ("AddrInUse", 9), ("AddrNotAvailable", 10), ("BrokenPipe", 12), ("AlreadyExists", 13), ("WouldBlock", 14), ("InvalidInput", 21), ("InvalidData", 22), ("TimedOut", 23), ("WriteZero", 24), ("Interrupted", 36), ("Unsupported", 37), ("UnexpectedEof", 38), ("OutOfMemory", 39), ("Other", 40)]
def errorKindWriteOther : Nat := 42
def errorKindRead : List (Nat × String) := [(1, "NotFound"), (2, "PermissionDenied"), (3, "ConnectionRefused"), (4, "ConnectionReset"), (7, "ConnectionAborted"), (8, "NotConnected"), (9, "AddrInUse"), (10, "AddrNotAvailable"), (12, "BrokenPipe"), (13, "AlreadyExists"), (14, "WouldBlock"), (21, "InvalidInput"), (22, "InvalidData"), (23, "TimedOut"), (24, "WriteZero"), (36, "Interrupted"), (37, "Unsupported"), (38, "UnexpectedEof"), (39, "OutOfMemory"), (40, "Other")]

def stringSanityLimit : Option Nat := some 1000000
def vecSanityLimit : Option Nat := some 1000000
def cryptoBufSize : Option Nat := some 100000
def canaryWritten : Option Nat := some 1196845123
def canaryExpected : Option Nat := some 1196845123
def optionSomeTag : Option Bool := some true
def optionNoneTag : Option Bool := some false
def resultOkTag : Option Bool := some true
def resultErrTag : Option Bool := some false
def enumTagLimits : List Nat := [256, 65536]
def enumReprWidths : List (String × Nat) := [("u8", 1), ("i8", 1), ("u16", 2), ("i16", 2), ("u32", 4), ("i32", 4)]

def schemaTagsWritten : List (String × Nat) := [("Struct", 1), ("Enum", 2), ("Primitive", 3), ("Vector", 4), ("Undefined", 5), ("ZeroSize", 6), ("SchemaOption", 7), ("Array", 8), ("Custom", 9), ("Boxed", 10), ("FnClosure", 11), ("Slice", 12), ("Str", 13), ("Reference", 14), ("Trait", 15), ("Recursion", 16), ("StdIoError", 17), ("Future", 18), ("UninitSlice", 19), ("UtcTimestamp", 20)]
def schemaTagsRead : List (Nat × String) := [(1, "Struct"), (2, "Enum"), (3, "Primitive"), (4, "Vector"), (5, "Undefined"), (6, "ZeroSize"), (7, "SchemaOption"), (8, "Array"), (9, "Custom"), (10, "Boxed"), (11, "FnClosure"), (12, "Slice"), (13, "Str"), (14, "Reference"), (15, "Trait"), (16, "Recursion"), (17, "StdIoError"), (19, "UninitSlice"), (20, "UtcTimestamp")]
def schemaPrimTagsWritten : List (String × Nat) := [("schema_i8", 1), ("schema_u8", 2), ("schema_i16", 3), ("schema_u16", 4), ("schema_i32", 5), ("schema_u32", 6), ("schema_i64", 7), ("schema_u64", 8), ("schema_f32", 10), ("schema_f64", 11), ("schema_bool", 12), ("schema_canary1", 13), ("schema_i128", 14), ("schema_u128", 15), ("schema_char", 16)]
def schemaPrimTagsRead : List (Nat × String) := [(1, "schema_i8"), (2, "schema_u8"), (3, "schema_i16"), (4, "schema_u16"), (5, "schema_i32"), (6, "schema_u32"), (7, "schema_i64"), (8, "schema_u64"), (9, "schema_string"), (10, "schema_f32"), (11, "schema_f64"), (12, "schema_bool"), (13, "schema_canary1"), (14, "schema_i128"), (15, "schema_u128"), (16, "schema_char")]

/- which pairs of schema kinds `diff_schema` / `Schema::layout_compatible` treat together (all others: different / incompatible) -/
def diffSchemaArms : Option (List (String × String)) := some [("Array", "Array"), ("Boxed", "Boxed"), ("Custom", "Custom"), ("Enum", "Enum"), ("FnClosure", "FnClosure"), ("Future", "Future"), ("Primitive", "Primitive"), ("Recursion", "Recursion"), ("Reference", "Reference"), ("SchemaOption", "SchemaOption"), ("Slice", "Slice"), ("StdIoError", "StdIoError"), ("Str", "Str"), ("Struct", "Struct"), ("Trait", "Trait"), ("Undefined", "Undefined"), ("UninitSlice", "UninitSlice"), ("UtcTimestamp", "UtcTimestamp"), ("Vector", "Vector"), ("ZeroSize", "ZeroSize")]
def layoutCompatibleArms : Option (List (String × String)) := some [("Array", "Array"), ("Boxed", "Boxed"), ("Custom", "Custom"), ("Enum", "Enum"), ("FnClosure", "FnClosure"), ("Primitive", "Primitive"), ("Reference", "Reference"), ("SchemaOption", "SchemaOption"), ("Slice", "Slice"), ("Struct", "Struct"), ("Vector", "Vector"), ("ZeroSize", "ZeroSize")]

end Sfv.Pinned
