"""hooks.py — property-specific searches run by check in addition to the generic suites."""
import os
import subprocess

import corr

VERIF = os.path.dirname(os.path.dirname(os.path.abspath(__file__)))
HARNESS = os.path.join(VERIF, "harness")
RL_DIR = os.path.join(HARNESS, "target", "rl")


def rlplugins(prop, tier, seed, problems, known, known_hits, notes):
    """Thorough tier: the plug-in cdylibs are rebuilt by the *nightly* compiler with `-Zrandomize-layout`, so that
    repr(Rust) types are laid out differently on the two sides of the boundary (the harness stays on stable), and
    the `plugin` suite runs against them.  C11: what the implementation observes must not depend on it."""
    if tier != "thorough":
        return
    env = dict(os.environ, RUSTFLAGS="-Zrandomize-layout")
    cmd = ["cargo", "+nightly", "build", "--offline", "--target-dir", RL_DIR]
    for k in sorted(os.listdir(os.path.join(HARNESS, "plugins"))):
        cmd += ["-p", "sfv-plugin-" + k]
    p = subprocess.run(cmd, cwd=HARNESS, env=env, stdout=subprocess.PIPE, stderr=subprocess.STDOUT, text=True)
    if p.returncode != 0:
        notes.append("randomised-layout plug-ins not built (nightly toolchain unavailable or build failed): " + p.stdout[-300:].replace("\n", " "))
        return
    old = os.environ.get("SFV_PLUGIN_DIR")
    os.environ["SFV_PLUGIN_DIR"] = os.path.join(RL_DIR, "debug")
    try:
        total = 0
        for sd in (seed, seed + 1):
            r = corr.run_suite(["plugin", "--cases", "10", "--seed", str(sd)])
            total += r["cases"]
            for d in r["disagreements"]:
                problems.append(("model-impl-disagreement", "DISAGREE suite=plugin/randomised-layout req=%s impl=%s model=%s" % (d["request"], d["impl"], d["model"]),
                                 dict(d, suite="plugin/randomised-layout", env={"SFV_PLUGIN_DIR": os.environ["SFV_PLUGIN_DIR"]})))
            for v in r["impl_violations"]:
                problems.append(("impl-violates-property", v[:600], {"suite": "plugin/randomised-layout", "observation": v}))
        notes.append("plug-ins rebuilt with nightly -Zrandomize-layout: %d cross-boundary cases agree with the model" % total)
    finally:
        if old is None:
            del os.environ["SFV_PLUGIN_DIR"]
        else:
            os.environ["SFV_PLUGIN_DIR"] = old


def _miri(part, prop, tier, seed, problems, notes):
    """Thorough tier: the harness's in-process `miri` subcommand under Miri (nightly). Undefined behaviour on the
    paths it exercises (all zoo types: encode, decode, truncated and hostile-length inputs; every ABI operation)
    is what value-level comparison cannot see.  Supports the check; it is not part of any proof."""
    if tier != "thorough":
        return
    env = dict(os.environ, MIRIFLAGS="-Zmiri-disable-isolation -Zmiri-ignore-leaks")
    cmd = ["cargo", "+nightly", "miri", "run", "--offline", "--target-dir", os.path.join(HARNESS, "target", "miri"),
           "--bin", "sfv-harness", "--", "miri", "--filter", part, "--seed", str(seed)]
    try:
        p = subprocess.run(cmd, cwd=HARNESS, env=env, stdout=subprocess.PIPE, stderr=subprocess.STDOUT, text=True, timeout=3600)
    except subprocess.TimeoutExpired:
        notes.append("Miri run (%s) did not finish within an hour; not counted" % part)
        return
    out = p.stdout
    if "error: Undefined Behavior" in out or "error: unsupported operation" in out and "miri-" not in out.split("#stat")[-1]:
        i = out.find("error: Undefined Behavior")
        i = i if i >= 0 else out.find("error: unsupported operation")
        msg = " ".join(out[i:i + 1500].split())
        problems.append(("impl-violates-property", "%s miri-undefined-behaviour part=%s %s" % (prop, part, msg[:700]),
                         {"suite": "miri/" + part, "cmd": " ".join(cmd), "miri_output": out[i:i + 6000]}))
        return
    stat = [l for l in out.split("\n") if l.startswith("#stat miri-")]
    if p.returncode != 0 or not stat:
        notes.append("Miri run (%s) not usable (toolchain missing or build failed, rc=%d): %s" % (part, p.returncode, " ".join(out[-300:].split())))
        return
    for l in out.split("\n"):
        if l.startswith("!"):
            problems.append(("impl-violates-property", l[1:][:600], {"suite": "miri/" + part, "observation": l}))
    notes.append("Miri (nightly, leaks ignored) ran `sfv-harness miri --filter %s` without reporting undefined behaviour: %s" % (part, "; ".join(stat)))


def miri_codec(prop, tier, seed, problems, known, known_hits, notes):
    _miri("codec", prop, tier, seed, problems, notes)


def miri_abi(prop, tier, seed, problems, known, known_hits, notes):
    _miri("abi", prop, tier, seed, problems, notes)


HOOKS = {"rlplugins": rlplugins, "miri_codec": miri_codec, "miri_abi": miri_abi}
