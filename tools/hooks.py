"""hooks.py — property-specific searches run by check in addition to the generic suites."""
HOOKS = {}
