"""hooks.py — property-specific searches run by check in addition to the generic suites."""
import os
import subprocess

import corr

VERIF = os.path.dirname(os.path.dirname(os.path.abspath(__file__)))
HARNESS = os.path.join(VERIF, "harness")
RL_DIR = os.path.join(HARNESS, "target", "rl")


def rlplugins(prop, tier, seed, problems, known, known_hits, notes):
    """Thorough tier: the plug-in cdylibs are rebuilt by the *nightly* compiler with `-Zrandomize-layout`, so that
    repr(Rust) types are laid out differently on the two sides of the boundary (the harness stays on stable), and
    the `plugin` suite runs against them.  C11: what the implementation observes must not depend on it."""
    if tier != "thorough":
        return
    env = dict(os.environ, RUSTFLAGS="-Zrandomize-layout")
    cmd = ["cargo", "+nightly", "build", "--offline", "--target-dir", RL_DIR]
    for k in sorted(os.listdir(os.path.join(HARNESS, "plugins"))):
        cmd += ["-p", "sfv-plugin-" + k]
    p = subprocess.run(cmd, cwd=HARNESS, env=env, stdout=subprocess.PIPE, stderr=subprocess.STDOUT, text=True)
    if p.returncode != 0:
        notes.append("randomised-layout plug-ins not built (nightly toolchain unavailable or build failed): " + p.stdout[-300:].replace("\n", " "))
        return
    old = os.environ.get("SFV_PLUGIN_DIR")
    os.environ["SFV_PLUGIN_DIR"] = os.path.join(RL_DIR, "debug")
    try:
        total = 0
        for sd in (seed, seed + 1):
            r = corr.run_suite(["plugin", "--cases", "10", "--seed", str(sd)])
            total += r["cases"]
            for d in r["disagreements"]:
                problems.append(("model-impl-disagreement", "DISAGREE suite=plugin/randomised-layout req=%s impl=%s model=%s" % (d["request"], d["impl"], d["model"]),
                                 dict(d, suite="plugin/randomised-layout", env={"SFV_PLUGIN_DIR": os.environ["SFV_PLUGIN_DIR"]})))
            for v in r["impl_violations"]:
                problems.append(("impl-violates-property", v[:600], {"suite": "plugin/randomised-layout", "observation": v}))
        notes.append("plug-ins rebuilt with nightly -Zrandomize-layout: %d cross-boundary cases agree with the model" % total)
    finally:
        if old is None:
            del os.environ["SFV_PLUGIN_DIR"]
        else:
            os.environ["SFV_PLUGIN_DIR"] = old


HOOKS = {"rlplugins": rlplugins}
