#!/usr/bin/env python3
"""corr.py — correspondence runner: implementation (Rust harness) vs model (Lean driver).

run_suite(harness_args) executes the harness sub-command, feeds the request column to the
model driver together with the type definitions, and compares the replies line by line.
Returns a dict with counts, disagreements, direct implementation violations (`!` lines) and
statistics (`#stat` lines).
"""
import os, subprocess, sys, hashlib, json, re

VERIF = os.path.dirname(os.path.dirname(os.path.abspath(__file__)))
HARNESS_BIN = os.path.join(VERIF, "harness", "target", "debug", "sfv-harness")
DRIVER_BIN = os.path.join(VERIF, "lean", ".lake", "build", "bin", "sfv-driver")


def run(cmd, inp=None, timeout=3600):
    p = subprocess.run(cmd, input=inp, capture_output=True, text=True, timeout=timeout)
    return p.returncode, p.stdout, p.stderr


def harness_lines(args, bin_path=None):
    """Run the harness.  `--shards N` (ours, not the harness's) runs N processes over disjoint parts of
    the registry in parallel and concatenates their output in shard order."""
    args = list(args)
    if "--shards" in args:
        i = args.index("--shards")
        n = int(args[i + 1])
        del args[i:i + 2]
        procs = [subprocess.Popen([bin_path or HARNESS_BIN] + args + ["--shard", "%d/%d" % (k, n)],
                                  stdout=subprocess.PIPE, stderr=subprocess.PIPE, text=True) for k in range(n)]
        rc, lines, errs = 0, [], []
        for p in procs:
            try:
                out, err = p.communicate(timeout=3600)
            except subprocess.TimeoutExpired:
                for q in procs:
                    q.kill()
                raise RuntimeError("harness shard did not finish within an hour: " + " ".join(args))
            rc = rc or p.returncode
            errs.append(err)
            ls = out.split("\n")
            if ls and ls[-1] == "":
                ls.pop()
            lines += ls
        return rc, lines, "".join(errs)
    rc, out, err = run([bin_path or HARNESS_BIN] + args)
    lines = out.split("\n")
    if lines and lines[-1] == "":
        lines.pop()
    return rc, lines, err


_defs_cache = {}


def get_defs(bin_path=None):
    key = bin_path or HARNESS_BIN
    if key not in _defs_cache:
        rc, lines, err = harness_lines(["defs"], bin_path)
        if rc != 0:
            raise RuntimeError("harness defs failed: " + err[-2000:])
        _defs_cache[key] = lines
    return _defs_cache[key]


def drive(requests, cfg_lines=(), bin_path=None):
    """Send definitions + requests to the model driver, return replies for the requests."""
    defs = get_defs(bin_path)
    inp = "\n".join(list(cfg_lines) + defs + requests) + "\n"
    env = dict(os.environ)
    # deep recursion on long sequences: raise the stack limit for the driver
    cmd = "ulimit -s 4000000 2>/dev/null || ulimit -s unlimited 2>/dev/null; exec " + DRIVER_BIN
    p = subprocess.run(["bash", "-c", cmd], input=inp, capture_output=True, text=True, timeout=3600, env=env)
    out = p.stdout.split("\n")
    if out and out[-1] == "":
        out.pop()
    n_pre = len(cfg_lines) + len(defs)
    pre = out[:n_pre]
    bad = [(i, l) for i, l in enumerate(pre) if l != "(ok)"]
    if bad:
        i, l = bad[0]
        src = (list(cfg_lines) + defs)[i]
        raise RuntimeError("driver rejected definition: %s -> %s" % (src[:300], l))
    replies = out[n_pre:]
    if len(replies) != len(requests):
        raise RuntimeError("driver answered %d of %d requests (rc=%s, stderr=%s)" % (len(replies), len(requests), p.returncode, p.stderr[-500:]))
    return replies


def normalize_pair(req, impl, model):
    """Canonicalise the two replies before comparison. Returns (impl', model')."""
    # a value with invalid bit patterns on the implementation side corresponds to `ub` in the model
    if "invalid-bool" in impl:
        impl = "(ub bulk-bool)"
    elif "invalid-char" in impl:
        impl = "(ub bulk-char)"
    elif "invalid-tag" in impl:
        impl = "(ub bulk-tag)"
    # genuine allocation failure on an absurd declared length is exempt; the model answers eof/alloc
    # (the implementation may run out of memory before it reaches the error the model predicts)
    if impl in ("(panic oom)", "(abort 6)") and model.startswith("(err "):
        impl = model
    # compressed payloads are not interpreted by the model (bzip2 is a parameter): any error agrees
    if model == "(compressed)" and not impl.startswith("(panic"):
        impl = model
    # C11 memory images: a schema that claims no layout prescribes nothing
    if (req.startswith("(smem ") or req.startswith("(smemh ")) and model in ("(ok no-layout)", "(ok unprojectable)"):
        impl = model
    # C05 gate verdicts: the model only demands rejection when the two types do not describe the same bytes
    if req.startswith("(xload "):
        if model == "(ok free)" or (model == "(ok must-reject)" and impl == "(ok rejected)"):
            impl = model
    return impl, model


def run_suite(args, cfg_lines=(), bin_path=None, max_report=20):
    rc, lines, err = harness_lines(args, bin_path)
    res = {
        "args": args, "harness_rc": rc, "cases": 0, "agree": 0, "disagreements": [], "impl_violations": [],
        "stats": {}, "samples": [], "bad_ops": 0, "harness_stderr": err[-1000:] if rc != 0 else "",
        "kinds": {},
    }
    reqs, impls = [], []
    for l in lines:
        if l.startswith("!"):
            res["impl_violations"].append(l[1:])
        elif l.startswith("#stat "):
            k, v = l[6:].rsplit(" ", 1)
            res["stats"][k] = res["stats"].get(k, 0) + int(v)
        elif "\t" in l:
            q, r = l.split("\t", 1)
            reqs.append(q)
            impls.append(r)
    if rc != 0:
        res["disagreements"].append({"request": "<harness>", "impl": "exit %d: %s" % (rc, err[-400:]), "model": ""})
    if not reqs:
        return res
    replies = drive(reqs, cfg_lines, bin_path)
    seen = set()
    for q, i, m in zip(reqs, impls, replies):
        res["cases"] += 1
        kind = q[1:].split(" ", 1)[0] + ":" + i[1:].split(" ", 1)[0].rstrip(")")
        res["kinds"][kind] = res["kinds"].get(kind, 0) + 1
        seen.add(hashlib.md5(q.encode()).hexdigest())
        if m.startswith("(bad-op"):
            res["bad_ops"] += 1
            res["disagreements"].append({"request": q[:2000], "impl": i[:500], "model": m})
            continue
        i2, m2 = normalize_pair(q, i, m)
        if i2 == m2:
            res["agree"] += 1
            if len(res["samples"]) < 3 and len(q) < 300:
                res["samples"].append({"request": q, "reply": i[:300]})
        else:
            if len(res["disagreements"]) < 200:
                res["disagreements"].append({"request": q[:4000], "impl": i[:1500], "model": m[:1500]})
            else:
                res["disagreements_truncated"] = True
    res["distinct"] = len(seen)
    return res


if __name__ == "__main__":
    r = run_suite(sys.argv[1:])
    print(json.dumps({k: v for k, v in r.items() if k not in ("disagreements", "impl_violations")}, indent=1))
    print("disagreements:", len(r["disagreements"]))
    for d in r["disagreements"][:15]:
        print("  REQ  ", d["request"][:400])
        print("  IMPL ", d["impl"][:400])
        print("  MODEL", d["model"][:400])
    print("impl violations:", len(r["impl_violations"]))
    for v in r["impl_violations"][:15]:
        print("  ", v[:400])
