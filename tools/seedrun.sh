#!/bin/bash
# seedrun.sh <patch.diff> <prop> [<prop>...] — apply a seeded change to /repo, run the checks, undo it.
set -u
patch="$(realpath "$1")"; shift
cd /verif
if ! git -C /repo diff --quiet; then echo "repo dirty, abort"; exit 2; fi
git -C /repo apply "$patch" || { echo "patch does not apply"; exit 2; }
# evidence files must only ever come from runs on the unchanged tree: keep them aside
rm -rf /verif/.evidence_keep && cp -r /verif/evidence /verif/.evidence_keep
for p in "$@"; do
  out=$(./check "$p" quick 2>&1); rc=$?
  echo "[$p] rc=$rc  $(echo "$out" | grep -E '^VIOLATION|^KNOWN' | cut -c1-200 | head -3 | tr '\n' '|')"
  echo "$out" | grep "problem:" | head -3 | cut -c1-300
done
git -C /repo checkout -- .
rm -rf /verif/evidence && mv /verif/.evidence_keep /verif/evidence
