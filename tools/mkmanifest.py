#!/usr/bin/env python3
"""mkmanifest.py — write MANIFEST.json from tools/props.py (claimed properties) and the notes below."""
import json, os, sys
sys.path.insert(0, os.path.dirname(os.path.abspath(__file__)))
from props import PROPS
from manifest_notes import NOTES, NOT_APPLICABLE, HOOK_COMMITS

VERIF = os.path.dirname(os.path.dirname(os.path.abspath(__file__)))
ALL = ["C%02d" % i for i in range(1, 19)]
checks = []
for pid in ALL:
    if pid not in PROPS:
        continue
    n = NOTES[pid]
    checks.append({
        "property_id": pid,
        "quick_cmd": "./check %s quick" % pid,
        "thorough_cmd": "./check %s thorough" % pid,
        "evidence_file": "evidence/%s.json" % pid,
        "replay_cmd_template": "./check %s --replay {path}" % pid,
        "engine": "lean4-proof+correspondence",
        "level_claimed": {"category": "proof", "text": n["text"], "design_ref": n["design_ref"]},
        "level_note": n["note"],
        "technique": n["technique"],
    })
m = {
    "version": 1,
    "setup_cmd": "./check --setup",
    "hooks": {
        "guard": "none: no hook or instrumentation was added to /repo (a cargo feature `avl_savefile_verif` was planned for lock traces and turned out not to be needed)",
        "enable": "nothing to enable: the harness observes /repo through its public API only (run-time AbiExportable implementations, instrumented Read/Write objects, generated cdylibs)",
        "baseline_off_cmd": "cd /repo && cargo test --workspace --no-fail-fast --offline",
        "source_commits": HOOK_COMMITS,
        "add_only": True,
    },
    "engines": [{
        "name": "lean4-proof+correspondence", "path": "check",
        "serves_properties": [c["property_id"] for c in checks],
        "kind_free_text": "Lean 4 model + theorems (lean/Sfv), tables regenerated from the Rust source by tools/translate.py and re-proved, Rust harness (harness/) running the real crates against the compiled model driver through a line protocol",
    }],
    "checks": checks,
    "not_applicable": [{"property_id": p, "reason": NOT_APPLICABLE[p]} for p in ALL if p not in PROPS],
    "notes": "All claims are at level proof (machine-checked Lean 4 theorems about a model tied to /repo by translator + correspondence). See DESIGN.md.",
}
json.dump(m, open(os.path.join(VERIF, "MANIFEST.json"), "w"), indent=1)
print("MANIFEST.json: %d checks, %d not_applicable" % (len(checks), len(m["not_applicable"])))
