"""props.py — per-property configuration of the checks.

module      : Lean module holding the property theorems (every `theorem` in it is an obligation)
tables      : obligations from Sfv.Props.Tables this property depends on
suites      : correspondence suites, (harness args for quick, for thorough)
oracle      : prefixes of direct implementation-oracle lines (`!Cxx …`) that belong to this property
extra       : names of python hooks in check (special searches)
"""

Q, T = "quick", "thorough"


def codec(cases_q, cases_t, tag=None, filt=None, size_q=12, size_t=40):
    def mk(c, s):
        a = ["codec", "--cases", str(c), "--size", str(s)]
        if tag:
            a += ["--tag", tag]
        if filt:
            a += ["--filter", filt]
        return a
    return {"name": "S-enc/S-dec" + (":" + (tag or filt) if (tag or filt) else ""), Q: mk(cases_q, size_q), T: mk(cases_t, size_t), "seeds_t": 4}


def malformed(cases_q, cases_t):
    return {"name": "S-dec:malformed", Q: ["malformed", "--cases", str(cases_q)], T: ["malformed", "--cases", str(cases_t), "--size", "30"], "seeds_t": 4}


PACKED = {"name": "S-packed:decision", Q: ["packed"], T: ["packed"], "seeds_t": 1}


def bulk(cq, ct):
    return {"name": "S-packed:bulk-vs-single", Q: ["bulk", "--cases", str(cq)], T: ["bulk", "--cases", str(ct), "--size", "40"], "seeds_t": 4}


def xver(cq, ct):
    return {"name": "S-enc/S-dec:cross-version families", Q: ["xver", "--cases", str(cq)], T: ["xver", "--cases", str(ct), "--size", "30"], "seeds_t": 4}


def schemas(cq, ct):
    return {"name": "S-schemawire/S-diff", Q: ["schemas", "--cases", str(cq)], T: ["schemas", "--cases", str(ct)], "seeds_t": 4}


def xtype(cq, ct):
    return {"name": "S-diff:cross-type loads", Q: ["xtype", "--cases", str(cq)], T: ["xtype", "--cases", str(ct)], "seeds_t": 4}


def schemaof(cq, ct):
    return {"name": "S-schema", Q: ["schemaof", "--cases", str(cq)], T: ["schemaof", "--cases", str(ct), "--size", "30"], "seeds_t": 3}


def files(cq, ct):
    return {"name": "S-container:files", Q: ["files", "--cases", str(cq)], T: ["files", "--cases", str(ct), "--size", "30"], "seeds_t": 3}


def cuts(cq, ct, sq=6, st=10):
    return {"name": "S-container:cuts", Q: ["cuts", "--cases", str(cq), "--size", str(sq)], T: ["cuts", "--cases", str(ct), "--size", str(st)], "seeds_t": 2}

def introspect(cq, ct):
    return {"name": "S-introspect:len/children + navigation histories", Q: ["introspect", "--cases", str(cq)], T: ["introspect", "--cases", str(ct), "--size", "24"], "seeds_t": 4}


def iofault(cq, ct):
    return {"name": "S-stream:faulty writers and readers, all containers", Q: ["iofault", "--cases", str(cq), "--shards", "8"],
            T: ["iofault", "--cases", str(ct), "--size", "30", "--shards", "12"], "seeds_t": 3}


def cwprog(cq, ct):
    return {"name": "S-crypto:CryptoWriter write/flush programs around the chunk size: frames vs CW.chunksProg, tamper probes on the raw stream",
            Q: ["cwprog", "--cases", str(cq)], T: ["cwprog", "--cases", str(ct)], "seeds_t": 4}


def encfiles(cq, ct):
    return {"name": "S-crypto:mutated encrypted files", Q: ["encfiles", "--cases", str(cq), "--shards", "8"],
            T: ["encfiles", "--cases", str(ct), "--size", "30", "--shards", "12"], "seeds_t": 3}


def abiconn(cq, ct):
    return {"name": "S-abi:connection analysis on run-time definition families", Q: ["abiconn", "--cases", str(cq)], T: ["abiconn", "--cases", str(ct)], "seeds_t": 4}


def plugin(cq, ct):
    return {"name": "S-plugin:the same calls with the implementation in a separately linked shared library (load_shared_library), load failures, repeated and concurrent loads",
            Q: ["plugin", "--cases", str(cq)], T: ["plugin", "--cases", str(ct)], "seeds_t": 3}


def abicall(cq, ct):
    return {"name": "S-abi:calls between interface versions of the evolution families", Q: ["abicall", "--cases", str(cq)], T: ["abicall", "--cases", str(ct)], "seeds_t": 4}


def ledger(cq, ct):
    return {"name": "S-abi:compatibility ledger histories", Q: ["ledger", "--cases", str(cq)], T: ["ledger", "--cases", str(ct)], "seeds_t": 4}


def smem(cq, ct):
    return {"name": "S-layout:memory of values vs the image their schema prescribes", Q: ["smem", "--cases", str(cq)], T: ["smem", "--cases", str(ct), "--size", "30"], "seeds_t": 3}


def abivals(cq, ct):
    return {"name": "S-abi:operations through a connection vs direct calls", Q: ["abivals", "--cases", str(cq)], T: ["abivals", "--cases", str(ct)], "seeds_t": 4}


def abiconc(cq, ct):
    return {"name": "S-abi:concurrent creation and use", Q: ["abiconc", "--cases", str(cq)], T: ["abiconc", "--cases", str(ct)], "seeds_t": 4}


def extrasbulk(cq, ct):
    return {"name": "S-extras:feature-gated library types (nalgebra, emath, ecolor) and derived structs around them: bulk containers vs item-wise encoding",
            Q: ["extrasbulk", "--cases", str(cq)], T: ["extrasbulk", "--cases", str(ct)], "seeds_t": 3}


def extras(cq, ct):
    return {"name": "S-extras:library types outside the model (BitVec, BitSet, PathBuf, Range): direct oracles", Q: ["extras", "--cases", str(cq)], T: ["extras", "--cases", str(ct)], "seeds_t": 2}


PROPS = {
    "C01": {
        "module": "Sfv.Props.C01",
        "tables": ["tables_prim_widths", "tables_option_result_tags", "tables_limits"],
        "suites": [codec(8, 40), files(2, 8), extras(4, 20)],
        "oracle": ["C01"],
    },
    "C02": {
        "module": "Sfv.Props.C02",
        "tables": ["tables_prim_widths", "tables_header", "tables_methods_pinned", "tables_option_result_tags",
                   "tables_error_kinds", "tables_enum_tag_rule", "tables_schema_tags", "tables_limits"],
        "suites": [codec(8, 40), files(2, 8)],
        "oracle": ["C02"],
    },
    "C03": {
        "module": "Sfv.Props.C03",
        "tables": ["tables_prim_widths"],
        "suites": [xver(6, 40), codec(4, 20, tag="ignore"), codec(3, 15, filt="Ver"), codec(3, 15, filt="Rem"), codec(3, 15, filt="As"), extras(2, 8)],
        "oracle": ["C03"],
    },
    "C18": {
        "module": "Sfv.Props.C18",
        "tables": ["tables_prim_widths"],
        "suites": [xver(6, 40), codec(3, 15, filt="Fam"), codec(3, 15, filt="Ver"), PACKED],
        "oracle": ["C18"],
    },
    "C09": {
        "module": "Sfv.Props.C09",
        "tables": [],
        "suites": [abivals(40, 300), abicall(4, 20), plugin(3, 12)],
        "oracle": ["C09"],
        "extra": ["miri_abi"],
    },
    "C16": {
        "module": "Sfv.Props.C16",
        "tables": [],
        "suites": [abiconc(24, 200), abivals(10, 40), plugin(1, 4)],
        "oracle": ["C16"],
    },
    "C11": {
        "module": "Sfv.Props.C11",
        "tables": ["tables_schema_arms"],
        "suites": [smem(4, 20), schemas(3, 12), abiconn(1500, 6000), abicall(4, 20), plugin(2, 8)],
        "oracle": ["C11"],
        "extra": ["rlplugins"],
    },
    "C10": {
        "module": "Sfv.Props.C10",
        "tables": [],
        "suites": [abiconn(1500, 6000), abicall(4, 20), plugin(3, 12)],
        "oracle": ["C10", "C09"],
    },
    "C15": {
        "module": "Sfv.Props.C15",
        "tables": ["tables_schema_arms"],
        "suites": [ledger(600, 3000), schemas(2, 8)],
        "oracle": ["C15"],
    },
    "C14": {
        "module": "Sfv.Props.C14",
        "tables": [],
        "suites": [encfiles(1, 5), cwprog(150, 1500)],
        "oracle": ["C14"],
    },
    "C08": {
        "module": "Sfv.Props.C08",
        "tables": [],
        "suites": [iofault(1, 4)],
        "oracle": ["C08"],
    },
    "C17": {
        "module": "Sfv.Props.C17",
        "tables": [],
        "suites": [introspect(8, 40)],
        "oracle": ["C17"],
    },
    "C04": {
        "module": "Sfv.Props.C04",
        "tables": ["tables_prim_packed", "tables_prim_widths"],
        "suites": [PACKED, bulk(4, 20), codec(6, 30), extrasbulk(40, 400)],
        "oracle": ["C04"],
    },
    "C05": {
        "module": "Sfv.Props.C05",
        "tables": ["tables_header", "tables_schema_tags", "tables_schema_arms"],
        "suites": [xtype(6, 40), schemas(3, 12), files(1, 4), xver(3, 12)],
        "oracle": ["C05"],
    },
    "C12": {
        "module": "Sfv.Props.C12",
        "tables": ["tables_schema_tags", "tables_prim_widths"],
        "suites": [schemaof(4, 20), schemas(2, 8), codec(2, 10)],
        "oracle": ["C12"],
    },
    "C13": {
        "module": "Sfv.Props.C13",
        "tables": ["tables_schema_tags", "tables_header", "tables_schema_arms"],
        "suites": [schemas(12, 40)],
        "oracle": ["C13"],
    },
    "C06": {
        "module": "Sfv.Props.C06",
        "tables": ["tables_limits", "tables_prim_packed"],
        "suites": [malformed(6, 30), PACKED, schemas(2, 10), extras(3, 16), dict(xtype(2, 10), direct_only=True)],
        "oracle": ["C06"],
        "extra": ["miri_codec"],
    },
    "C07": {
        "module": "Sfv.Props.C07",
        "tables": ["tables_header"],
        "suites": [cuts(1, 4), extras(2, 10), dict(cwprog(60, 600), direct_only=True)],
        "oracle": ["C07"],
    },
}
