"""props.py — per-property configuration of the checks.

module      : Lean module holding the property theorems (every `theorem` in it is an obligation)
tables      : obligations from Sfv.Props.Tables this property depends on
suites      : correspondence suites, (harness args for quick, for thorough)
oracle      : prefixes of direct implementation-oracle lines (`!Cxx …`) that belong to this property
extra       : names of python hooks in check (special searches)
"""

Q, T = "quick", "thorough"


def codec(cases_q, cases_t, tag=None, filt=None, size_q=12, size_t=40):
    def mk(c, s):
        a = ["codec", "--cases", str(c), "--size", str(s)]
        if tag:
            a += ["--tag", tag]
        if filt:
            a += ["--filter", filt]
        return a
    return {"name": "S-enc/S-dec" + (":" + (tag or filt) if (tag or filt) else ""), Q: mk(cases_q, size_q), T: mk(cases_t, size_t), "seeds_t": 4}


def malformed(cases_q, cases_t):
    return {"name": "S-dec:malformed", Q: ["malformed", "--cases", str(cases_q)], T: ["malformed", "--cases", str(cases_t), "--size", "30"], "seeds_t": 4}


PACKED = {"name": "S-packed:decision", Q: ["packed"], T: ["packed"], "seeds_t": 1}

PROPS = {
    "C01": {
        "module": "Sfv.Props.C01",
        "tables": ["tables_prim_widths", "tables_option_result_tags", "tables_limits"],
        "suites": [codec(8, 40)],
        "oracle": ["C01"],
    },
}
