#!/bin/bash
# seedrun_iso.sh <patch.diff> <prop> [<prop>...]
# Like seedrun.sh, but touches neither /repo nor /verif: the patch is applied to a scratch worktree of /repo and the
# checks run from a scratch copy of /verif whose paths point at that worktree.  For use while other checks run.
set -u
patch="$(realpath "$1")"; shift
tag=$$
wt=/tmp/sfv_iso_repo_$tag
vc=/tmp/sfv_iso_verif_$tag
git -C /repo worktree add --detach "$wt" HEAD >/dev/null 2>&1 || { echo "worktree failed"; exit 2; }
git -C "$wt" apply "$patch" || { echo "patch does not apply"; git -C /repo worktree remove --force "$wt"; exit 2; }
mkdir -p "$vc"
rsync -a --exclude harness/target --exclude replays --exclude .git /verif/ "$vc"/
sed -i "s#/repo#$wt#g" "$vc/check" "$vc/tools/genzoo.py" "$vc/tools/translate.py" "$vc/harness/Cargo.toml" "$vc"/harness/plugins/*/Cargo.toml
rm -f "$vc/harness/Cargo.lock"
cd "$vc"
for p in "$@"; do
  out=$(./check "$p" quick 2>&1); rc=$?
  echo "[$p] rc=$rc  $(echo "$out" | grep -E '^VIOLATION|^KNOWN' | cut -c1-200 | head -3 | tr '\n' '|')"
  echo "$out" | grep "problem:" | head -3 | cut -c1-300
done
cd /
rm -rf "$vc"
git -C /repo worktree remove --force "$wt"
