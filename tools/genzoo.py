#!/usr/bin/env python3
"""genzoo.py — turn type descriptors into Rust source for the harness.

Output: harness/src/zoo_gen.rs containing, for every descriptor, the Rust item with
`#[derive(Savefile)]` (so the *current* derive macro of /repo is what gets compiled), a
`ZooVal` impl (descriptor with measured layout, value generator, value printer) and a registry.

Usage: genzoo.py curated            (writes harness/src/zoo_gen.rs from the curated corpus)
       genzoo.py random SEED N      (adds N generated types / families from SEED)
"""
import os
import re
import sys, os, random

U32MAX = 4294967295
HERE = os.path.dirname(os.path.abspath(__file__))
OUT = os.path.join(HERE, "..", "harness", "src", "zoo_gen.rs")


class F:
    """field"""

    def __init__(self, name, ty, ver=None, removed=None, ignore=False, default_val=None, default_fn=None,
                 as_=None, old=None):
        self.name = name
        self.ty = ty  # Rust type; for removed fields the *inner* type
        self.ver = ver  # (lo, hi) inclusive, hi None = open
        self.removed = removed  # None | 'Removed' | 'AbiRemoved'
        self.ignore = ignore
        self.default_val = default_val  # rust literal (str)
        self.default_fn = default_fn  # rust expr body (str) returned by a generated fn
        self.as_ = as_ or []  # [(lo, hi, oldty_ident, conv_id)]

    def rust_ty(self):
        if self.removed:
            return "%s<%s>" % (self.removed, self.ty)
        return self.ty


class Vr:
    """enum variant"""

    def __init__(self, name, fields=None, kind=None, ver=None, discr=None):
        self.name = name
        self.fields = fields or []
        self.kind = kind or ("unit" if not self.fields else "tuple")
        self.ver = ver
        self.discr = discr


class S:
    def __init__(self, name, fields, repr=None, kind="named", versions=(0,), tags=(), containers=("vec", "opt", "arr")):
        self.name = name
        self.fields = fields
        self.repr = repr
        self.kind = kind if fields else "unit"
        self.versions = list(versions)
        self.tags = list(tags)
        self.containers = containers
        self.is_enum = False


class E:
    def __init__(self, name, variants, repr=None, versions=(0,), tags=(), containers=("vec", "opt", "arr")):
        self.name = name
        self.variants = variants
        self.repr = repr
        self.versions = list(versions)
        self.tags = list(tags)
        self.containers = containers
        self.is_enum = True


CONVERT_NAMES = set()

CONVS = {
    0: None,  # From
    1: ("conv_u32_to_string", "u32", "String", "x.to_string()"),
    2: ("conv_u16_add1000", "u16", "u32", "x as u32 + 1000"),
    3: ("conv_u16_to_string", "u16", "String", "x.to_string()"),
}


def ver_attr(ver):
    lo, hi = ver
    return '#[savefile_versions="%s..%s"]' % (lo if lo else "", "" if hi is None else hi)


def ver_sx(ver):
    if ver is None:
        return None
    lo, hi = ver
    return "(ver %d %d)" % (lo, U32MAX if hi is None else hi)


def repr_attr(r):
    if r is None:
        return ""
    return "#[repr(%s)]" % r


def repr_sx(r):
    if r is None:
        return "rust"
    parts = [p.strip() for p in r.split(",")]
    ints = {"u8": 1, "i8": 1, "u16": 2, "i16": 2, "u32": 4, "i32": 4}
    has_c = "C" in parts
    isz = [ints[p] for p in parts if p in ints]
    if "transparent" in parts:
        return "transparent"
    if isz and has_c:
        return "(cint %d)" % isz[0]
    if isz:
        return "(int %d)" % isz[0]
    if has_c:
        return "c"
    return "rust"


def repr_int_width(r):
    if r is None:
        return None
    ints = {"u8": 1, "i8": 1, "u16": 2, "i16": 2, "u32": 4, "i32": 4}
    for p in [p.strip() for p in r.split(",")]:
        if p in ints:
            return ints[p]
    return None


class Gen:
    def __init__(self):
        self.out = []
        self.reg = []
        self.pairs = []
        self.plugin_pairs = []
        self.io_pairs = []
        self.ledger_chains = {}
        self.helper_fns = set()

    def w(self, s=""):
        self.out.append(s)

    def field_decl(self, owner, f, named, vis="pub "):
        attrs = []
        if f.ver is not None:
            attrs.append(ver_attr(f.ver))
        if f.ignore:
            attrs.append("#[savefile_ignore]")
        if f.default_val is not None:
            attrs.append('#[savefile_default_val="%s"]' % f.default_val)
        if f.default_fn is not None:
            attrs.append('#[savefile_default_fn="%s"]' % self.dflt_fn_name(owner, f))
        for (lo, hi, old, conv) in f.as_:
            if CONVS[conv] is None:
                attrs.append('#[savefile_versions_as="%d..%d:%s"]' % (lo, hi, old))
            else:
                attrs.append('#[savefile_versions_as="%d..%d:%s:%s"]' % (lo, hi, CONVS[conv][0], old))
        a = " ".join(attrs)
        if named:
            return "    %s %s%s: %s," % (a, vis, f.name, f.rust_ty())
        return "    %s %s%s," % (a, vis, f.rust_ty())

    def dflt_fn_name(self, owner, f):
        return "dflt_%s_%s" % (owner, f.name)

    def default_expr(self, owner, f):
        """Rust expression for the value the field takes when it is not read (documented semantics)."""
        if f.removed:
            return None
        if f.default_val is not None:
            # string literal attribute value is parsed with str::parse
            return '("%s").parse::<%s>().unwrap()' % (f.default_val, f.ty)
        if f.default_fn is not None:
            return "%s()" % self.dflt_fn_name(owner, f)
        return "<%s as Default>::default()" % f.ty

    def needs_default(self, f):
        return f.ignore or (f.ver is not None)

    def field_sx_expr(self, owner, f, offset_expr, name=None):
        """Rust expression producing the `(f NAME OFF TY attrs…)` string."""
        parts = []
        if f.ver is not None:
            parts.append('"%s".to_string()' % ver_sx(f.ver))
        if f.removed == "Removed":
            parts.append('"removed".to_string()')
        if f.removed == "AbiRemoved":
            parts.append('"abiremoved".to_string()')
            parts.append('format!("(ctor {})", <%s as Default>::default().sx(false))' % f.ty)
        if f.ignore:
            parts.append('"ignore".to_string()')
        if self.needs_default(f) and not f.removed:
            parts.append('format!("(dflt {})", (%s).sx(false))' % self.default_expr(owner, f))
        for (lo, hi, old, conv) in f.as_:
            parts.append('format!("(as %d %d {} %d)", <%s as ZooVal>::ty_sx())' % (lo, hi, conv, old))
        attrs = "vec![%s].join(\" \")" % ", ".join(parts) if parts else "String::new()"
        return 'format!("(f %s {} {} {})", %s, <%s as ZooVal>::ty_sx(), %s)' % (name if name is not None else f.name, offset_expr, f.rust_ty(), attrs)

    def emit_helpers(self, owner, fields):
        for f in fields:
            if f.default_fn is not None:
                self.w("#[allow(non_snake_case)] pub fn %s() -> %s { %s }" % (self.dflt_fn_name(owner, f), f.ty, f.default_fn))

    def emit_struct(self, s, prefix=""):
        dn = prefix + s.name
        self.emit_helpers(s.name, s.fields)
        self.w("#[derive(Savefile)]")
        if s.repr:
            self.w(repr_attr(s.repr))
        self.w("#[allow(non_snake_case, dead_code)]")
        if s.kind == "named":
            self.w("pub struct %s {" % s.name)
            for f in s.fields:
                self.w(self.field_decl(s.name, f, True))
            self.w("}")
        elif s.kind == "tuple":
            self.w("pub struct %s (" % s.name)
            for f in s.fields:
                self.w(self.field_decl(s.name, f, False))
            self.w(");")
        else:
            self.w("pub struct %s;" % s.name)
        acc = (lambda i, f: f.name) if s.kind == "named" else (lambda i, f: str(i))
        self.w("impl ZooVal for %s {" % s.name)
        self.w('    fn ty_sx() -> String { "(ref %s)".into() }' % dn)
        self.w("    fn defs(d: &mut Defs) {")
        for f in s.fields:
            self.w("        <%s as ZooVal>::defs(d);" % f.rust_ty())
            for (lo, hi, old, conv) in f.as_:
                self.w("        <%s as ZooVal>::defs(d);" % old)
        self.w('        d.add("%s", |_| {' % dn)
        self.w("            let fs: Vec<String> = vec![")
        for i, f in enumerate(s.fields):
            self.w("                %s," % self.field_sx_expr(s.name, f, "std::mem::offset_of!(%s, %s)" % (s.name, acc(i, f))))
        self.w("            ];")
        self.w('            format!("(struct %s %s (lay {} {}) {})", std::mem::size_of::<%s>(), std::mem::align_of::<%s>(), fs.join(" "))' % (
            s.name, repr_sx(s.repr), s.name, s.name))
        self.w("        });")
        self.w("    }")
        self.w("    #[allow(unused_variables)]")
        self.w("    fn gen(r: &mut Rng, sz: usize) -> Self {")
        if s.kind == "named":
            self.w("        %s { %s }" % (s.name, ", ".join("%s: ZooVal::gen(r, sz / 2)" % f.name for f in s.fields)))
        elif s.kind == "tuple":
            self.w("        %s ( %s )" % (s.name, ", ".join("ZooVal::gen(r, sz / 2)" for f in s.fields)))
        else:
            self.w("        %s" % s.name)
        self.w("    }")
        self.w("    #[allow(unused_variables)]")
        self.w("    fn sx(&self, c: bool) -> String {")
        self.w("        let items: Vec<String> = vec![%s];" % ", ".join("self.%s.sx(c)" % acc(i, f) for i, f in enumerate(s.fields)))
        self.w('        if items.is_empty() { "(t)".to_string() } else { format!("(t {})", items.join(" ")) }')
        self.w("    }")
        self.w("}")
        self.w()

    def emit_enum(self, e, prefix=""):
        dn = prefix + e.name
        for v in e.variants:
            self.emit_helpers(e.name + "_" + v.name, v.fields)
        self.w("#[derive(Savefile)]")
        if e.repr:
            self.w(repr_attr(e.repr))
        self.w("#[allow(non_snake_case, dead_code)]")
        self.w("pub enum %s {" % e.name)
        for v in e.variants:
            attrs = ver_attr(v.ver) if v.ver is not None else ""
            d = " = %d" % v.discr if v.discr is not None else ""
            if v.kind == "unit":
                self.w("    %s %s%s," % (attrs, v.name, d))
            elif v.kind == "tuple":
                self.w("    %s %s(" % (attrs, v.name))
                for f in v.fields:
                    self.w("    " + self.field_decl(e.name + "_" + v.name, f, False, vis=""))
                self.w("    )%s," % d)
            else:
                self.w("    %s %s {" % (attrs, v.name))
                for f in v.fields:
                    self.w("    " + self.field_decl(e.name + "_" + v.name, f, True, vis=""))
                self.w("    }%s," % d)
        self.w("}")
        # discriminant values in memory
        discs = []
        cur = -1
        for v in e.variants:
            cur = v.discr if v.discr is not None else cur + 1
            discs.append(cur)
        width = repr_int_width(e.repr)

        def binder(v, i, f):
            return f.name if v.kind == "named" else "x%d" % i

        def pat(v):
            if v.kind == "unit":
                return "%s::%s" % (e.name, v.name)
            if v.kind == "tuple":
                return "%s::%s(%s)" % (e.name, v.name, ", ".join(binder(v, i, f) for i, f in enumerate(v.fields)))
            return "%s::%s { %s }" % (e.name, v.name, ", ".join(binder(v, i, f) for i, f in enumerate(v.fields)))

        def ctor(v, arg):
            if v.kind == "unit":
                return "%s::%s" % (e.name, v.name)
            if v.kind == "tuple":
                return "%s::%s(%s)" % (e.name, v.name, ", ".join(arg for f in v.fields))
            return "%s::%s { %s }" % (e.name, v.name, ", ".join("%s: %s" % (f.name, arg) for f in v.fields))

        self.w("impl ZooVal for %s {" % e.name)
        self.w('    fn ty_sx() -> String { "(ref %s)".into() }' % dn)
        self.w("    fn defs(d: &mut Defs) {")
        for v in e.variants:
            for f in v.fields:
                self.w("        <%s as ZooVal>::defs(d);" % f.rust_ty())
                for (lo, hi, old, conv) in f.as_:
                    self.w("        <%s as ZooVal>::defs(d);" % old)
        self.w('        d.add("%s", |_| {' % dn)
        self.w("            #[allow(unused_mut, unused_variables)] let mut r = Rng::new(7);")
        self.w("            let mut vs: Vec<String> = vec![];")
        for idx, v in enumerate(e.variants):
            vsx = ver_sx(v.ver) or "(ver 0 %d)" % U32MAX
            dsx = str(v.discr) if v.discr is not None else "-"
            if v.fields:
                self.w("            {")
                self.w("                let v = %s;" % ctor(v, "ZooVal::gen(&mut r, 0)"))
                self.w("                let base = &v as *const %s as usize;" % e.name)
                self.w("                #[allow(unreachable_patterns)] match &v { %s => {" % pat(v))
                self.w("                    let fs: Vec<String> = vec![")
                for i, f in enumerate(v.fields):
                    self.w("                        %s," % self.field_sx_expr(e.name + "_" + v.name, f,
                                                                            "(%s as *const %s as usize - base)" % (binder(v, i, f), f.rust_ty()),
                                                                            name=(str(i) if v.kind == "tuple" else None)))
                self.w("                    ];")
                self.w('                    vs.push(format!("(v %s %s %s {})", fs.join(" ")));' % (v.name, vsx, dsx))
                self.w("                }, _ => unreachable!() }")
                self.w("            }")
            else:
                self.w('            vs.push("(v %s %s %s)".to_string());' % (v.name, vsx, dsx))
        self.w('            format!("(enum %s %s (lay {} {}) {})", std::mem::size_of::<%s>(), std::mem::align_of::<%s>(), vs.join(" "))' % (
            e.name, repr_sx(e.repr), e.name, e.name))
        self.w("        });")
        self.w("    }")
        self.w("    #[allow(unused_variables)]")
        self.w("    fn gen(r: &mut Rng, sz: usize) -> Self {")
        self.w("        match r.below(%d) {" % len(e.variants))
        for idx, v in enumerate(e.variants):
            self.w("            %d => %s," % (idx, ctor(v, "ZooVal::gen(r, sz / 2)")))
        self.w("            _ => unreachable!(),")
        self.w("        }")
        self.w("    }")
        self.w("    #[allow(unused_variables)]")
        self.w("    fn sx(&self, c: bool) -> String {")
        if width is not None:
            ity = {1: "u8", 2: "u16", 4: "u32"}[width]
            self.w("        let raw = unsafe { std::ptr::read_volatile(self as *const Self as *const %s) } as u64;" % ity)
            self.w("        if ![%s].contains(&raw) { return format!(\"(invalid-tag {})\", raw); }" % ", ".join("%du64" % (d & ((1 << (8 * width)) - 1)) for d in discs))
        self.w("        match self {")
        for idx, v in enumerate(e.variants):
            items = ", ".join("%s.sx(c)" % binder(v, i, f) for i, f in enumerate(v.fields))
            self.w("            %s => { let items: Vec<String> = vec![%s]; if items.is_empty() { \"(a %d (t))\".to_string() } else { format!(\"(a %d (t {}))\", items.join(\" \")) } }" % (
                pat(v), items, idx, idx))
        self.w("        }")
        self.w("    }")
        self.w("}")
        self.w()

    def register(self, rust_path, def_name, t, family=None):
        # `convert`: some field is read through `savefile_versions_as` at older versions. Such a type cannot be
        # *written* at those versions in the old shape (the attribute only affects reading), so "the schema of
        # version v describes what is written at version v" is claimed for it at its current version only.
        fields = [f for v in t.variants for f in v.fields] if t.is_enum else list(t.fields)
        if any(f.as_ for f in fields) or any(re.search(r"\b%s\b" % n, f.rust_ty()) for f in fields for n in CONVERT_NAMES):
            CONVERT_NAMES.add(t.name) if not family else None
            t.tags = tuple(t.tags) + ("convert",)
        tags = "&[%s]" % ", ".join('"%s"' % x for x in t.tags)
        vers = "&[%s]" % ", ".join(str(v) for v in t.versions)
        fam = 'Some(("%s", %d))' % family if family else "None"
        self.reg.append('    v.push(entry::<%s>("%s", %s, %s, %s));' % (rust_path, def_name, vers, fam, tags))
        cont = {
            "vec": ("Vec<%s>", "Vec_%s"),
            "opt": ("Option<%s>", "Opt_%s"),
            "arr": ("[%s; 3]", "Arr3_%s"),
            "boxs": ("Box<[%s]>", "BoxSlice_%s"),
            "arcs": ("std::sync::Arc<[%s]>", "ArcSlice_%s"),
            "avec": ("arrayvec::ArrayVec<%s, 5>", "AVec5_%s"),
            "tup": ("(%s, u8)", "TupU8_%s"),
            "box": ("Box<%s>", "Box_%s"),
            "deq": ("std::collections::VecDeque<%s>", "Deque_%s"),
            "vecvec": ("Vec<Vec<%s>>", "VecVec_%s"),
            "mapv": ("std::collections::BTreeMap<u32, %s>", "BMapV_%s"),
        }
        for c in t.containers:
            ty, nm = cont[c]
            # container variants skip the stream-level suites (C08, C14): the container adds nothing there
            self.reg.append('    v.push(entry_c::<%s>("%s", %s, %s, %s));' % (ty % rust_path, nm % def_name, vers, fam, tags))

    def emit_item(self, t, prefix=""):
        if t.is_enum:
            self.emit_enum(t, prefix)
        else:
            self.emit_struct(t, prefix)

    def finish(self, lib_entries):
        head = [
            "// @generated by tools/genzoo.py — do not edit",
            "#![allow(unused_imports, clippy::all)]",
            "use crate::suite::{entry, entry_c, entry_ni, Entry};",
            "use crate::val::*;",
            "use savefile::prelude::*;",
            "use savefile::{AbiRemoved, Removed};",
            "use savefile_derive::{savefile_abi_exportable, Savefile};",
            "use crate::abicall::AbiPair;",
            "",
        ]
        for k, c in CONVS.items():
            if c:
                head.append("#[allow(dead_code)] pub fn %s(x: %s) -> %s { %s }" % (c[0], c[1], c[2], c[3]))
        head.append("")
        tail = ["pub fn registry() -> Vec<Entry> {", "    let mut v: Vec<Entry> = Vec::new();"]
        tail += lib_entries
        tail += self.reg
        tail += ["    v", "}"]
        tail += ["", "pub fn abi_pairs() -> Vec<AbiPair> {", "    let mut v: Vec<AbiPair> = Vec::new();"]
        tail += self.pairs
        tail += ["    v", "}"]
        tail += ["", "/// per family: the interface of each version, in order, checked against one ledger directory",
                 "#[allow(clippy::type_complexity)]",
                 "pub fn ledger_chains() -> Vec<(&'static str, Vec<fn(&str) -> Result<(), String>>)> {",
                 "    let mut v: Vec<(&'static str, Vec<fn(&str) -> Result<(), String>>)> = Vec::new();"]
        for fam, steps in self.ledger_chains.items():
            tail.append('    v.push(("%s", vec![%s]));' % (fam, ", ".join(steps)))
        tail += ["    v", "}"]
        tail += ["", "/// (family, i, j, run): data of version i loaded by the definition of version j through faulty readers",
                 "#[allow(clippy::type_complexity)]",
                 "pub fn iofault_pairs() -> Vec<(&'static str, u32, u32, fn(&mut Rng, usize) -> Vec<String>)> {",
                 "    let mut v: Vec<(&'static str, u32, u32, fn(&mut Rng, usize) -> Vec<String>)> = Vec::new();"]
        tail += self.io_pairs
        tail += ["    v", "}"]
        tail += ["", "/// the pairs of `abi_pairs` with the implementation loaded from plugins/v<j> (a cdylib)",
                 "pub fn plugin_pairs() -> Vec<AbiPair> {", "    let mut v: Vec<AbiPair> = Vec::new();"]
        tail += self.plugin_pairs
        tail += ["    v", "}"]
        return "\n".join(head + self.out + tail) + "\n"


# ---------------------------------------------------------------------------------------------
# library types (no derive involved)

LIB = [
    # (rust type, registry name)
    ("u8", "u8"), ("i8", "i8"), ("u16", "u16"), ("i16", "i16"), ("u32", "u32"), ("i32", "i32"),
    ("u64", "u64"), ("i64", "i64"), ("u128", "u128"), ("i128", "i128"), ("f32", "f32"), ("f64", "f64"),
    ("bool", "bool"), ("char", "char"), ("usize", "usize"), ("isize", "isize"), ("()", "unit"),
    ("String", "String"), ("std::sync::Arc<str>", "ArcStr"), ("arrayvec::ArrayString<7>", "ArrayString7"),
    ("Vec<u8>", "Vec_u8"), ("Vec<u16>", "Vec_u16"), ("Vec<u64>", "Vec_u64"), ("Vec<i32>", "Vec_i32"),
    ("Vec<u128>", "Vec_u128"), ("Vec<f64>", "Vec_f64"),
    ("Vec<bool>", "Vec_bool"), ("Vec<char>", "Vec_char"), ("Vec<usize>", "Vec_usize"), ("Vec<()>", "Vec_unit"),
    ("Vec<String>", "Vec_String"), ("Vec<Vec<u32>>", "VecVec_u32"), ("Vec<Option<u16>>", "Vec_Opt_u16"),
    ("Vec<(u8, u8)>", "Vec_Tup_u8_u8"), ("Vec<(u8, u32)>", "Vec_Tup_u8_u32"), ("Vec<(u32, u16, u16)>", "Vec_Tup3"),
    ("Vec<[u16; 3]>", "Vec_Arr3_u16"), ("Vec<std::sync::Arc<str>>", "Vec_ArcStr"),
    ("Box<[u32]>", "BoxSlice_u32"), ("std::sync::Arc<[u16]>", "ArcSlice_u16"), ("Box<[String]>", "BoxSlice_String"),
    ("std::collections::VecDeque<u32>", "Deque_u32"), ("std::collections::VecDeque<String>", "Deque_String"),
    ("std::collections::BinaryHeap<u32>", "Heap_u32"),
    ("smallvec::SmallVec<[u32; 4]>", "SmallVec4_u32"), ("smallvec::SmallVec<[String; 2]>", "SmallVec2_String"),
    ("arrayvec::ArrayVec<u32, 4>", "AVec4_u32"), ("arrayvec::ArrayVec<String, 3>", "AVec3_String"),
    ("arrayvec::ArrayVec<bool, 6>", "AVec6_bool"),
    ("std::collections::HashSet<u32>", "HashSet_u32"), ("std::collections::HashSet<String>", "HashSet_String"),
    ("std::collections::BTreeSet<i16>", "BTreeSet_i16"), ("indexmap::IndexSet<u32>", "IndexSet_u32"),
    ("rustc_hash::FxHashSet<String>", "FxHashSet_String"),
    ("std::collections::HashMap<u32, String>", "HashMap_u32_String"),
    ("std::collections::HashMap<String, Vec<u8>>", "HashMap_String_Vec_u8"),
    ("std::collections::BTreeMap<u8, u64>", "BTreeMap_u8_u64"), ("indexmap::IndexMap<u16, String>", "IndexMap_u16_String"),
    ("rustc_hash::FxHashMap<u32, u32>", "FxHashMap_u32_u32"),
    ("std::collections::HashMap<u32, Vec<u32>>", "HashMap_u32_Vec_u32"), ("indexmap::IndexMap<u8, Option<Box<u8>>>", "IndexMap_u8_Opt_Box_u8"),
    ("std::collections::BTreeMap<u32, Vec<u32>>", "BTreeMap_u32_Vec_u32"),
    ("Option<u8>", "Opt_u8"), ("Option<String>", "Opt_String"), ("Option<Option<u32>>", "Opt_Opt_u32"),
    ("Option<Vec<u16>>", "Opt_Vec_u16"), ("Option<Box<u32>>", "Opt_Box_u32"),
    ("Result<u32, String>", "Res_u32_String"), ("Result<Vec<u8>, u8>", "Res_Vec_u8_u8"), ("Result<(), ()>", "Res_unit_unit"),
    ("Box<u64>", "Box_u64"), ("std::rc::Rc<String>", "Rc_String"), ("std::sync::Arc<Vec<u32>>", "Arc_Vec_u32"),
    # smart pointers as the element / key / value of a guarded container (recursion-guard keys)
    ("Vec<Box<u32>>", "Vec_Box_u32"), ("[std::rc::Rc<u16>; 3]", "Arr3_Rc_u16"), ("std::collections::BTreeMap<u8, std::sync::Arc<String>>", "BTreeMap_u8_Arc_String"),
    ("Box<[Box<u8>]>", "BoxSlice_Box_u8"), ("std::collections::VecDeque<std::sync::Arc<u32>>", "Deque_Arc_u32"), ("Vec<Option<Box<String>>>", "Vec_Opt_Box_String"),
    ("std::cell::Cell<u32>", "Cell_u32"), ("std::cell::RefCell<String>", "RefCell_String"),
    ("std::sync::Mutex<u16>", "StdMutex_u16"),
    ("parking_lot::Mutex<u32>", "PlMutex_u32"), ("parking_lot::RwLock<Vec<u8>>", "PlRwLock_Vec_u8"),
    ("(u8,)", "Tup1_u8"), ("(u8, u8)", "Tup2_u8_u8"), ("(u8, u32)", "Tup2_u8_u32"), ("(u32, String)", "Tup2_u32_String"),
    ("(u16, u16, u32)", "Tup3_a"), ("(u8, u16, u32)", "Tup3_b"),
    # 3-tuples rustc reorders without padding (memory order is not declaration order)
    ("(u8, u16, u8)", "Tup3_reord_a"), ("(u16, u32, u16)", "Tup3_reord_b"), ("(u8, bool, u8)", "Tup3_reord_c"),
    ("Vec<(u8, u16, u8)>", "Vec_Tup3_reord_a"), ("[(u16, u32, u16); 3]", "Arr3_Tup3_reord_b"), ("Box<[(u8, u16, u8)]>", "BoxSlice_Tup3_reord_a"),
    ("[u8; 0]", "Arr0_u8"), ("[u8; 1]", "Arr1_u8"), ("[u32; 4]", "Arr4_u32"), ("[String; 2]", "Arr2_String"),
    ("[bool; 5]", "Arr5_bool"), ("[[u16; 2]; 3]", "Arr3_Arr2_u16"), ("[usize; 2]", "Arr2_usize"), ("[char; 2]", "Arr2_char"),
    ("std::net::IpAddr", "IpAddr"), ("std::net::SocketAddr", "SocketAddr"), ("savefile::Canary1", "Canary1"),
    ("std::time::Duration", "Duration"), ("std::time::SystemTime", "SystemTime"),
    ("Vec<std::net::IpAddr>", "Vec_IpAddr"), ("Option<std::time::SystemTime>", "Opt_SystemTime"),
    ("Vec<savefile::Canary1>", "Vec_Canary1"), ("[savefile::Canary1; 2]", "Arr2_Canary1"),
]


def lib_entries():
    out = []
    for ty, nm in LIB:
        tags = '"lib"' + (', "zstseq"' if "<()>" in ty else "")
        fn = "entry_ni" if "Cell<" in ty and "RefCell" not in ty else "entry"
        out.append('    v.push(%s::<%s>("%s", &[0], None, &[%s]));' % (fn, ty, nm, tags))
    return out


# ---------------------------------------------------------------------------------------------
# curated corpus of derived types

def curated():
    T = []
    # plain structs, various reprs and paddings
    T.append(S("Plain1", [F("a", "u8"), F("b", "u32"), F("c", "String")]))
    T.append(S("PackedC", [F("a", "u32"), F("b", "u16"), F("c", "u16")], repr="C", containers=("vec", "opt", "arr", "boxs", "arcs", "avec", "tup", "vecvec")))
    T.append(S("PaddedC", [F("a", "u8"), F("b", "u32")], repr="C", containers=("vec", "arr", "avec")))
    T.append(S("TailPadC", [F("a", "u32"), F("b", "u8")], repr="C", containers=("vec", "arr")))
    T.append(S("RustReorder", [F("a", "u8"), F("b", "u32"), F("c", "u8"), F("d", "u16")], containers=("vec", "arr", "boxs")))
    T.append(S("RustPackedMaybe", [F("a", "u32"), F("b", "u32")], containers=("vec", "arr")))
    T.append(S("OneField", [F("a", "u64")], repr="C", containers=("vec", "arr")))
    T.append(S("OneFieldRust", [F("a", "u16")], containers=("vec", "arr")))
    T.append(S("Transparent1", [F("a", "u32")], repr="transparent", containers=("vec",)))
    T.append(S("UnitS", [], tags=("zstseq",), containers=("vec", "opt")))
    T.append(S("TupleS", [F("0", "u16"), F("1", "u16")], kind="tuple", repr="C", containers=("vec", "arr")))
    T.append(S("TupleMixed", [F("0", "u8"), F("1", "String"), F("2", "Vec<u16>")], kind="tuple"))
    T.append(S("WithBoolChar", [F("a", "bool"), F("b", "bool"), F("c", "u16"), F("d", "char")], repr="C", containers=("vec", "arr", "avec")))
    T.append(S("WithUsize", [F("a", "usize"), F("b", "u64")], repr="C", containers=("vec", "arr")))
    T.append(S("WithFloats", [F("a", "f32"), F("b", "f32"), F("c", "f64")], repr="C", containers=("vec", "arr")))
    T.append(S("With128", [F("a", "u128"), F("b", "i128")], repr="C", containers=("vec",)))
    T.append(S("WithArray", [F("a", "[u8; 4]"), F("b", "u32")], repr="C", containers=("vec", "arr")))
    T.append(S("WithTuple", [F("a", "(u16, u16)"), F("b", "u32")], repr="C", containers=("vec",)))
    T.append(S("NestedPacked", [F("p", "PackedC"), F("q", "u64")], repr="C", containers=("vec", "arr")))
    T.append(S("NestedPadded", [F("p", "PaddedC"), F("q", "u64")], repr="C", containers=("vec",)))
    T.append(S("DeferredRegions", [F("a", "u32"), F("b", "u32"), F("s", "String"), F("c", "u16"), F("d", "u16"), F("e", "u8")], containers=("vec",)))
    T.append(S("DeferredMixedAlign", [F("a", "u8"), F("b", "u8"), F("c", "u32"), F("d", "u32"), F("e", "u8"), F("v", "Vec<u8>")], containers=("vec",)))
    T.append(S("Collections1", [F("v", "Vec<u32>"), F("m", "std::collections::BTreeMap<u8, String>"), F("o", "Option<Box<u16>>"), F("r", "Result<u8, String>")]))
    T.append(S("ZstMember", [F("a", "u32"), F("z", "()"), F("b", "u32")], repr="C", containers=("vec",)))
    # repr(Rust) structs whose fields rustc may permute inside one alignment class (niche-carrying first)
    T.append(S("NicheMix1", [F("a", "bool"), F("b", "u8"), F("c", "bool"), F("d", "u8")], containers=("vec", "arr")))
    T.append(S("NicheMix2", [F("a", "u8"), F("b", "bool"), F("c", "u8"), F("d", "bool"), F("e", "u8")], containers=("vec",)))
    T.append(S("NicheMix3", [F("a", "u32"), F("b", "char"), F("c", "u32"), F("d", "char"), F("s", "String")], containers=("vec",)))
    T.append(S("NicheMix4", [F("x", "u16"), F("a", "bool"), F("b", "u8"), F("c", "bool"), F("d", "u8"), F("y", "u16")], containers=("vec", "arr")))
    T.append(S("NicheMix5", [F("a", "UnitEnumU8"), F("b", "u8"), F("c", "UnitEnumU8"), F("d", "i8")], containers=("vec",)))
    T.append(S("NicheMix6", [F("a", "f32"), F("b", "char"), F("c", "u32"), F("d", "i32"), F("e", "char")], containers=("vec", "arr")))
    T.append(S("ManyU8", [F("a", "u8"), F("b", "u8"), F("c", "u8"), F("d", "u8"), F("e", "u8")], containers=("vec", "arr")))
    T.append(S("VecOfArrayVec", [F("v", "Vec<arrayvec::ArrayVec<u32, 4>>"), F("a", "[arrayvec::ArrayVec<u8, 3>; 2]")], tags=("arrayvec-packed",), containers=()))
    # ignore / defaults
    T.append(S("Ignored1", [F("a", "u32"), F("b", "u32", ignore=True), F("c", "u16")], repr="C", tags=("ignore",), containers=("vec",)))
    # positional fields after an ignored one: the schema's offsets are taken by field *position* (tuple structs,
    # variants of repr(C, uN) enums), so an ignored field in the middle must not shift them
    T.append(S("IgnoredMidTuple", [F("0", "u32"), F("1", "u32", ignore=True), F("2", "u16"), F("3", "u8")], kind="tuple", repr="C", tags=("ignore",), containers=("vec",)))
    T.append(S("IgnoredFirstTuple", [F("0", "u64", ignore=True), F("1", "u8"), F("2", "u32")], kind="tuple", repr="C", tags=("ignore",), containers=()))
    T.append(E("IgnoredMidVariant", [Vr("Nothing"), Vr("Pair", [F("x0", "u16"), F("x1", "u64", ignore=True), F("x2", "u8")]),
                                     Vr("Named", [F("p", "u8"), F("q", "u32", ignore=True), F("r", "u16")], kind="named")],
               repr="u8, C", tags=("ignore",), containers=("vec",)))
    T.append(S("IgnoredDefaultVal", [F("a", "u8"), F("b", "u32", ignore=True, default_val="42")], tags=("ignore",), containers=("vec",)))
    T.append(S("IgnoredDefaultFn", [F("a", "u8"), F("b", "String", ignore=True, default_fn='"hello".to_string()')], tags=("ignore",), containers=("opt",)))
    # enums
    T.append(E("UnitEnum", [Vr("A"), Vr("B"), Vr("C")], containers=("vec", "opt", "arr")))
    T.append(E("UnitEnumU8", [Vr("A"), Vr("B"), Vr("C")], repr="u8", containers=("vec", "opt", "arr", "avec", "boxs")))
    T.append(E("UnitEnumU16", [Vr("A"), Vr("B")], repr="u16", containers=("vec", "arr")))
    T.append(E("UnitEnumU32", [Vr("A"), Vr("B")], repr="u32", containers=("vec", "arr")))
    T.append(E("DataEnum", [Vr("A"), Vr("B", [F("x0", "u32")]), Vr("C", [F("x", "String"), F("y", "u8")], kind="named")]))
    T.append(E("DataEnumU8", [Vr("A", [F("x0", "u8")]), Vr("B", [F("x0", "u8")])], repr="u8", containers=("vec", "arr", "avec")))
    T.append(E("DataEnumU8C", [Vr("A", [F("x0", "u8"), F("x1", "u16")]), Vr("B", [F("x0", "u8"), F("x1", "u16")])], repr="u8, C", containers=("vec", "arr")))
    T.append(E("DataEnumU8Uneven", [Vr("A", [F("x0", "u8")]), Vr("B", [F("x0", "u16")])], repr="u8", containers=("vec", "arr")))
    T.append(E("DataEnumU32", [Vr("A", [F("x0", "u32")]), Vr("B", [F("x0", "u32")])], repr="u32", containers=("vec", "arr")))
    T.append(E("ReprCEnum", [Vr("A"), Vr("B")], repr="C", containers=("vec", "arr")))
    T.append(E("NestedEnum", [Vr("P", [F("x0", "PackedC")]), Vr("E", [F("x0", "UnitEnumU8"), F("x1", "Option<DataEnum>")])], containers=("vec",)))
    T.append(S("HoldsUnitEnumU8", [F("e", "UnitEnumU8"), F("x", "u8")], repr="C", containers=("vec", "arr")))
    # discriminant width boundaries (implicit width: 1 byte up to 256 variants, 2 bytes up to 65536)
    T.append(E("Enum255", [Vr("V%d" % i) for i in range(255)], containers=("vec",)))
    T.append(E("Enum256", [Vr("V%d" % i) for i in range(256)], containers=("vec", "opt")))
    T.append(E("Enum257", [Vr("V%d" % i) for i in range(256)] + [Vr("Last", [F("x0", "u8")])], containers=("vec",)))
    # defect candidates (D1, D2): kept so that the checks decide them
    T.append(E("ExplDiscU8", [Vr("A", discr=5), Vr("B", discr=7)], repr="u8", tags=("explicit-discr",), containers=("vec", "arr", "opt")))
    T.append(S("HoldsExplDisc", [F("e", "ExplDiscU8"), F("x", "u8")], repr="C", tags=("explicit-discr",), containers=("vec",)))
    T.append(E("ExplDiscC", [Vr("A", discr=5), Vr("B", discr=7)], repr="C", tags=("explicit-discr",), containers=("vec", "arr")))
    T.append(S("HoldsExplDiscC", [F("e", "ExplDiscC"), F("x", "u32")], repr="C", tags=("explicit-discr",), containers=()))
    T.append(E("ExplDiscPlain", [Vr("A", discr=5), Vr("B", discr=7)], tags=("explicit-discr",), containers=("vec", "opt")))
    T.append(E("UnitAndFieldU8", [Vr("A"), Vr("B", [F("x0", "u8")])], repr="u8", tags=("unit-and-field",), containers=("vec", "arr")))
    T.append(E("UnitAndFieldU8Wide", [Vr("A"), Vr("B", [F("x0", "u8"), F("x1", "u16")]), Vr("C")], repr="u8, C", tags=("unit-and-field",), containers=("vec",)))
    # versioned (single definition exercised at several versions)
    T.append(S("Ver1", [F("a", "u8"), F("b", "u32", ver=(1, None))], versions=(0, 1), repr="C", containers=("vec", "arr")))
    T.append(S("Ver2", [F("a", "u16"), F("b", "u16", ver=(1, None), default_val="77"), F("c", "String", ver=(2, None), default_fn='"dflt".to_string()')],
               versions=(0, 1, 2), containers=("vec", "opt")))
    T.append(S("Rem1", [F("a", "u8"), F("old", "u32", ver=(0, 0), removed="Removed"), F("b", "u8")], versions=(0, 1), repr="C", containers=("vec", "arr")))
    T.append(S("Rem2", [F("old", "String", ver=(0, 1), removed="Removed"), F("a", "u32"), F("n", "u32", ver=(2, None))], versions=(0, 1, 2), containers=("vec",)))
    T.append(S("AbiRem1", [F("a", "u16"), F("old", "u16", ver=(0, 0), removed="AbiRemoved"), F("b", "u32", ver=(1, None))], versions=(0, 1), repr="C", containers=("vec", "arr")))
    T.append(S("As1", [F("a", "u8"), F("b", "u32", ver=(1, None), as_=[(0, 0, "u16", 0)])], versions=(0, 1), containers=("vec",)))
    T.append(S("As2", [F("s", "String", ver=(2, None), as_=[(0, 1, "u32", 1)]), F("t", "u32", ver=(1, None), as_=[(0, 0, "u16", 2)])], versions=(0, 1, 2), containers=("vec",)))
    # integer-repr enums whose variants all carry fields: each variant is laid out like a repr(C) struct behind the
    # tag, so a *later* variant may have padding after the tag although the first one has none
    T.append(E("PadLaterVariant", [Vr("Small", [F("x0", "u8"), F("x1", "u16"), F("x2", "u32")]), Vr("Wide", [F("x0", "u32")])], repr="u8", containers=("vec", "arr", "boxs")))
    T.append(E("PadLaterVariant16", [Vr("A", [F("x0", "u16"), F("x1", "u32")]), Vr("B", [F("x0", "u64")]), Vr("C", [F("x0", "u16"), F("x1", "u16"), F("x2", "u16")])], repr="u16", containers=("vec",)))
    T.append(E("TightVariants", [Vr("A", [F("x0", "u8"), F("x1", "u16")]), Vr("B", [F("x0", "u8"), F("x1", "u8"), F("x2", "u8")])], repr="u8", containers=("vec", "arr")))
    # a variant inserted in the middle at version 1: later variants get another tag, so version-0 data of the old
    # definition (`ShapeOld`) has to be refused by the schema gate, not read as the neighbouring variant
    T.append(E("ShapeOld", [Vr("Circle", [F("x0", "u32")]), Vr("Square", [F("x0", "u32")])], containers=("vec",)))
    T.append(E("ShapeNew", [Vr("Circle", [F("x0", "u32")]), Vr("Triangle", [F("x0", "u32")], ver=(1, None)), Vr("Square", [F("x0", "u32")])], versions=(0, 1), tags=("sparse-tags",), containers=("vec",)))
    # derived enums that look like library types (same variant names and payloads, different wire format):
    # `Result` writes a bool tag (Ok = 1), `Option` a bool tag (Some = 1); these write the variant index
    T.append(E("OkErrLike", [Vr("Ok", [F("x0", "u32")]), Vr("Err", [F("x0", "String")])], containers=("vec",)))
    T.append(E("ErrOkLike", [Vr("Err", [F("x0", "String")]), Vr("Ok", [F("x0", "u32")])], containers=()))
    T.append(E("OkErrUnitLike", [Vr("Ok", [F("x0", "()")]), Vr("Err", [F("x0", "()")])], containers=()))
    T.append(E("NoneSomeLike", [Vr("None"), Vr("Some", [F("x0", "u16")])], containers=()))
    # a field that was added at version 1 and converted later: its `versions_as` ranges do not start at 0
    T.append(S("AsLate", [F("a", "u8"), F("g", "u32", ver=(2, None), as_=[(1, 1, "u16", 0)]), F("z", "u16")], versions=(0, 1, 2), containers=("vec",)))
    T.append(S("AsLate2", [F("s", "String", ver=(3, None), as_=[(1, 1, "u16", 3), (2, 2, "u32", 1)]), F("t", "u32", ver=(2, None), as_=[(1, 1, "u16", 2)], default_val="5")],
               versions=(0, 1, 2, 3), containers=("vec", "opt")))
    T.append(E("VerEnum", [Vr("A"), Vr("B", [F("x0", "u32")]), Vr("C", [F("x0", "u8")], ver=(1, None))], versions=(0, 1), containers=("vec",)))
    T.append(E("VerEnumFields", [Vr("A", [F("x", "u8"), F("y", "u16", ver=(1, None), default_val="9")], kind="named"), Vr("B")], versions=(0, 1), containers=("vec",)))
    T.append(S("NestedVer", [F("v", "Ver1"), F("w", "Vec<Ver2>"), F("x", "u8", ver=(1, None))], versions=(0, 1, 2), containers=("vec",)))
    # grid of version thresholds on a padding-free struct (which field decides min_safe_version)
    for t1 in range(3):
        for t2 in range(3):
            for t3 in range(3):
                if t1 == t2 == t3 == 0:
                    continue
                fs = [F(n, "u32", ver=(t, None) if t else None) for n, t in (("a", t1), ("b", t2), ("c", t3))]
                T.append(S("VerGrid%d%d%d" % (t1, t2, t3), fs, versions=(0, 1, 2), repr="C", containers=("vec",)))
    T.append(E("VerGridEnum", [Vr("A", [F("x", "u16", ver=(2, None)), F("y", "u16", ver=(1, None))], kind="named"),
                               Vr("B", [F("x", "u16"), F("y", "u16", ver=(1, None))], kind="named")], repr="u16", versions=(0, 1, 2), containers=("vec",)))
    T.append(E("ClosedRangeEnum", [Vr("A", [F("gone", "u8", ver=(0, 0)), F("b", "u8")], kind="named"), Vr("B", [F("x", "u8"), F("y", "u8")], kind="named")],
               repr="u8", versions=(0, 1), tags=("closed-range-plain", "ignore"), containers=("vec", "arr")))
    T.append(S("ClosedRangePlain", [F("a", "u8"), F("gone", "u8", ver=(0, 0)), F("b", "u8")], versions=(0, 1), repr="C", tags=("closed-range-plain", "ignore"), containers=("vec", "arr")))
    # fields that were added and later removed: a two-sided version range whose lower bound is above 0
    T.append(S("TwoSidedPlain", [F("a", "u8"), F("mid", "u16", ver=(1, 2)), F("b", "u32")], versions=(0, 1, 2, 3), tags=("closed-range-plain", "ignore"), containers=("vec",)))
    T.append(S("TwoSidedRem", [F("a", "u32"), F("gone", "u32", ver=(1, 1), removed="Removed"), F("b", "u32")], versions=(0, 1, 2), repr="C", containers=("vec", "arr")))
    T.append(S("TwoSidedAbi", [F("a", "u32"), F("gone", "u32", ver=(1, 2), removed="AbiRemoved"), F("b", "u32")], versions=(0, 1, 2, 3), repr="C", containers=("vec", "arr")))
    T.append(E("TwoSidedEnum", [Vr("A", [F("x", "u16"), F("gone", "u16", ver=(1, 1), removed="Removed"), F("y", "u16")], kind="named"),
                                Vr("B", [F("x", "u16"), F("y", "u16")], kind="named")], repr="u16", versions=(0, 1, 2), containers=("vec",)))
    return T


def families():
    """evolution histories: list of (family name, [ [items at v0], [items at v1], ... ])"""
    fams = []
    fams.append(("FamAdd", [
        [S("T", [F("a", "u8"), F("b", "u16")], repr="C")],
        [S("T", [F("a", "u8"), F("b", "u16"), F("c", "u32", ver=(1, None))], repr="C")],
        [S("T", [F("a", "u8"), F("n", "String", ver=(2, None), default_fn='"two".to_string()'), F("b", "u16"), F("c", "u32", ver=(1, None))], repr="C")],
    ]))
    fams.append(("FamRemove", [
        [S("T", [F("a", "u32"), F("b", "String"), F("c", "u16")])],
        [S("T", [F("a", "u32"), F("b", "String", ver=(0, 0), removed="Removed"), F("c", "u16")])],
        [S("T", [F("a", "u32", ver=(0, 1), removed="Removed"), F("b", "String", ver=(0, 0), removed="Removed"), F("c", "u16"), F("d", "u8", ver=(2, None), default_val="5")])],
    ]))
    fams.append(("FamAbiRemove", [
        [S("T", [F("a", "u16"), F("b", "u16"), F("c", "u32")], repr="C")],
        [S("T", [F("a", "u16"), F("b", "u16", ver=(0, 0), removed="AbiRemoved"), F("c", "u32")], repr="C")],
        [S("T", [F("a", "u16"), F("b", "u16", ver=(0, 0), removed="AbiRemoved"), F("c", "u32"), F("d", "u64", ver=(2, None))], repr="C")],
    ]))
    # appending the 256th variant: indices still fit one byte
    fams.append(("FamEnum256", [
        [E("T", [Vr("V%d" % i) for i in range(254)] + [Vr("W", [F("x0", "u16")])])],
        [E("T", [Vr("V%d" % i) for i in range(254)] + [Vr("W", [F("x0", "u16")]), Vr("X", [F("x0", "u8")], ver=(1, None))])],
    ]))   # (a 257th variant would widen the tag: not a compatible step)
    # every field retired: the current struct is zero-sized in memory, its older versions are not empty on the wire
    fams.append(("FamAllRetired", [
        [S("T", [F("a", "u16"), F("b", "u8")])],
        [S("T", [F("a", "u16", ver=(0, 0), removed="AbiRemoved"), F("b", "u8")])],
        [S("T", [F("a", "u16", ver=(0, 0), removed="AbiRemoved"), F("b", "u8", ver=(0, 1), removed="AbiRemoved")], tags=("zstseq",))],
    ]))
    fams.append(("FamConvert", [
        [S("T", [F("a", "u16"), F("b", "u8")])],
        [S("T", [F("a", "u32", ver=(1, None), as_=[(0, 0, "u16", 0)]), F("b", "u8")])],
        [S("T", [F("a", "String", ver=(2, None), as_=[(0, 0, "u16", 3), (1, 1, "u32", 1)]), F("b", "u8")])],
    ]))
    fams.append(("FamConvertLate", [
        [S("T", [F("b", "u8")])],
        [S("T", [F("a", "u16", ver=(1, None)), F("b", "u8")])],
        [S("T", [F("a", "u32", ver=(2, None), as_=[(1, 1, "u16", 0)]), F("b", "u8")])],
        [S("T", [F("a", "String", ver=(3, None), as_=[(1, 1, "u16", 3), (2, 2, "u32", 1)]), F("b", "u8")])],
    ]))
    fams.append(("FamVariant", [
        [E("T", [Vr("A"), Vr("B", [F("x0", "u32")])])],
        [E("T", [Vr("A"), Vr("B", [F("x0", "u32")]), Vr("C", [F("x0", "String")], ver=(1, None))])],
        [E("T", [Vr("A"), Vr("B", [F("x0", "u32"), F("x1", "u8", ver=(2, None), default_val="3")]), Vr("C", [F("x0", "String")], ver=(1, None)), Vr("D", ver=(2, None))])],
    ]))
    fams.append(("FamAddPacked", [
        [S("T", [F("a", "u32"), F("b", "u32")], repr="C")],
        [S("T", [F("a", "u32"), F("x", "u32", ver=(1, None)), F("b", "u32")], repr="C")],
        [S("T", [F("a", "u32"), F("x", "u32", ver=(1, 1), removed="AbiRemoved"), F("b", "u32")], repr="C")],
        [S("T", [F("a", "u32"), F("x", "u32", ver=(1, 1), removed="AbiRemoved"), F("b", "u32"), F("y", "u32", ver=(3, None))], repr="C")],
    ]))
    fams.append(("FamNested", [
        [S("Inner", [F("x", "u16"), F("y", "u16")], repr="C"), S("T", [F("i", "Inner"), F("l", "Vec<Inner>"), F("z", "u8")])],
        [S("Inner", [F("x", "u16"), F("y", "u16"), F("w", "u32", ver=(1, None))], repr="C"), S("T", [F("i", "Inner"), F("l", "Vec<Inner>"), F("z", "u8")])],
        [S("Inner", [F("x", "u16"), F("y", "u16", ver=(0, 1), removed="AbiRemoved"), F("w", "u32", ver=(1, None))], repr="C"),
         S("T", [F("i", "Inner"), F("l", "Vec<Inner>"), F("o", "Option<Inner>", ver=(2, None)), F("z", "u8")])],
    ]))
    # an outer struct that never changed, without padding, around an inner struct that did: whether the outer value may be
    # copied as one block depends on the version being written
    fams.append(("FamNestedPacked", [
        [S("Inner", [F("a", "u32"), F("g", "u32")], repr="C"), S("T", [F("id", "u32"), F("inner", "Inner"), F("tail", "u32")], repr="C")],
        [S("Inner", [F("a", "u32"), F("g", "u32"), F("b", "u32", ver=(1, None))], repr="C"), S("T", [F("id", "u32"), F("inner", "Inner"), F("tail", "u32")], repr="C")],
        [S("Inner", [F("a", "u32"), F("g", "u32", ver=(0, 1), removed="AbiRemoved"), F("b", "u32", ver=(1, None))], repr="C"),
         S("T", [F("id", "u32"), F("inner", "Inner"), F("tail", "u32")], repr="C")],
    ]))
    return fams


def random_types(seed, n):
    """`n` random derived types (thorough tier): random field types, representations, version attributes"""
    rnd = random.Random(seed)
    PRIMS = ["u8", "i8", "u16", "i16", "u32", "i32", "u64", "i64", "u128", "f32", "bool", "char", "usize"]
    # (no Result, no Box: their recorded findings D16 / D24 would resurface under every containing type's name)
    LEAF = PRIMS + ["String", "Vec<u8>", "Vec<u32>", "Option<u16>", "[u8; 3]", "[u32; 2]", "(u8, u32)",
                    "std::collections::BTreeMap<u8, u16>", "Vec<String>", "Option<String>", "Vec<(u8, u16)>"]
    made = []
    out = []

    def dval(ty):
        if ty in ("bool",):
            return rnd.choice(["true", "false"])
        if ty == "char":
            return "x"
        if ty.startswith("f"):
            return "1.5"
        return str(rnd.randrange(0, 120))

    def versioned_field(name, latest, allow_closed_plain):
        ty = rnd.choice(PRIMS)
        kinds = ["added", "added", "removed", "abiremoved"]
        if latest >= 2:
            kinds += ["twosided_rem", "twosided_abi"]
        if allow_closed_plain:
            kinds += ["closed_plain"] + (["twosided_plain"] if latest >= 2 else [])
        k = rnd.choice(kinds)
        if k == "added":
            f = F(name, ty, ver=(rnd.randrange(1, latest + 1), None))
            if rnd.random() < 0.5:
                f.default_val = dval(ty)
            return f, False
        if k == "removed":
            return F(name, ty, ver=(0, rnd.randrange(0, latest)), removed="Removed"), False
        if k == "abiremoved":
            return F(name, ty, ver=(0, rnd.randrange(0, latest)), removed="AbiRemoved"), False
        if k in ("twosided_rem", "twosided_abi"):
            lo = rnd.randrange(1, latest)
            hi = rnd.randrange(lo, latest)
            return F(name, ty, ver=(lo, hi), removed="Removed" if k == "twosided_rem" else "AbiRemoved"), False
        if k == "closed_plain":
            return F(name, ty, ver=(0, rnd.randrange(0, latest))), True
        lo = rnd.randrange(1, latest)
        return F(name, ty, ver=(lo, rnd.randrange(lo, latest))), True

    def plain_type():
        if made and rnd.random() < 0.25:
            return rnd.choice(made)
        return rnd.choice(LEAF)

    for k in range(n):
        name = "Rnd%d_%d" % (seed % 100000, k)
        latest = rnd.choice([0, 0, 1, 2, 3])
        lossy = False
        conts = tuple(c for c in ("vec", "opt", "arr", "boxs") if rnd.random() < 0.4)
        if rnd.random() < 0.6:
            nf = rnd.randrange(1, 6)
            fields = []
            for i in range(nf):
                if latest > 0 and rnd.random() < 0.45:
                    f, l = versioned_field("f%d" % i, latest, True)
                    lossy = lossy or l
                elif rnd.random() < 0.08:
                    ty = rnd.choice(PRIMS)
                    f = F("f%d" % i, ty, ignore=True)
                    if rnd.random() < 0.5:
                        f.default_val = dval(ty)
                    lossy = True
                else:
                    f = F("f%d" % i, plain_type())
                fields.append(f)
            rep = rnd.choice([None, None, "C", "C"])
            if nf == 1 and latest == 0 and rnd.random() < 0.2:
                rep = "transparent"
            kind = "named" if rnd.random() < 0.8 else "tuple"
            if kind == "tuple":
                for i, f in enumerate(fields):
                    f.name = str(i)
            t = S(name, fields, repr=rep, kind=kind, versions=tuple(range(latest + 1)), tags=("ignore", "random") if lossy else ("random",), containers=conts)
        else:
            nv = rnd.randrange(1, 6)
            rep = rnd.choice([None, None, "u8", "u16", "u32", "C", "u8, C"])
            variants = []
            all_unit = True
            for v in range(nv):
                vk = rnd.choice(["unit", "tuple", "named"])
                vfields = []
                if vk != "unit":
                    all_unit = False
                    for i in range(rnd.randrange(1, 4)):
                        if latest > 0 and rnd.random() < 0.3:
                            f, l = versioned_field(("x%d" % i) if vk == "tuple" else ("g%d" % i), latest, False)
                            if f.removed and rnd.random() < 0.5:
                                # removed fields in enum variants are rarer in practice; keep some
                                pass
                        else:
                            f = F(("x%d" % i) if vk == "tuple" else ("g%d" % i), plain_type())
                        vfields.append(f)
                vver = None
                if latest > 0 and v > 0 and rnd.random() < 0.3:
                    vver = (rnd.randrange(1, latest + 1), None)
                variants.append(Vr("V%d" % v, vfields, kind=(vk if vfields else None), ver=vver))
            # versions of variants must not decrease the index order of presence: later variants may be newer
            lo_seen = 0
            for vr in variants:
                if vr.ver is not None:
                    lo_seen = max(lo_seen, vr.ver[0])
                    vr.ver = (lo_seen, None)
                elif lo_seen > 0:
                    vr.ver = (lo_seen, None)
            # an integer-repr enum mixing unit and field variants is the recorded finding D2 under a new name:
            # keep the shape out of the random zoo (drop the repr, or give every unit variant one field)
            has_unit = any(not vr.fields for vr in variants)
            if rep in ("u8", "u16", "u32", "u8, C") and has_unit and not all_unit:
                if rnd.random() < 0.5:
                    rep = None
                else:
                    for vr in variants:
                        if not vr.fields:
                            vr.fields = [F("x0", rnd.choice(["u8", "i8"]))]
                            vr.kind = "tuple"
            if all_unit and rep == "u8, C":
                rep = "u8"      # repr(u8, C) on a fieldless enum is rejected by rustc
            if all_unit and rnd.random() < 0.3:
                d = rnd.randrange(0, 5)
                for vr in variants:
                    vr.discr = d
                    d += rnd.randrange(1, 4)
                tags = ("explicit-discr", "random")
            else:
                tags = ("random",)
            t = E(name, variants, repr=rep, versions=tuple(range(latest + 1)), tags=tags, containers=conts)
        out.append(t)
        if latest == 0 and not lossy:
            made.append(name)
    return out


PLUGIN_TOML = """[package]
name = "sfv-plugin-v%d"
version = "0.1.0"
edition = "2021"

[lib]
crate-type = ["cdylib"]

[dependencies]
savefile = { path = "/repo/savefile" }
savefile-derive = { path = "/repo/savefile-derive" }
savefile-abi = { path = "/repo/savefile-abi" }
sfv-harness = { path = "../.." }
"""


def write_if_changed(path, text):
    old = open(path).read() if os.path.exists(path) else None
    if old != text:
        os.makedirs(os.path.dirname(path), exist_ok=True)
        with open(path, "w") as f:
            f.write(text)


def write_plugins(plugins):
    """one cdylib per version index: the implementations of every family interface at that version,
    exported with `savefile_abi_export!` (the implementing type has to be local to the exporting crate)"""
    root = os.path.join(HERE, "..", "harness", "plugins")
    for k, fams in sorted(plugins.items()):
        src = ["//! generated by tools/genzoo.py: implementations of the family interfaces at version %d, as a shared library" % k,
               "#![allow(non_snake_case, non_camel_case_types, unused_imports)]",
               "use savefile_derive::savefile_abi_export;", ""]
        for fam in fams:
            m = "sfv_harness::zoo_gen::%s_v%d" % (fam, k)
            src += ["#[derive(Default)]", "pub struct P%s(%s::Impl);" % (fam, m),
                    "use %s::I%s;" % (m, fam),
                    "impl I%s for P%s {" % (fam, fam),
                    "    fn echo(&self, a: %s::T, b: &%s::T, seed: u64) -> %s::T { self.0.echo(a, b, seed) }" % (m, m, m),
                    "    fn twice(&self, a: &%s::T, b: %s::T) -> (%s::T, %s::T) { self.0.twice(a, b) }" % (m, m, m, m),
                    "    fn with_cb(&self, a: %s::T, cb: &dyn Fn(%s::T) -> %s::T) -> %s::T { self.0.with_cb(a, cb) }" % (m, m, m, m),
                    "    fn later(&self, a: %s::T) -> std::pin::Pin<Box<dyn std::future::Future<Output = %s::T>>> { self.0.later(a) }" % (m, m)]
            if k >= 1:
                src += ["    fn added_v1(&self, x: u32) -> u32 { self.0.added_v1(x) }"]
            src += ["}", "savefile_abi_export!(P%s, I%s);" % (fam, fam), ""]
        if k == 0:
            # an implementation whose constructor creates a connection of its own (C16: nested creation)
            src += ["#[derive(Default)]", "pub struct PNest(sfv_harness::abitraits::NestImpl);",
                    "use sfv_harness::abitraits::Nest;",
                    "impl Nest for PNest {", "    fn ping(&self, x: u32) -> u32 { self.0.ping(x) }", "}",
                    "savefile_abi_export!(PNest, Nest);", ""]
        src += ["/// what the implementation observed during the last call on this thread (the library has its own copy of the harness statics)",
                "#[no_mangle]",
                "pub extern \"C\" fn sfv_take_observed(buf: *mut u8, cap: usize) -> usize {",
                "    sfv_harness::abicall::export_observed(buf, cap)",
                "}", ""]
        write_if_changed(os.path.join(root, "v%d" % k, "src", "lib.rs"), "\n".join(src))
        write_if_changed(os.path.join(root, "v%d" % k, "Cargo.toml"), PLUGIN_TOML % k)


def main():
    g = Gen()
    extra = []
    if len(sys.argv) >= 4 and sys.argv[2] == "random":
        extra = random_types(int(sys.argv[3]), int(sys.argv[4]) if len(sys.argv) > 4 else 40)
    for t in curated() + extra:
        g.emit_item(t)
        g.register(t.name, t.name, t)
    plugins = {}   # version index -> families with an interface at that version
    downgradable = {"FamAdd", "FamAbiRemove", "FamNested", "FamAddPacked", "FamAbiNested", "FamAllRetired", "FamNestedPacked"}
    for fam, versions in families():
        nver = len(versions)
        for k, items in enumerate(versions):
            mod = "%s_v%d" % (fam, k)
            g.w("#[allow(non_snake_case)] pub mod %s {" % mod)
            g.w("use super::*;")
            for t in items:
                t.versions = list(range(0, k + 1))
                t.containers = (("vec", "arr") if fam == "FamAllRetired" else ("vec",)) if t.name == "T" else ()
                if fam in downgradable:
                    t.tags = list(t.tags) + ["downgradable"]
                g.emit_item(t, prefix=mod + "_")
                if t.name == "T":
                    g.register("%s::%s" % (mod, t.name), "%s_%s" % (mod, t.name), t, family=(fam, k))
            if fam in downgradable:
                # the same interface at this version of the family, and an implementation that reports what it saw
                g.w("#[savefile_abi_exportable(version = %d)]" % k)
                g.w("pub trait I%s {" % fam)
                g.w("    fn echo(&self, a: T, b: &T, seed: u64) -> T;")
                g.w("    fn twice(&self, a: &T, b: T) -> (T, T);")
                g.w("    fn with_cb(&self, a: T, cb: &dyn Fn(T) -> T) -> T;")
                g.w("    fn later(&self, a: T) -> std::pin::Pin<Box<dyn std::future::Future<Output = T>>>;")
                if k >= 1:
                    g.w("    fn added_v1(&self, x: u32) -> u32;")
                g.w("}")
                g.w("#[derive(Default)]")
                g.w("pub struct Impl;")
                g.w("impl I%s for Impl {" % fam)
                g.w("    fn echo(&self, a: T, b: &T, seed: u64) -> T {")
                g.w("        let mut r = Rng::new(seed);")
                g.w("        let ret = T::gen(&mut r, 6);")
                g.w("        crate::abicall::observe(vec![a.sx(true), b.sx(true)], vec![ret.sx(false)]);")
                g.w("        ret")
                g.w("    }")
                g.w("    fn twice(&self, a: &T, b: T) -> (T, T) {")
                g.w("        let mut r = Rng::new(7);")
                g.w("        let r1 = T::gen(&mut r, 4);")
                g.w("        let r2 = T::gen(&mut r, 9);")
                g.w("        crate::abicall::observe(vec![a.sx(true), b.sx(true)], vec![r1.sx(false), r2.sx(false)]);")
                g.w("        (r1, r2)")
                g.w("    }")
                # values travel in both directions through a closure: the closure's argument is made here, its
                # return value by the caller
                g.w("    fn with_cb(&self, a: T, cb: &dyn Fn(T) -> T) -> T {")
                g.w("        let mut r = Rng::new(11);")
                g.w("        let x = T::gen(&mut r, 5);")
                g.w("        let ret = T::gen(&mut r, 7);")
                g.w("        let x_sx = x.sx(false);")
                g.w("        let y = cb(x);")
                g.w("        crate::abicall::observe(vec![a.sx(true), y.sx(true)], vec![x_sx, ret.sx(false)]);")
                g.w("        ret")
                g.w("    }")
                g.w("    fn later(&self, a: T) -> std::pin::Pin<Box<dyn std::future::Future<Output = T>>> { Box::pin(async move { a }) }")
                if k >= 1:
                    g.w("    fn added_v1(&self, x: u32) -> u32 { x.wrapping_add(1) }")
                g.w("}")
                g.ledger_chains.setdefault(fam, []).append(
                    '|dir| savefile_abi::verify_compatiblity::<dyn %s::I%s>(dir).map_err(|e| crate::suite::err_class(&e))' % (mod, fam))
                plugins.setdefault(k, []).append(fam)
            g.w("}")
        for i in range(nver):
            for j in range(i + 1, nver):
                g.io_pairs.append('    v.push(("%s", %d, %d, |r, n| crate::iofault::xver_read_case::<%s_v%d::T, %s_v%d::T>("%s", %d, %d, r, n)));'
                                  % (fam, i, j, fam, i, fam, j, fam, i, j))
        if fam in downgradable:
            for i in range(nver):
                for j in range(nver):
                    mi, mj = "%s_v%d" % (fam, i), "%s_v%d" % (fam, j)
                    iface = "I" + fam
                    added = ("Some(|c, x| %s::%s::added_v1(c, x))" % (mi, iface)) if i >= 1 else "None"
                    g.pairs.append(
                        '    v.push(AbiPair { fam: "%s", i: %d, j: %d, run: |r| crate::abicall::run_pair::<dyn %s::%s, %s::T, %s::T>("%s", %d, %d, '
                        '|| unsafe { savefile_abi::AbiConnection::<dyn %s::%s>::from_boxed_trait_for_test(<dyn %s::%s as savefile_abi::AbiExportable>::ABI_ENTRY, Box::new(%s::Impl) as Box<dyn %s::%s>) }, '
                        '|c, a, b, s| %s::%s::echo(c, a, b, s), |c, a, b| %s::%s::twice(c, a, b), |c, a, cb| %s::%s::with_cb(c, a, cb), %s, r) });'
                        % (fam, i, j, mi, iface, mi, mj, fam, i, j, mi, iface, mj, iface, mj, mj, iface, mi, iface, mi, iface, mi, iface, added))
                    # the same pair with the implementation in a separately linked shared library
                    g.plugin_pairs.append(
                        '    v.push(AbiPair { fam: "%s", i: %d, j: %d, run: |r| crate::abicall::run_pair::<dyn %s::%s, %s::T, %s::T>("%s", %d, %d, '
                        '|| savefile_abi::AbiConnection::<dyn %s::%s>::load_shared_library(&crate::abicall::plugin_path(%d)), '
                        '|c, a, b, s| %s::%s::echo(c, a, b, s), |c, a, b| %s::%s::twice(c, a, b), |c, a, cb| %s::%s::with_cb(c, a, cb), %s, r) });'
                        % (fam, i, j, mi, iface, mi, mj, fam, i, j, mi, iface, j, mi, iface, mi, iface, mi, iface, added))
    write_plugins(plugins)
    src = g.finish(lib_entries())
    old = open(OUT).read() if os.path.exists(OUT) else None
    if old != src:
        with open(OUT, "w") as f:
            f.write(src)
    print("wrote" if old != src else "unchanged", OUT, len(src), "bytes;", len(g.reg) + len(LIB), "registry entries")


if __name__ == "__main__":
    main()
