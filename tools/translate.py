#!/usr/bin/env python3
"""translate.py — regenerate lean/Sfv/Generated/Tables.lean from the *current* Rust source.

Items are found by name with brace matching (never by line number), so the translator is
insensitive to formatting and to code moving around.  When an item cannot be found the table
is emitted as `none`/empty and the obligations that mention it fail to check.

Tables (ids as in DESIGN.md §4.1):
 T1 header constants           T2 writer/reader method → (width, little endian)
 T3 prim → writer/reader method T4 prim → Packed yes/no
 T8 io::ErrorKind ↔ u16         T10 limits and magic numbers
 T6 Schema / SchemaPrimitive tag tables
"""
import os, re, sys

REPO = os.environ.get("SFV_REPO", "/repo")
HERE = os.path.dirname(os.path.abspath(__file__))
OUT = os.path.join(HERE, "..", "lean", "Sfv", "Generated", "Tables.lean")


def strip_comments(src):
    out = []
    i, n = 0, len(src)
    while i < n:
        c = src[i]
        if src.startswith("//", i):
            j = src.find("\n", i)
            i = n if j < 0 else j
        elif src.startswith("/*", i):
            depth, i = 1, i + 2
            while i < n and depth:
                if src.startswith("/*", i):
                    depth += 1; i += 2
                elif src.startswith("*/", i):
                    depth -= 1; i += 2
                else:
                    i += 1
        elif c == '"':
            j = i + 1
            while j < n and src[j] != '"':
                j += 2 if src[j] == "\\" else 1
            out.append(src[i:j + 1]); i = j + 1
        elif c == "'" and i + 2 < n and (src[i + 2] == "'" or (src[i + 1] == "\\" and src.find("'", i + 2) - i <= 8)):
            j = src.find("'", i + 2)
            out.append(src[i:j + 1]); i = j + 1
        else:
            out.append(c); i += 1
    return "".join(out)


def block_after(src, pos):
    """text of the {...} block starting at the first '{' at or after pos"""
    i = src.find("{", pos)
    if i < 0:
        return None
    depth, j, in_str = 0, i, False
    while j < len(src):
        c = src[j]
        if in_str:
            if c == "\\":
                j += 1
            elif c == '"':
                in_str = False
        elif c == '"':
            in_str = True
        elif c == "{":
            depth += 1
        elif c == "}":
            depth -= 1
            if depth == 0:
                return src[i:j + 1]
        j += 1
    return None


def find_item(src, pattern):
    m = re.search(pattern, src)
    if not m:
        return None
    return block_after(src, m.end() - 1 if src[m.end() - 1] == "{" else m.end())


def find_fn(src, name):
    m = re.search(r"\bfn\s+%s\s*(<[^>{]*>)?\s*\(" % re.escape(name), src)
    if not m:
        return None
    return block_after(src, m.end())



def match_arms(fn_src, scrutinee_re):
    """patterns (text before `=>`) of the top-level arms of the first `match <scrutinee> {` in fn_src"""
    m = re.search(r"match\s*" + scrutinee_re + r"\s*\{", fn_src)
    if not m:
        return None
    body = block_after(fn_src, m.end() - 1)
    if body is None:
        return None
    body = body[1:-1]
    arms, depth, cur, i = [], 0, "", 0
    while i < len(body):
        c = body[i]
        if c in "([{":
            depth += 1
        elif c in ")]}":
            depth -= 1
        if depth == 0 and body.startswith("=>", i):
            arms.append(cur.strip().lstrip(",").strip())
            # skip the arm's expression: up to the next top-level `,` or the end of a top-level block
            i += 2
            while i < len(body) and body[i].isspace():
                i += 1
            if i < len(body) and body[i] == "{":
                blk = block_after(body, i)
                i += len(blk) if blk else 1
            else:
                d = 0
                while i < len(body):
                    if body[i] in "([{":
                        d += 1
                    elif body[i] in ")]}":
                        d -= 1
                    elif body[i] == "," and d == 0:
                        break
                    i += 1
            cur = ""
            continue
        cur += c
        i += 1
    return arms


def schema_pair_arms(fn_src, scrutinee_re):
    """(kind, kind) for every alternative of every arm that matches two `Schema::Kind` patterns; an arm whose
    alternatives cannot be read as such pairs (nested or-patterns, guards) contributes ("?", text)"""
    arms = match_arms(fn_src, scrutinee_re)
    if arms is None:
        return None
    out = []
    for a in arms:
        if a.strip() in ("_", "(_, _)"):
            continue
        # split on top-level `|`
        alts, depth, cur = [], 0, ""
        for c in a:
            if c in "([{":
                depth += 1
            elif c in ")]}":
                depth -= 1
            if c == "|" and depth == 0:
                alts.append(cur)
                cur = ""
            else:
                cur += c
        alts.append(cur)
        for alt in alts:
            alt = " ".join(alt.split())
            if re.fullmatch(r"\(\s*\w+\s*,\s*\w+\s*\)", alt):
                continue   # catch-all binding both sides
            m = re.fullmatch(r"\(\s*Schema::(\w+)(?:\([^()|]*\))?\s*,\s*Schema::(\w+)(?:\([^()|]*\))?\s*\)", alt)
            if m:
                out.append((m.group(1), m.group(2)))
            else:
                out.append(("?", alt[:60]))
    return sorted(out)


def lean_str(s):
    return '"' + s.replace("\\", "\\\\").replace('"', '\\"') + '"'


def lean_list(items):
    return "[" + ", ".join(items) + "]"


def main():
    lib = strip_comments(open(os.path.join(REPO, "savefile/src/lib.rs")).read())
    L = []
    w = L.append
    w("/- @generated by tools/translate.py from the current Rust source — do not edit -/")
    w("namespace Sfv.Generated")
    w("")

    # ---- T1 header
    m = re.search(r"pub\s+const\s+CURRENT_SAVEFILE_LIB_VERSION\s*:\s*u16\s*=\s*(\d+)\s*;", lib)
    w("def currentLibVersion : Option Nat := %s" % ("some %s" % m.group(1) if m else "none"))
    save_impl = find_fn(lib, "save_impl") or ""
    load_impl = find_fn(lib, "load_impl") or ""
    m = re.search(r'let\s+header\s*=\s*"((?:[^"\\]|\\.)*)"', save_impl)
    magic_w = m.group(1) if m else None
    m = re.search(r'head\[\.\.\]\s*!=\s*\(\s*"((?:[^"\\]|\\.)*)"', load_impl)
    magic_r = m.group(1) if m else None

    def magic_bytes(s):
        if s is None:
            return "none"
        b = s.encode().decode("unicode_escape").encode("latin1")
        return "some " + lean_list(str(x) for x in b)

    w("def magicWritten : Option (List Nat) := %s" % magic_bytes(magic_w))
    w("def magicExpected : Option (List Nat) := %s" % magic_bytes(magic_r))
    # header field order in save_impl: sequence of writer.write_* calls before the payload
    hdr_w = re.findall(r"writer\s*\.\s*(write_all|write_u16|write_u32|write_u8)\s*(?:::<\s*(\w+)\s*>)?\s*\(", save_impl)
    w("def headerWrites : List (String × String) := %s" % lean_list("(%s, %s)" % (lean_str(a), lean_str(b)) for a, b in hdr_w[:5]))
    hdr_r = re.findall(r"reader\s*\.\s*(read_exact|read_u16|read_u32|read_u8)\s*(?:::<\s*(\w+)\s*>)?\s*\(", load_impl)
    w("def headerReads : List (String × String) := %s" % lean_list("(%s, %s)" % (lean_str(a), lean_str(b)) for a, b in hdr_r[:4]))
    w("def loadRejectsNewerLib : Bool := %s" % ("true" if re.search(r"savefile_lib_version\s*>\s*CURRENT_SAVEFILE_LIB_VERSION", load_impl) else "false"))
    w("def loadRejectsNewerData : Bool := %s" % ("true" if re.search(r"file_ver\s*>\s*version", load_impl) else "false"))
    w("")

    # ---- T2 writer / reader methods
    width_of = {"u8": 1, "i8": 1, "u16": 2, "i16": 2, "u32": 4, "i32": 4, "u64": 8, "i64": 8, "u128": 16, "i128": 16, "f32": 4, "f64": 8}
    writers, readers = [], []
    for name in ["bool", "u8", "i8", "u16", "i16", "u32", "i32", "u64", "i64", "u128", "i128", "f32", "f64", "usize", "isize"]:
        body = find_fn(lib, "write_" + name)
        if body:
            m = re.search(r"writer\s*\.\s*write_(\w+?)\s*(?:::<\s*(\w+)\s*>)?\s*\(", body)
            if m and m.group(1) == "all":
                # write_all(&[v]) — a single byte
                writers.append((name, 1, "LittleEndian"))
            elif m and m.group(1) in width_of:
                writers.append((name, width_of[m.group(1)], m.group(2) or "LittleEndian" if width_of[m.group(1)] > 1 else "LittleEndian"))
            else:
                writers.append((name, 0, "?"))
        body = find_fn(lib, "read_" + name)
        if body:
            m = re.search(r"reader\s*\.\s*read_(\w+?)\s*(?:::<\s*(\w+)\s*>)?\s*\(", body)
            if m and m.group(1) == "exact":
                readers.append((name, 1, "LittleEndian"))
            elif m and m.group(1) in width_of:
                readers.append((name, width_of[m.group(1)], m.group(2) or "LittleEndian"))
            else:
                readers.append((name, 0, "?"))
    fmt = lambda t: "(%s, %d, %s)" % (lean_str(t[0]), t[1], lean_str(t[2]))
    w("def writerMethods : List (String × Nat × String) := %s" % lean_list(map(fmt, writers)))
    w("def readerMethods : List (String × Nat × String) := %s" % lean_list(map(fmt, readers)))
    rb = find_fn(lib, "read_bool") or ""
    w("def readBoolIsEqOne : Bool := %s" % ("true" if re.search(r"==\s*1", rb) else "false"))
    wb = find_fn(lib, "write_bool") or ""
    w("def writeBoolOneZero : Bool := %s" % ("true" if re.search(r"if\s+v\s*\{\s*1\s*\}\s*else\s*\{\s*0\s*\}", wb) else "false"))
    w("")

    # ---- T3 prim → method used
    prims = ["u8", "i8", "u16", "i16", "u32", "i32", "u64", "i64", "u128", "i128", "f32", "f64", "bool", "usize", "isize", "char"]
    ser, de = [], []
    for p in prims:
        b = find_item(lib, r"impl\s+Serialize\s+for\s+%s\s*\{" % p)
        m = re.search(r"serializer\s*\.\s*write_(\w+)\s*\(", b or "")
        ser.append((p, m.group(1) if m else "?"))
        b = find_item(lib, r"impl\s+Deserialize\s+for\s+%s\s*\{" % p)
        m = re.search(r"deserializer\s*\.\s*read_(\w+)\s*\(", b or "")
        de.append((p, m.group(1) if m else "?"))
    fmt2 = lambda t: "(%s, %s)" % (lean_str(t[0]), lean_str(t[1]))
    w("def primSerializeVia : List (String × String) := %s" % lean_list(map(fmt2, ser)))
    w("def primDeserializeVia : List (String × String) := %s" % lean_list(map(fmt2, de)))
    w("")

    # ---- T4 Packed table
    packed = []
    for p in prims + ["()"]:
        pat = r"impl\s+Packed\s+for\s+%s\s*\{" % re.escape(p)
        b = find_item(lib, pat)
        if b is None:
            packed.append((p, "missing"))
        elif "IsPacked::yes()" in b:
            packed.append((p, "yes"))
        else:
            packed.append((p, "no"))
    w("def primPacked : List (String × String) := %s" % lean_list(map(fmt2, packed)))
    w("")

    # ---- T8 ErrorKind
    b = find_item(lib, r"impl\s+Serialize\s+for\s+std::io::Error\s*\{") or ""
    kinds_w = re.findall(r"ErrorKind::(\w+)\s*=>\s*(\d+)", b)
    m = re.search(r"_\s*=>\s*(\d+)", b)
    other_w = m.group(1) if m else "0"
    b = find_item(lib, r"impl\s+Deserialize\s+for\s+std::io::Error\s*\{") or ""
    kinds_r = re.findall(r"(\d+)\s*=>\s*ErrorKind::(\w+)", b)
    w("def errorKindWrite : List (String × Nat) := %s" % lean_list("(%s, %s)" % (lean_str(k), v) for k, v in kinds_w))
    w("def errorKindWriteOther : Nat := %s" % other_w)
    w("def errorKindRead : List (Nat × String) := %s" % lean_list("(%s, %s)" % (v, lean_str(k)) for v, k in kinds_r))
    w("")

    # ---- T10 limits
    rs = find_fn(lib, "read_string") or ""
    m = re.search(r"if\s+l\s*>\s*([\d_]+)", rs)
    w("def stringSanityLimit : Option Nat := %s" % ("some %s" % m.group(1).replace("_", "") if m else "none"))
    rv = find_fn(lib, "regular_deserialize_vec") or ""
    m = re.search(r"if\s+l\s*>\s*([\d_]+)", rv)
    w("def vecSanityLimit : Option Nat := %s" % ("some %s" % m.group(1).replace("_", "") if m else "none"))
    m = re.search(r"const\s+CRYPTO_BUFSIZE\s*:\s*usize\s*=\s*([\d_]+)", lib)
    w("def cryptoBufSize : Option Nat := %s" % ("some %s" % m.group(1).replace("_", "") if m else "none"))
    b = find_item(lib, r"impl\s+Serialize\s+for\s+Canary1\s*\{") or ""
    m = re.search(r"write_u32\s*\(\s*(0x[0-9a-fA-F]+|\d+)", b)
    w("def canaryWritten : Option Nat := %s" % ("some %d" % int(m.group(1), 0) if m else "none"))
    b = find_item(lib, r"impl\s+Deserialize\s+for\s+Canary1\s*\{") or ""
    m = re.search(r"magic\s*!=\s*(0x[0-9a-fA-F]+|\d+)", b)
    w("def canaryExpected : Option Nat := %s" % ("some %d" % int(m.group(1), 0) if m else "none"))
    # option / result tags
    b = find_item(lib, r"impl<T:\s*Serialize>\s*Serialize\s+for\s+Option<T>\s*\{") or ""
    some_tag = re.search(r"Some\([^)]*\)\s*=>\s*\{\s*serializer\.write_bool\((true|false)\)", b)
    none_tag = re.search(r"None\s*=>\s*serializer\.write_bool\((true|false)\)", b)
    w("def optionSomeTag : Option Bool := %s" % ("some " + some_tag.group(1) if some_tag else "none"))
    w("def optionNoneTag : Option Bool := %s" % ("some " + none_tag.group(1) if none_tag else "none"))
    b = find_item(lib, r"impl<T:\s*Serialize,\s*R:\s*Serialize>\s*Serialize\s+for\s+Result<T,\s*R>\s*\{") or ""
    ok_tag = re.search(r"Ok\(x\)\s*=>\s*\{\s*serializer\.write_bool\((true|false)\)", b)
    err_tag = re.search(r"Err\(x\)\s*=>\s*\{\s*serializer\.write_bool\((true|false)\)", b)
    w("def resultOkTag : Option Bool := %s" % ("some " + ok_tag.group(1) if ok_tag else "none"))
    w("def resultErrTag : Option Bool := %s" % ("some " + err_tag.group(1) if err_tag else "none"))
    # derive: discriminant width rule and variant index as discriminant
    dlib = strip_comments(open(os.path.join(REPO, "savefile-derive/src/lib.rs")).read())
    ges = find_fn(dlib, "get_enum_size") or ""
    m1 = re.search(r"actual_variants\s*<=\s*(\d+)\s*\{\s*1\s*\}", ges)
    m2 = re.search(r"actual_variants\s*<=\s*(\d+)\s*\{\s*2\s*\}", ges)
    w("def enumTagLimits : List Nat := %s" % lean_list([m1.group(1) if m1 else "0", m2.group(1) if m2 else "0"]))
    reprs = re.findall(r'"(u8|i8|u16|i16|u32|i32)"\s*=>\s*\{\s*size_u8\s*=\s*Some\((\d+)\)', ges)
    w("def enumReprWidths : List (String × Nat) := %s" % lean_list("(%s, %s)" % (lean_str(a), b) for a, b in reprs))
    w("")

    # ---- T6 schema tags (Schema::serialize arms: `Schema::X(..) => { serializer.write_u8(N)`)
    b = find_item(lib, r"impl\s+Serialize\s+for\s+Schema\s*\{") or ""
    tags_w = re.findall(r"Schema::(\w+)\s*(?:\([^)]*\)|\{[^}]*\})?\s*=>\s*\{?\s*serializer\.write_u8\((\d+)\)", b)
    w("def schemaTagsWritten : List (String × Nat) := %s" % lean_list("(%s, %s)" % (lean_str(k), v) for k, v in tags_w))
    b = find_item(lib, r"impl\s+Deserialize\s+for\s+Schema\s*\{") or ""
    tags_r = re.findall(r"(\d+)\s*=>\s*\{?\s*(?:Ok\()?\s*Schema::(\w+)", b)
    w("def schemaTagsRead : List (Nat × String) := %s" % lean_list("(%s, %s)" % (v, lean_str(k)) for v, k in tags_r))
    b = find_item(lib, r"impl\s+Serialize\s+for\s+SchemaPrimitive\s*\{") or ""
    ptags_w = re.findall(r"SchemaPrimitive::(\w+)\s*(?:\([^)]*\))?\s*=>\s*(\d+)", b)
    w("def schemaPrimTagsWritten : List (String × Nat) := %s" % lean_list("(%s, %s)" % (lean_str(k), v) for k, v in ptags_w))
    b = find_item(lib, r"impl\s+Deserialize\s+for\s+SchemaPrimitive\s*\{") or ""
    ptags_r = re.findall(r"(\d+)\s*=>\s*SchemaPrimitive::(\w+)", b)
    w("def schemaPrimTagsRead : List (Nat × String) := %s" % lean_list("(%s, %s)" % (v, lean_str(k)) for v, k in ptags_r))
    # ---- which pairs of schema kinds the comparison functions treat together (every other pair: "different")
    for lean_name, fn_name, scrut in (("diffSchemaArms", "diff_schema", r"\(\s*a\s*,\s*b\s*\)"),
                                      ("layoutCompatibleArms", "layout_compatible", r"\(\s*self\s*,\s*b_native\s*\)")):
        src = None
        for mm in re.finditer(r"\bfn\s+%s\s*\(" % fn_name, lib):
            cand = block_after(lib, mm.end())
            if cand and re.search(r"match\s*" + scrut, cand) and "Schema::Struct" in cand:
                src = cand
                break
        arms = schema_pair_arms(src, scrut) if src else None
        w("def %s : Option (List (String × String)) := %s" % (lean_name, "none" if arms is None else "some " + lean_list("(%s, %s)" % (lean_str(a), lean_str(b)) for a, b in arms)))
    w("")
    w("end Sfv.Generated")
    text = "\n".join(L) + "\n"
    os.makedirs(os.path.dirname(OUT), exist_ok=True)
    old = open(OUT).read() if os.path.exists(OUT) else None
    if old != text:
        open(OUT, "w").write(text)
    print("translate: wrote %s (%d lines)%s" % (os.path.relpath(OUT), len(L), "" if old != text else " [unchanged]"))


# ---------------------------------------------------------------------------------------------
# T12: the library's `Introspect` impls, each classified by how it serves children and how it counts them

OUT_INTRO = os.path.join(HERE, "..", "lean", "Sfv", "Generated", "Introspect.lean")


def fn_body(block, name):
    m = re.search(r"\bfn\s+%s\s*(<[^>{]*>)?\s*\(" % re.escape(name), block)
    if not m:
        return None
    b = block_after(block, m.end())
    return re.sub(r"\s+", " ", b[1:-1]).strip() if b else None


def classify_child(b):
    if b is None:
        return "unknown"
    if re.fullmatch(r"(return )?None;?", b):
        return "none"
    if "index / 2" in b and "index % 2" in b and re.search(r"(nth|get_index)\(bucket\)", b) and b.count("Some(") == 3:
        return "pairs"
    if re.fullmatch(r"if let Some\(\(?(\w+)(, \w+\))?\) = self\.(iter\(\)\.nth|get|get_index)\(index\) \{ Some\(introspect_item\([^;]*\)\) \} else \{ None \}", b) and b.count("Some(") == 2:
        return "nth"
    if re.fullmatch(r"if index >= self\.len\(\) \{ (return )?None;? \}( else \{)? (return )?Some\((introspect_item\(|Box::new\(IntrospectItemSimple \{)[^;]*\)\)?;?( \})?", b):
        return "nth"
    # `if index == 0 { return Some(..) } if index == 1 {..} … return None`
    parts = re.findall(r"if index == (\d+) \{ return Some\(introspect_item\([^;{}]*\)\);? \}", b)
    if parts and re.fullmatch(r"(if index == \d+ \{ return Some\(introspect_item\([^;{}]*\)\);? \} )+return None;?", b) \
            and [int(x) for x in parts] == list(range(len(parts))):
        return "consts %d" % len(parts)
    if re.fullmatch(r"if index == 0 \{ Some\(Box::new\(\w+ \{ g: self\.\w+\(\)(\.unwrap\(\))? \}\)\) \} else \{ None \}", b):
        return "consts 1"
    if re.fullmatch(r"match self\.lock\(\) \{ Ok\(item\) => \{ if index == 0 \{ Some\(Box::new\(\w+ \{ g: item \}\)\) \} else \{ None \} \} Err\(_\) => None, \}", b):
        return "atMost 1"
    if re.fullmatch(r"if index != 0 \{ return None; \} let rf = self\.borrow\(\); Some\(Box::new\(rf\)\)", b):
        return "consts 1"
    if re.fullmatch(r"\(\*\*self\)\.introspect_child\(index\)|self\.deref\(\)\.introspect_child\(index\)|self\.\w+\(\)\.introspect_child\(index\)", b):
        return "delegate"
    if re.fullmatch(r"match self \{ Ok\(cont\) => cont\.introspect_child\(index\), Err\(cont\) => cont\.introspect_child\(index\), \}", b):
        return "delegate"
    if re.fullmatch(r"if let Some\(cont\) = self \{ cont\.introspect_child\(index\) \} else \{ None \}", b):
        return "optDelegate"
    return "unknown"


def classify_len(b):
    if b is None:
        return "dflt"
    if b == "self.len()" or b == "N":
        return "selfLen"
    if b == "self.len() * 2":
        return "selfLen2"
    if re.fullmatch(r"\d+", b):
        return "const %s" % b
    if re.fullmatch(r"\(\*\*self\)\.introspect_len\(\)|self\.deref\(\)\.introspect_len\(\)|self\.\w+\(\)\.introspect_len\(\)", b):
        return "delegate"
    if re.fullmatch(r"match self \{ Ok\(cont\) => cont\.introspect_len\(\), Err\(cont\) => cont\.introspect_len\(\), \}", b):
        return "delegate"
    if re.fullmatch(r"if let Some\(cont\) = self \{ cont\.introspect_len\(\) \} else \{ 0 \}", b):
        return "optDelegate"
    return "unknown"


def introspect_table():
    lib = strip_comments(open(os.path.join(REPO, "savefile/src/lib.rs")).read())
    rows = []
    for m in re.finditer(r"\bimpl\b(<[^{]*?>)?\s*Introspect\s+for\s+([^{]+?)\s*(where[^{]*)?\{", lib):
        block = block_after(lib, m.end() - 1)
        if block is None:
            continue
        target = re.sub(r"\s+", " ", m.group(2)).strip()
        wh = re.sub(r"\s+", " ", m.group(3) or "").strip()
        # the cfg attribute directly above the impl (alternatives for nightly / stable)
        pre = lib[max(0, m.start() - 200):m.start()]
        cfg = re.findall(r"#\[cfg\(([^\]]*)\)\]\s*$", pre)
        name = target + (" " + wh if wh else "") + (" #" + cfg[0].replace('"', "'") if cfg else "")
        rows.append((name, classify_child(fn_body(block, "introspect_child")), classify_len(fn_body(block, "introspect_len"))))
    m = re.search(r"pub\s+const\s+MAX_CHILDREN\s*:\s*usize\s*=\s*(\d+)\s*;", lib)
    maxc = m.group(1) if m else None
    dflt = fn_body(find_item(lib, r"pub\s+trait\s+Introspect\s*\{") or "", "introspect_len")
    dflt_ok = dflt == "for child_index in 0..MAX_CHILDREN { if self.introspect_child(child_index).is_none() { return child_index; } } return MAX_CHILDREN;"
    # derive: the generated impl counts exactly the fields it serves
    dlib = strip_comments(open(os.path.join(REPO, "savefile-derive/src/lib.rs")).read())
    ii = re.sub(r"\s+", " ", find_fn(dlib, "implement_introspect") or "")
    di = re.sub(r"\s+", " ", find_fn(dlib, "savefile_derive_crate_introspect") or "")
    derive_facts = {
        # every served field gets the next consecutive index; ignored fields get none
        "consecutive": ii.count("if #index1 == #index_number { return Some(") == 3 and ii.count("index_number += 1;") == 1
                       and "let mut index_number = 0usize;" in ii and "if verinfo.introspect_ignore { continue; }" in ii
                       and ii.count("fields_names.push(") == 3,
        # struct: len = number of generated index arms
        "structLen": "let field_count = fields1.len();" in di and "fn introspect_len(&self) -> usize { #field_count }" in di
                     and "fn introspect_child(&self, index: usize) -> Option<Box<dyn #introspect_item_type+'_>> { #(#fields1;)* return None; }" in di,
        # enum: per variant, len = number of generated index arms of that variant
        "enumLen": di.count("let num_fields = fields_names3.len();") == 2 and di.count("#num_fields") == 2
                   and "len_variants.push(quote!( #name::#variant_name_spanned => 0));" in di
                   and "fn introspect_len(&self) -> usize { match self { #(#len_variants,)* } }" in di
                   and "match self { #(#variants,)* } return None;" in di,
    }
    L = ["/- @generated by tools/translate.py from the current Rust source — do not edit -/",
         "import Sfv.Model.IntrospectImpls", "namespace Sfv.Generated", "",
         "def maxChildren : Option Nat := %s" % ("some " + maxc if maxc else "none"),
         "def defaultLenIsCountUpToMax : Bool := %s" % ("true" if dflt_ok else "false"),
         "def introspectImpls : List IImpl := ["]
    for i, (n, c, l) in enumerate(rows):
        L.append("  { name := %s, child := .%s, len := .%s }%s" % (lean_str(n), c.replace(" ", " ") , l, "," if i + 1 < len(rows) else ""))
    L.append("]")
    for k, v in derive_facts.items():
        L.append("def derive_%s : Bool := %s" % (k, "true" if v else "false"))
    L += ["", "end Sfv.Generated"]
    text = "\n".join(L) + "\n"
    old = open(OUT_INTRO).read() if os.path.exists(OUT_INTRO) else None
    if old != text:
        open(OUT_INTRO, "w").write(text)
    print("translate: wrote %s (%d impls)%s" % (os.path.relpath(OUT_INTRO), len(rows), "" if old != text else " [unchanged]"))
    return rows


# ---------------------------------------------------------------------------------------------
# T13: which methods savefile calls on the underlying reader / writer (C08)

OUT_STREAM = os.path.join(HERE, "..", "lean", "Sfv", "Generated", "StreamCalls.lean")

ALLOWED_STREAM = set(["write_all", "flush", "read_exact", "try_finish", "finish"] +
                     ["%s_%s%d" % (d, t, w) for d in ("read", "write") for t in ("u", "i") for w in (8, 16, 32, 64, 128)] +
                     ["%s_f%d" % (d, w) for d in ("read", "write") for w in (32, 64)])


def enclosing(src, pos):
    """`Type::fn` of the innermost `impl … for Type` / `impl Type` and `fn` containing pos"""
    fn = None
    for m in re.finditer(r"\bfn\s+(\w+)", src[:pos]):
        fn = m.group(1)
    ty = None
    for m in re.finditer(r"\bimpl\b(?:<[^{]*?>)?\s*(?:[\w:<>', ]+?\s+for\s+)?([A-Za-z_][\w:]*)", src[:pos]):
        ty = m.group(1)
    return "%s::%s" % (ty, fn)


def stream_calls():
    lib = strip_comments(open(os.path.join(REPO, "savefile/src/lib.rs")).read())
    unknown, raw, raww = [], [], []
    for m in re.finditer(r"\b(?:self\.)?(reader|writer|compressed_writer|compressed_reader)\s*\.\s*([a-z_0-9]+)\b", lib):
        meth = m.group(2)
        if meth in ALLOWED_STREAM:
            continue
        if meth == "read" and m.group(1) == "reader":
            raw.append(enclosing(lib, m.start()))
            continue
        if meth == "write" and m.group(1) == "writer":
            raww.append(enclosing(lib, m.start()))
            continue
        unknown.append("%s.%s @ %s" % (m.group(1), meth, enclosing(lib, m.start())))
    # results of stream operations that are discarded instead of propagated
    swallowed = []
    for m in re.finditer(r"let\s+_\s*=\s*(?:self\.)?(?:reader|writer|compressed_writer)\s*\.[^;]*;|\b(?:self\.)?(?:reader|writer|compressed_writer)\s*\.\s*[a-z_0-9]+(?:::<[^>]*>)?\([^;]*\)\s*\.\s*(?:ok|unwrap_or_default|unwrap_or)\(", lib):
        swallowed.append(re.sub(r"\s+", " ", m.group(0))[:80] + " @ " + enclosing(lib, m.start()))
    L = ["/- @generated by tools/translate.py from the current Rust source — do not edit -/",
         "namespace Sfv.Generated", "",
         "def streamCallsUnknown : List String := %s" % lean_list(lean_str(x) for x in sorted(set(unknown))),
         "def rawReadSites : List String := %s" % lean_list(lean_str(x) for x in sorted(set(raw))),
         "def rawWriteSites : List String := %s" % lean_list(lean_str(x) for x in sorted(set(raww))),
         "def swallowedResults : List String := %s" % lean_list(lean_str(x) for x in swallowed),
         "", "end Sfv.Generated"]
    text = "\n".join(L) + "\n"
    old = open(OUT_STREAM).read() if os.path.exists(OUT_STREAM) else None
    if old != text:
        open(OUT_STREAM, "w").write(text)
    print("translate: wrote %s%s" % (os.path.relpath(OUT_STREAM), "" if old != text else " [unchanged]"))


# ---------------------------------------------------------------------------------------------
# T14: savefile-abi constants

OUT_ABI = os.path.join(HERE, "..", "lean", "Sfv", "Generated", "Abi.lean")


def abi_table():
    abi = strip_comments(open(os.path.join(REPO, "savefile-abi/src/lib.rs")).read())
    vc = re.sub(r"\s+", " ", find_fn(abi, "verify_compatiblity") or "")
    m1 = re.search(r"load_file_noschema\(&schema_file_name, (\d+)\)", vc)
    m2 = re.search(r"save_file_noschema\(&schema_file_name, (\d+), &def\)", vc)
    m3 = re.search(r"verify_backward_compatible\(version, &previous_schema, (true|false)\)", vc)
    ni = re.sub(r"\s+", " ", find_fn(abi, "new_internal") or "")
    eff_min = "let effective_version = own_version.min(callee_abi_version);" in ni
    aac = re.sub(r"\s+", " ", find_fn(abi, "analyze_and_create") or "")
    m4 = re.search(r"if caller_native_definition\.methods\.len\(\) > (\d+) \{ panic!", aac)
    m5 = re.search(r"if caller_native_method\.info\.arguments\.len\(\) > (\d+) \{ return Err\(SavefileError::TooManyArguments\)", aac)
    m6 = re.search(r"const FLEX_BUFFER_SIZE: usize = (\d+);", abi)
    opt = lambda m: "some %s" % m.group(1) if m else "none"
    lib = strip_comments(open(os.path.join(REPO, "savefile/src/lib.rs")).read())
    vimpl = re.sub(r"\s+", " ", find_fn(lib, "verify_compatible_with_old_impl") or "")
    m7 = re.search(r"diff_schema\( &new_method\.info\.return_value, &old_method\.info\.return_value, \"\"\.into\(\), (true|false|is_return_position), \)", vimpl)
    ret_pos = {"true": "some true", "false": "some false", "is_return_position": "none"}.get(m7.group(1) if m7 else None, "some false")
    L = ["/- @generated by tools/translate.py from the current Rust source — do not edit -/",
         "namespace Sfv.Generated", "",
         "/-- position flag passed when method return values are compared (`none`: the trait's own flag) -/",
         "def vbcReturnPosition : Option Bool := %s" % ret_pos,
         "def vbcReturnPositionFound : Bool := %s" % ("true" if m7 else "false"),
         "def ledgerLoadVersion : Option Nat := %s" % opt(m1),
         "def ledgerSaveVersion : Option Nat := %s" % opt(m2),
         "def ledgerReturnPosition : Option Bool := %s" % opt(m3),
         "def effectiveVersionIsMin : Bool := %s" % ("true" if eff_min else "false"),
         "def maxMethods : Option Nat := %s" % opt(m4),
         "def maxArguments : Option Nat := %s" % opt(m5),
         "def flexBufferSize : Option Nat := %s" % opt(m6),
         "", "end Sfv.Generated"]
    text = "\n".join(L) + "\n"
    old = open(OUT_ABI).read() if os.path.exists(OUT_ABI) else None
    if old != text:
        open(OUT_ABI, "w").write(text)
    print("translate: wrote %s%s" % (os.path.relpath(OUT_ABI), "" if old != text else " [unchanged]"))


# ---------------------------------------------------------------------------------------------
# T15: who takes which global lock, in which order (C16)

OUT_LOCKS = os.path.join(HERE, "..", "lean", "Sfv", "Generated", "Locks.lean")


def innermost_block_end(src, pos):
    """end index of the innermost {...} block that contains pos"""
    depth, i = 0, pos
    while i > 0:
        i -= 1
        c = src[i]
        if c == "}":
            depth += 1
        elif c == "{":
            if depth == 0:
                b = block_after(src, i)
                return i + len(b) if b else len(src)
            depth -= 1
    return len(src)


def locks_table():
    abi = strip_comments(open(os.path.join(REPO, "savefile-abi/src/lib.rs")).read())
    sites = {}
    order = []
    for m in re.finditer(r"Guard::lock\(&(\w+)\)", abi):
        fn = enclosing(abi, m.start()).split("::")[-1]
        if fn not in sites:
            sites[fn] = []
            order.append(fn)
        sites[fn].append(m.group(1))
    raw = sorted(set(enclosing(abi, m.start()) for m in re.finditer(r"\.lock\(\)", abi)))
    # is the template guard still alive when CreateInstance (user constructor) runs?
    ni = find_fn(abi, "new_internal") or ""
    held = True
    m = re.search(r"Guard::lock\(&ABI_CONNECTION_TEMPLATES\)", ni)
    c = ni.find("AbiProtocol::CreateInstance")
    if m and c >= 0:
        held = innermost_block_end(ni, m.start()) > c
    # which requests are sent to the other side's entry point while the template guard is alive, in `new_internal`
    # itself and in what it calls with the guard held (`analyze_and_create`): interrogations and CreateInstance run
    # library / constructor code; DropInstance and RegularCall run arbitrary user code (a destructor, a method)
    under = []
    if m:
        end = innermost_block_end(ni, m.start())
        region = ni[m.start():end] + (find_fn(abi, "analyze_and_create") or "")
        for pm in re.finditer(r"AbiProtocol::(\w+)", region):
            if pm.group(1) not in under:
                under.append(pm.group(1))
    # what `AbiConnection<T>` asks of `T` to be shared between threads (Sync) or moved to one (Send): every bound on
    # `T` in the generics or the where clause of the two unsafe impls
    def auto_bounds(which):
        m2 = re.search(r"unsafe\s+impl\s*<([^>]*)>\s*%s\s+for\s+AbiConnection\s*<\s*T\s*>\s*(?:where\s+([^{]*))?\{" % which, abi)
        if not m2:
            return None
        found = []
        for part in (m2.group(1) or "", m2.group(2) or ""):
            for bm in re.finditer(r"\bT\s*:\s*([^,]+)", part):
                for b in bm.group(1).split("+"):
                    b = b.strip()
                    if b and b not in found:
                        found.append(b)
        return found
    sync_b, send_b = auto_bounds("Sync"), auto_bounds("Send")
    gl = re.sub(r"\s+", " ", find_fn(abi, "lock") or "")
    ignores_poison = "unwrap_or_else" in gl and "into_inner" in gl and ".lock().unwrap()" not in gl
    L = ["/- @generated by tools/translate.py from the current Rust source — do not edit -/",
         "namespace Sfv.Generated", "",
         "def lockSites : List (String × List String) := %s" % lean_list("(%s, %s)" % (lean_str(f), lean_list(lean_str(x) for x in sites[f])) for f in order),
         "def rawLockCalls : List String := %s" % lean_list(lean_str(x) for x in raw),
         "def templatesHeldDuringCreateInstance : Bool := %s" % ("true" if held else "false"),
         "def lockIgnoresPoison : Bool := %s" % ("true" if ignores_poison else "false"),
         "def protocolUnderTemplatesLock : List String := %s" % lean_list(lean_str(x) for x in under),
         "def connSyncBounds : Option (List String) := %s" % ("none" if sync_b is None else "some " + lean_list(lean_str(x) for x in sync_b)),
         "def connSendBounds : Option (List String) := %s" % ("none" if send_b is None else "some " + lean_list(lean_str(x) for x in send_b)),
         "", "end Sfv.Generated"]
    text = "\n".join(L) + "\n"
    old = open(OUT_LOCKS).read() if os.path.exists(OUT_LOCKS) else None
    if old != text:
        open(OUT_LOCKS, "w").write(text)
    print("translate: wrote %s%s" % (os.path.relpath(OUT_LOCKS), "" if old != text else " [unchanged]"))


# ---------------------------------------------------------------------------------------------
# T16: facts about an ABI call (C09)

OUT_ABICALL = os.path.join(HERE, "..", "lean", "Sfv", "Generated", "AbiCall.lean")


def abicall_table():
    abi = strip_comments(open(os.path.join(REPO, "savefile-abi/src/lib.rs")).read())
    mac = strip_comments(open(os.path.join(REPO, "savefile-derive/src/savefile_abi.rs")).read())
    light = re.sub(r"\s+", " ", find_fn(abi, "abi_entry_light") or "")
    full = re.sub(r"\s+", " ", find_fn(abi, "abi_entry") or "")
    knows_str = "downcast_ref::<&str>()" in light and "downcast_ref::<&str>()" in full
    knows_string = "downcast_ref::<String>()" in light and "downcast_ref::<String>()" in full
    macn = re.sub(r"\s+", " ", mac)
    own_sites = len(re.findall(r"let owning = if take_ownership \{ quote!\(Owning::Owned\) \} else \{ quote!\(Owning::NotOwned\) \};", macn))
    own_total = len(re.findall(r"Owning::(Owned|NotOwned)", macn))
    # every mention of Owning in the macro is one of those two-armed choices, or an owned boxed future/return
    owned_iff = own_sites >= 2 and own_total == 2 * own_sites + len(re.findall(r"from_raw_packaged\(PackagedTraitObject::deserialize\(&mut deserializer\)\?, Owning::Owned\)", macn))
    dr = re.sub(r"\s+", " ", find_item(abi, r"impl<T: \?Sized> Drop for AbiConnection<T> \{") or "")
    drop_ok = bool(re.search(r"match &self\.owning \{ Owning::Owned => unsafe \{ \(self\.template\.entry\)\(AbiProtocol::DropInstance \{ trait_object: self\.trait_object, \}\); \}, Owning::NotOwned => \{\} \}", dr))
    L = ["/- @generated by tools/translate.py from the current Rust source — do not edit -/",
         "namespace Sfv.Generated", "",
         "def entryKnowsStrPayload : Bool := %s" % ("true" if knows_str else "false"),
         "def entryKnowsStringPayload : Bool := %s" % ("true" if knows_string else "false"),
         "def ownedIffTakeOwnership : Bool := %s" % ("true" if owned_iff else "false"),
         "def dropInstanceIffOwned : Bool := %s" % ("true" if drop_ok else "false"),
         "", "end Sfv.Generated"]
    text = "\n".join(L) + "\n"
    old = open(OUT_ABICALL).read() if os.path.exists(OUT_ABICALL) else None
    if old != text:
        open(OUT_ABICALL, "w").write(text)
    print("translate: wrote %s%s" % (os.path.relpath(OUT_ABICALL), "" if old != text else " [unchanged]"))


if __name__ == "__main__":
    main()
    introspect_table()
    stream_calls()
    abi_table()
    locks_table()
    abicall_table()
