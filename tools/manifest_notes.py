HOOK_COMMITS = []
PENDING = "check not built yet in this round (design in DESIGN.md §6); will be claimed when its model, theorems and correspondence exist"
NOT_APPLICABLE = {("C%02d" % i): PENDING for i in range(1, 19)}
NOTES = {
 "C01": {
  "text": "Round trip with exact consumption is a Lean theorem (rt, by mutual structural induction over the wire grammar, all sizes and nestings, checked and bulk reading modes) lifted to type descriptors at a version (c01_load_save); the model is tied to the code by tables regenerated from the Rust source and by running model and implementation on the same generated values of a type zoo compiled against the real derive macro.",
  "design_ref": "§3, §6 C01",
  "note": "Trusted: Lean kernel; translator; harness/zoo generator; bzip2 and AES-GCM are parameters of the container model; host little-endian x86-64. Hypotheses of the theorem (truthful bulk annotations, documented size limits) are explicit and have a concrete witness.",
  "technique": "Lean 4 theorem (mutual structural induction) + differential correspondence with the real crates",
 },
}
