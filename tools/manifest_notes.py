HOOK_COMMITS = []
PENDING = "check not built yet in this round (design in DESIGN.md §6); will be claimed when its model, theorems and correspondence exist"
NOT_APPLICABLE = {("C%02d" % i): PENDING for i in range(1, 19)}
NOTES = {
 "C01": {
  "text": "Round trip with exact consumption is a Lean theorem (rt, by mutual structural induction over the wire grammar, all sizes and nestings, checked and bulk reading modes) lifted to type descriptors at a version (c01_load_save); the model is tied to the code by tables regenerated from the Rust source and by running model and implementation on the same generated values of a type zoo compiled against the real derive macro.",
  "design_ref": "§3, §6 C01",
  "note": "Trusted: Lean kernel; translator; harness/zoo generator; bzip2 and AES-GCM are parameters of the container model; host little-endian x86-64. Hypotheses of the theorem (truthful bulk annotations, documented size limits) are explicit and have a concrete witness.",
  "technique": "Lean 4 theorem (mutual structural induction) + differential correspondence with the real crates",
 },
 "C02": {
  "text": "The documented format is the model's encoder; its byte layout (header, little-endian fixed-width primitives, 64-bit length prefixes, option/result tags, declaration order, discriminant = index in the declared width) is stated as Lean theorems, and every table-shaped fact of the code (widths, endianness, tags, header constants, discriminant-width rule) is regenerated from the Rust source on each run and proved equal to the pinned golden tables, so a consistent change of writer and reader is a failing obligation; the implementation's bytes are compared with the model's on a type zoo.",
  "design_ref": "§4.1, §6 C02",
  "note": "Trusted: Lean kernel; translator and pinned tables; harness. Forward readability by later builds is argued through pinned-table equality plus byte equality with the model, not through files from other builds.",
  "technique": "Lean 4 theorems about the format + decide-proved table obligations regenerated from source + differential correspondence",
 },
 "C06": {
  "text": "The decoder model returns panic/ub outcomes exactly where the Rust code would panic or materialise an invalid value; Lean theorems (dec_safe by mutual induction over the grammar, all byte strings) show these outcomes unreachable in a repaired build for every grammar whose bulk-read element types have no invalid bit patterns, and bound the number of returned elements by the bytes consumed. The bulk bool/char/enum case is a proved counter-example and a recorded finding. Outcome classes (value / error class / panic / invalid bits / abort) are compared with the real code on mutated and random streams, each case run in a forked child.",
  "design_ref": "§6 C06",
  "note": "Partial: memory safety itself is a runtime notion; the model proves no marked site is reachable and the marking is validated by outcome-class correspondence. Sequences of zero-sized elements with hostile lengths are outside what the suite observes. Allocation failure on absurd declared lengths is exempt by the property.",
  "technique": "Lean 4 reachability theorem over a failure-annotated decoder model + differential fuzz correspondence",
 },
 "C07": {
  "text": "A Lean theorem shows that any loader that is monotone in its input (proved for the wire decoder, for load of every type at every version, for the header and for the plain/schema-less file loader) and consumes a complete file exactly cannot succeed on a strict prefix; all four containers are additionally cut at every offset against the real code.",
  "design_ref": "§6 C07",
  "note": "Compressed and encrypted containers: bzip2 and AES-GCM are parameters; for them the every-cut enumeration on the real code is the tie, the theorem covers framing only (see C14). Schema-section monotonicity is a hypothesis discharged in C13.",
  "technique": "Lean 4 theorem (monotonicity + exact consumption) + exhaustive cut enumeration against the real crates",
 },
 "C04": {
  "text": "isPacked mirrors the code's bulk-copyable decision condition for condition over the measured layout; a Lean theorem (packed_image, mutual induction over types, fields, tuples and variants, any field order rustc picks) shows that for every type judged packed at a version, every memory consistent with the layout equals the field-by-field encoding — hence no padding, wire order, and raw writes are unobservable; bulk writes/reads of sequences are shown equal to element-wise ones. The one case where the code's decision is unsound (enum mixing unit and field variants) is an explicit hypothesis, a proved counter-example and a recorded finding. The decision, the bytes of every container kind versus element-wise bytes, and bulk versus element-wise reads are compared with the real code for every zoo type and version.",
  "design_ref": "§6 C04",
  "note": "Trusted: measured layouts (size_of/offset_of!/pointer differences) as inputs; little-endian target; Lean kernel; harness. rustc's layout algorithm itself is not modelled — the theorem holds for every layout.",
  "technique": "Lean 4 theorem (mutual structural induction, memory relation) + differential correspondence incl. direct bulk-vs-single oracle",
 },
 "C03": {
  "text": "A later definition carries its history in its attributes; Lean theorems show (a) the documented edit steps — add a field anywhere, remove with Removed/AbiRemoved, convert with savefile_versions_as, append variants — leave the grammar of every earlier version unchanged (variants: as a prefix), at any position and under nesting, hence through any history; (b) if the old program's grammar is extended by the new definition's grammar for that version (a decidable relation evaluated for every zoo family on every run), old bytes load as fill of the saved wire value with exact consumption; (c) what fill does per field (retained / removed without disturbing neighbours / default / conversion). Families of real definitions (one module per version, compiled against the real derive) are saved with version i and loaded with version j for all i ≤ j and compared with the model.",
  "design_ref": "§6 C03",
  "note": "User conversion functions and defaults are parameters of the model (their values are computed by the harness from the same expressions the derive uses). Trusted: Lean kernel, harness, zoo generator.",
  "technique": "Lean 4 theorems (edit-step invariance, extension relation, round trip) + cross-module differential correspondence",
 },
 "C18": {
  "text": "Symmetric to C03 for the writer: Lean theorems show that field addition and AbiRemoved removal leave the writer's grammar of every older version unchanged, that an alive AbiRemoved field is written as its constructed value, later fields are omitted, absent variants and plain Removed fields are refused, that the bytes written at version k are read by the definition current at k when the extension relation holds (evaluated per family), and that the packed path is only taken at versions where all gated fields are present, where memory equals the encoding (C04). Every family is written at every older version by the newest definition and read by the definition of that version, against the model.",
  "design_ref": "§6 C18",
  "note": "Value constructors are parameters. Histories outside the property's quantifier (type conversion, plain Removed) are exercised but only compared with the model, not required to load.",
  "technique": "Lean 4 theorems (writer-side step invariance, extension relation, packed gate) + cross-module differential correspondence",
 },
 "C17": {
  "text": "Two halves. (a) Every `Introspect` impl in savefile/src/lib.rs is classified from the current source by the translator into a closed vocabulary (how children are served / how they are counted); a Lean theorem shows the decidable consistency criterion implies introspect_len = number of children fetchable by index for every value (compositionally over the type), `decide` checks the generated table against it, and the shape of the derive macro's generated code is pinned. A direct oracle walks generated values of every zoo type (plus hand-written Introspect impls, >10000-element containers) comparing introspect_len with the children fetched and probing beyond the first gap. (b) `Introspector::dive/do_introspect` and `IntrospectionResult::total_index` are modelled as Lean functions in which every unwrap, vector index and usize subtraction is an explicit panic outcome; theorems (mutual structural induction over the tree, loop invariant) show no panic site is reachable from any path state, any command, any limit, that results are well formed, and that total_index(i) is the i-th element of the depth-first enumeration and is Some exactly for i < total_len — for every command history. Random command histories (valid and invalid depths, keys, disambiguators, indices; limits 0,1,2,3,5,none) run through the real Introspector and the model and must agree frame by frame.",
  "design_ref": "§6 C17",
  "note": "The translator's classification of impl bodies is trusted (an unrecognised body is `unknown` and fails the table obligation; the direct oracle then looks for a failing value). RefCell/Mutex impls borrow/lock: re-entrancy while a guard is held elsewhere is outside the model. The path is private: the correspondence compares its length (num_frames) and all frames.",
  "technique": "Lean 4 theorems (loop invariant + mutual induction: panic-freedom, flat index law; decidable table criterion proved sound) + translator-generated impl table + differential correspondence on navigation histories",
 },
 "C05": {
  "text": "The schema tree, its on-disk formats, diff_schema and the file loader are modelled in Lean and tied to the code by decoding/diffing the implementation's own schema bytes for every zoo type, random schemas and mutations. Theorems: diff reports no difference exactly when two data schemas have the same shape (names and memory annotations erased, variant names kept) — by mutual induction over schema trees; the loader with the real schema codec yields a schema error exactly when shapes differ and otherwise reads the payload at the stored version; identical grammars read identical values; a wrong magic, newer library version or newer data version is rejected from the 16 header bytes alone. Ordered pairs of zoo types are saved as T and loaded as U against the model, which demands rejection whenever the two types do not describe the same bytes.",
  "design_ref": "§6 C05",
  "note": "Whether a type's schema faithfully describes its bytes is C12's subject; the cross-type suite uses the wire grammars (not the schemas) to decide when rejection is mandatory, so unfaithful schemas surface here as accepted-but-different-bytes.",
  "technique": "Lean 4 theorems (diff ⇔ shape equality, loader gate, header) + differential correspondence on schema bytes and cross-type loads",
 },
 "C13": {
  "text": "Round trip of arbitrary well-formed schema values (all 20 node kinds incl. trait definitions) through library formats 2, 1 and 0 is a Lean theorem (mutual induction over six mutually recursive types, fuel-driven reader, any trailing bytes): format 2 is exact, format 1 loses only method receiver/async flags (nothing on data schemas), format 0 strips memory annotations; the loader is shown to compare exactly the decoded stored schema; diff is reflexive on data schemas (Undefined is the coded exception) and each single wire-altering change is a proved difference. The formats, diff and layout_compatible are compared with the real code on zoo schemas, random schemas, single-step mutations and malformed sections.",
  "design_ref": "§6 C13",
  "note": "Format 0 has no writer in the code base: encSchema 0 is the reconstruction of the historic writer as the inverse of the reader's format-0 branches (trusted). Trait names must not contain '+' (the writer's separator) — part of well-formedness.",
  "technique": "Lean 4 theorems (mutual induction: codec round trip, reflexivity, completeness) + differential correspondence on schema bytes",
 },
 "C12": {
  "text": "schemaOf transcribes WithSchema (library impls, derive output, recursion guard) and is tied byte-for-byte to get_schema of every zoo type and version; schemaWire reads a schema as the grammar a generic reader follows. Lean theorem (mutual induction over type descriptors): for every type of the stated fragment whose recursion guards all miss, the schema read as a grammar equals the byte structure of what the writer emits; hence the generic reader parses everything save writes, completely, recovering the wire value, and the schema holds no recursion marker. Result, SocketAddr and the HashMap value guard are proved counter-examples and recorded findings. An independent schema-driven reader in the harness parses the real bytes of generated values with the real schemas, and is compared with the model's reader.",
  "design_ref": "§6 C12",
  "note": "guardsMiss (no guard hits its context) is evaluated per type by the model rather than proved from a key-length argument; TypeId is modelled by structural equality of descriptors (Vec<T>/Box<[T]> etc. distinguished by kind, Box/Rc/Arc not). Types outside frag (IndexSet, Duration, SystemTime: one-field wrappers) are compared by flattened byte structure in the correspondence only.",
  "technique": "Lean 4 theorem (mutual induction: schema-as-grammar equals writer grammar) + differential correspondence incl. independent generic reader",
 },
}
