//! Random `Schema` values built through the public constructors, single-step mutations of them,
//! and (de)serialisation helpers for the schema formats 0/1/2.

use crate::suite::{err_class, last_panic, panic_class};
use crate::val::Rng;
use savefile::prelude::*;
use savefile::{
    AbiMethod, AbiMethodArgument, AbiMethodInfo, AbiTraitDefinition, ReceiverType, SchemaArray, SchemaEnum, SchemaPrimitive, SchemaStruct, Variant,
    VecOrStringLayout,
};
use std::panic::{catch_unwind, AssertUnwindSafe};

pub fn ser_schema(s: &Schema, libver: u32) -> Vec<u8> {
    let mut buf = Vec::new();
    let mut ser = Serializer::<Vec<u8>>::new_raw(&mut buf, libver);
    s.serialize(&mut ser).unwrap();
    buf
}

/// The original schema format (library format version 0), which the current library can read but not write:
/// no sizes, alignments, offsets, discriminant width or collection layouts.  `None` for nodes that did not
/// exist then (traits, closures, references, ...).
pub fn ser_schema_v0(s: &Schema) -> Option<Vec<u8>> {
    fn wstr(out: &mut Vec<u8>, s: &str) {
        out.extend_from_slice(&(s.len() as u64).to_le_bytes());
        out.extend_from_slice(s.as_bytes());
    }
    fn fields(out: &mut Vec<u8>, fs: &[Field]) -> Option<()> {
        for f in fs {
            wstr(out, &f.name);
            go(out, &f.value)?;
        }
        Some(())
    }
    fn go(out: &mut Vec<u8>, s: &Schema) -> Option<()> {
        match s {
            Schema::Struct(st) => {
                out.push(1);
                wstr(out, &st.dbg_name);
                out.extend_from_slice(&(st.fields.len() as u64).to_le_bytes());
                fields(out, &st.fields)?;
            }
            Schema::Enum(en) => {
                if en.discriminant_size != 1 {
                    return None; // the old format knew one byte discriminants only
                }
                out.push(2);
                wstr(out, &en.dbg_name);
                out.extend_from_slice(&(en.variants.len() as u64).to_le_bytes());
                for v in &en.variants {
                    wstr(out, &v.name);
                    out.push(v.discriminant);
                    out.extend_from_slice(&(v.fields.len() as u64).to_le_bytes());
                    fields(out, &v.fields)?;
                }
            }
            Schema::Primitive(p) => {
                out.push(3);
                // the primitive's own tag: take it from the current encoding (a string's layout byte is dropped)
                let cur = ser_schema(&Schema::Primitive(*p), 2);
                out.push(cur[1]);
            }
            Schema::Vector(t, _) => {
                out.push(4);
                go(out, t)?;
            }
            Schema::Undefined => out.push(5),
            Schema::ZeroSize => out.push(6),
            Schema::SchemaOption(t) => {
                out.push(7);
                go(out, t)?;
            }
            Schema::Array(a) => {
                out.push(8);
                out.extend_from_slice(&(a.count as u64).to_le_bytes());
                go(out, &a.item_type)?;
            }
            Schema::Custom(c) => {
                out.push(9);
                wstr(out, c);
            }
            _ => return None,
        }
        Some(())
    }
    let mut out = Vec::new();
    go(&mut out, s)?;
    Some(out)
}

pub fn de_schema(bytes: &[u8], libver: u16) -> Result<(Schema, usize), String> {
    let r = catch_unwind(AssertUnwindSafe(|| {
        let mut cur = std::io::Cursor::new(bytes);
        let mut de = savefile::new_schema_deserializer(&mut cur, libver);
        let s = Schema::deserialize(&mut de);
        s.map(|s| (s, bytes.len() - (cur.position() as usize).min(bytes.len())))
    }));
    match r {
        Ok(Ok(x)) => Ok(x),
        Ok(Err(e)) => Err(format!("(err {})", err_class(&e))),
        Err(_) => Err(format!("(panic {})", panic_class(&last_panic()))),
    }
}

fn layout(r: &mut Rng) -> VecOrStringLayout {
    match r.below(10) {
        0 => VecOrStringLayout::DataCapacityLength,
        1 => VecOrStringLayout::DataLengthCapacity,
        2 => VecOrStringLayout::CapacityDataLength,
        3 => VecOrStringLayout::LengthDataCapacity,
        4 => VecOrStringLayout::CapacityLengthData,
        5 => VecOrStringLayout::LengthCapacityData,
        6 => VecOrStringLayout::LengthData,
        7 => VecOrStringLayout::DataLength,
        _ => VecOrStringLayout::Unknown,
    }
}

pub fn gen_prim(r: &mut Rng) -> SchemaPrimitive {
    match r.below(16) {
        0 => SchemaPrimitive::schema_i8,
        1 => SchemaPrimitive::schema_u8,
        2 => SchemaPrimitive::schema_i16,
        3 => SchemaPrimitive::schema_u16,
        4 => SchemaPrimitive::schema_i32,
        5 => SchemaPrimitive::schema_u32,
        6 => SchemaPrimitive::schema_i64,
        7 => SchemaPrimitive::schema_u64,
        8 => SchemaPrimitive::schema_string(layout(r)),
        9 => SchemaPrimitive::schema_f32,
        10 => SchemaPrimitive::schema_f64,
        11 => SchemaPrimitive::schema_bool,
        12 => SchemaPrimitive::schema_canary1,
        13 => SchemaPrimitive::schema_u128,
        14 => SchemaPrimitive::schema_i128,
        _ => SchemaPrimitive::schema_char,
    }
}

fn name(r: &mut Rng) -> String {
    let l = 1 + r.below(5);
    (0..l).map(|_| if r.chance(1, 12) { 'é' } else { (b'a' + r.below(26) as u8) as char }).collect()
}
fn opt_usize(r: &mut Rng) -> Option<usize> {
    match r.below(4) {
        0 => None,
        1 => Some(r.below(64) as usize),
        2 => Some(8),
        _ => Some(r.next() as usize),
    }
}

fn gen_fields(r: &mut Rng, depth: u32, data_only: bool) -> Vec<Field> {
    let n = r.below(4) as usize;
    (0..n)
        .map(|_| unsafe { Field::unsafe_new(name(r), Box::new(gen_schema(r, depth.saturating_sub(1), data_only)), opt_usize(r)) })
        .collect()
}

pub fn gen_def(r: &mut Rng, depth: u32) -> AbiTraitDefinition {
    let nm = r.below(3) as usize;
    AbiTraitDefinition {
        name: name(r),
        methods: (0..nm)
            .map(|i| AbiMethod {
                name: format!("m{}{}", i, name(r)),
                info: AbiMethodInfo {
                    return_value: gen_schema(r, depth.saturating_sub(1), true),
                    receiver: match r.below(3) {
                        0 => ReceiverType::Shared,
                        1 => ReceiverType::Mut,
                        _ => ReceiverType::PinMut,
                    },
                    arguments: (0..r.below(3)).map(|_| AbiMethodArgument { schema: gen_schema(r, depth.saturating_sub(1), true) }).collect(),
                    async_trait_heuristic: r.chance(1, 4),
                },
            })
            .collect(),
        sync: r.chance(1, 2),
        send: r.chance(1, 2),
    }
}

/// `data_only`: only nodes a data file's schema can contain
pub fn gen_schema(r: &mut Rng, depth: u32, data_only: bool) -> Schema {
    let leaf = depth == 0;
    let k = if leaf { 9 + r.below(7) } else { r.below(if data_only { 16 } else { 22 }) };
    match k {
        0 => Schema::Struct(SchemaStruct::new_unsafe(name(r), gen_fields(r, depth, data_only), opt_usize(r), opt_usize(r))),
        1 => {
            let nv = r.below(4) as usize;
            let variants = (0..nv)
                .map(|i| Variant { name: name(r), discriminant: if r.chance(1, 6) { r.below(256) as u8 } else { i as u8 }, fields: gen_fields(r, depth, data_only) })
                .collect();
            Schema::Enum(SchemaEnum::new_unsafe(name(r), variants, [1u8, 2, 4][r.below(3) as usize], r.chance(1, 2), opt_usize(r), opt_usize(r)))
        }
        2 => Schema::Vector(Box::new(gen_schema(r, depth - 1, data_only)), layout(r)),
        3 => Schema::Array(SchemaArray { item_type: Box::new(gen_schema(r, depth - 1, data_only)), count: r.below(5) as usize }),
        4 => Schema::SchemaOption(Box::new(gen_schema(r, depth - 1, data_only))),
        5 => Schema::Boxed(Box::new(gen_schema(r, depth - 1, data_only))),
        6 => Schema::Struct(SchemaStruct::new(name(r), gen_fields(r, depth, data_only))),
        7 | 8 => Schema::Vector(Box::new(Schema::Primitive(gen_prim(r))), layout(r)),
        9 | 10 | 11 => Schema::Primitive(gen_prim(r)),
        12 => Schema::ZeroSize,
        13 => Schema::Custom(name(r)),
        14 => Schema::Recursion(r.below(4) as usize),
        15 => {
            if r.chance(1, 2) {
                Schema::StdIoError
            } else {
                Schema::UtcTimestamp
            }
        }
        16 => Schema::Slice(Box::new(gen_schema(r, depth - 1, data_only))),
        17 => Schema::Reference(Box::new(gen_schema(r, depth - 1, data_only))),
        18 => Schema::Str,
        19 => Schema::Trait(r.chance(1, 2), gen_def(r, depth)),
        20 => Schema::FnClosure(r.chance(1, 2), gen_def(r, depth)),
        _ => {
            if r.chance(1, 3) {
                Schema::Undefined
            } else {
                Schema::UninitSlice
            }
        }
    }
}

/// A single change that alters the wire layout. Returns the kind of change, or None if the chosen
/// position does not admit one.
pub fn mutate(r: &mut Rng, s: &Schema) -> Option<(&'static str, Schema)> {
    let mut s2 = s.clone();
    let kind = mutate_in_place(r, &mut s2, 0)?;
    Some((kind, s2))
}

fn other_prim(r: &mut Rng, p: SchemaPrimitive) -> SchemaPrimitive {
    loop {
        let q = gen_prim(r);
        let both_str = matches!((p, q), (SchemaPrimitive::schema_string(_), SchemaPrimitive::schema_string(_)));
        if q != p && !both_str {
            return q;
        }
    }
}

fn mutate_in_place(r: &mut Rng, s: &mut Schema, depth: u32) -> Option<&'static str> {
    // descend with some probability
    let descend = r.chance(2, 3) && depth < 6;
    match s {
        Schema::Struct(st) => {
            if descend && !st.fields.is_empty() {
                let i = r.below(st.fields.len() as u64) as usize;
                return mutate_in_place(r, &mut st.fields[i].value, depth + 1);
            }
            match r.below(3) {
                0 => {
                    st.fields.push(Field::new(name(r), Box::new(Schema::Primitive(gen_prim(r)))));
                    Some("field-added")
                }
                1 if !st.fields.is_empty() => {
                    let i = r.below(st.fields.len() as u64) as usize;
                    st.fields.remove(i);
                    Some("field-removed")
                }
                _ => {
                    *s = Schema::Vector(Box::new(s.clone()), VecOrStringLayout::Unknown);
                    Some("vector-wrapping")
                }
            }
        }
        Schema::Enum(en) => {
            if descend {
                let candidates: Vec<usize> = en.variants.iter().enumerate().filter(|(_, v)| !v.fields.is_empty()).map(|(i, _)| i).collect();
                if !candidates.is_empty() {
                    let vi = candidates[r.below(candidates.len() as u64) as usize];
                    let fi = r.below(en.variants[vi].fields.len() as u64) as usize;
                    return mutate_in_place(r, &mut en.variants[vi].fields[fi].value, depth + 1);
                }
            }
            match r.below(6) {
                5 if !en.variants.is_empty() => {
                    // a field added to a variant, unit variants included
                    let i = r.below(en.variants.len() as u64) as usize;
                    en.variants[i].fields.push(Field::new(name(r), Box::new(Schema::Primitive(gen_prim(r)))));
                    Some("variant-field-added")
                }
                0 => {
                    en.variants.push(Variant { name: name(r), discriminant: en.variants.len() as u8, fields: vec![] });
                    Some("variant-added")
                }
                1 if !en.variants.is_empty() => {
                    // (the last one half of the time: everything before it still matches)
                    let i = if r.chance(1, 2) { en.variants.len() - 1 } else { r.below(en.variants.len() as u64) as usize };
                    en.variants.remove(i);
                    Some("variant-removed")
                }
                2 if !en.variants.is_empty() => {
                    let i = r.below(en.variants.len() as u64) as usize;
                    en.variants[i].name.push('X');
                    Some("variant-name")
                }
                3 if !en.variants.is_empty() => {
                    let i = r.below(en.variants.len() as u64) as usize;
                    en.variants[i].discriminant = en.variants[i].discriminant.wrapping_add(1);
                    Some("variant-discriminant")
                }
                _ => {
                    en.discriminant_size = if en.discriminant_size == 1 { 2 } else { 1 };
                    Some("discriminant-size")
                }
            }
        }
        Schema::Primitive(p) => {
            if r.chance(1, 4) {
                *s = Schema::SchemaOption(Box::new(s.clone()));
                Some("option-wrapping")
            } else if matches!(*p, SchemaPrimitive::schema_u32) && r.chance(1, 3) {
                // two different primitives that print alike
                *p = SchemaPrimitive::schema_canary1;
                Some("primitive-kind")
            } else if matches!(*p, SchemaPrimitive::schema_canary1) {
                *p = SchemaPrimitive::schema_u32;
                Some("primitive-kind")
            } else {
                *p = other_prim(r, *p);
                Some("primitive-kind")
            }
        }
        Schema::Vector(inner, _) | Schema::SchemaOption(inner) | Schema::Boxed(inner) | Schema::Slice(inner) | Schema::Reference(inner) => {
            if descend || r.chance(1, 2) {
                return mutate_in_place(r, inner, depth + 1);
            }
            // the wrapper itself: another kind of wrapper around the same content, or none
            let content = (**inner).clone();
            let me = match s {
                Schema::Vector(..) => 0,
                Schema::SchemaOption(..) => 1,
                Schema::Boxed(..) => 2,
                Schema::Slice(..) => 3,
                _ => 4,
            };
            let mut k = r.below(6);
            if k == me {
                k = 5;
            }
            *s = match k {
                0 => Schema::Vector(Box::new(content), VecOrStringLayout::Unknown),
                1 => Schema::SchemaOption(Box::new(content)),
                2 => Schema::Boxed(Box::new(content)),
                3 => Schema::Slice(Box::new(content)),
                4 => Schema::Reference(Box::new(content)),
                _ => content,
            };
            Some(if k == 5 { "wrapper-removed" } else { "wrapper-kind" })
        }
        Schema::Trait(m, _) | Schema::FnClosure(m, _) if r.chance(1, 3) => {
            // `&dyn Trait` <-> `&mut dyn Trait`, `Fn` <-> `FnMut`
            *m = !*m;
            Some("callable-mutability")
        }
        Schema::Trait(_, def) | Schema::FnClosure(_, def) | Schema::Future(def, _, _, _) => {
            // a change inside the definition of a trait object, closure or future: a method's return type or one
            // of its arguments
            if def.methods.is_empty() {
                return None;
            }
            let mi = r.below(def.methods.len() as u64) as usize;
            let m = &mut def.methods[mi];
            if m.info.arguments.is_empty() || r.chance(1, 2) {
                mutate_in_place(r, &mut m.info.return_value, depth + 1).map(|_| "nested-return-type")
            } else {
                let ai = r.below(m.info.arguments.len() as u64) as usize;
                mutate_in_place(r, &mut m.info.arguments[ai].schema, depth + 1).map(|_| "nested-argument-type")
            }
        }
        Schema::Array(a) => {
            if descend {
                mutate_in_place(r, &mut a.item_type, depth + 1)
            } else {
                a.count += 1;
                Some("array-length")
            }
        }
        Schema::Custom(c) => {
            c.push('X');
            Some("custom-string")
        }
        Schema::Recursion(d) => {
            *d += 1;
            Some("recursion-depth")
        }
        _ => None,
    }
}

// ---------------------------------------------------------------------------------------------
// schemas with complete layout information, and single changes of a layout fact (C11)
// (built from an intermediate tree: the layout fields of SchemaStruct / Field are private)

type LFields = Vec<(String, LS, Option<usize>)>;

#[derive(Clone)]
pub enum LS {
    Prim(SchemaPrimitive),
    Vector(Box<LS>, VecOrStringLayout),
    Array(Box<LS>, usize),
    Struct { name: String, size: Option<usize>, align: Option<usize>, fields: LFields },
    Enum { name: String, dsize: u8, explicit: bool, size: Option<usize>, align: Option<usize>, variants: Vec<(String, u8, LFields)> },
}

fn build_fields(fs: &LFields) -> Vec<Field> {
    fs.iter().map(|(n, t, o)| unsafe { Field::unsafe_new(n.clone(), Box::new(t.build()), *o) }).collect()
}

impl LS {
    pub fn build(&self) -> Schema {
        match self {
            LS::Prim(p) => Schema::Primitive(*p),
            LS::Vector(t, l) => Schema::Vector(Box::new(t.build()), *l),
            LS::Array(t, n) => Schema::Array(SchemaArray { item_type: Box::new(t.build()), count: *n }),
            LS::Struct { name, size, align, fields } => Schema::Struct(SchemaStruct::new_unsafe(name.clone(), build_fields(fields), *size, *align)),
            LS::Enum { name, dsize, explicit, size, align, variants } => Schema::Enum(SchemaEnum::new_unsafe(
                name.clone(),
                variants.iter().map(|(n, d, fs)| Variant { name: n.clone(), discriminant: *d, fields: build_fields(fs) }).collect(),
                *dsize,
                *explicit,
                *size,
                *align,
            )),
        }
    }
}

fn layout_known(r: &mut Rng) -> VecOrStringLayout {
    match r.below(3) {
        0 => VecOrStringLayout::DataCapacityLength,
        1 => VecOrStringLayout::CapacityDataLength,
        _ => VecOrStringLayout::LengthData,
    }
}

fn lay_fields(r: &mut Rng, depth: u32, start: usize, n: usize, prefix: &str) -> (LFields, usize, usize) {
    let mut off = start;
    let mut align = 1usize;
    let mut fields = Vec::new();
    for i in 0..n {
        let (t, sz, al) = gen_layout(r, depth);
        let al = al.max(1);
        off = (off + al - 1) / al * al;
        fields.push((format!("{}{}", prefix, i), t, Some(off)));
        off += sz;
        align = align.max(al);
    }
    (fields, off, align)
}

/// (tree, size, alignment) with nothing unknown
pub fn gen_layout(r: &mut Rng, depth: u32) -> (LS, usize, usize) {
    let k = if depth == 0 { r.below(3) } else { r.below(8) };
    match k {
        0 | 1 => {
            let (p, sz) = match r.below(6) {
                0 => (SchemaPrimitive::schema_u8, 1),
                1 => (SchemaPrimitive::schema_i16, 2),
                2 => (SchemaPrimitive::schema_u32, 4),
                3 => (SchemaPrimitive::schema_f64, 8),
                4 => (SchemaPrimitive::schema_bool, 1),
                _ => (SchemaPrimitive::schema_u64, 8),
            };
            (LS::Prim(p), sz, sz)
        }
        2 => (LS::Prim(SchemaPrimitive::schema_string(layout_known(r))), 24, 8),
        3 => {
            let (t, _, _) = gen_layout(r, depth - 1);
            (LS::Vector(Box::new(t), layout_known(r)), 24, 8)
        }
        4 => {
            let (t, sz, al) = gen_layout(r, depth - 1);
            let n = 1 + r.below(3) as usize;
            (LS::Array(Box::new(t), n), sz * n, al)
        }
        5 | 6 => {
            let n = 1 + r.below(3) as usize;
            let (fields, end, align) = lay_fields(r, depth - 1, 0, n, "f");
            let size = (end + align - 1) / align * align;
            (LS::Struct { name: name(r), size: Some(size), align: Some(align), fields }, size, align)
        }
        _ => {
            let dsize = [1usize, 2, 4][r.below(3) as usize];
            let nv = 1 + r.below(3) as usize;
            let mut variants = Vec::new();
            let mut size = dsize;
            let mut align = dsize;
            for v in 0..nv {
                let nf = r.below(3) as usize;
                let (fields, end, al) = lay_fields(r, depth - 1, dsize, nf, "x");
                size = size.max(end);
                align = align.max(al);
                variants.push((format!("V{}", v), v as u8, fields));
            }
            let size = (size + align - 1) / align * align;
            (LS::Enum { name: name(r), dsize: dsize as u8, explicit: true, size: Some(size), align: Some(align), variants }, size, align)
        }
    }
}

/// one change of a layout fact somewhere in the tree; the wire shape stays the same
pub fn mutate_layout(r: &mut Rng, s: &LS) -> Option<(&'static str, LS)> {
    let mut s2 = s.clone();
    let kind = mutate_layout_in_place(r, &mut s2, 0)?;
    Some((kind, s2))
}

fn mutate_layout_in_place(r: &mut Rng, s: &mut LS, depth: u32) -> Option<&'static str> {
    let descend = r.chance(1, 2) && depth < 5;
    match s {
        LS::Struct { size, align, fields, .. } => {
            if descend && !fields.is_empty() {
                let i = r.below(fields.len() as u64) as usize;
                return mutate_layout_in_place(r, &mut fields[i].1, depth + 1);
            }
            match r.below(6) {
                0 => {
                    *size = None;
                    Some("size-unknown")
                }
                1 => {
                    *size = size.map(|x| x + 8);
                    Some("size-changed")
                }
                2 => {
                    *align = None;
                    Some("alignment-unknown")
                }
                3 => {
                    *align = align.map(|x| x * 2);
                    Some("alignment-changed")
                }
                4 if !fields.is_empty() => {
                    let i = r.below(fields.len() as u64) as usize;
                    fields[i].2 = None;
                    Some("offset-unknown")
                }
                5 if !fields.is_empty() => {
                    // mostly the last field: the one a loop that stops early would miss
                    let i = if r.chance(2, 3) { fields.len() - 1 } else { r.below(fields.len() as u64) as usize };
                    fields[i].2 = fields[i].2.map(|o| o + 1 + r.below(8) as usize);
                    Some("offset-changed")
                }
                _ => None,
            }
        }
        LS::Enum { explicit, size, align, variants, dsize, .. } => {
            let withf: Vec<usize> = variants.iter().enumerate().filter(|(_, v)| !v.2.is_empty()).map(|(i, _)| i).collect();
            if descend && !withf.is_empty() {
                let vi = withf[r.below(withf.len() as u64) as usize];
                let fi = r.below(variants[vi].2.len() as u64) as usize;
                return mutate_layout_in_place(r, &mut variants[vi].2[fi].1, depth + 1);
            }
            match r.below(7) {
                0 | 1 => {
                    *explicit = false;
                    Some("repr-unknown")
                }
                2 => {
                    *size = size.map(|x| x + 4);
                    Some("size-changed")
                }
                3 => {
                    *align = None;
                    Some("alignment-unknown")
                }
                4 if !withf.is_empty() => {
                    let vi = withf[withf.len() - 1];
                    let fi = variants[vi].2.len() - 1;
                    variants[vi].2[fi].2 = variants[vi].2[fi].2.map(|o| o + 1 + r.below(4) as usize);
                    Some("offset-changed")
                }
                5 => {
                    *size = None;
                    Some("size-unknown")
                }
                _ => {
                    let _ = dsize;
                    None
                }
            }
        }
        LS::Vector(t, l) => {
            if descend {
                return mutate_layout_in_place(r, t, depth + 1);
            }
            if r.chance(1, 2) {
                *l = VecOrStringLayout::Unknown;
                Some("vec-layout-unknown")
            } else {
                *l = if *l == VecOrStringLayout::LengthCapacityData { VecOrStringLayout::DataLength } else { VecOrStringLayout::LengthCapacityData };
                Some("vec-layout-changed")
            }
        }
        LS::Array(t, _) => mutate_layout_in_place(r, t, depth + 1),
        LS::Prim(SchemaPrimitive::schema_string(l)) => {
            if r.chance(1, 2) {
                *l = VecOrStringLayout::Unknown;
                Some("string-layout-unknown")
            } else {
                *l = if *l == VecOrStringLayout::LengthCapacityData { VecOrStringLayout::DataLength } else { VecOrStringLayout::LengthCapacityData };
                Some("string-layout-changed")
            }
        }
        _ => None,
    }
}
