//! Random `Schema` values built through the public constructors, single-step mutations of them,
//! and (de)serialisation helpers for the schema formats 0/1/2.

use crate::suite::{err_class, last_panic, panic_class};
use crate::val::Rng;
use savefile::prelude::*;
use savefile::{
    AbiMethod, AbiMethodArgument, AbiMethodInfo, AbiTraitDefinition, ReceiverType, SchemaArray, SchemaEnum, SchemaPrimitive, SchemaStruct, Variant,
    VecOrStringLayout,
};
use std::panic::{catch_unwind, AssertUnwindSafe};

pub fn ser_schema(s: &Schema, libver: u32) -> Vec<u8> {
    let mut buf = Vec::new();
    let mut ser = Serializer::<Vec<u8>>::new_raw(&mut buf, libver);
    s.serialize(&mut ser).unwrap();
    buf
}

pub fn de_schema(bytes: &[u8], libver: u16) -> Result<(Schema, usize), String> {
    let r = catch_unwind(AssertUnwindSafe(|| {
        let mut cur = std::io::Cursor::new(bytes);
        let mut de = savefile::new_schema_deserializer(&mut cur, libver);
        let s = Schema::deserialize(&mut de);
        s.map(|s| (s, bytes.len() - (cur.position() as usize).min(bytes.len())))
    }));
    match r {
        Ok(Ok(x)) => Ok(x),
        Ok(Err(e)) => Err(format!("(err {})", err_class(&e))),
        Err(_) => Err(format!("(panic {})", panic_class(&last_panic()))),
    }
}

fn layout(r: &mut Rng) -> VecOrStringLayout {
    match r.below(10) {
        0 => VecOrStringLayout::DataCapacityLength,
        1 => VecOrStringLayout::DataLengthCapacity,
        2 => VecOrStringLayout::CapacityDataLength,
        3 => VecOrStringLayout::LengthDataCapacity,
        4 => VecOrStringLayout::CapacityLengthData,
        5 => VecOrStringLayout::LengthCapacityData,
        6 => VecOrStringLayout::LengthData,
        7 => VecOrStringLayout::DataLength,
        _ => VecOrStringLayout::Unknown,
    }
}

pub fn gen_prim(r: &mut Rng) -> SchemaPrimitive {
    match r.below(16) {
        0 => SchemaPrimitive::schema_i8,
        1 => SchemaPrimitive::schema_u8,
        2 => SchemaPrimitive::schema_i16,
        3 => SchemaPrimitive::schema_u16,
        4 => SchemaPrimitive::schema_i32,
        5 => SchemaPrimitive::schema_u32,
        6 => SchemaPrimitive::schema_i64,
        7 => SchemaPrimitive::schema_u64,
        8 => SchemaPrimitive::schema_string(layout(r)),
        9 => SchemaPrimitive::schema_f32,
        10 => SchemaPrimitive::schema_f64,
        11 => SchemaPrimitive::schema_bool,
        12 => SchemaPrimitive::schema_canary1,
        13 => SchemaPrimitive::schema_u128,
        14 => SchemaPrimitive::schema_i128,
        _ => SchemaPrimitive::schema_char,
    }
}

fn name(r: &mut Rng) -> String {
    let l = 1 + r.below(5);
    (0..l).map(|_| if r.chance(1, 12) { 'é' } else { (b'a' + r.below(26) as u8) as char }).collect()
}
fn opt_usize(r: &mut Rng) -> Option<usize> {
    match r.below(4) {
        0 => None,
        1 => Some(r.below(64) as usize),
        2 => Some(8),
        _ => Some(r.next() as usize),
    }
}

fn gen_fields(r: &mut Rng, depth: u32, data_only: bool) -> Vec<Field> {
    let n = r.below(4) as usize;
    (0..n)
        .map(|_| unsafe { Field::unsafe_new(name(r), Box::new(gen_schema(r, depth.saturating_sub(1), data_only)), opt_usize(r)) })
        .collect()
}

pub fn gen_def(r: &mut Rng, depth: u32) -> AbiTraitDefinition {
    let nm = r.below(3) as usize;
    AbiTraitDefinition {
        name: name(r),
        methods: (0..nm)
            .map(|i| AbiMethod {
                name: format!("m{}{}", i, name(r)),
                info: AbiMethodInfo {
                    return_value: gen_schema(r, depth.saturating_sub(1), true),
                    receiver: match r.below(3) {
                        0 => ReceiverType::Shared,
                        1 => ReceiverType::Mut,
                        _ => ReceiverType::PinMut,
                    },
                    arguments: (0..r.below(3)).map(|_| AbiMethodArgument { schema: gen_schema(r, depth.saturating_sub(1), true) }).collect(),
                    async_trait_heuristic: r.chance(1, 4),
                },
            })
            .collect(),
        sync: r.chance(1, 2),
        send: r.chance(1, 2),
    }
}

/// `data_only`: only nodes a data file's schema can contain
pub fn gen_schema(r: &mut Rng, depth: u32, data_only: bool) -> Schema {
    let leaf = depth == 0;
    let k = if leaf { 9 + r.below(7) } else { r.below(if data_only { 16 } else { 22 }) };
    match k {
        0 => Schema::Struct(SchemaStruct::new_unsafe(name(r), gen_fields(r, depth, data_only), opt_usize(r), opt_usize(r))),
        1 => {
            let nv = r.below(4) as usize;
            let variants = (0..nv)
                .map(|i| Variant { name: name(r), discriminant: if r.chance(1, 6) { r.below(256) as u8 } else { i as u8 }, fields: gen_fields(r, depth, data_only) })
                .collect();
            Schema::Enum(SchemaEnum::new_unsafe(name(r), variants, [1u8, 2, 4][r.below(3) as usize], r.chance(1, 2), opt_usize(r), opt_usize(r)))
        }
        2 => Schema::Vector(Box::new(gen_schema(r, depth - 1, data_only)), layout(r)),
        3 => Schema::Array(SchemaArray { item_type: Box::new(gen_schema(r, depth - 1, data_only)), count: r.below(5) as usize }),
        4 => Schema::SchemaOption(Box::new(gen_schema(r, depth - 1, data_only))),
        5 => Schema::Boxed(Box::new(gen_schema(r, depth - 1, data_only))),
        6 => Schema::Struct(SchemaStruct::new(name(r), gen_fields(r, depth, data_only))),
        7 | 8 => Schema::Vector(Box::new(Schema::Primitive(gen_prim(r))), layout(r)),
        9 | 10 | 11 => Schema::Primitive(gen_prim(r)),
        12 => Schema::ZeroSize,
        13 => Schema::Custom(name(r)),
        14 => Schema::Recursion(r.below(4) as usize),
        15 => {
            if r.chance(1, 2) {
                Schema::StdIoError
            } else {
                Schema::UtcTimestamp
            }
        }
        16 => Schema::Slice(Box::new(gen_schema(r, depth - 1, data_only))),
        17 => Schema::Reference(Box::new(gen_schema(r, depth - 1, data_only))),
        18 => Schema::Str,
        19 => Schema::Trait(r.chance(1, 2), gen_def(r, depth)),
        20 => Schema::FnClosure(r.chance(1, 2), gen_def(r, depth)),
        _ => {
            if r.chance(1, 3) {
                Schema::Undefined
            } else {
                Schema::UninitSlice
            }
        }
    }
}

/// A single change that alters the wire layout. Returns the kind of change, or None if the chosen
/// position does not admit one.
pub fn mutate(r: &mut Rng, s: &Schema) -> Option<(&'static str, Schema)> {
    let mut s2 = s.clone();
    let kind = mutate_in_place(r, &mut s2, 0)?;
    Some((kind, s2))
}

fn other_prim(r: &mut Rng, p: SchemaPrimitive) -> SchemaPrimitive {
    loop {
        let q = gen_prim(r);
        let both_str = matches!((p, q), (SchemaPrimitive::schema_string(_), SchemaPrimitive::schema_string(_)));
        if q != p && !both_str {
            return q;
        }
    }
}

fn mutate_in_place(r: &mut Rng, s: &mut Schema, depth: u32) -> Option<&'static str> {
    // descend with some probability
    let descend = r.chance(2, 3) && depth < 6;
    match s {
        Schema::Struct(st) => {
            if descend && !st.fields.is_empty() {
                let i = r.below(st.fields.len() as u64) as usize;
                return mutate_in_place(r, &mut st.fields[i].value, depth + 1);
            }
            match r.below(3) {
                0 => {
                    st.fields.push(Field::new(name(r), Box::new(Schema::Primitive(gen_prim(r)))));
                    Some("field-added")
                }
                1 if !st.fields.is_empty() => {
                    let i = r.below(st.fields.len() as u64) as usize;
                    st.fields.remove(i);
                    Some("field-removed")
                }
                _ => {
                    *s = Schema::Vector(Box::new(s.clone()), VecOrStringLayout::Unknown);
                    Some("vector-wrapping")
                }
            }
        }
        Schema::Enum(en) => {
            if descend {
                let candidates: Vec<usize> = en.variants.iter().enumerate().filter(|(_, v)| !v.fields.is_empty()).map(|(i, _)| i).collect();
                if !candidates.is_empty() {
                    let vi = candidates[r.below(candidates.len() as u64) as usize];
                    let fi = r.below(en.variants[vi].fields.len() as u64) as usize;
                    return mutate_in_place(r, &mut en.variants[vi].fields[fi].value, depth + 1);
                }
            }
            match r.below(5) {
                0 => {
                    en.variants.push(Variant { name: name(r), discriminant: en.variants.len() as u8, fields: vec![] });
                    Some("variant-added")
                }
                1 if !en.variants.is_empty() => {
                    let i = r.below(en.variants.len() as u64) as usize;
                    en.variants.remove(i);
                    Some("variant-removed")
                }
                2 if !en.variants.is_empty() => {
                    let i = r.below(en.variants.len() as u64) as usize;
                    en.variants[i].name.push('X');
                    Some("variant-name")
                }
                3 if !en.variants.is_empty() => {
                    let i = r.below(en.variants.len() as u64) as usize;
                    en.variants[i].discriminant = en.variants[i].discriminant.wrapping_add(1);
                    Some("variant-discriminant")
                }
                _ => {
                    en.discriminant_size = if en.discriminant_size == 1 { 2 } else { 1 };
                    Some("discriminant-size")
                }
            }
        }
        Schema::Primitive(p) => {
            if r.chance(1, 4) {
                *s = Schema::SchemaOption(Box::new(s.clone()));
                Some("option-wrapping")
            } else {
                *p = other_prim(r, *p);
                Some("primitive-kind")
            }
        }
        Schema::Vector(inner, _) | Schema::SchemaOption(inner) | Schema::Boxed(inner) | Schema::Slice(inner) | Schema::Reference(inner) => {
            mutate_in_place(r, inner, depth + 1)
        }
        Schema::Array(a) => {
            if descend {
                mutate_in_place(r, &mut a.item_type, depth + 1)
            } else {
                a.count += 1;
                Some("array-length")
            }
        }
        Schema::Custom(c) => {
            c.push('X');
            Some("custom-string")
        }
        Schema::Recursion(d) => {
            *d += 1;
            Some("recursion-depth")
        }
        _ => None,
    }
}
