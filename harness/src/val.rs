//! Values and type descriptors exchanged with the Lean model driver.
//!
//! `ZooVal` is implemented by hand for the library types savefile supports and by
//! `tools/genzoo.py` for every `#[derive(Savefile)]` type of the zoo.

use std::collections::{BTreeMap, BTreeSet, BinaryHeap, HashMap, HashSet, VecDeque};
use std::fmt::Write as _;

/// SplitMix64 — every random choice of a run derives from one state.
#[derive(Clone)]
pub struct Rng(pub u64);
impl Rng {
    pub fn new(seed: u64) -> Rng {
        Rng(seed)
    }
    pub fn next(&mut self) -> u64 {
        self.0 = self.0.wrapping_add(0x9E3779B97F4A7C15);
        let mut z = self.0;
        z = (z ^ (z >> 30)).wrapping_mul(0xBF58476D1CE4E5B9);
        z = (z ^ (z >> 27)).wrapping_mul(0x94D049BB133111EB);
        z ^ (z >> 31)
    }
    pub fn below(&mut self, n: u64) -> u64 {
        if n == 0 {
            0
        } else {
            self.next() % n
        }
    }
    pub fn chance(&mut self, num: u64, den: u64) -> bool {
        self.below(den) < num
    }
    /// collection length: boundary-heavy, bounded by `sz`
    pub fn len(&mut self, sz: usize) -> usize {
        let sz = sz as u64;
        let pick = self.below(10);
        let l = match pick {
            0 | 1 => 0,
            2 | 3 => 1,
            4 => 2,
            5 => 3,
            6 => self.below(sz + 1),
            7 => sz.min(63 + self.below(3)),
            8 => sz,
            _ => self.below(sz.min(8) + 1),
        };
        l.min(sz) as usize
    }
    pub fn fork(&mut self) -> Rng {
        Rng(self.next())
    }
}

/// boundary-heavy unsigned integer of `bits` bits
pub fn gen_uint(r: &mut Rng, bits: u32) -> u128 {
    let max: u128 = if bits == 128 { u128::MAX } else { (1u128 << bits) - 1 };
    let pick = r.below(12);
    let v: u128 = match pick {
        0 => 0,
        1 => 1,
        2 => max,
        3 => max - 1,
        4 => max >> 1,       // signed max
        5 => (max >> 1) + 1, // signed min
        6 => 0x7f,
        7 => 0x80,
        8 => 0xff & max,
        9 => 0x100 & max,
        _ => ((r.next() as u128) << 64) | r.next() as u128,
    };
    v & max
}

pub fn hex(b: &[u8]) -> String {
    if b.is_empty() {
        return "-".to_string();
    }
    let mut s = String::with_capacity(b.len() * 2);
    for x in b {
        let _ = write!(s, "{:02x}", x);
    }
    s
}

pub fn unhex(s: &str) -> Option<Vec<u8>> {
    if s == "-" {
        return Some(vec![]);
    }
    let b = s.as_bytes();
    if b.len() % 2 != 0 {
        return None;
    }
    let mut out = Vec::with_capacity(b.len() / 2);
    for i in (0..b.len()).step_by(2) {
        out.push(u8::from_str_radix(std::str::from_utf8(&b[i..i + 2]).ok()?, 16).ok()?);
    }
    Some(out)
}

/// Collects `(def NAME …)` lines in dependency order, once per name.
#[derive(Default)]
pub struct Defs {
    pub seen: HashSet<String>,
    pub lines: Vec<String>,
}
impl Defs {
    pub fn add(&mut self, name: &str, body: impl FnOnce(&mut Defs) -> String) {
        if self.seen.contains(name) {
            return;
        }
        self.seen.insert(name.to_string());
        let b = body(self);
        self.lines.push(format!("(def {} {})", name, b));
    }
}

pub trait ZooVal: Sized {
    /// descriptor of this type as the model reads it (named types answer `(ref NAME)`)
    fn ty_sx() -> String;
    /// make sure every named type this one mentions is defined
    fn defs(_d: &mut Defs) {}
    fn gen(r: &mut Rng, sz: usize) -> Self;
    /// value as s-expression; `canon` sorts the children of unordered containers
    fn sx(&self, canon: bool) -> String;
}

fn join_sx(head: &str, items: Vec<String>) -> String {
    let mut s = String::from("(");
    s.push_str(head);
    for i in items {
        s.push(' ');
        s.push_str(&i);
    }
    s.push(')');
    s
}

macro_rules! zoo_uint {
    ($t:ty, $name:expr, $bits:expr) => {
        impl ZooVal for $t {
            fn ty_sx() -> String {
                format!("(p {})", $name)
            }
            fn gen(r: &mut Rng, _sz: usize) -> Self {
                gen_uint(r, $bits) as $t
            }
            fn sx(&self, _c: bool) -> String {
                format!("{}", *self)
            }
        }
    };
}
macro_rules! zoo_sint {
    ($t:ty, $u:ty, $name:expr, $bits:expr) => {
        impl ZooVal for $t {
            fn ty_sx() -> String {
                format!("(p {})", $name)
            }
            fn gen(r: &mut Rng, _sz: usize) -> Self {
                gen_uint(r, $bits) as $u as $t
            }
            fn sx(&self, _c: bool) -> String {
                format!("{}", *self as $u)
            }
        }
    };
}
zoo_uint!(u8, "u8", 8);
zoo_uint!(u16, "u16", 16);
zoo_uint!(u32, "u32", 32);
zoo_uint!(u64, "u64", 64);
zoo_uint!(u128, "u128", 128);
zoo_uint!(usize, "usize", 64);
zoo_sint!(i8, u8, "i8", 8);
zoo_sint!(i16, u16, "i16", 16);
zoo_sint!(i32, u32, "i32", 32);
zoo_sint!(i64, u64, "i64", 64);
zoo_sint!(i128, u128, "i128", 128);
zoo_sint!(isize, usize, "isize", 64);

impl ZooVal for f32 {
    fn ty_sx() -> String {
        "(p f32)".into()
    }
    fn gen(r: &mut Rng, _sz: usize) -> Self {
        f32::from_bits(gen_uint(r, 32) as u32)
    }
    fn sx(&self, _c: bool) -> String {
        format!("{}", self.to_bits())
    }
}
impl ZooVal for f64 {
    fn ty_sx() -> String {
        "(p f64)".into()
    }
    fn gen(r: &mut Rng, _sz: usize) -> Self {
        f64::from_bits(gen_uint(r, 64) as u64)
    }
    fn sx(&self, _c: bool) -> String {
        format!("{}", self.to_bits())
    }
}
impl ZooVal for bool {
    fn ty_sx() -> String {
        "(p bool)".into()
    }
    fn gen(r: &mut Rng, _sz: usize) -> Self {
        r.chance(1, 2)
    }
    fn sx(&self, _c: bool) -> String {
        // read the raw byte: a bulk load may have materialised an invalid bool
        let raw = unsafe { std::ptr::read_volatile(self as *const bool as *const u8) };
        if raw > 1 {
            format!("(invalid-bool {})", raw)
        } else {
            format!("{}", raw)
        }
    }
}
impl ZooVal for char {
    fn ty_sx() -> String {
        "(p char)".into()
    }
    fn gen(r: &mut Rng, _sz: usize) -> Self {
        let pick = r.below(10);
        let c = match pick {
            0 => 0,
            1 => 0x7f,
            2 => 0x80,
            3 => 0xd7ff,
            4 => 0xe000,
            5 => 0x10ffff,
            6 => 0xffff,
            7 => 0x10000,
            _ => r.below(0x110000) as u32,
        };
        char::from_u32(c).unwrap_or('x')
    }
    fn sx(&self, _c: bool) -> String {
        let raw = unsafe { std::ptr::read_volatile(self as *const char as *const u32) };
        if char::from_u32(raw).is_none() {
            format!("(invalid-char {})", raw)
        } else {
            format!("{}", raw)
        }
    }
}
impl ZooVal for () {
    fn ty_sx() -> String {
        "(p unit)".into()
    }
    fn gen(_r: &mut Rng, _sz: usize) -> Self {}
    fn sx(&self, _c: bool) -> String {
        "(t)".into()
    }
}

pub fn gen_string(r: &mut Rng, sz: usize) -> String {
    let l = r.len(sz);
    let mut s = String::new();
    for _ in 0..l {
        let c = match r.below(8) {
            0 => char::from_u32(r.below(0x110000) as u32).unwrap_or('\u{fffd}'),
            1 => 'é',
            2 => '\u{10ffff}',
            3 => '\0',
            _ => (b'a' + r.below(26) as u8) as char,
        };
        s.push(c);
    }
    s
}
pub fn str_sx(s: &str) -> String {
    format!("(b {})", hex(s.as_bytes()))
}

impl ZooVal for String {
    fn ty_sx() -> String {
        "str".into()
    }
    fn gen(r: &mut Rng, sz: usize) -> Self {
        gen_string(r, sz)
    }
    fn sx(&self, _c: bool) -> String {
        str_sx(self)
    }
}
impl ZooVal for std::sync::Arc<str> {
    fn ty_sx() -> String {
        "astr".into()
    }
    fn gen(r: &mut Rng, sz: usize) -> Self {
        gen_string(r, sz).into()
    }
    fn sx(&self, _c: bool) -> String {
        str_sx(self)
    }
}
impl<const N: usize> ZooVal for arrayvec::ArrayString<N> {
    fn ty_sx() -> String {
        format!("(capstr {})", N)
    }
    fn gen(r: &mut Rng, sz: usize) -> Self {
        let mut s = arrayvec::ArrayString::new();
        let l = r.len(sz.min(N));
        for _ in 0..l {
            let c = if r.chance(1, 5) { 'é' } else { (b'a' + r.below(26) as u8) as char };
            if s.try_push(c).is_err() {
                break;
            }
        }
        s
    }
    fn sx(&self, _c: bool) -> String {
        str_sx(self.as_str())
    }
}

fn seq_sx<'a, T: ZooVal + 'a>(it: impl Iterator<Item = &'a T>, canon: bool, sort: bool) -> String {
    let mut items: Vec<String> = it.map(|x| x.sx(canon)).collect();
    if sort && canon {
        items.sort();
    }
    join_sx("q", items)
}
fn gen_items<T: ZooVal>(r: &mut Rng, sz: usize) -> Vec<T> {
    let l = r.len(sz);
    let inner = if l > 8 { sz / 8 } else { sz / 2 };
    (0..l).map(|_| T::gen(r, inner)).collect()
}

impl<T: ZooVal> ZooVal for Vec<T> {
    fn ty_sx() -> String {
        format!("(vec {})", T::ty_sx())
    }
    fn defs(d: &mut Defs) {
        T::defs(d)
    }
    fn gen(r: &mut Rng, sz: usize) -> Self {
        gen_items(r, sz)
    }
    fn sx(&self, c: bool) -> String {
        seq_sx(self.iter(), c, false)
    }
}
impl<T: ZooVal> ZooVal for Box<[T]> {
    fn ty_sx() -> String {
        format!("(slice {})", T::ty_sx())
    }
    fn defs(d: &mut Defs) {
        T::defs(d)
    }
    fn gen(r: &mut Rng, sz: usize) -> Self {
        gen_items(r, sz).into_boxed_slice()
    }
    fn sx(&self, c: bool) -> String {
        seq_sx(self.iter(), c, false)
    }
}
impl<T: ZooVal> ZooVal for std::sync::Arc<[T]> {
    fn ty_sx() -> String {
        format!("(slice {})", T::ty_sx())
    }
    fn defs(d: &mut Defs) {
        T::defs(d)
    }
    fn gen(r: &mut Rng, sz: usize) -> Self {
        gen_items::<T>(r, sz).into()
    }
    fn sx(&self, c: bool) -> String {
        seq_sx(self.iter(), c, false)
    }
}
impl<T: ZooVal> ZooVal for VecDeque<T> {
    fn ty_sx() -> String {
        format!("(seq {})", T::ty_sx())
    }
    fn defs(d: &mut Defs) {
        T::defs(d)
    }
    fn gen(r: &mut Rng, sz: usize) -> Self {
        let items = gen_items::<T>(r, sz);
        let mut dq = VecDeque::new();
        // make the ring buffer wrap sometimes
        let front = r.below(3) as usize;
        for (i, x) in items.into_iter().enumerate() {
            if i < front {
                dq.push_front(x)
            } else {
                dq.push_back(x)
            }
        }
        dq
    }
    fn sx(&self, c: bool) -> String {
        seq_sx(self.iter(), c, false)
    }
}
impl<T: ZooVal + Ord> ZooVal for BinaryHeap<T> {
    fn ty_sx() -> String {
        format!("(bag {})", T::ty_sx())
    }
    fn defs(d: &mut Defs) {
        T::defs(d)
    }
    fn gen(r: &mut Rng, sz: usize) -> Self {
        gen_items::<T>(r, sz).into_iter().collect()
    }
    fn sx(&self, c: bool) -> String {
        seq_sx(self.iter(), c, true)
    }
}
impl<T: ZooVal, const N: usize> ZooVal for smallvec::SmallVec<[T; N]>
where
    [T; N]: smallvec::Array<Item = T>,
{
    fn ty_sx() -> String {
        format!("(seq {})", T::ty_sx())
    }
    fn defs(d: &mut Defs) {
        T::defs(d)
    }
    fn gen(r: &mut Rng, sz: usize) -> Self {
        gen_items::<T>(r, sz).into_iter().collect()
    }
    fn sx(&self, c: bool) -> String {
        seq_sx(self.iter(), c, false)
    }
}
impl<T: ZooVal, const N: usize> ZooVal for arrayvec::ArrayVec<T, N> {
    fn ty_sx() -> String {
        format!("(avec {} {})", N, T::ty_sx())
    }
    fn defs(d: &mut Defs) {
        T::defs(d)
    }
    fn gen(r: &mut Rng, sz: usize) -> Self {
        let mut v = arrayvec::ArrayVec::new();
        let l = match r.below(4) {
            0 => N,
            _ => r.len(sz.min(N)),
        };
        for _ in 0..l.min(N) {
            v.push(T::gen(r, sz / 2));
        }
        v
    }
    fn sx(&self, c: bool) -> String {
        seq_sx(self.iter(), c, false)
    }
}
impl<T: ZooVal + Eq + std::hash::Hash, S: std::hash::BuildHasher + Default> ZooVal for HashSet<T, S> {
    fn ty_sx() -> String {
        format!("(set {})", T::ty_sx())
    }
    fn defs(d: &mut Defs) {
        T::defs(d)
    }
    fn gen(r: &mut Rng, sz: usize) -> Self {
        gen_items::<T>(r, sz).into_iter().collect()
    }
    fn sx(&self, c: bool) -> String {
        seq_sx(self.iter(), c, true)
    }
}
impl<T: ZooVal + Ord> ZooVal for BTreeSet<T> {
    fn ty_sx() -> String {
        format!("(set {})", T::ty_sx())
    }
    fn defs(d: &mut Defs) {
        T::defs(d)
    }
    fn gen(r: &mut Rng, sz: usize) -> Self {
        gen_items::<T>(r, sz).into_iter().collect()
    }
    fn sx(&self, c: bool) -> String {
        seq_sx(self.iter(), c, true)
    }
}
impl<T: ZooVal + Eq + std::hash::Hash> ZooVal for indexmap::IndexSet<T> {
    fn ty_sx() -> String {
        format!("(iset {})", T::ty_sx())
    }
    fn defs(d: &mut Defs) {
        T::defs(d)
    }
    fn gen(r: &mut Rng, sz: usize) -> Self {
        gen_items::<T>(r, sz).into_iter().collect()
    }
    fn sx(&self, c: bool) -> String {
        seq_sx(self.iter(), c, false)
    }
}

fn map_sx<'a, K: ZooVal + 'a, V: ZooVal + 'a>(it: impl Iterator<Item = (&'a K, &'a V)>, canon: bool) -> String {
    let mut items: Vec<String> = it.map(|(k, v)| format!("(t {} {})", k.sx(canon), v.sx(canon))).collect();
    if canon {
        items.sort();
    }
    join_sx("q", items)
}
fn gen_pairs<K: ZooVal, V: ZooVal>(r: &mut Rng, sz: usize) -> Vec<(K, V)> {
    let l = r.len(sz);
    (0..l).map(|_| (K::gen(r, sz / 2), V::gen(r, sz / 2))).collect()
}
impl<K: ZooVal + Eq + std::hash::Hash, V: ZooVal, S: std::hash::BuildHasher + Default> ZooVal for HashMap<K, V, S> {
    fn ty_sx() -> String {
        format!("(map {} {})", K::ty_sx(), V::ty_sx())
    }
    fn defs(d: &mut Defs) {
        K::defs(d);
        V::defs(d)
    }
    fn gen(r: &mut Rng, sz: usize) -> Self {
        gen_pairs::<K, V>(r, sz).into_iter().collect()
    }
    fn sx(&self, c: bool) -> String {
        map_sx(self.iter(), c)
    }
}
impl<K: ZooVal + Ord, V: ZooVal> ZooVal for BTreeMap<K, V> {
    fn ty_sx() -> String {
        format!("(bmap {} {})", K::ty_sx(), V::ty_sx())
    }
    fn defs(d: &mut Defs) {
        K::defs(d);
        V::defs(d)
    }
    fn gen(r: &mut Rng, sz: usize) -> Self {
        gen_pairs::<K, V>(r, sz).into_iter().collect()
    }
    fn sx(&self, c: bool) -> String {
        map_sx(self.iter(), c)
    }
}
impl<K: ZooVal + Eq + std::hash::Hash, V: ZooVal> ZooVal for indexmap::IndexMap<K, V> {
    fn ty_sx() -> String {
        format!("(map {} {})", K::ty_sx(), V::ty_sx())
    }
    fn defs(d: &mut Defs) {
        K::defs(d);
        V::defs(d)
    }
    fn gen(r: &mut Rng, sz: usize) -> Self {
        gen_pairs::<K, V>(r, sz).into_iter().collect()
    }
    fn sx(&self, c: bool) -> String {
        map_sx(self.iter(), c)
    }
}

impl<T: ZooVal> ZooVal for Option<T> {
    fn ty_sx() -> String {
        format!("(opt {})", T::ty_sx())
    }
    fn defs(d: &mut Defs) {
        T::defs(d)
    }
    fn gen(r: &mut Rng, sz: usize) -> Self {
        if r.chance(1, 3) {
            None
        } else {
            Some(T::gen(r, sz))
        }
    }
    fn sx(&self, c: bool) -> String {
        match self {
            None => "n".into(),
            Some(x) => format!("(j {})", x.sx(c)),
        }
    }
}
impl<T: ZooVal, E: ZooVal> ZooVal for Result<T, E> {
    fn ty_sx() -> String {
        format!("(res {} {})", T::ty_sx(), E::ty_sx())
    }
    fn defs(d: &mut Defs) {
        T::defs(d);
        E::defs(d)
    }
    fn gen(r: &mut Rng, sz: usize) -> Self {
        if r.chance(1, 2) {
            Ok(T::gen(r, sz))
        } else {
            Err(E::gen(r, sz))
        }
    }
    fn sx(&self, c: bool) -> String {
        match self {
            Ok(x) => format!("(a 1 {})", x.sx(c)),
            Err(x) => format!("(a 0 {})", x.sx(c)),
        }
    }
}

macro_rules! zoo_wrap {
    ($w:ty, $tag:expr, $new:expr, $get:expr) => {
        impl<T: ZooVal> ZooVal for $w {
            fn ty_sx() -> String {
                format!("({} {})", $tag, T::ty_sx())
            }
            fn defs(d: &mut Defs) {
                T::defs(d)
            }
            fn gen(r: &mut Rng, sz: usize) -> Self {
                let f: fn(T) -> $w = $new;
                f(T::gen(r, sz))
            }
            fn sx(&self, c: bool) -> String {
                let g: fn(&$w, bool) -> String = $get;
                g(self, c)
            }
        }
    };
}
zoo_wrap!(Box<T>, "box", Box::new, |s, c| (**s).sx(c));
zoo_wrap!(std::rc::Rc<T>, "box", std::rc::Rc::new, |s, c| (**s).sx(c));
zoo_wrap!(std::sync::Arc<T>, "box", std::sync::Arc::new, |s, c| (**s).sx(c));
zoo_wrap!(std::cell::RefCell<T>, "wrap", std::cell::RefCell::new, |s, c| s.borrow().sx(c));
zoo_wrap!(std::sync::Mutex<T>, "wrap", std::sync::Mutex::new, |s, c| s.lock().unwrap().sx(c));
zoo_wrap!(std::sync::RwLock<T>, "wrap", std::sync::RwLock::new, |s, c| s.read().unwrap().sx(c));
zoo_wrap!(parking_lot::Mutex<T>, "wrap", parking_lot::Mutex::new, |s, c| s.lock().sx(c));
zoo_wrap!(parking_lot::RwLock<T>, "wrap", parking_lot::RwLock::new, |s, c| s.read().sx(c));
impl<T: ZooVal + Copy> ZooVal for std::cell::Cell<T> {
    fn ty_sx() -> String {
        format!("(cell {})", T::ty_sx())
    }
    fn defs(d: &mut Defs) {
        T::defs(d)
    }
    fn gen(r: &mut Rng, sz: usize) -> Self {
        std::cell::Cell::new(T::gen(r, sz))
    }
    fn sx(&self, c: bool) -> String {
        self.get().sx(c)
    }
}

impl<T: ZooVal, const N: usize> ZooVal for [T; N] {
    fn ty_sx() -> String {
        format!("(arr {} {})", N, T::ty_sx())
    }
    fn defs(d: &mut Defs) {
        T::defs(d)
    }
    fn gen(r: &mut Rng, sz: usize) -> Self {
        std::array::from_fn(|_| T::gen(r, sz / 2))
    }
    fn sx(&self, c: bool) -> String {
        join_sx("t", self.iter().map(|x| x.sx(c)).collect())
    }
}

fn tup_head<T>(offs: &[usize]) -> String {
    let mut s = format!("(lay {} {}) (offs", std::mem::size_of::<T>(), std::mem::align_of::<T>());
    for o in offs {
        let _ = write!(s, " {}", o);
    }
    s.push(')');
    s
}
impl<A: ZooVal> ZooVal for (A,) {
    fn ty_sx() -> String {
        format!("(tup {} {})", tup_head::<Self>(&[std::mem::offset_of!(Self, 0)]), A::ty_sx())
    }
    fn defs(d: &mut Defs) {
        A::defs(d)
    }
    fn gen(r: &mut Rng, sz: usize) -> Self {
        (A::gen(r, sz),)
    }
    fn sx(&self, c: bool) -> String {
        format!("(t {})", self.0.sx(c))
    }
}
impl<A: ZooVal, B: ZooVal> ZooVal for (A, B) {
    fn ty_sx() -> String {
        format!(
            "(tup {} {} {})",
            tup_head::<Self>(&[std::mem::offset_of!(Self, 0), std::mem::offset_of!(Self, 1)]),
            A::ty_sx(),
            B::ty_sx()
        )
    }
    fn defs(d: &mut Defs) {
        A::defs(d);
        B::defs(d)
    }
    fn gen(r: &mut Rng, sz: usize) -> Self {
        (A::gen(r, sz / 2), B::gen(r, sz / 2))
    }
    fn sx(&self, c: bool) -> String {
        format!("(t {} {})", self.0.sx(c), self.1.sx(c))
    }
}
impl<A: ZooVal, B: ZooVal, C: ZooVal> ZooVal for (A, B, C) {
    fn ty_sx() -> String {
        format!(
            "(tup {} {} {} {})",
            tup_head::<Self>(&[
                std::mem::offset_of!(Self, 0),
                std::mem::offset_of!(Self, 1),
                std::mem::offset_of!(Self, 2)
            ]),
            A::ty_sx(),
            B::ty_sx(),
            C::ty_sx()
        )
    }
    fn defs(d: &mut Defs) {
        A::defs(d);
        B::defs(d);
        C::defs(d)
    }
    fn gen(r: &mut Rng, sz: usize) -> Self {
        (A::gen(r, sz / 2), B::gen(r, sz / 2), C::gen(r, sz / 2))
    }
    fn sx(&self, c: bool) -> String {
        format!("(t {} {} {})", self.0.sx(c), self.1.sx(c), self.2.sx(c))
    }
}
impl<A: ZooVal, B: ZooVal, C: ZooVal, D: ZooVal> ZooVal for (A, B, C, D) {
    fn ty_sx() -> String {
        format!(
            "(tup {} {} {} {} {})",
            tup_head::<Self>(&[
                std::mem::offset_of!(Self, 0),
                std::mem::offset_of!(Self, 1),
                std::mem::offset_of!(Self, 2),
                std::mem::offset_of!(Self, 3)
            ]),
            A::ty_sx(),
            B::ty_sx(),
            C::ty_sx(),
            D::ty_sx()
        )
    }
    fn defs(d: &mut Defs) {
        A::defs(d);
        B::defs(d);
        C::defs(d);
        D::defs(d)
    }
    fn gen(r: &mut Rng, sz: usize) -> Self {
        (A::gen(r, sz / 2), B::gen(r, sz / 2), C::gen(r, sz / 2), D::gen(r, sz / 2))
    }
    fn sx(&self, c: bool) -> String {
        format!("(t {} {} {} {})", self.0.sx(c), self.1.sx(c), self.2.sx(c), self.3.sx(c))
    }
}

impl ZooVal for std::net::IpAddr {
    fn ty_sx() -> String {
        "ip".into()
    }
    fn gen(r: &mut Rng, _sz: usize) -> Self {
        if r.chance(1, 2) {
            std::net::IpAddr::V4(std::net::Ipv4Addr::from_bits(gen_uint(r, 32) as u32))
        } else {
            std::net::IpAddr::V6(std::net::Ipv6Addr::from_bits(gen_uint(r, 128)))
        }
    }
    fn sx(&self, _c: bool) -> String {
        match self {
            std::net::IpAddr::V4(a) => format!("(a 0 (t {}))", a.to_bits()),
            std::net::IpAddr::V6(a) => format!("(a 1 (t {}))", a.to_bits()),
        }
    }
}
impl ZooVal for std::net::SocketAddr {
    fn ty_sx() -> String {
        "sock".into()
    }
    fn gen(r: &mut Rng, _sz: usize) -> Self {
        use std::net::*;
        if r.chance(1, 2) {
            SocketAddr::V4(SocketAddrV4::new(Ipv4Addr::from_bits(gen_uint(r, 32) as u32), gen_uint(r, 16) as u16))
        } else {
            SocketAddr::V6(SocketAddrV6::new(
                Ipv6Addr::from_bits(gen_uint(r, 128)),
                gen_uint(r, 16) as u16,
                gen_uint(r, 32) as u32,
                gen_uint(r, 32) as u32,
            ))
        }
    }
    fn sx(&self, _c: bool) -> String {
        match self {
            std::net::SocketAddr::V4(a) => format!("(a 0 (t {} {}))", a.port(), a.ip().to_bits()),
            std::net::SocketAddr::V6(a) => {
                format!("(a 1 (t {} {} {} {}))", a.port(), a.ip().to_bits(), a.flowinfo(), a.scope_id())
            }
        }
    }
}
impl ZooVal for savefile::Canary1 {
    fn ty_sx() -> String {
        "canary".into()
    }
    fn gen(_r: &mut Rng, _sz: usize) -> Self {
        savefile::Canary1::new()
    }
    fn sx(&self, _c: bool) -> String {
        "(t)".into()
    }
}
impl ZooVal for std::time::Duration {
    fn ty_sx() -> String {
        "dur".into()
    }
    fn gen(r: &mut Rng, _sz: usize) -> Self {
        let secs = match r.below(5) {
            0 => 0,
            1 => u64::MAX,
            2 => 1u64 << 33,
            _ => gen_uint(r, 64) as u64,
        };
        let nanos = match r.below(4) {
            0 => 0,
            1 => 999_999_999,
            _ => r.below(1_000_000_000) as u32,
        };
        std::time::Duration::new(secs, nanos)
    }
    fn sx(&self, _c: bool) -> String {
        format!("{}", self.as_nanos())
    }
}
/// independent statement of the SystemTime encoding: nanoseconds since the epoch, bit 127 = before
pub fn systime_word(t: &std::time::SystemTime) -> u128 {
    match t.duration_since(std::time::UNIX_EPOCH) {
        Ok(d) => d.as_nanos(),
        Err(e) => {
            let n = e.duration().as_nanos();
            if n == 0 {
                0
            } else {
                n | (1u128 << 127)
            }
        }
    }
}
impl ZooVal for std::time::SystemTime {
    fn ty_sx() -> String {
        "systime".into()
    }
    fn gen(r: &mut Rng, _sz: usize) -> Self {
        use std::time::*;
        let secs = match r.below(7) {
            0 => 0,
            5 => return UNIX_EPOCH,
            1 => (i64::MAX as u64) - 1,
            2 => 1_700_000_000,
            3 => 1u64 << 34, // above u64::MAX nanoseconds
            _ => r.below(1u64 << 62),
        };
        let nanos = match r.below(3) {
            0 => 0,
            1 => 999_999_999,
            _ => r.below(1_000_000_000) as u32,
        };
        let d = Duration::new(secs, nanos);
        if r.chance(1, 2) {
            UNIX_EPOCH.checked_add(d).unwrap_or(UNIX_EPOCH)
        } else {
            UNIX_EPOCH.checked_sub(d).unwrap_or(UNIX_EPOCH)
        }
    }
    fn sx(&self, _c: bool) -> String {
        format!("{}", systime_word(self))
    }
}

/// A `Removed<T>` / `AbiRemoved<T>` field holds nothing.
impl<T: ZooVal> ZooVal for savefile::Removed<T> {
    fn ty_sx() -> String {
        T::ty_sx()
    }
    fn defs(d: &mut Defs) {
        T::defs(d)
    }
    fn gen(_r: &mut Rng, _sz: usize) -> Self {
        savefile::Removed::new()
    }
    fn sx(&self, _c: bool) -> String {
        "(t)".into()
    }
}
impl<T: ZooVal, D: savefile::ValueConstructor<T>> ZooVal for savefile::AbiRemoved<T, D> {
    fn ty_sx() -> String {
        T::ty_sx()
    }
    fn defs(d: &mut Defs) {
        T::defs(d)
    }
    fn gen(_r: &mut Rng, _sz: usize) -> Self {
        savefile::AbiRemoved::new()
    }
    fn sx(&self, _c: bool) -> String {
        "(t)".into()
    }
}
