//! C14: encrypted files.  Real `save_encrypted_file` / `load_encrypted_file` on mutated copies of a saved
//! file (every byte position of small files, every truncation length, wrong passwords), plus an independent
//! frame parser whose AEAD answers (computed with `ring`) let the model replay the stream.

use crate::suite::*;
use crate::val::*;
use ring::aead::{self, BoundKey, Nonce, NonceSequence, OpeningKey, UnboundKey, AES_256_GCM};
use savefile::prelude::*;
use std::io::Read;
use std::panic::{catch_unwind, AssertUnwindSafe};
use std::sync::atomic::{AtomicUsize, Ordering};

static COUNTER: AtomicUsize = AtomicUsize::new(0);

pub fn tmp_path(tag: &str) -> std::path::PathBuf {
    let dir = std::env::var("SFV_TMP").map(std::path::PathBuf::from).unwrap_or_else(|_| {
        let mut p = std::env::current_exe().unwrap();
        p.pop();
        p.push("sfv-tmp");
        p
    });
    let _ = std::fs::create_dir_all(&dir);
    dir.join(format!("{}-{}-{}.bin", tag, std::process::id(), COUNTER.fetch_add(1, Ordering::SeqCst)))
}

struct OneNonce(Option<[u8; 12]>);
impl NonceSequence for OneNonce {
    fn advance(&mut self) -> Result<Nonce, ring::error::Unspecified> {
        self.0.take().map(Nonce::assume_unique_for_key).ok_or(ring::error::Unspecified)
    }
}

/// AES-256-GCM open with an explicit nonce (the model's `openF`)
pub fn aead_open(password: &str, nonce: [u8; 12], ct: &[u8]) -> Option<Vec<u8>> {
    let key = UnboundKey::new(&AES_256_GCM, &key_of(password)).ok()?;
    let mut ok = OpeningKey::new(key, OneNonce(Some(nonce)));
    let mut buf = ct.to_vec();
    match ok.open_in_place(aead::Aad::empty(), &mut buf) {
        Ok(p) => Some(p.to_vec()),
        Err(_) => None,
    }
}

/// the nonce sequence: (data1: u64, data2: u32), advanced before each frame
fn advance(d1: &mut u64, d2: &mut u32) -> [u8; 12] {
    *d2 = d2.wrapping_add(1);
    if *d2 == 0 {
        *d1 = d1.wrapping_add(1);
    }
    let mut n = [0u8; 12];
    n[..8].copy_from_slice(&d1.to_le_bytes());
    n[8..].copy_from_slice(&d2.to_le_bytes());
    n
}

/// Independent reading of the stream format: every (nonce, ciphertext) the reader has to try, in order,
/// with what AES-GCM says: `(d1 d2 CT PLAIN|-)`
pub fn open_table(password: &str, file: &[u8]) -> String {
    let mut s = String::from("(");
    if file.len() < 12 {
        s.push(')');
        return s;
    }
    let mut d1 = u64::from_le_bytes(file[..8].try_into().unwrap());
    let mut d2 = u32::from_le_bytes(file[8..12].try_into().unwrap());
    let mut pos = 12usize;
    let mut first = true;
    while file.len() - pos >= 8 {
        let len = u64::from_le_bytes(file[pos..pos + 8].try_into().unwrap());
        pos += 8;
        if len > 100_000 + 16 || (file.len() - pos) < len as usize {
            break;
        }
        let ct = &file[pos..pos + len as usize];
        pos += len as usize;
        let nonce = advance(&mut d1, &mut d2);
        let opened = aead_open(password, nonce, ct);
        if !first {
            s.push(' ');
        }
        first = false;
        s.push_str(&format!("({} {} {} {})", d1, d2, hex(ct), opened.as_ref().map(|p| hex(p)).unwrap_or("-".into())));
        if opened.is_none() {
            break;
        }
    }
    s.push(')');
    s
}

/// what the real `CryptoReader` delivers from `file`: (plaintext, how it ends)
pub fn real_decrypt(password: &str, file: &[u8]) -> String {
    let mut cur = std::io::Cursor::new(file);
    let r = catch_unwind(AssertUnwindSafe(|| {
        let mut rd = match savefile::CryptoReader::new(&mut cur, key_of(password)) {
            Ok(r) => r,
            Err(_) => return (Vec::new(), "eof".to_string()),
        };
        let mut acc = Vec::new();
        let mut b = [0u8; 1];
        loop {
            match rd.read(&mut b) {
                Ok(0) => return (acc, "clean".into()),
                Ok(_) => acc.push(b[0]),
                Err(e) => {
                    return (acc, if e.kind() == std::io::ErrorKind::UnexpectedEof { "eof".into() } else { "crypto".into() });
                }
            }
        }
    }));
    match r {
        Ok((p, t)) => format!("({} {})", hex(&p), t),
        Err(_) => format!("(panic {})", panic_class(&last_panic())),
    }
}

fn load_file_api<T: Deserialize + WithSchema + ZooVal>(path: &std::path::Path, ver: u32, password: &str) -> String {
    let r = catch_unwind(AssertUnwindSafe(|| savefile::load_encrypted_file::<T, _>(path, ver, password)));
    match r {
        Ok(Ok(x)) => format!("(ok {})", x.sx(true)),
        Ok(Err(e)) => format!("(err {})", err_class(&e)),
        Err(_) => format!("(panic {})", panic_class(&last_panic())),
    }
}

fn load_mem<T: Deserialize + WithSchema + ZooVal>(bytes: &[u8], ver: u32, password: &str) -> String {
    let rep = load_container::<T>(Kind::Encrypted, ver, password, bytes);
    rep
}

/// positions of the frame boundaries of a well-formed stream (offset of each frame's length word, and the end)
pub fn boundaries(file: &[u8]) -> Vec<usize> {
    let mut v = Vec::new();
    let mut pos = 12usize;
    while pos + 8 <= file.len() {
        v.push(pos);
        let len = u64::from_le_bytes(file[pos..pos + 8].try_into().unwrap()) as usize;
        pos += 8 + len;
    }
    v.push(file.len());
    v
}

pub fn enc_case<T: ZooVal + Serialize + Deserialize + WithSchema>(name: &str, r: &mut Rng, sz: usize, ver: u32, exhaustive: bool, strict: bool) -> Vec<String> {
    let mut out = Vec::new();
    let x = T::gen(r, sz);
    let canon = x.sx(true);
    let path = tmp_path("enc");
    let saved = catch_unwind(AssertUnwindSafe(|| savefile::save_encrypted_file(&path, ver, &x, PASSWORD)));
    match saved {
        Ok(Ok(())) => {}
        Ok(Err(e)) => {
            out.push(format!("#stat save-unavailable-{} 1", err_class(&e)));
            let _ = std::fs::remove_file(&path);
            return out;
        }
        Err(_) => {
            out.push(format!("!C14 save-panic type={} got={}", name, panic_class(&last_panic())));
            let _ = std::fs::remove_file(&path);
            return out;
        }
    }
    let file = std::fs::read(&path).unwrap();
    let mut stat = |out: &mut Vec<String>, k: &str| out.push(format!("#stat {} 1", k));
    // intact, right password: loads, through the file API and through CryptoReader over memory
    let rep = load_file_api::<T>(&path, ver, PASSWORD);
    if strict && rep != format!("(ok {})", canon) {
        out.push(format!("!C14 intact-file-does-not-load type={} got={}", name, &rep[..rep.len().min(120)]));
    }
    if file.len() <= 600 {
        out.push(format!("(decstream {} {})\t{}", hex(&file), open_table(PASSWORD, &file), real_decrypt(PASSWORD, &file)));
    }
    let judge = |out: &mut Vec<String>, what: &str, rep: &str, detail: String| {
        if rep.starts_with("(panic") {
            out.push(format!("!C14 {}-panic type={} {} got={}", what, name, detail, &rep[..rep.len().min(160)]));
        } else if rep.starts_with("(ok") {
            out.push(format!("!C14 {}-accepted type={} {} len={} got={}", what, name, detail, file.len(), &rep[..rep.len().min(100)]));
        }
    };
    // ---- replacements
    let mut positions: Vec<usize> = if exhaustive { (0..file.len()).collect() } else { (0..file.len().min(40)).chain(file.len().saturating_sub(24)..file.len()).collect() };
    for _ in 0..24 {
        positions.push(r.below(file.len() as u64) as usize);
    }
    let mut n_mut = 0;
    for (i, &pos) in positions.iter().enumerate() {
        let deltas: Vec<u8> = if exhaustive && i % 16 == 0 { vec![1, 0x80, 0xff, 1 + (r.next() % 255) as u8] } else { vec![1 << (r.below(8) as u8)] };
        for d in deltas {
            let mut m = file.clone();
            m[pos] ^= d;
            n_mut += 1;
            let rep = if n_mut % 10 == 0 {
                let p2 = tmp_path("mut");
                std::fs::write(&p2, &m).unwrap();
                let rep = load_file_api::<T>(&p2, ver, PASSWORD);
                let _ = std::fs::remove_file(&p2);
                rep
            } else {
                load_mem::<T>(&m, ver, PASSWORD)
            };
            stat(&mut out, if rep.starts_with("(err") { "replace-rejected" } else { "replace-other" });
            judge(&mut out, "modified-file", &rep, format!("pos={} xor={:#x}", pos, d));
            if file.len() <= 600 && n_mut % 7 == 0 {
                out.push(format!("(decstream {} {})\t{}", hex(&m), open_table(PASSWORD, &m), real_decrypt(PASSWORD, &m)));
            }
        }
    }
    // ---- truncations
    let mut cuts: Vec<usize> = if exhaustive { (0..file.len()).collect() } else { (0..file.len().min(36)).chain(file.len().saturating_sub(20)..file.len()).collect() };
    for b in boundaries(&file) {
        if b < file.len() {
            cuts.push(b);
        }
    }
    for _ in 0..12 {
        cuts.push(r.below(file.len() as u64) as usize);
    }
    for (i, &t) in cuts.iter().enumerate() {
        let m = &file[..t];
        let rep = if i % 8 == 0 {
            let p2 = tmp_path("cut");
            std::fs::write(&p2, m).unwrap();
            let rep = load_file_api::<T>(&p2, ver, PASSWORD);
            let _ = std::fs::remove_file(&p2);
            rep
        } else {
            load_mem::<T>(m, ver, PASSWORD)
        };
        stat(&mut out, if rep.starts_with("(err") { "cut-rejected" } else { "cut-other" });
        judge(&mut out, "truncated-file", &rep, format!("cut={}", t));
        if file.len() <= 600 && i % 9 == 0 {
            out.push(format!("(decstream {} {})\t{}", hex(m), open_table(PASSWORD, m), real_decrypt(PASSWORD, m)));
        }
    }
    // ---- other passwords
    // (near misses included: padding that a key derivation might swallow — NUL bytes, spaces, a BOM)
    for pw in ["", "correct horse ", "Correct horse", "correct hors", "x", &format!("{}{}", PASSWORD, r.next()),
               &format!("{}\0", PASSWORD), &format!("{}\0\0", PASSWORD), &format!("\u{feff}{}", PASSWORD), &format!(" {}", PASSWORD)] {
        let rep = load_file_api::<T>(&path, ver, pw);
        stat(&mut out, if rep.starts_with("(err") { "password-rejected" } else { "password-other" });
        judge(&mut out, "wrong-password", &rep, format!("password={:?}", pw).replace(' ', "_"));
    }
    if file.len() <= 600 {
        out.push(format!("(decstream {} {})\t{}", hex(&file), open_table("other", &file), real_decrypt("other", &file)));
    }
    let _ = std::fs::remove_file(&path);
    out
}

/// Multi-frame files: incompressible payloads larger than one chunk; cuts and modifications around the
/// frame boundaries.  `hunt`: look for a payload whose compressed stream leaves only a few bytes for the
/// last frame (the decompressor does not need them).
pub fn big_cases(r: &mut Rng, n: usize, hunt: bool) -> Vec<String> {
    let mut out = Vec::new();
    let mut sizes: Vec<usize> = (0..n).map(|i| 99_000 + (i * 37_000) + r.below(500) as usize).collect();
    if hunt {
        // The payload is bzip2-compressed; the encoder is flushed (whole bytes only) before the end of the
        // stream is written, so the last frame holds the final bits of the data block and the end-of-stream
        // marker.  Look for a payload whose data block ends on a byte boundary: then the last frame holds
        // nothing the decompressor needs.
        let mut probe = Rng::new(4242);
        let mut found = 0;
        for i in 0..3000usize {
            let l = 1 + (i % 61);
            let v: Vec<u8> = (0..l).map(|_| probe.next() as u8).collect();
            let path = tmp_path("hunt");
            if savefile::save_encrypted_file(&path, 0, &v, PASSWORD).is_err() {
                continue;
            }
            let file = std::fs::read(&path).unwrap();
            let _ = std::fs::remove_file(&path);
            let bs = boundaries(&file);
            if bs.len() < 3 {
                continue;
            }
            let last = bs[bs.len() - 2];
            let rep = load_container::<Vec<u8>>(Kind::Encrypted, 0, PASSWORD, &file[..last]);
            if rep.starts_with("(ok") {
                found += 1;
                if found <= 2 {
                    out.push(format!(
                        "!C14 truncated-file-accepted type=Vec_u8 value={} cut={} len={} frames={} (cut at the start of the last frame)",
                        hex(&v), last, file.len(), bs.len() - 1
                    ));
                }
            }
        }
        out.push(format!("#stat hunt-last-frame-cut-accepted {}", found));
        out.push("#stat hunt-last-frame-cut-tried 3000".to_string());
    }
    for l in sizes.drain(..) {
        let v: Vec<u8> = (0..l).map(|_| r.next() as u8).collect();
        out.extend(big_one(&v, false));
    }
    out
}

fn big_one(v: &Vec<u8>, hunted: bool) -> Vec<String> {
    let mut out = Vec::new();
    let path = tmp_path("big");
    if savefile::save_encrypted_file(&path, 0, v, PASSWORD).is_err() {
        return out;
    }
    let file = std::fs::read(&path).unwrap();
    let _ = std::fs::remove_file(&path);
    let bs = boundaries(&file);
    out.push(format!("#stat big-frames-{} 1", bs.len() - 1));
    let name = format!("Vec_u8[{}]", v.len());
    let ok = load_mem::<Vec<u8>>(&file, 0, PASSWORD);
    if !ok.starts_with("(ok") {
        out.push(format!("!C14 intact-file-does-not-load type={} got={}", name, &ok[..ok.len().min(100)]));
    }
    let mut cuts = Vec::new();
    for &b in &bs {
        for d in [-9i64, -8, -1, 0, 1, 7, 8, 9, 24] {
            let t = b as i64 + d;
            if t >= 0 && (t as usize) < file.len() {
                cuts.push(t as usize);
            }
        }
    }
    for t in cuts {
        let rep = load_mem::<Vec<u8>>(&file[..t], 0, PASSWORD);
        if std::env::var("SFV_DEBUG_BIG").is_ok() {
            eprintln!("cut {} of {} (boundaries {:?}) -> {}", t, file.len(), bs, &rep[..rep.len().min(60)]);
        }
        out.push(format!("#stat big-cut-{} 1", if rep.starts_with("(err") { "rejected" } else { "other" }));
        if rep.starts_with("(panic") {
            out.push(format!("!C14 truncated-file-panic type={} cut={} got={}", name, t, &rep[..rep.len().min(120)]));
        } else if rep.starts_with("(ok") {
            let last = bs[bs.len() - 2];
            out.push(format!(
                "!C14 truncated-file-accepted type={} cut={} len={} frames={} last-frame-at={} last-frame-plain={} hunted={}",
                name, t, file.len(), bs.len() - 1, last, file.len() - last - 24, hunted
            ));
        }
    }
    for &b in &bs {
        for d in [-20i64, -1, 0, 3, 8, 9, 30] {
            let pos = b as i64 + d;
            if pos >= 0 && (pos as usize) < file.len() {
                let mut m = file.clone();
                m[pos as usize] ^= 0x10;
                let rep = load_mem::<Vec<u8>>(&m, 0, PASSWORD);
                out.push(format!("#stat big-replace-{} 1", if rep.starts_with("(err") { "rejected" } else { "other" }));
                if rep.starts_with("(panic") {
                    out.push(format!("!C14 modified-file-panic type={} pos={} got={}", name, pos, &rep[..rep.len().min(120)]));
                } else if rep.starts_with("(ok") {
                    out.push(format!("!C14 modified-file-accepted type={} pos={} len={} frames={}", name, pos, file.len(), bs.len() - 1));
                }
            }
        }
    }
    out
}

// ---------------------------------------------------------------------------------------------
// `CryptoWriter` driven directly by a program of writes and flushes (the way user code uses it with
// `savefile::save`): how the plaintext is cut into frames (model: `CW.chunksProg`), and whether the reader
// that consumes exactly the written plaintext notices every change to the stream, its tail included.

enum CwOp {
    W(usize),
    F,
}

fn cw_program(r: &mut Rng) -> Vec<CwOp> {
    const B: usize = 100_000;
    let mut ops = Vec::new();
    let around = |r: &mut Rng, k: usize| -> usize {
        let d = [0i64, 0, 0, 1, -1, 2, -2, 16, -16][r.below(9) as usize];
        ((k * B) as i64 + d).max(0) as usize
    };
    match r.below(6) {
        // one write of (a multiple of) the chunk size, give or take a little
        0 => {
            let k = 1 + r.below(3) as usize;
            ops.push(CwOp::W(around(r, k)))
        }
        // many small writes that add up to the chunk size exactly (or nearly)
        1 => {
            let total = around(r, 1);
            let mut left = total;
            while left > 0 {
                let n = (1 + r.below(9000) as usize).min(left);
                ops.push(CwOp::W(n));
                left -= n;
            }
        }
        // explicit flushes at arbitrary points, empty ones included
        2 => {
            for _ in 0..(1 + r.below(6)) {
                match r.below(4) {
                    0 => ops.push(CwOp::F),
                    1 => ops.push(CwOp::W(around(r, 1))),
                    _ => ops.push(CwOp::W(r.below(3000) as usize)),
                }
            }
        }
        // a flush exactly when a whole chunk is buffered, then more
        3 => {
            ops.push(CwOp::W(B));
            ops.push(CwOp::F);
            if r.chance(1, 2) {
                ops.push(CwOp::W(r.below(50) as usize));
            }
        }
        // small streams
        4 => {
            for _ in 0..r.below(5) {
                if r.chance(1, 4) {
                    ops.push(CwOp::F)
                } else {
                    ops.push(CwOp::W(r.below(40) as usize))
                }
            }
        }
        _ => {
            ops.push(CwOp::W(r.below(B as u64) as usize));
            ops.push(CwOp::W(around(r, 1)));
        }
    }
    ops
}

/// reads exactly `n` plaintext bytes and stops, as a loader does
fn read_exactly(password: &str, file: &[u8], n: usize) -> Result<Vec<u8>, String> {
    let mut cur = std::io::Cursor::new(file);
    let r = catch_unwind(AssertUnwindSafe(|| -> Result<Vec<u8>, String> {
        let mut rd = savefile::CryptoReader::new(&mut cur, key_of(password)).map_err(|e| err_class(&e))?;
        let mut buf = vec![0u8; n];
        rd.read_exact(&mut buf).map_err(|e| format!("{:?}", e.kind()))?;
        Ok(buf)
    }));
    match r {
        Ok(x) => x,
        Err(_) => Err(format!("panic {}", panic_class(&last_panic()))),
    }
}

/// D25 on the real code: a value saved through `CryptoWriter` whose plaintext carries, from the start of its second
/// chunk on, the image of another complete file.  With the stored nonce advanced by one and the first frame removed,
/// does the file load — and as what?
fn position_binding_probe(r: &mut Rng) -> Vec<String> {
    use std::io::Write;
    let mut out = vec!["#stat cw-position-binding-probes 1".to_string()];
    let inner: Vec<u8> = (0..(3 + r.below(20))).map(|_| r.next() as u8).collect();
    let inner_file = match catch_unwind(AssertUnwindSafe(|| savefile::save_to_mem(0, &inner))) {
        Ok(Ok(b)) => b,
        _ => return out,
    };
    // plaintext of `save(outer)`: 16 bytes header, schema of Vec<u8>, 8 byte length, the bytes
    let probe = savefile::save_to_mem(0, &Vec::<u8>::new()).unwrap();
    let before = probe.len(); // header + schema + length word
    let mut outer: Vec<u8> = vec![0x55; 100_000 - before];
    outer.extend_from_slice(&inner_file);
    outer.extend((0..(r.below(300) as usize)).map(|i| i as u8));
    let mut stream: Vec<u8> = Vec::new();
    let wrote = catch_unwind(AssertUnwindSafe(|| -> Result<(), String> {
        let mut w = savefile::CryptoWriter::new(&mut stream, key_of(PASSWORD)).map_err(|e| err_class(&e))?;
        savefile::save(&mut w, 0, &outer).map_err(|e| err_class(&e))?;
        w.flush().map_err(|e| e.to_string())?;
        w.flush_final().map_err(|e| err_class(&e))
    }));
    if !matches!(wrote, Ok(Ok(()))) {
        return out;
    }
    let b = boundaries(&stream);
    if b.len() < 3 {
        return out;
    }
    // the stored counter start, advanced once
    let mut d1 = u64::from_le_bytes(stream[..8].try_into().unwrap());
    let mut d2 = u32::from_le_bytes(stream[8..12].try_into().unwrap());
    let _ = advance(&mut d1, &mut d2);
    let mut tampered = Vec::new();
    tampered.extend_from_slice(&d1.to_le_bytes());
    tampered.extend_from_slice(&d2.to_le_bytes());
    tampered.extend_from_slice(&stream[b[1]..]);
    let loaded = catch_unwind(AssertUnwindSafe(|| {
        let mut cur = std::io::Cursor::new(&tampered[..]);
        let mut rd = savefile::CryptoReader::new(&mut cur, key_of(PASSWORD))?;
        savefile::load::<Vec<u8>>(&mut rd, 0)
    }));
    match loaded {
        Ok(Ok(v)) => out.push(format!(
            "!C14 first-frame-removed-and-stored-nonce-advanced-loads-as-another-value saved-len={} loaded-len={} loaded-is-the-embedded-value={}",
            outer.len(), v.len(), v == inner
        )),
        Ok(Err(_)) => {}
        Err(_) => out.push(format!("!C14 tampered-file-panics change=first-frame-removed got={}", panic_class(&last_panic()))),
    }
    out
}

pub fn cw_cases(r: &mut Rng, n: usize) -> Vec<String> {
    use std::io::Write;
    let mut out = Vec::new();
    for _ in 0..(1 + n / 100) {
        out.extend(position_binding_probe(r));
    }
    for _ in 0..n {
        let ops = cw_program(r);
        let mut data: Vec<u8> = Vec::new();
        let mut stream: Vec<u8> = Vec::new();
        let fill = r.next() as u8;
        let res = catch_unwind(AssertUnwindSafe(|| -> Result<(), String> {
            let mut w = savefile::CryptoWriter::new(&mut stream, key_of(PASSWORD)).map_err(|e| err_class(&e))?;
            for op in ops.iter() {
                match op {
                    CwOp::W(k) => {
                        let chunk: Vec<u8> = (0..*k).map(|i| fill.wrapping_add((i % 251) as u8)).collect();
                        w.write_all(&chunk).map_err(|e| e.to_string())?;
                        data.extend_from_slice(&chunk);
                    }
                    CwOp::F => w.flush().map_err(|e| e.to_string())?,
                }
            }
            w.flush_final().map_err(|e| err_class(&e))
        }));
        let req = format!(
            "(cwprog {})",
            ops.iter().map(|o| match o { CwOp::W(k) => format!("(w {})", k), CwOp::F => "f".to_string() }).collect::<Vec<_>>().join(" ")
        );
        match res {
            Ok(Ok(())) => {}
            Ok(Err(e)) => {
                out.push(format!("!C14 crypto-writer-fails-on-good-sink prog={} got={}", req.replace(' ', "_"), e.replace(' ', "_")));
                continue;
            }
            Err(_) => {
                out.push(format!("!C14 crypto-writer-panics prog={} got={}", req.replace(' ', "_"), panic_class(&last_panic())));
                continue;
            }
        }
        // independent parse of the stream: frame plaintext lengths, and the plaintext itself
        let mut lens = Vec::new();
        let mut plain = Vec::new();
        let mut wellformed = stream.len() >= 12;
        if wellformed {
            let mut d1 = u64::from_le_bytes(stream[..8].try_into().unwrap());
            let mut d2 = u32::from_le_bytes(stream[8..12].try_into().unwrap());
            let mut pos = 12usize;
            while pos < stream.len() {
                if stream.len() - pos < 8 {
                    wellformed = false;
                    break;
                }
                let len = u64::from_le_bytes(stream[pos..pos + 8].try_into().unwrap()) as usize;
                pos += 8;
                if len < 16 || stream.len() - pos < len {
                    wellformed = false;
                    break;
                }
                let nonce = advance(&mut d1, &mut d2);
                match aead_open(PASSWORD, nonce, &stream[pos..pos + len]) {
                    Some(p) => {
                        lens.push(p.len());
                        plain.extend_from_slice(&p);
                    }
                    None => {
                        wellformed = false;
                        break;
                    }
                }
                pos += len;
            }
        }
        if !wellformed || plain != data {
            out.push(format!("!C14 written-stream-is-not-the-frames-of-its-plaintext prog={} wellformed={} plain={} written={}", req.replace(' ', "_"), wellformed, plain.len(), data.len()));
            continue;
        }
        out.push(format!("{}\t(ok ({}))", req, lens.iter().map(|l| l.to_string()).collect::<Vec<_>>().join(" ")));
        out.push(format!("#stat cw-frames-{} 1", lens.len().min(4)));
        if data.is_empty() {
            continue;
        }
        // the intact stream gives the plaintext back
        match read_exactly(PASSWORD, &stream, data.len()) {
            Ok(p) if p == data => {}
            other => out.push(format!("!C14 intact-stream-does-not-read-back prog={} got={}", req.replace(' ', "_"), other.map(|p| format!("{}_bytes", p.len())).unwrap_or_else(|e| e.replace(' ', "_")))),
        }
        // every truncation of the tail, and single-bit changes in the tail, the nonce and at random places,
        // must be noticed by a reader that consumes exactly the plaintext
        let mut probes: Vec<(String, Vec<u8>)> = Vec::new();
        for t in 1..=40usize.min(stream.len()) {
            probes.push((format!("cut-{}", t), stream[..stream.len() - t].to_vec()));
        }
        for k in 0..24 {
            let pos = if k < 12 { stream.len() - 1 - (r.below(40.min(stream.len() as u64)) as usize) } else { r.below(stream.len() as u64) as usize };
            let mut m = stream.clone();
            m[pos] ^= 1 << r.below(8);
            probes.push((format!("flip-at-{}-of-{}", pos, stream.len()), m));
        }
        // cuts exactly at the frame borders (the reader sees a clean end of the underlying data there) and a few
        // bytes into the next frame's length word
        for b in boundaries(&stream) {
            for k in 0..8usize {
                if b + k < stream.len() {
                    probes.push((format!("cut-at-frame-border-{}+{}", b, k), stream[..b + k].to_vec()));
                }
            }
        }
        for (what, m) in probes {
            out.push("#stat cw-tamper-probes 1".into());
            if let Ok(p) = read_exactly(PASSWORD, &m, data.len()) {
                out.push(format!(
                    "!C14 tampered-stream-accepted prog={} change={} frames={:?} same-plaintext={}",
                    req.replace(' ', "_"), what, lens, p == data
                ));
                if what.starts_with("cut") {
                    out.push(format!(
                        "!C07 prefix-of-encrypted-stream-accepted prog={} change={} frames={:?} same-plaintext={}",
                        req.replace(' ', "_"), what, lens, p == data
                    ));
                }
                break;
            }
        }
    }
    out
}
