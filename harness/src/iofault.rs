//! C08: I/O faults and chunking.  The real `save`/`load` entry points run over instrumented
//! `Write`/`Read` implementations that accept/deliver data in arbitrary pieces, report `Interrupted`,
//! return `Ok(0)`, or fail hard at a chosen byte offset.

use crate::suite::*;
use crate::val::*;
use savefile::prelude::*;
use savefile::SavefileError;
use std::io::{Error, ErrorKind, Read, Write};
use std::panic::{catch_unwind, AssertUnwindSafe};

#[derive(Clone, Debug)]
pub enum Chunk {
    All,
    One,
    Random,
}

#[derive(Clone, Debug)]
pub struct Plan {
    pub chunk: Chunk,
    /// per call, chance in 1/8 of reporting `Interrupted` instead of doing anything
    pub interrupt8: u64,
    /// hard failure once this many bytes went through: (offset, kind, persistent)
    pub fail_at: Option<(usize, ErrorKind, bool)>,
    /// `Ok(0)` once this many bytes went through (writer only)
    pub zero_at: Option<usize>,
    /// the n-th `flush` call fails (writer only)
    pub flush_fail: Option<usize>,
    pub seed: u64,
}

impl Plan {
    pub fn name(&self) -> String {
        format!(
            "{:?}/int{}/fail{}/zero{}/flush{}",
            self.chunk,
            self.interrupt8,
            self.fail_at.map(|(o, k, p)| format!("@{}:{:?}:{}", o, k, if p { "persistent" } else { "once" })).unwrap_or("-".into()),
            self.zero_at.map(|o| o.to_string()).unwrap_or("-".into()),
            self.flush_fail.map(|o| o.to_string()).unwrap_or("-".into())
        )
    }
    pub fn benign(&self) -> bool {
        self.fail_at.is_none() && self.zero_at.is_none() && self.flush_fail.is_none()
    }
}

/// what one `write`/`read` call did: `a<n>` accepted/delivered n bytes, `i` interrupted, `z` Ok(0), `e` error
pub type Log = Vec<String>;

pub struct FaultyWriter {
    pub plan: Plan,
    rng: Rng,
    pub accepted: Vec<u8>,
    /// calls made, in order: `wN` a write of N bytes, `f` a flush
    pub ops: Vec<String>,
    pub log: Log,
    pub flushes: usize,
    pub fired: bool,
    failed_once: bool,
    /// calls that made no progress in a row (the caller keeps retrying a failed operation: a hang)
    idle: usize,
    pub hung: bool,
}

impl FaultyWriter {
    pub fn new(plan: Plan) -> FaultyWriter {
        let rng = Rng::new(plan.seed);
        FaultyWriter { plan, rng, accepted: Vec::new(), ops: Vec::new(), log: Vec::new(), flushes: 0, fired: false, failed_once: false, idle: 0, hung: false }
    }
}

impl Write for FaultyWriter {
    fn write(&mut self, buf: &[u8]) -> std::io::Result<usize> {
        self.ops.push(format!("w{}", buf.len()));
        self.idle += 1;
        if self.hung {
            return Err(Error::new(ErrorKind::Other, "after hang"));
        }
        if self.idle > 10_000 {
            // ten thousand calls in a row without a byte of progress: break out of the caller's loop
            self.hung = true;
            panic!("sfv-hang-detected");
        }
        if buf.is_empty() {
            self.log.push("a0".into());
            return Ok(0);
        }
        if self.plan.interrupt8 > 0 && self.rng.below(8) < self.plan.interrupt8 {
            self.log.push("i".into());
            return Err(Error::new(ErrorKind::Interrupted, "injected interrupt"));
        }
        let mut room = buf.len();
        if let Some((off, kind, persistent)) = self.plan.fail_at {
            if self.accepted.len() >= off && (persistent || !self.failed_once) {
                self.failed_once = true;
                self.fired = true;
                self.log.push(format!("e{:?}", kind));
                return Err(Error::new(kind, "injected write failure"));
            }
            if self.accepted.len() < off {
                room = room.min(off - self.accepted.len());
            }
        }
        if let Some(off) = self.plan.zero_at {
            if self.accepted.len() >= off {
                self.fired = true;
                self.log.push("z".into());
                return Ok(0);
            }
            room = room.min(off - self.accepted.len());
        }
        let n = match self.plan.chunk {
            Chunk::All => room,
            Chunk::One => 1,
            Chunk::Random => 1 + self.rng.below(room as u64) as usize,
        }
        .min(room);
        self.accepted.extend_from_slice(&buf[..n]);
        self.idle = 0;
        self.log.push(format!("a{}", n));
        Ok(n)
    }
    fn flush(&mut self) -> std::io::Result<()> {
        self.flushes += 1;
        self.ops.push("f".into());
        if self.plan.flush_fail == Some(self.flushes) {
            self.fired = true;
            self.log.push("fe".into());
            return Err(Error::new(ErrorKind::Other, "injected flush failure"));
        }
        self.log.push("f".into());
        Ok(())
    }
}

pub struct FaultyReader<'a> {
    pub plan: Plan,
    rng: Rng,
    data: &'a [u8],
    pub pos: usize,
    pub fired: bool,
    failed_once: bool,
    pub calls: usize,
}

impl<'a> FaultyReader<'a> {
    pub fn new(plan: Plan, data: &'a [u8]) -> FaultyReader<'a> {
        let rng = Rng::new(plan.seed);
        FaultyReader { plan, rng, data, pos: 0, fired: false, failed_once: false, calls: 0 }
    }
}

impl Read for FaultyReader<'_> {
    fn read(&mut self, buf: &mut [u8]) -> std::io::Result<usize> {
        self.calls += 1;
        if buf.is_empty() {
            return Ok(0);
        }
        if self.plan.interrupt8 > 0 && self.rng.below(8) < self.plan.interrupt8 {
            return Err(Error::new(ErrorKind::Interrupted, "injected interrupt"));
        }
        let mut room = buf.len().min(self.data.len() - self.pos);
        if let Some((off, kind, persistent)) = self.plan.fail_at {
            if self.pos >= off && (persistent || !self.failed_once) {
                self.failed_once = true;
                self.fired = true;
                return Err(Error::new(kind, "injected read failure"));
            }
            if self.pos < off {
                room = room.min(off - self.pos);
            }
        }
        if room == 0 {
            return Ok(0);
        }
        let n = match self.plan.chunk {
            Chunk::All => room,
            Chunk::One => 1,
            Chunk::Random => 1 + self.rng.below(room as u64) as usize,
        }
        .min(room);
        buf[..n].copy_from_slice(&self.data[self.pos..self.pos + n]);
        self.pos += n;
        Ok(n)
    }
}

fn save_to<T: Serialize + WithSchema>(kind: Kind, ver: u32, x: &T, w: &mut FaultyWriter) -> Result<(), String> {
    let r = catch_unwind(AssertUnwindSafe(|| -> Result<(), SavefileError> {
        match kind {
            Kind::Plain => savefile::save(w, ver, x)?,
            Kind::NoSchema => savefile::save_noschema(w, ver, x)?,
            Kind::Compressed => savefile::save_compressed(w, ver, x)?,
            Kind::Encrypted => {
                // what save_encrypted_file does
                let mut cw = savefile::CryptoWriter::new(w, key_of(PASSWORD))?;
                Serializer::save::<T>(&mut cw, ver, x, true)?;
                cw.flush()?;
            }
        }
        Ok(())
    }));
    match r {
        Ok(Ok(())) => Ok(()),
        Ok(Err(e)) => Err(format!("(err {})", err_class(&e))),
        Err(_) => Err(format!("(panic {})", panic_class(&last_panic()))),
    }
}

fn load_from<T: Deserialize + WithSchema + ZooVal>(kind: Kind, ver: u32, rd: &mut FaultyReader) -> String {
    let r = catch_unwind(AssertUnwindSafe(|| -> Result<String, SavefileError> {
        let x: T = match kind {
            Kind::Plain | Kind::Compressed => savefile::load(rd, ver)?,
            Kind::NoSchema => savefile::load_noschema(rd, ver)?,
            Kind::Encrypted => {
                let mut cr = savefile::CryptoReader::new(rd, key_of(PASSWORD))?;
                Deserializer::<savefile::CryptoReader>::load::<T>(&mut cr, ver)?
            }
        };
        Ok(format!("(ok {})", x.sx(true)))
    }));
    match r {
        Ok(Ok(s)) => s,
        Ok(Err(e)) => format!("(err {})", err_class(&e)),
        Err(_) => format!("(panic {})", panic_class(&last_panic())),
    }
}

/// decrypt as much of an encrypted stream as authenticates; (plaintext, clean end?)
fn decrypt_prefix(bytes: &[u8]) -> (Vec<u8>, bool) {
    let mut cur = std::io::Cursor::new(bytes);
    let mut out = Vec::new();
    let r = catch_unwind(AssertUnwindSafe(|| {
        let mut rd = match savefile::CryptoReader::new(&mut cur, key_of(PASSWORD)) {
            Ok(r) => r,
            Err(_) => return (Vec::new(), false),
        };
        let mut acc = Vec::new();
        let mut b = [0u8; 1];
        loop {
            match rd.read(&mut b) {
                Ok(0) => return (acc, true),
                Ok(_) => acc.push(b[0]),
                Err(_) => return (acc, false),
            }
        }
    }));
    if let Ok((p, clean)) = r {
        out = p;
        return (out, clean);
    }
    (out, false)
}

fn is_prefix(a: &[u8], b: &[u8]) -> bool {
    a.len() <= b.len() && &b[..a.len()] == a
}

fn writer_plans(r: &mut Rng, len: usize, flushes: usize, n: usize) -> Vec<Plan> {
    let kinds = [ErrorKind::Other, ErrorKind::BrokenPipe, ErrorKind::WriteZero, ErrorKind::PermissionDenied, ErrorKind::WouldBlock, ErrorKind::UnexpectedEof, ErrorKind::TimedOut];
    let mut v = Vec::new();
    let base = |r: &mut Rng| Plan { chunk: Chunk::All, interrupt8: 0, fail_at: None, zero_at: None, flush_fail: None, seed: r.next() };
    // benign schedules
    v.push(Plan { chunk: Chunk::One, ..base(r) });
    v.push(Plan { chunk: Chunk::Random, interrupt8: 3, ..base(r) });
    v.push(Plan { chunk: Chunk::All, interrupt8: 5, ..base(r) });
    // faults
    let mut offs: Vec<usize> = vec![0, 1, 8, 9, 11, 12, 15, 16, 17, 19, 20, 28, len.saturating_sub(1), len, len.saturating_sub(16), len.saturating_sub(17), len / 2];
    for _ in 0..n {
        offs.push(r.below(len as u64 + 1) as usize);
    }
    for off in offs {
        if off > len {
            continue;
        }
        let kind = kinds[r.below(kinds.len() as u64) as usize];
        let chunk = match r.below(3) {
            0 => Chunk::All,
            1 => Chunk::One,
            _ => Chunk::Random,
        };
        let persistent = r.below(4) != 0;
        v.push(Plan { chunk: chunk.clone(), interrupt8: if r.below(3) == 0 { 2 } else { 0 }, fail_at: Some((off, kind, persistent)), ..base(r) });
        if r.below(3) == 0 {
            v.push(Plan { chunk, zero_at: Some(off), ..base(r) });
        }
    }
    for k in 1..=flushes.min(3) {
        v.push(Plan { flush_fail: Some(k), ..base(r) });
    }
    if flushes > 3 {
        v.push(Plan { flush_fail: Some(flushes), ..base(r) });
    }
    v
}

fn reader_plans(r: &mut Rng, len: usize, n: usize) -> Vec<Plan> {
    let kinds = [ErrorKind::Other, ErrorKind::BrokenPipe, ErrorKind::ConnectionReset, ErrorKind::WouldBlock, ErrorKind::TimedOut, ErrorKind::InvalidData];
    let mut v = Vec::new();
    let base = |r: &mut Rng| Plan { chunk: Chunk::All, interrupt8: 0, fail_at: None, zero_at: None, flush_fail: None, seed: r.next() };
    v.push(Plan { chunk: Chunk::One, ..base(r) });
    v.push(Plan { chunk: Chunk::Random, ..base(r) });
    v.push(Plan { chunk: Chunk::Random, interrupt8: 3, ..base(r) });
    v.push(Plan { chunk: Chunk::One, interrupt8: 4, ..base(r) });
    v.push(Plan { chunk: Chunk::All, interrupt8: 5, ..base(r) });
    let mut offs: Vec<usize> = vec![0, 1, 8, 9, 12, 13, 15, 16, 19, 20, 21, len.saturating_sub(1), len.saturating_sub(16), len / 2];
    for _ in 0..n {
        offs.push(r.below(len as u64 + 1) as usize);
    }
    for off in offs {
        if off >= len {
            continue;
        }
        let kind = kinds[r.below(kinds.len() as u64) as usize];
        let chunk = match r.below(3) {
            0 => Chunk::All,
            1 => Chunk::One,
            _ => Chunk::Random,
        };
        v.push(Plan { chunk, interrupt8: if r.below(3) == 0 { 2 } else { 0 }, fail_at: Some((off, kind, r.below(4) != 0)), ..base(r) });
    }
    v
}


#[allow(clippy::too_many_arguments)]
fn writer_case<T: ZooVal + Serialize + Deserialize + WithSchema>(kind: Kind, ver: u32, x: &T, plan: &Plan, good: &[u8], good_plain: &[u8], pieces: &[String], canon: &str, ctx: &str, strict: bool, out: &mut Vec<String>) {
    let stat = |out: &mut Vec<String>, k: String| out.push(format!("#stat {} 1", k));
    let mut w = FaultyWriter::new(plan.clone());
    let res = save_to(kind, ver, x, &mut w);
    let res_s = match &res {
        Ok(()) => "(ok)".to_string(),
        Err(e) => e.clone(),
    };
    stat(out, format!("w-{}-{}-{}", kind.name(), if plan.benign() { "benign" } else { "fault" }, res_s.trim_matches(|c| c == '(' || c == ')').split(' ').next().unwrap_or("")));
    if w.hung {
        out.push(format!("!C08 write-fault-hang {} (10000 consecutive write calls without progress)", ctx));
        return;
    }
    if res_s.starts_with("(panic") {
        out.push(format!("!C08 write-fault-panic {} got={}", ctx, res_s));
        return;
    }
    // model request: the write_all-level pieces of the fault-free run, the per-call outcomes, the result
    if kind != Kind::Encrypted && kind != Kind::Compressed {
        let norm = if res_s.starts_with("(err io:") || res_s == "(err eof)" { "(err io)".to_string() } else { res_s.clone() };
        out.push(format!("(wsave (ops {}) (log {}))\t({} {})", pieces.join(" "), w.log.join(" "), w.accepted.len(), norm));
    }
    if kind == Kind::Encrypted {
        let (plain, clean) = decrypt_prefix(&w.accepted);
        if !is_prefix(&plain, good_plain) {
            out.push(format!("!C08 accepted-not-prefix {} plain={} of {}", ctx, plain.len(), good_plain.len()));
        }
        if res.is_ok() && !(plain == good_plain && clean) {
            out.push(format!("!C08 silent-success {} plain={} of {} clean={}", ctx, plain.len(), good_plain.len(), clean));
        }
        if res.is_ok() {
            let rep = load_container::<T>(kind, ver, PASSWORD, &w.accepted);
            if !rep.starts_with(&format!("(ok {} ", canon)) && strict {
                out.push(format!("!C08 saved-ok-but-unloadable {} got={}", ctx, &rep[..rep.len().min(120)]));
            }
        }
    } else {
        if !is_prefix(&w.accepted, &good) {
            out.push(format!("!C08 accepted-not-prefix {} accepted={}", ctx, w.accepted.len()));
        }
        if res.is_ok() && w.accepted != good {
            out.push(format!("!C08 silent-success {} accepted={} of {}", ctx, w.accepted.len(), good.len()));
        }
    }
    if plan.benign() && res.is_err() {
        out.push(format!("!C08 chunking-changes-save-result {} got={}", ctx, res_s));
    }
    // a successful save has handed everything on: the last thing it did to the writer was a flush (behind a
    // buffering writer, what is written after the last flush is stored only if nothing goes wrong later, and then
    // nobody is told)
    if res.is_ok() && w.ops.iter().any(|o| o.starts_with('w') && o != "w0") && w.ops.last().map(|o| o != "f").unwrap_or(false) {
        out.push(format!("!C08 success-without-final-flush {} last-ops={}", ctx, w.ops.iter().rev().take(3).cloned().collect::<Vec<_>>().join(",")));
    }
    if w.fired && res.is_ok() && plan.fail_at.map(|(_, _, p)| p).unwrap_or(true) {
        out.push(format!("!C08 write-fault-swallowed {} accepted={} of {}", ctx, w.accepted.len(), good.len()));
    }
}

/// the header-less entry point `Serializer::bare_serialize` (what savefile-abi and user code with their own framing use)
fn bare_entry_case<T: ZooVal + Serialize>(name: &str, ver: u32, x: &T, out: &mut Vec<String>) {
    let run = |plan: Plan| -> (Result<(), String>, FaultyWriter) {
        let mut w = FaultyWriter::new(plan);
        let r = catch_unwind(AssertUnwindSafe(|| Serializer::bare_serialize(&mut w, ver, x)));
        let r = match r {
            Ok(Ok(())) => Ok(()),
            Ok(Err(e)) => Err(format!("(err {})", err_class(&e))),
            Err(_) => Err(format!("(panic {})", panic_class(&last_panic()))),
        };
        (r, w)
    };
    let all = Plan { chunk: Chunk::All, interrupt8: 0, fail_at: None, zero_at: None, flush_fail: None, seed: 0 };
    let (r0, w0) = run(all.clone());
    out.push("#stat w-bare-entry 1".into());
    if r0.is_err() {
        return; // (a value that cannot be written at this version)
    }
    if w0.accepted.is_empty() {
        return;
    }
    if w0.ops.last().map(|o| o != "f").unwrap_or(true) {
        out.push(format!("!C08 success-without-final-flush kind=bare type={} last-ops={}", name, w0.ops.iter().rev().take(3).cloned().collect::<Vec<_>>().join(",")));
    }
    // a writer that takes every byte and fails when asked to hand them on
    let (r1, w1) = run(Plan { flush_fail: Some(w0.flushes.max(1)), ..all.clone() });
    if r1.is_ok() {
        out.push(format!("!C08 write-fault-swallowed kind=bare type={} plan=flush-fails flushes-seen={}", name, w1.flushes));
    }
    if let Err(e) = &r1 {
        if e.starts_with("(panic") {
            out.push(format!("!C08 write-fault-panic kind=bare type={} got={}", name, e));
        }
    }
    // a write failure half way
    let (r2, w2) = run(Plan { fail_at: Some((w0.accepted.len() / 2, ErrorKind::Other, true)), ..all });
    if r2.is_ok() {
        out.push(format!("!C08 write-fault-swallowed kind=bare type={} plan=fail-at-half accepted={} of {}", name, w2.accepted.len(), w0.accepted.len()));
    }
    if !is_prefix(&w2.accepted, &w0.accepted) {
        out.push(format!("!C08 accepted-not-prefix kind=bare type={}", name));
    }
}

pub fn iofault_case<T: ZooVal + Serialize + Deserialize + WithSchema>(name: &str, r: &mut Rng, sz: usize, ver: u32, nplans: usize, strict: bool) -> Vec<String> {
    let mut out = Vec::new();
    let x = T::gen(r, sz);
    let canon = x.sx(true);
    bare_entry_case::<T>(name, ver, &x, &mut out);
    let mut stat = |out: &mut Vec<String>, k: String| out.push(format!("#stat {} 1", k));
    for kind in Kind::all() {
        // fault-free run over the recording writer
        let all = Plan { chunk: Chunk::All, interrupt8: 0, fail_at: None, zero_at: None, flush_fail: None, seed: 0 };
        let mut w0 = FaultyWriter::new(all.clone());
        if let Err(e) = save_to(kind, ver, &x, &mut w0) {
            stat(&mut out, format!("save-unavailable-{}-{}", kind.name(), e.split(' ').next().unwrap_or("")));
            continue;
        }
        let good = w0.accepted.clone();
        let good_plain = if kind == Kind::Encrypted { decrypt_prefix(&good).0 } else { Vec::new() };
        let pieces: Vec<String> = w0.ops.clone();
        // ---- writer side
        let plans = writer_plans(r, good.len(), w0.flushes, nplans);
        let run_plan = |plan: &Plan, lines: &mut Vec<String>| {
            let ctx = format!("kind={} type={} plan={} len={}", kind.name(), name, plan.name(), good.len());
            writer_case::<T>(kind, ver, &x, plan, &good, &good_plain, &pieces, &canon, &ctx, strict, lines);
        };
        // In a forked child: a panic in a destructor while another panic unwinds aborts the process.
        // All plans of one container in one child; only if that dies, one child per plan to find which.
        let report = isolated(|| {
            let mut lines: Vec<String> = Vec::new();
            for plan in &plans {
                run_plan(plan, &mut lines);
            }
            lines.join("\n")
        });
        let mut reports = Vec::new();
        if report.starts_with("(abort") {
            for plan in &plans {
                let rep = isolated(|| {
                    let mut lines: Vec<String> = Vec::new();
                    run_plan(plan, &mut lines);
                    lines.join("\n")
                });
                if rep.starts_with("(abort") {
                    out.push(format!("!C08 write-fault-abort kind={} type={} plan={} len={} got={}", kind.name(), name, plan.name(), good.len(), rep));
                } else {
                    reports.push(rep);
                }
            }
        } else {
            reports.push(report);
        }
        for report in reports {
            for l in report.split('\n') {
                if !l.is_empty() {
                    out.push(l.to_string());
                }
            }
        }
        // ---- reader side
        let reference = load_container::<T>(kind, ver, PASSWORD, &good);
        let reference = reference.rsplit_once(' ').map(|(a, _)| format!("{})", a)).unwrap_or(reference);
        for plan in reader_plans(r, good.len(), nplans) {
            let mut rd = FaultyReader::new(plan.clone(), &good);
            let rep = load_from::<T>(kind, ver, &mut rd);
            let ctx = format!("kind={} type={} plan={} len={}", kind.name(), name, plan.name(), good.len());
            stat(&mut out, format!("r-{}-{}-{}", kind.name(), if plan.benign() { "benign" } else { "fault" }, rep.trim_matches(|c| c == '(' || c == ')').split(' ').next().unwrap_or("")));
            if rep.starts_with("(panic") {
                out.push(format!("!C08 read-fault-panic {} got={}", ctx, rep));
                continue;
            }
            if plan.benign() {
                if rep != reference {
                    out.push(format!("!C08 chunking-changes-load-result {} whole={} chunked={}", ctx, &reference[..reference.len().min(100)], &rep[..rep.len().min(100)]));
                }
            } else if rd.fired && rep.starts_with("(ok") && plan.fail_at.map(|(_, _, p)| p).unwrap_or(true) {
                out.push(format!("!C08 read-fault-swallowed {} at={} got={}", ctx, rd.pos, &rep[..rep.len().min(100)]));
            }
            if kind == Kind::NoSchema {
                if let Some((off, _, persistent)) = plan.fail_at {
                    if persistent {
                        // model: the loader fails with an I/O error iff it needs a byte at or beyond `off`
                        out.push(format!("(rfault noschema @{} {} {} {})\t{}", name, ver, hex(&good), off, rep.replace("io:Other", "io").replace("io:BrokenPipe", "io").replace("io:ConnectionReset", "io").replace("io:WouldBlock", "io").replace("io:TimedOut", "io").replace("io:InvalidData", "io")));
                    }
                }
            }
        }
    }
    out
}

/// C08 across versions: data saved by the definition current at version `i` is loaded by the later definition
/// `TJ` through a faulty reader.  The loader then runs the code that skips removed fields, fills defaults and
/// converts — code that never runs when a type loads its own current version.
pub fn xver_read_case<TI: ZooVal + Serialize + WithSchema, TJ: ZooVal + Deserialize + WithSchema>(fam: &str, i: u32, j: u32, r: &mut Rng, nplans: usize) -> Vec<String> {
    let mut out = Vec::new();
    let x = TI::gen(r, 6);
    for with_schema in [true, false] {
        let mut good = Vec::new();
        let saved = catch_unwind(AssertUnwindSafe(|| if with_schema { savefile::save(&mut good, i, &x) } else { savefile::save_noschema(&mut good, i, &x) }));
        if !matches!(saved, Ok(Ok(()))) {
            continue;
        }
        let load = |rd: &mut dyn Read| -> String {
            let r = catch_unwind(AssertUnwindSafe(|| -> Result<String, SavefileError> {
                let mut rd = rd;
                let v: TJ = if with_schema { savefile::load(&mut rd, j)? } else { savefile::load_noschema(&mut rd, j)? };
                Ok(format!("(ok {})", v.sx(true)))
            }));
            match r {
                Ok(Ok(s)) => s,
                Ok(Err(e)) => format!("(err {})", err_class(&e)),
                Err(_) => format!("(panic {})", panic_class(&last_panic())),
            }
        };
        let reference = load(&mut std::io::Cursor::new(&good[..]));
        if !reference.starts_with("(ok") {
            // (a history outside the documented rules: nothing to compare with)
            out.push("#stat xr-reference-not-loadable 1".into());
            continue;
        }
        for plan in reader_plans(r, good.len(), nplans) {
            let mut rd = FaultyReader::new(plan.clone(), &good);
            let rep = load(&mut rd);
            let ctx = format!("family={} saved_by=v{} loaded_by=v{} schema={} plan={} len={}", fam, i, j, with_schema, plan.name(), good.len());
            out.push(format!("#stat xr-{}-{} 1", if plan.benign() { "benign" } else { "fault" }, rep.trim_matches(|c| c == '(' || c == ')').split(' ').next().unwrap_or("")));
            if rep.starts_with("(panic") {
                out.push(format!("!C08 read-fault-panic {} got={}", ctx, rep));
            } else if plan.benign() {
                if rep != reference {
                    out.push(format!("!C08 chunking-changes-load-result {} whole={} chunked={}", ctx, &reference[..reference.len().min(100)], &rep[..rep.len().min(100)]));
                }
            } else if rd.fired && rep.starts_with("(ok") {
                // the reader returned a hard error to some read call and the load still produced a value
                out.push(format!("!C08 read-fault-swallowed {} at={} got={} intact={}", ctx, rd.pos, &rep[..rep.len().min(100)], rep == reference));
            } else if !rd.fired && rep != reference {
                out.push(format!("!C08 load-differs-although-no-fault-was-reached {} got={}", ctx, &rep[..rep.len().min(100)]));
            }
        }
    }
    out
}
