//! Library types that are not (yet) in the Lean model: direct oracles only.
//! C01: a value survives save/load; C06: no input makes the reader panic or abort; C07: no strict prefix loads.

use crate::suite::*;
use crate::val::*;
use savefile::prelude::*;
use std::panic::{catch_unwind, AssertUnwindSafe};

fn save_bytes<T: Serialize + WithSchema>(x: &T) -> Result<Vec<u8>, String> {
    match catch_unwind(AssertUnwindSafe(|| savefile::save_to_mem(0, x))) {
        Ok(Ok(b)) => Ok(b),
        Ok(Err(e)) => Err(format!("(err {})", err_class(&e))),
        Err(_) => Err(format!("(panic {})", panic_class(&last_panic()))),
    }
}
fn load_bytes<T: Deserialize + WithSchema>(b: &[u8]) -> Result<T, String> {
    match catch_unwind(AssertUnwindSafe(|| savefile::load_from_mem::<T>(b, 0))) {
        Ok(Ok(x)) => Ok(x),
        Ok(Err(e)) => Err(format!("(err {})", err_class(&e))),
        Err(_) => Err(format!("(panic {})", panic_class(&last_panic()))),
    }
}
fn bare<T: Serialize>(x: &T) -> Vec<u8> {
    let mut b = Vec::new();
    Serializer::bare_serialize(&mut b, 0, x).unwrap();
    b
}
fn bare_load<T: Deserialize>(b: &[u8]) -> String {
    bare_load_use::<T>(b, &|_| ())
}
/// decode, and if that succeeds *use* the value: a value accepted from hostile bytes must be a sound one
fn bare_load_use<T: Deserialize>(b: &[u8], use_value: &dyn Fn(&T)) -> String {
    let r = catch_unwind(AssertUnwindSafe(|| {
        let mut cur = std::io::Cursor::new(b);
        Deserializer::bare_deserialize::<T>(&mut cur, 0).map(|v| use_value(&v))
    }));
    match r {
        Ok(Ok(())) => "(ok)".into(),
        Ok(Err(e)) => format!("(err {})", err_class(&e)),
        Err(_) => format!("(panic {})", panic_class(&last_panic())),
    }
}

static LIGHT: std::sync::atomic::AtomicBool = std::sync::atomic::AtomicBool::new(false);
/// light mode: skip the truncation and mutation probes (each runs in a forked child)
pub fn set_light(on: bool) {
    LIGHT.store(on, std::sync::atomic::Ordering::SeqCst);
}

/// the three oracles for one value of one type; `same` decides equality after the round trip
fn probe<T: Serialize + Deserialize + WithSchema>(name: &str, x: &T, same: impl Fn(&T, &T) -> bool, show: impl Fn(&T) -> String, r: &mut Rng, out: &mut Vec<String>) {
    let bytes = match save_bytes(x) {
        Ok(b) => b,
        Err(e) => {
            out.push(format!("!C01 save-failed type={} value={} got={}", name, show(x), e));
            return;
        }
    };
    match load_bytes::<T>(&bytes) {
        Ok(y) => {
            if !same(x, &y) {
                out.push(format!("!C01 round-trip-changes-value type={} saved={} loaded={}", name, show(x), show(&y)));
            }
        }
        Err(e) => out.push(format!("!C01 saved-file-does-not-load type={} value={} got={}", name, show(x), e)),
    }
    out.push(format!("#stat extras-roundtrip-{} 1", name));
    if LIGHT.load(std::sync::atomic::Ordering::SeqCst) {
        return;
    }
    // every strict prefix of the payload (schema-less, so that the payload is what is cut)
    let payload = bare(x);
    let cuts: Vec<usize> = (0..payload.len()).collect();
    for (k, rep) in cuts.iter().zip(isolated_batch(&cuts, |k| bare_load::<T>(&payload[..*k]))) {
        if rep.starts_with("(panic") || rep.starts_with("(abort") {
            out.push(format!("!C06 truncated-input-panics type={} cut={}/{} got={}", name, k, payload.len(), &rep[..rep.len().min(120)]));
        } else if rep.starts_with("(ok") {
            out.push(format!("!C07 truncation-accepted type={} cut={}/{}", name, k, payload.len()));
        }
    }
    // mutations: single bytes, and the length words set to hostile values
    let mut muts: Vec<Vec<u8>> = Vec::new();
    for _ in 0..24 {
        let mut m = payload.clone();
        if m.is_empty() {
            break;
        }
        match r.below(4) {
            0 => {
                let i = r.below(m.len() as u64) as usize;
                m[i] ^= 1 << r.below(8);
            }
            1 => {
                let i = r.below(m.len() as u64) as usize;
                m[i] = r.next() as u8;
            }
            2 => {
                // an 8 byte word somewhere becomes huge
                let i = r.below(m.len() as u64) as usize;
                for (j, b) in [0xffu8, 0xff, 0xff, 0xff, 0xff, 0xff, 0xff, [0x7fu8, 0xff, 0x3f, 0x00][r.below(4) as usize]].iter().enumerate() {
                    if i + j < m.len() {
                        m[i + j] = *b;
                    }
                }
            }
            _ => {
                let extra = r.below(16) as usize;
                for _ in 0..extra {
                    m.push(r.next() as u8);
                }
            }
        }
        muts.push(m);
    }
    for (m, rep) in muts.iter().zip(isolated_batch(&muts, |m| bare_load_use::<T>(m, &|v| { let _ = show(v); }))) {
        out.push(format!("#stat extras-mutated-{} 1", rep.trim_matches(|c| c == '(' || c == ')').split(' ').next().unwrap_or("")));
        if rep.starts_with("(abort 14") {
            out.push(format!("!C06 malformed-input-hangs type={} input={} got=no-result-after-60s", name, hex(m)));
        } else if rep.starts_with("(panic") || (rep.starts_with("(abort") && !rep.contains("abort 6")) {
            out.push(format!("!C06 malformed-input-panics type={} input={} got={}", name, hex(m), &rep[..rep.len().min(140)]));
        } else if rep.starts_with("(abort") {
            // SIGABRT: allocation failure on an absurd declared length is exempt only if the input declares it
            out.push(format!("#stat extras-abort6-{} 1", name));
        }
    }
}

/// C04 for library types with a hand-written `Packed` impl: containers that may take the bulk (memory copy)
/// path must produce exactly the item-wise encoding and read it back as the same values; so must a derived
/// struct that holds such a value between other packed fields.
fn bulk_probe<T: Serialize + Deserialize + WithSchema + Packed + Clone + 'static>(name: &str, items: &[T], same: impl Fn(&T, &T) -> bool, out: &mut Vec<String>) {
    let mut itemwise: Vec<u8> = Vec::new();
    for x in items {
        itemwise.extend_from_slice(&bare(x));
    }
    let mut with_len = (items.len() as u64).to_le_bytes().to_vec();
    with_len.extend_from_slice(&itemwise);
    let v: Vec<T> = items.to_vec();
    let boxed: Box<[T]> = items.to_vec().into_boxed_slice();
    let shapes: Vec<(&str, Vec<u8>)> = vec![("Vec", bare(&v)), ("BoxSlice", bare(&boxed))];
    for (shape, got) in shapes {
        out.push("#stat extras-bulk-checks 1".into());
        if got != with_len {
            out.push(format!("!C04 bulk-bytes-differ-from-itemwise type={}<{}> itemwise={} bulk={}", shape, name, hex(&with_len), hex(&got)));
        }
    }
    if items.len() >= 3 {
        let arr: [T; 3] = [items[0].clone(), items[1].clone(), items[2].clone()];
        let mut want = Vec::new();
        for x in arr.iter() {
            want.extend_from_slice(&bare(x));
        }
        let got = bare(&arr);
        out.push("#stat extras-bulk-checks 1".into());
        if got != want {
            out.push(format!("!C04 bulk-bytes-differ-from-itemwise type=[{};3] itemwise={} bulk={}", name, hex(&want), hex(&got)));
        }
    }
    // data written item by item (by an older build, or through another container) read by the bulk-capable reader
    let r = catch_unwind(AssertUnwindSafe(|| {
        let mut cur = std::io::Cursor::new(&with_len[..]);
        Deserializer::bare_deserialize::<Vec<T>>(&mut cur, 0)
    }));
    out.push("#stat extras-bulk-checks 1".into());
    match r {
        Ok(Ok(back)) => {
            if back.len() != items.len() || back.iter().zip(items.iter()).any(|(a, b)| !same(a, b)) {
                out.push(format!("!C04 itemwise-data-misread-by-bulk-reader type=Vec<{}> bytes={}", name, hex(&with_len)));
            }
        }
        Ok(Err(e)) => out.push(format!("!C04 itemwise-data-rejected-by-bulk-reader type=Vec<{}> got={}", name, err_class(&e))),
        Err(_) => out.push(format!("!C04 itemwise-data-panics-bulk-reader type=Vec<{}> got={}", name, panic_class(&last_panic()))),
    }
}

/// derived structs around library types with their own `Packed` impl: if the field type claims to be packed in a
/// layout that is not its wire order, the struct is written as memory but read field by field
#[derive(savefile_derive::Savefile, Clone, PartialEq, Debug)]
#[repr(C)]
pub struct PoseF64 {
    pub iso: nalgebra::Isometry3<f64>,
    pub stamp: f64,
}
#[derive(savefile_derive::Savefile, Clone, PartialEq, Debug)]
#[repr(C)]
pub struct PointsF32 {
    pub a: nalgebra::Point3<f32>,
    pub b: nalgebra::Vector3<f32>,
    pub c: emath::Pos2,
    pub d: emath::Vec2,
    pub e: ecolor::Color32,
}

fn f32_of(r: &mut Rng) -> f32 {
    match r.below(6) {
        0 => 0.0,
        1 => -1.5,
        2 => f32::MAX,
        3 => f32::from_bits(r.next() as u32 & 0x7f7f_ffff),
        _ => (r.below(2000) as f32 - 1000.0) / 8.0,
    }
}
fn f64_of(r: &mut Rng) -> f64 {
    match r.below(6) {
        0 => 0.0,
        1 => -2.25,
        2 => f64::MIN_POSITIVE,
        _ => (r.below(200000) as f64 - 100000.0) / 64.0,
    }
}
fn iso_f64(r: &mut Rng) -> nalgebra::Isometry3<f64> {
    nalgebra::Isometry3::from_parts(
        nalgebra::Translation3::new(f64_of(r), f64_of(r), f64_of(r)),
        nalgebra::UnitQuaternion::from_euler_angles(f64_of(r) / 1000.0, f64_of(r) / 1000.0, f64_of(r) / 1000.0),
    )
}
fn iso_f32(r: &mut Rng) -> nalgebra::Isometry3<f32> {
    nalgebra::Isometry3::from_parts(
        nalgebra::Translation3::new(f32_of(r) / 1e30, f32_of(r) / 1e30, f32_of(r) / 1e30),
        nalgebra::UnitQuaternion::from_euler_angles(0.25, (r.below(100) as f32) / 100.0, -0.5),
    )
}

/// recursive types (outside the Lean model, whose types are finite trees): direct oracles only
#[derive(savefile_derive::Savefile, Clone, PartialEq, Debug)]
pub struct TreeA {
    pub id: u32,
    pub children: Vec<TreeA>,
}
/// `TreeA` one version later: the recursive field was removed, another one added
#[derive(savefile_derive::Savefile, Debug)]
pub struct TreeB {
    pub id: u32,
    #[savefile_versions = "0..0"]
    pub children: savefile::Removed<Vec<TreeB>>,
    #[savefile_versions = "1.."]
    #[savefile_default_val = "7"]
    pub extra: u16,
}
#[derive(savefile_derive::Savefile, Clone, PartialEq, Debug)]
pub struct ListA {
    pub v: u8,
    pub next: Option<Box<ListA>>,
}
#[derive(savefile_derive::Savefile, Debug)]
pub struct ListB {
    pub v: u8,
    #[savefile_versions = "0..0"]
    pub next: savefile::AbiRemoved<Option<Box<ListB>>>,
    #[savefile_versions = "1.."]
    pub tail: String,
}
#[derive(savefile_derive::Savefile, Clone, PartialEq, Debug)]
pub enum Expr {
    Lit(i32),
    Neg(Box<Expr>),
    Add(Box<Expr>, Box<Expr>),
    Sum(Vec<Expr>),
}
/// mutual recursion
#[derive(savefile_derive::Savefile, Clone, PartialEq, Debug)]
pub struct Dir {
    pub name: String,
    pub entries: Vec<Entry2>,
}
#[derive(savefile_derive::Savefile, Clone, PartialEq, Debug)]
pub enum Entry2 {
    File(u32),
    Sub(Dir),
}

fn gen_tree(r: &mut Rng, depth: u32) -> TreeA {
    let n = if depth == 0 { 0 } else { r.below(3) as usize };
    TreeA { id: r.next() as u32, children: (0..n).map(|_| gen_tree(r, depth - 1)).collect() }
}
fn gen_list(r: &mut Rng, len: u32) -> ListA {
    ListA { v: r.next() as u8, next: if len == 0 { None } else { Some(Box::new(gen_list(r, len - 1))) } }
}
fn gen_expr(r: &mut Rng, depth: u32) -> Expr {
    if depth == 0 {
        return Expr::Lit(r.next() as i32);
    }
    match r.below(4) {
        0 => Expr::Lit(r.next() as i32),
        1 => Expr::Neg(Box::new(gen_expr(r, depth - 1))),
        2 => Expr::Add(Box::new(gen_expr(r, depth - 1)), Box::new(gen_expr(r, depth - 1))),
        _ => Expr::Sum((0..r.below(3)).map(|_| gen_expr(r, depth - 1)).collect()),
    }
}
fn gen_dir(r: &mut Rng, depth: u32) -> Dir {
    let n = if depth == 0 { 0 } else { r.below(3) as usize };
    Dir { name: format!("d{}", r.below(100)), entries: (0..n).map(|_| if r.chance(1, 2) { Entry2::File(r.next() as u32) } else { Entry2::Sub(gen_dir(r, depth - 1)) }).collect() }
}

fn recursive_types(r: &mut Rng, out: &mut Vec<String>) {
    let depth = 1 + r.below(3) as u32;
    let t = gen_tree(r, depth);
    probe("TreeA", &t, |a, b| a == b, |a| format!("{:?}", a).replace(' ', "_"), r, out);
    let len = r.below(5) as u32;
    let l = gen_list(r, len);
    probe("ListA", &l, |a, b| a == b, |a| format!("{:?}", a).replace(' ', "_"), r, out);
    let e = gen_expr(r, depth);
    probe("Expr", &e, |a, b| a == b, |a| format!("{:?}", a).replace(' ', "_"), r, out);
    let d = gen_dir(r, depth);
    probe("Dir", &d, |a, b| a == b, |a| format!("{:?}", a).replace(' ', "_"), r, out);
    // C03: data of the recursive type saved at version 0 loads in the later definition that removed the
    // recursive field (with the schema check: the stored schema is compared with the later definition's view of version 0)
    out.push("#stat extras-recursive-upgrades 2".into());
    match save_bytes(&t) {
        Ok(bytes) => match catch_unwind(AssertUnwindSafe(|| savefile::load_from_mem::<TreeB>(&bytes, 1))) {
            Ok(Ok(b)) => {
                if b.id != t.id || b.extra != 7 {
                    out.push(format!("!C03 upgraded-value-wrong type=TreeB saved-id={} loaded-id={} extra={}", t.id, b.id, b.extra));
                }
            }
            Ok(Err(e)) => out.push(format!("!C03 old-data-rejected type=TreeB (recursive field removed) got={}", err_class(&e))),
            Err(_) => out.push(format!("!C03 old-data-panics type=TreeB got={}", panic_class(&last_panic()))),
        },
        Err(e) => out.push(format!("!C01 save-failed type=TreeA got={}", e)),
    }
    match save_bytes(&l) {
        Ok(bytes) => match catch_unwind(AssertUnwindSafe(|| savefile::load_from_mem::<ListB>(&bytes, 1))) {
            Ok(Ok(b)) => {
                if b.v != l.v || !b.tail.is_empty() {
                    out.push(format!("!C03 upgraded-value-wrong type=ListB saved-v={} loaded-v={} tail={:?}", l.v, b.v, b.tail));
                }
            }
            Ok(Err(e)) => out.push(format!("!C03 old-data-rejected type=ListB (recursive field removed) got={}", err_class(&e))),
            Err(_) => out.push(format!("!C03 old-data-panics type=ListB got={}", panic_class(&last_panic()))),
        },
        Err(e) => out.push(format!("!C01 save-failed type=ListA got={}", e)),
    }
}

/// feature-gated library types (nalgebra, emath, ecolor, chrono)
fn feature_types(r: &mut Rng, out: &mut Vec<String>) {
    use nalgebra::{Isometry3, Point3, Vector3};
    let bits32 = |a: &f32, b: &f32| a.to_bits() == b.to_bits();
    let bits64 = |a: &f64, b: &f64| a.to_bits() == b.to_bits();
    let p3f: Vec<Point3<f32>> = (0..4).map(|_| Point3::new(f32_of(r), f32_of(r), f32_of(r))).collect();
    let v3d: Vec<Vector3<f64>> = (0..4).map(|_| Vector3::new(f64_of(r), f64_of(r), f64_of(r))).collect();
    let i3d: Vec<Isometry3<f64>> = (0..4).map(|_| iso_f64(r)).collect();
    let i3f: Vec<Isometry3<f32>> = (0..3).map(|_| iso_f32(r)).collect();
    let same_p3f = |a: &Point3<f32>, b: &Point3<f32>| a.iter().zip(b.iter()).all(|(x, y)| bits32(x, y));
    let same_v3d = |a: &Vector3<f64>, b: &Vector3<f64>| a.iter().zip(b.iter()).all(|(x, y)| bits64(x, y));
    let iso_parts_d = |a: &Isometry3<f64>| -> Vec<u64> { a.translation.vector.iter().chain(a.rotation.coords.iter()).map(|x| x.to_bits()).collect() };
    let iso_parts_f = |a: &Isometry3<f32>| -> Vec<u32> { a.translation.vector.iter().chain(a.rotation.coords.iter()).map(|x| x.to_bits()).collect() };
    let same_i3d = |a: &Isometry3<f64>, b: &Isometry3<f64>| iso_parts_d(a) == iso_parts_d(b);
    let same_i3f = |a: &Isometry3<f32>, b: &Isometry3<f32>| iso_parts_f(a) == iso_parts_f(b);
    probe("Point3_f32", &p3f[0], same_p3f, |a| format!("{:?}", a).replace(' ', "_"), r, out);
    probe("Vector3_f64", &v3d[0], same_v3d, |a| format!("{:?}", a).replace(' ', "_").replace('\n', ""), r, out);
    probe("Isometry3_f64", &i3d[0], same_i3d, |a| format!("{:?}", iso_parts_d(a)).replace(' ', "_"), r, out);
    probe("Isometry3_f32", &i3f[0], same_i3f, |a| format!("{:?}", iso_parts_f(a)).replace(' ', "_"), r, out);
    bulk_probe("Point3_f32", &p3f, same_p3f, out);
    bulk_probe("Vector3_f64", &v3d, same_v3d, out);
    bulk_probe("Isometry3_f64", &i3d, same_i3d, out);
    bulk_probe("Isometry3_f32", &i3f, same_i3f, out);
    // emath / ecolor
    let pos: Vec<emath::Pos2> = (0..4).map(|_| emath::Pos2::new(f32_of(r), f32_of(r))).collect();
    let vec2: Vec<emath::Vec2> = (0..4).map(|_| emath::Vec2::new(f32_of(r), f32_of(r))).collect();
    let col: Vec<ecolor::Color32> = (0..4).map(|_| { let x = r.next(); ecolor::Color32::from_rgba_premultiplied(x as u8, (x >> 8) as u8, (x >> 16) as u8, (x >> 24) as u8) }).collect();
    let same_pos = |a: &emath::Pos2, b: &emath::Pos2| bits32(&a.x, &b.x) && bits32(&a.y, &b.y);
    let same_vec2 = |a: &emath::Vec2, b: &emath::Vec2| bits32(&a.x, &b.x) && bits32(&a.y, &b.y);
    let same_col = |a: &ecolor::Color32, b: &ecolor::Color32| a.to_array() == b.to_array();
    probe("Pos2", &pos[0], same_pos, |a| format!("{:?}", a).replace(' ', "_"), r, out);
    probe("Vec2", &vec2[0], same_vec2, |a| format!("{:?}", a).replace(' ', "_"), r, out);
    probe("Color32", &col[0], same_col, |a| format!("{:?}", a.to_array()).replace(' ', "_"), r, out);
    bulk_probe("Pos2", &pos, same_pos, out);
    bulk_probe("Vec2", &vec2, same_vec2, out);
    bulk_probe("Color32", &col, same_col, out);
    // chrono
    let secs = (r.next() % 4_000_000_000) as i64 - 1_000_000_000;
    if let Some(dt) = chrono::DateTime::<chrono::Utc>::from_timestamp(secs, (r.next() % 1_000_000_000) as u32) {
        probe("DateTime_Utc", &dt, |a, b| a == b, |a| format!("{:?}", a).replace(' ', "_"), r, out);
    }
    // derived structs around them
    let poses: Vec<PoseF64> = (0..3).map(|_| PoseF64 { iso: iso_f64(r), stamp: f64_of(r) }).collect();
    let same_pose = |a: &PoseF64, b: &PoseF64| same_i3d(&a.iso, &b.iso) && bits64(&a.stamp, &b.stamp);
    probe("PoseF64", &poses[0], same_pose, |a| format!("{:?}_{}", iso_parts_d(&a.iso), a.stamp.to_bits()).replace(' ', "_"), r, out);
    bulk_probe("PoseF64", &poses, same_pose, out);
    let pts: Vec<PointsF32> = (0..3).map(|k| PointsF32 { a: p3f[k], b: Vector3::new(f32_of(r), f32_of(r), f32_of(r)), c: pos[k], d: vec2[k], e: col[k] }).collect();
    let same_pts = |x: &PointsF32, y: &PointsF32| same_p3f(&x.a, &y.a) && x.b.iter().zip(y.b.iter()).all(|(p, q)| bits32(p, q)) && same_pos(&x.c, &y.c) && same_vec2(&x.d, &y.d) && same_col(&x.e, &y.e);
    probe("PointsF32", &pts[0], same_pts, |a| format!("{:?}", a).replace(' ', "_").replace('\n', ""), r, out);
    bulk_probe("PointsF32", &pts, same_pts, out);
}


/// collections around the sizes at which readers and writers switch strategy (pre-allocation caps, 64 KiB, the
/// crypto block): element types that are read one by one
fn rt_only<T: Serialize + Deserialize + WithSchema + PartialEq>(name: &str, len: usize, x: &T, out: &mut Vec<String>) {
    out.push(format!("#stat extras-long-{} 1", name));
    let bytes = match save_bytes(x) {
        Ok(b) => b,
        Err(e) => {
            out.push(format!("!C01 save-failed type={} len={} got={}", name, len, e));
            return;
        }
    };
    match std::panic::catch_unwind(|| load_bytes::<T>(&bytes)) {
        Ok(Ok(y)) => {
            if y != *x {
                out.push(format!("!C01 round-trip-changes-value type={} len={}", name, len));
            }
        }
        Ok(Err(e)) => out.push(format!("!C01 saved-file-does-not-load type={} len={} got={}", name, len, e)),
        Err(_) => out.push(format!("!C01 load-panics type={} len={} got={}", name, len, panic_class(&last_panic()))),
    }
}

fn long_collections(r: &mut Rng, out: &mut Vec<String>) {
    for len in [1023usize, 1025, 4095, 4096, 4097, 8193, 65535, 65537, 100_003] {
        let strings: Vec<String> = (0..len).map(|k| format!("{}", (k as u64).wrapping_mul(r.below(7) + 1) % 1000)).collect();
        rt_only("Vec_String", len, &(strings.clone(), 0xdead_beefu32), out);
        rt_only("BoxSlice_String", len, &(strings.clone().into_boxed_slice(), 7u8), out);
        let opts: Vec<Option<u16>> = (0..len).map(|k| if k % 3 == 0 { None } else { Some(k as u16) }).collect();
        rt_only("Vec_Opt_u16", len, &(opts.clone(), 1u8), out);
        let arc: std::sync::Arc<[Option<u16>]> = opts.clone().into();
        rt_only("ArcSlice_Opt_u16", len, &(arc, 2u8), out);
        let us: Vec<usize> = (0..len).map(|k| k ^ 0x55).collect();
        rt_only("Vec_usize", len, &(us, 3u16), out);
        let dq: std::collections::VecDeque<String> = strings.iter().cloned().collect();
        rt_only("VecDeque_String", len, &(dq, 4u8), out);
        let tup: Vec<(u8, String)> = strings.iter().enumerate().map(|(k, s)| (k as u8, s.clone())).collect();
        rt_only("Vec_Tup_u8_String", len, &tup, out);
        if len <= 8193 {
            let bm: std::collections::BTreeMap<u32, String> = strings.iter().enumerate().map(|(k, s)| (k as u32, s.clone())).collect();
            rt_only("BTreeMap_u32_String", len, &(bm, 5u8), out);
            let hs: std::collections::HashSet<String> = (0..len).map(|k| format!("k{}", k)).collect();
            rt_only("HashSet_String", len, &(hs, 6u8), out);
            let hm: std::collections::HashMap<u16, Option<u8>> = (0..len.min(60000)).map(|k| (k as u16, Some(k as u8))).collect();
            rt_only("HashMap_u16_Opt_u8", len, &(hm, 7u8), out);
            let bh: std::collections::BinaryHeap<u32> = (0..len as u32).collect();
            let v1: Vec<u32> = bh.clone().into_sorted_vec();
            match save_bytes(&bh).and_then(|b| load_bytes::<std::collections::BinaryHeap<u32>>(&b)) {
                Ok(y) => {
                    if y.into_sorted_vec() != v1 {
                        out.push(format!("!C01 round-trip-changes-value type=BinaryHeap_u32 len={}", len));
                    }
                }
                Err(e) => out.push(format!("!C01 saved-file-does-not-load type=BinaryHeap_u32 len={} got={}", len, e)),
            }
        }
    }
}

pub fn cases(r: &mut Rng, n: usize) -> Vec<String> {
    let mut out = Vec::new();
    long_collections(r, &mut out);
    for i in 0..n {
        feature_types(r, &mut out);
        recursive_types(r, &mut out);
        // bit_vec::BitVec
        let nbits = match i % 4 {
            0 => 0,
            1 => r.below(40) as usize,
            2 => 32 * (1 + r.below(4) as usize),
            _ => r.below(300) as usize,
        };
        let mut bv = bit_vec::BitVec::from_elem(nbits, false);
        for k in 0..nbits {
            if r.chance(1, 2) {
                bv.set(k, true);
            }
        }
        probe("BitVec", &bv, |a, b| a == b, |a| format!("bits[{}:{}]", a.len(), a.iter().filter(|b| *b).count()), r, &mut out);
        // crafted headers: a byte count that is not a whole number of 32 bit words, with as many bits as those bytes hold
        if i < 7 {
            let nb = [1u64, 2, 3, 5, 6, 7, 9][i];
            let mut m = Vec::new();
            m.extend_from_slice(&(nb * 8).to_le_bytes());
            m.extend_from_slice(&(nb | (1u64 << 63)).to_le_bytes());
            m.extend((0..nb).map(|k| 0xa5u8.wrapping_add(k as u8)));
            let rep = isolated_t(60, || bare_load_use::<bit_vec::BitVec>(&m, &|v| { let _ = v.iter().filter(|b| *b).count(); }));
            out.push("#stat extras-crafted-bitvec 1".into());
            if rep.starts_with("(panic") || (rep.starts_with("(abort") && !rep.contains("abort 6")) {
                out.push(format!("!C06 malformed-input-yields-unusable-value type=BitVec input={} got={}", hex(&m), &rep[..rep.len().min(160)]));
            }
        }
        // bit_set::BitSet
        let mut bs = bit_set::BitSet::new();
        for _ in 0..r.below(12) {
            bs.insert(r.below(200) as usize);
        }
        probe("BitSet", &bs, |a, b| a == b, |a| format!("set[{}:{}]", a.len(), a.iter().map(|x| x as u64).sum::<u64>()), r, &mut out);
        // PathBuf: valid UTF-8 and (on unix) arbitrary bytes
        let p = std::path::PathBuf::from(format!("/tmp/{}/é{}", r.below(1000), r.below(10)));
        probe("PathBuf", &p, |a, b| a == b, |a| format!("{:?}", a).replace(' ', "_"), r, &mut out);
        #[cfg(unix)]
        {
            use std::os::unix::ffi::OsStringExt;
            let raw = vec![b'a', 0xff, b'b', (r.next() as u8) | 0x80];
            let p = std::path::PathBuf::from(std::ffi::OsString::from_vec(raw));
            probe("PathBuf", &p, |a, b| a == b, |a| format!("{:?}", a).replace(' ', "_"), r, &mut out);
        }
        // Range, Cow
        let rg = (r.next() as u32)..(r.next() as u32);
        probe("Range_u32", &rg, |a, b| a == b, |a| format!("{:?}", a), r, &mut out);
    }
    out
}
