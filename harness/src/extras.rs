//! Library types that are not (yet) in the Lean model: direct oracles only.
//! C01: a value survives save/load; C06: no input makes the reader panic or abort; C07: no strict prefix loads.

use crate::suite::*;
use crate::val::*;
use savefile::prelude::*;
use std::panic::{catch_unwind, AssertUnwindSafe};

fn save_bytes<T: Serialize + WithSchema>(x: &T) -> Result<Vec<u8>, String> {
    match catch_unwind(AssertUnwindSafe(|| savefile::save_to_mem(0, x))) {
        Ok(Ok(b)) => Ok(b),
        Ok(Err(e)) => Err(format!("(err {})", err_class(&e))),
        Err(_) => Err(format!("(panic {})", panic_class(&last_panic()))),
    }
}
fn load_bytes<T: Deserialize + WithSchema>(b: &[u8]) -> Result<T, String> {
    match catch_unwind(AssertUnwindSafe(|| savefile::load_from_mem::<T>(b, 0))) {
        Ok(Ok(x)) => Ok(x),
        Ok(Err(e)) => Err(format!("(err {})", err_class(&e))),
        Err(_) => Err(format!("(panic {})", panic_class(&last_panic()))),
    }
}
fn bare<T: Serialize>(x: &T) -> Vec<u8> {
    let mut b = Vec::new();
    Serializer::bare_serialize(&mut b, 0, x).unwrap();
    b
}
fn bare_load<T: Deserialize>(b: &[u8]) -> String {
    let r = catch_unwind(AssertUnwindSafe(|| {
        let mut cur = std::io::Cursor::new(b);
        Deserializer::bare_deserialize::<T>(&mut cur, 0).map(|_| ())
    }));
    match r {
        Ok(Ok(())) => "(ok)".into(),
        Ok(Err(e)) => format!("(err {})", err_class(&e)),
        Err(_) => format!("(panic {})", panic_class(&last_panic())),
    }
}

/// the three oracles for one value of one type; `same` decides equality after the round trip
fn probe<T: Serialize + Deserialize + WithSchema>(name: &str, x: &T, same: impl Fn(&T, &T) -> bool, show: impl Fn(&T) -> String, r: &mut Rng, out: &mut Vec<String>) {
    let bytes = match save_bytes(x) {
        Ok(b) => b,
        Err(e) => {
            out.push(format!("!C01 save-failed type={} value={} got={}", name, show(x), e));
            return;
        }
    };
    match load_bytes::<T>(&bytes) {
        Ok(y) => {
            if !same(x, &y) {
                out.push(format!("!C01 round-trip-changes-value type={} saved={} loaded={}", name, show(x), show(&y)));
            }
        }
        Err(e) => out.push(format!("!C01 saved-file-does-not-load type={} value={} got={}", name, show(x), e)),
    }
    out.push(format!("#stat extras-roundtrip-{} 1", name));
    // every strict prefix of the payload (schema-less, so that the payload is what is cut)
    let payload = bare(x);
    for k in 0..payload.len() {
        let rep = isolated(|| bare_load::<T>(&payload[..k]));
        if rep.starts_with("(panic") || rep.starts_with("(abort") {
            out.push(format!("!C06 truncated-input-panics type={} cut={}/{} got={}", name, k, payload.len(), &rep[..rep.len().min(120)]));
        } else if rep.starts_with("(ok") {
            out.push(format!("!C07 truncation-accepted type={} cut={}/{}", name, k, payload.len()));
        }
    }
    // mutations: single bytes, and the length words set to hostile values
    for _ in 0..24 {
        let mut m = payload.clone();
        if m.is_empty() {
            break;
        }
        match r.below(4) {
            0 => {
                let i = r.below(m.len() as u64) as usize;
                m[i] ^= 1 << r.below(8);
            }
            1 => {
                let i = r.below(m.len() as u64) as usize;
                m[i] = r.next() as u8;
            }
            2 => {
                // an 8 byte word somewhere becomes huge
                let i = r.below(m.len() as u64) as usize;
                for (j, b) in [0xffu8, 0xff, 0xff, 0xff, 0xff, 0xff, 0xff, [0x7fu8, 0xff, 0x3f, 0x00][r.below(4) as usize]].iter().enumerate() {
                    if i + j < m.len() {
                        m[i + j] = *b;
                    }
                }
            }
            _ => {
                let extra = r.below(16) as usize;
                for _ in 0..extra {
                    m.push(r.next() as u8);
                }
            }
        }
        let rep = isolated(|| bare_load::<T>(&m));
        out.push(format!("#stat extras-mutated-{} 1", rep.trim_matches(|c| c == '(' || c == ')').split(' ').next().unwrap_or("")));
        if rep.starts_with("(panic") || (rep.starts_with("(abort") && !rep.contains("abort 6")) {
            out.push(format!("!C06 malformed-input-panics type={} input={} got={}", name, hex(&m), &rep[..rep.len().min(140)]));
        } else if rep.starts_with("(abort") {
            // SIGABRT: allocation failure on an absurd declared length is exempt only if the input declares it
            out.push(format!("#stat extras-abort6-{} 1", name));
        }
    }
}

pub fn cases(r: &mut Rng, n: usize) -> Vec<String> {
    let mut out = Vec::new();
    for i in 0..n {
        // bit_vec::BitVec
        let nbits = match i % 4 {
            0 => 0,
            1 => r.below(40) as usize,
            2 => 32 * (1 + r.below(4) as usize),
            _ => r.below(300) as usize,
        };
        let mut bv = bit_vec::BitVec::from_elem(nbits, false);
        for k in 0..nbits {
            if r.chance(1, 2) {
                bv.set(k, true);
            }
        }
        probe("BitVec", &bv, |a, b| a == b, |a| format!("bits[{}]", a.len()), r, &mut out);
        // bit_set::BitSet
        let mut bs = bit_set::BitSet::new();
        for _ in 0..r.below(12) {
            bs.insert(r.below(200) as usize);
        }
        probe("BitSet", &bs, |a, b| a == b, |a| format!("set[{}]", a.len()), r, &mut out);
        // PathBuf: valid UTF-8 and (on unix) arbitrary bytes
        let p = std::path::PathBuf::from(format!("/tmp/{}/é{}", r.below(1000), r.below(10)));
        probe("PathBuf", &p, |a, b| a == b, |a| format!("{:?}", a).replace(' ', "_"), r, &mut out);
        #[cfg(unix)]
        {
            use std::os::unix::ffi::OsStringExt;
            let raw = vec![b'a', 0xff, b'b', (r.next() as u8) | 0x80];
            let p = std::path::PathBuf::from(std::ffi::OsString::from_vec(raw));
            probe("PathBuf", &p, |a, b| a == b, |a| format!("{:?}", a).replace(' ', "_"), r, &mut out);
        }
        // Range, Cow
        let rg = (r.next() as u32)..(r.next() as u32);
        probe("Range_u32", &rg, |a, b| a == b, |a| format!("{:?}", a), r, &mut out);
    }
    out
}
