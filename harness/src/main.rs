//! sfv-harness — runs the real savefile code on generated cases and prints, per case,
//! the request line for the Lean model driver and the implementation's reply:
//!
//!     <request>\t<impl reply>
//!
//! Lines starting with `!` report a direct property violation of the implementation
//! (independent of the model); lines starting with `#` are statistics.


use sfv_harness::{suite, val, zoo_gen, mutate, schemagen, schemaread, intro, iofault, crypt, abi, abicall, abitraits, abiuse, extras};
use std::collections::BTreeMap;
use std::io::Write;
use suite::*;
use val::*;

struct Args {
    cmd: String,
    seed: u64,
    cases: usize,
    size: usize,
    filter: Option<String>,
    tag: Option<String>,
    /// (k, n): only registry entries whose index is k modulo n
    shard: Option<(usize, usize)>,
}

fn parse_args() -> Args {
    let mut a = Args { cmd: String::new(), seed: 1, cases: 10, size: 12, filter: None, tag: None, shard: None };
    let mut it = std::env::args().skip(1);
    a.cmd = it.next().unwrap_or_else(|| "help".into());
    while let Some(k) = it.next() {
        let mut val = || it.next().expect("missing value");
        match k.as_str() {
            "--seed" => a.seed = val().parse().unwrap(),
            "--cases" => a.cases = val().parse().unwrap(),
            "--size" => a.size = val().parse().unwrap(),
            "--filter" => a.filter = Some(val()),
            "--tag" => a.tag = Some(val()),
            "--shard" => {
                let v = val();
                let (k, n) = v.split_once('/').expect("--shard k/n");
                a.shard = Some((k.parse().unwrap(), n.parse().unwrap()));
            }
            other => panic!("unknown arg {}", other),
        }
    }
    a
}

fn selected<'a>(reg: &'a [Entry], a: &Args) -> Vec<&'a Entry> {
    reg.iter()
        .enumerate()
        .filter(|(i, _)| a.shard.map(|(k, n)| i % n == k).unwrap_or(true))
        .map(|(_, e)| e)
        .filter(|e| a.filter.as_ref().map(|f| e.name.contains(f.as_str())).unwrap_or(true))
        .filter(|e| a.tag.as_ref().map(|t| e.tags.contains(&t.as_str())).unwrap_or(true))
        .collect()
}

fn name_seed(seed: u64, name: &str, salt: u64) -> u64 {
    let mut h = seed ^ 0xcbf29ce484222325 ^ salt.wrapping_mul(0x100000001b3);
    for b in name.bytes() {
        h ^= b as u64;
        h = h.wrapping_mul(0x100000001b3);
    }
    h
}

fn main() {
    install_panic_hook();
    let a = parse_args();
    let reg = zoo_gen::registry();
    let out = std::io::stdout();
    let mut out = std::io::BufWriter::new(out.lock());
    match a.cmd.as_str() {
        "defs" => {
            let mut d = Defs::default();
            for e in reg.iter() {
                (e.defs)(&mut d);
                let ty = (e.ty_sx)();
                let name = e.name.clone();
                d.add(&format!("@{}", name), |_| ty);
            }
            // platform facts the schemas record (probed, inputs to the model)
            writeln!(out, "(cfg vec-layout {})", savefile::calculate_vec_memory_layout::<u8>() as u8).unwrap();
            {
                let sb = schema_bytes::<String>(0, 2);
                writeln!(out, "(cfg string-layout {})", sb[2]).unwrap();
            }
            for l in d.lines {
                writeln!(out, "{}", l).unwrap();
            }
        }
        "list" => {
            for e in reg.iter() {
                writeln!(out, "{} versions={:?} family={:?} tags={:?} mem={:?}", e.name, e.versions, e.family, e.tags, (e.mem)()).unwrap();
            }
        }
        "packed" => {
            for e in selected(&reg, &a) {
                for &v in &e.versions {
                    writeln!(out, "(packed @{} {})\t(ok {})", e.name, v, (e.packed)(v)).unwrap();
                }
            }
        }
        // library types outside the model: direct oracles (C01, C06, C07)
        // `extrasbulk`: only the round trips and the bulk-vs-item-wise comparisons (C04), no forked probes
        "extras" | "extrasbulk" => {
            let mut stats: BTreeMap<String, u64> = BTreeMap::new();
            let mut r = Rng::new(name_seed(a.seed, "extras", 1));
            extras::set_light(a.cmd == "extrasbulk");
            for l in extras::cases(&mut r, a.cases) {
                if let Some(k) = l.strip_prefix("#stat ") {
                    let (k, v) = k.rsplit_once(' ').unwrap();
                    *stats.entry(k.to_string()).or_default() += v.parse::<u64>().unwrap();
                } else {
                    writeln!(out, "{}", l).unwrap();
                }
            }
            for (k, v) in stats {
                writeln!(out, "#stat {} {}", k, v).unwrap();
            }
        }
        // C09: calls through a connection vs direct calls
        "abivals" => {
            let mut stats: BTreeMap<String, u64> = BTreeMap::new();
            let mut r = Rng::new(name_seed(a.seed, "abivals", 9));
            let seed = r.next();
            let cases = a.cases;
            let report = isolated(|| {
                let mut rr = Rng::new(seed);
                abiuse::vals_cases(&mut rr, cases, 40).join("\n")
            });
            if report.starts_with("(abort") {
                writeln!(out, "!C09 calls-abort-process seed={} got={}", seed, report).unwrap();
            } else {
                for l in report.split('\n') {
                    if let Some(k) = l.strip_prefix("#stat ") {
                        let (k, v) = k.rsplit_once(' ').unwrap();
                        *stats.entry(k.to_string()).or_default() += v.parse::<u64>().unwrap();
                    } else if !l.is_empty() {
                        writeln!(out, "{}", l).unwrap();
                    }
                }
            }
            for (k, v) in stats {
                writeln!(out, "#stat {} {}", k, v).unwrap();
            }
        }
        // C16: the same from many threads
        "abiconc" => {
            let mut r = Rng::new(name_seed(a.seed, "abiconc", 16));
            for round in 0..a.cases {
                let seed = r.next();
                let threads = 2 + (round % 7) * 2;
                let report = if std::env::var("SFV_NO_ISOLATE").is_ok() {
                    abiuse::conc_case(seed, threads, 30).join("\n")
                } else {
                    isolated(|| abiuse::conc_case(seed, threads, 30).join("\n"))
                };
                if report.starts_with("(abort") {
                    writeln!(out, "!C16 concurrent-use-aborts-process seed={} threads={} got={}", seed, threads, report).unwrap();
                    continue;
                }
                for l in report.split('\n') {
                    if !l.is_empty() {
                        writeln!(out, "{}", l).unwrap();
                    }
                }
            }
        }
        // C11: the memory of values against the image their schema prescribes
        "smem" => {
            let mut n = 0u64;
            for e in selected(&reg, &a) {
                let cur = e.current();
                let sb = (e.schema_bytes)(cur, 2);
                let mut r = Rng::new(name_seed(a.seed, &e.name, 11));
                for _ in 0..a.cases {
                    let (sx, mem) = (e.mem_image)(&mut r, a.size);
                    writeln!(out, "(smem {} @{} {} {} {})\t(ok holds)", hex(&sb), e.name, cur, sx, mem).unwrap();
                    n += 1;
                    // with the heap: the data behind the headers of collections is part of what is prescribed
                    let (sx, base, obj, segs) = (e.mem_heap)(&mut r, a.size.min(8));
                    let segs: Vec<String> = segs.iter().map(|(a, h)| format!("({} {})", a, h)).collect();
                    writeln!(out, "(smemh {} @{} {} {} {} {} ({}))\t(ok holds)", hex(&sb), e.name, cur, sx, base, if obj.is_empty() { "-".to_string() } else { obj }, segs.join(" ")).unwrap();
                    n += 1;
                }
            }
            writeln!(out, "#stat smem-cases {}", n).unwrap();
        }
        // C09/C10: calls between interface versions of the evolution families; `plugin`: the implementation side is
        // a separately linked shared library (plugins/v<j>) reached through `load_shared_library`
        "abicall" | "plugin" => {
            let mut stats: BTreeMap<String, u64> = BTreeMap::new();
            let via_plugin = a.cmd == "plugin";
            let pairs = if via_plugin { zoo_gen::plugin_pairs() } else { zoo_gen::abi_pairs() };
            if via_plugin {
                let rep = isolated_t(300, || abicall::plugin_probes(a.seed).join("\n"));
                if rep.starts_with("(abort") {
                    // the probes did not come back: a creation that never returns (or a crash) inside them
                    writeln!(out, "!C16 plugin-probes-did-not-finish got={}", rep.replace(' ', "_")).unwrap();
                }
                for l in rep.split('\n') {
                    if !l.is_empty() && !l.starts_with("(abort") {
                        writeln!(out, "{}", l).unwrap();
                    }
                }
            }
            for p in pairs.iter() {
                if let Some(f) = &a.filter {
                    if !p.fam.contains(f.as_str()) {
                        continue;
                    }
                }
                // in a forked child: a panic that reaches an `extern "C"` frame cannot unwind and aborts the process
                let seed = name_seed(a.seed, p.fam, (p.i * 16 + p.j) as u64);
                let cases = a.cases;
                let run = p.run;
                let j = p.j;
                let report = isolated(|| {
                    let mut r = Rng::new(seed);
                    let mut lines = Vec::new();
                    if via_plugin {
                        if let Err(e) = abicall::use_plugin_observer(Some(j)) {
                            return format!("!C09 plugin-does-not-load impl={} got={}", j, e.replace(' ', "_"));
                        }
                    }
                    for _ in 0..cases {
                        lines.extend(run(&mut r));
                    }
                    lines.join("\n")
                });
                if report.starts_with("(abort") {
                    writeln!(out, "!C09 call-aborts-process fam={} caller={} impl={} got={}", p.fam, p.i, p.j, report).unwrap();
                    continue;
                }
                for l in report.split('\n') {
                    if let Some(k) = l.strip_prefix("#stat ") {
                        let (k, v) = k.rsplit_once(' ').unwrap();
                        *stats.entry(k.to_string()).or_default() += v.parse::<u64>().unwrap();
                    } else if !l.is_empty() {
                        writeln!(out, "{}", l).unwrap();
                    }
                }
            }
            for (k, v) in stats {
                writeln!(out, "#stat {} {}", k, v).unwrap();
            }
        }
        // C10/C11: connection analysis on run-time definition families; C15: the compatibility ledger
        "abiconn" | "ledger" => {
            let mut stats: BTreeMap<String, u64> = BTreeMap::new();
            let shard = a.shard.map(|(k, _)| k).unwrap_or(0) as u64;
            let mut r = Rng::new(name_seed(a.seed, &a.cmd, 10 + shard));
            if a.cmd == "ledger" && shard == 0 {
                // the macro-generated interfaces of the evolution families, version after version
                let rep = isolated(|| abi::macro_ledger_chains().join("\n"));
                if rep.starts_with("(abort") {
                    writeln!(out, "!C15 macro-ledger-chains-aborted got={}", rep).unwrap();
                }
                for l in rep.split('\n') {
                    if let Some(k) = l.strip_prefix("#stat ") {
                        let (k, v) = k.rsplit_once(' ').unwrap();
                        *stats.entry(k.to_string()).or_default() += v.parse::<u64>().unwrap();
                    } else if !l.is_empty() && !l.starts_with("(abort") {
                        writeln!(out, "{}", l).unwrap();
                    }
                }
            }
            let mut left = a.cases;
            while left > 0 {
                let n = left.min(abi::NSLOTS);
                left -= n;
                // templates are cached per slot for the life of a process: every batch in its own child
                let seed = r.next();
                let is_conn = a.cmd == "abiconn";
                let report = isolated(|| {
                    let mut rr = Rng::new(seed);
                    let lines = if is_conn { abi::connect_cases(&mut rr, n) } else { abi::ledger_cases(&mut rr, n) };
                    lines.join("\n")
                });
                if report.starts_with("(abort") {
                    writeln!(out, "!{} batch-aborted seed={} got={}", if is_conn { "C10" } else { "C15" }, seed, report).unwrap();
                    continue;
                }
                for l in report.split('\n') {
                    if let Some(k) = l.strip_prefix("#stat ") {
                        let (k, v) = k.rsplit_once(' ').unwrap();
                        *stats.entry(k.to_string()).or_default() += v.parse::<u64>().unwrap();
                    } else if !l.is_empty() {
                        writeln!(out, "{}", l).unwrap();
                    }
                }
            }
            for (k, v) in stats {
                writeln!(out, "#stat {} {}", k, v).unwrap();
            }
        }
        // C14: encrypted files, mutated
        "encfiles" => {
            let mut stats: BTreeMap<String, u64> = BTreeMap::new();
            let mut emit = |out: &mut dyn Write, lines: Vec<String>, stats: &mut BTreeMap<String, u64>| {
                for l in lines {
                    if let Some(k) = l.strip_prefix("#stat ") {
                        let (k, v) = k.rsplit_once(' ').unwrap();
                        *stats.entry(k.to_string()).or_default() += v.parse::<u64>().unwrap();
                    } else {
                        writeln!(out, "{}", l).unwrap();
                    }
                }
            };
            for e in selected(&reg, &a) {
                let cur = e.current();
                let mut r = Rng::new(name_seed(a.seed, &e.name, 14));
                for i in 0..a.cases {
                    let sz = if i % 4 == 3 { a.size * 4 } else { a.size };
                    let lines = (e.encfile)(&e.name, &mut r, sz, cur, i == 0 && e.tags.contains(&"lib"), !e.tags.contains(&"ignore"));
                    emit(&mut out, lines, &mut stats);
                }
            }
            if a.shard.map(|(k, _)| k == 0).unwrap_or(true) && a.filter.is_none() {
                let mut r = Rng::new(name_seed(a.seed, "big", 14));
                let lines = crypt::big_cases(&mut r, if a.size > 20 { 4 } else { 2 }, true);
                emit(&mut out, lines, &mut stats);
            }
            for (k, v) in stats {
                writeln!(out, "#stat {} {}", k, v).unwrap();
            }
        }
        // For `cargo miri run` (thorough tier): everything in this process, no fork, no raw memory dumps.
        //   --filter codec : every zoo type once — encode, decode, decode of strict prefixes, and of the same bytes
        //                    with a hostile leading length word (collections only)
        //   --filter abi   : every operation of the hand-written interface through a connection, cross-version
        //                    calls of the family interfaces
        // Inputs that reach recorded findings (D2: padding bytes written, D8: invalid values through bulk reads)
        // are not generated here: Miri stops at the first undefined behaviour it sees.
        "miri" => {
            let part = a.filter.clone().unwrap_or_else(|| "codec".into());
            let mut n = 0u64;
            if part == "codec" {
                for e in reg.iter() {
                    if e.name.contains("UnitAndField") || e.tags.contains(&"zstseq") {
                        continue;
                    }
                    if let Some((k, m)) = a.shard {
                        if (n as usize) % m != k {
                            n += 1;
                            continue;
                        }
                    }
                    n += 1;
                    let v = e.current();
                    let mut r = Rng::new(name_seed(a.seed, &e.name, 77));
                    let (_wire, _canon, res) = (e.gen_enc)(&mut r, a.size.min(5), v);
                    let Ok(bytes) = res else { continue };
                    let full = (e.dec)(v, &bytes);
                    if !full.starts_with("(ok ") {
                        writeln!(out, "!C01 miri-roundtrip type={} got={}", e.name, full).unwrap();
                    }
                    for cut in [bytes.len() / 2, bytes.len().saturating_sub(1), 8.min(bytes.len())] {
                        if cut < bytes.len() {
                            let _ = (e.dec)(v, &bytes[..cut]);
                        }
                    }
                    let is_seq = ["Vec_", "VecVec_", "String", "Deque_", "BoxSlice_", "ArcSlice_", "HashMap_", "BTreeMap_", "Heap_"].iter().any(|p| e.name.starts_with(p));
                    if is_seq && bytes.len() >= 8 {
                        // (absurd lengths end in an allocation request Miri cannot refuse the way the system allocator does)
                        for hostile in [(bytes.len() as u64) * 3, 70_000, 1_000_001] {
                            let mut m = bytes.clone();
                            m[..8].copy_from_slice(&hostile.to_le_bytes());
                            let rep = (e.dec)(v, &m);
                            if rep.starts_with("(panic") && !rep.starts_with("(panic oom") {
                                writeln!(out, "!C06 miri-panic type={} len={} got={}", e.name, hostile, rep).unwrap();
                            }
                        }
                    }
                }
                writeln!(out, "#stat miri-codec-types {}", n).unwrap();
            } else {
                let mut r = Rng::new(name_seed(a.seed, "miri-abi", 3));
                for l in abiuse::vals_cases(&mut r, 1, 48) {
                    writeln!(out, "{}", l).unwrap();
                }
                for p in zoo_gen::abi_pairs().iter().filter(|p| p.fam == "FamAdd" || p.fam == "FamNested") {
                    let mut rr = Rng::new(name_seed(a.seed, p.fam, (p.i * 16 + p.j) as u64));
                    for l in (p.run)(&mut rr) {
                        if l.starts_with('!') {
                            writeln!(out, "{}", l).unwrap();
                        }
                        n += 1;
                    }
                }
                writeln!(out, "#stat miri-abi-lines {}", n).unwrap();
            }
        }
        // C14: `CryptoWriter` driven by write/flush programs: frame structure vs the model, tamper probes
        "cwprog" => {
            let mut stats: BTreeMap<String, u64> = BTreeMap::new();
            let mut r = Rng::new(name_seed(a.seed, "cwprog", 15));
            for l in crypt::cw_cases(&mut r, a.cases) {
                if let Some(k) = l.strip_prefix("#stat ") {
                    let (k, v) = k.rsplit_once(' ').unwrap();
                    *stats.entry(k.to_string()).or_default() += v.parse::<u64>().unwrap();
                } else {
                    writeln!(out, "{}", l).unwrap();
                }
            }
            for (k, v) in stats {
                writeln!(out, "#stat {} {}", k, v).unwrap();
            }
        }
        // C08: I/O faults and chunking over all containers
        "iofault" => {
            let mut stats: BTreeMap<String, u64> = BTreeMap::new();
            for e in selected(&reg, &a) {
                let cur = e.current();
                let mut r = Rng::new(name_seed(a.seed, &e.name, 8));
                for i in 0..a.cases {
                    let sz = if i % 4 == 3 { a.size * 4 } else { a.size };
                    for l in (e.iofault)(&e.name, &mut r, sz, cur, 3, !e.tags.contains(&"ignore")) {
                        if let Some(k) = l.strip_prefix("#stat ") {
                            let (k, v) = k.rsplit_once(' ').unwrap();
                            *stats.entry(k.to_string()).or_default() += v.parse::<u64>().unwrap();
                        } else {
                            writeln!(out, "{}", l).unwrap();
                        }
                    }
                }
            }
            // older data of the evolution families loaded by later definitions through faulty readers
            if a.shard.map(|(k, _)| k == 0).unwrap_or(true) {
                for (fam, i, j, run) in zoo_gen::iofault_pairs() {
                    if let Some(f) = &a.filter {
                        if !fam.contains(f.as_str()) {
                            continue;
                        }
                    }
                    let mut r = Rng::new(name_seed(a.seed, fam, 800 + (i * 16 + j) as u64));
                    for _ in 0..a.cases {
                        for l in run(&mut r, 6) {
                            if let Some(k) = l.strip_prefix("#stat ") {
                                let (k, v) = k.rsplit_once(' ').unwrap();
                                *stats.entry(k.to_string()).or_default() += v.parse::<u64>().unwrap();
                            } else {
                                writeln!(out, "{}", l).unwrap();
                            }
                        }
                    }
                }
            }
            for (k, v) in stats {
                writeln!(out, "#stat {} {}", k, v).unwrap();
            }
        }
        // C17: introspection self-consistency and navigation histories
        "introspect" => {
            let mut stats: BTreeMap<String, u64> = BTreeMap::new();
            for e in selected(&reg, &a) {
                let mut r = Rng::new(name_seed(a.seed, &e.name, 17));
                for i in 0..a.cases {
                    let sz = if i % 5 == 4 { a.size * 3 } else if i % 3 == 0 { 2 } else { a.size };
                    let ncmds = 4 + (i % 9);
                    let (viol, req, reply, nodes) = (e.intro)(&e.name, &mut r, sz, ncmds);
                    if req.is_empty() {
                        continue;
                    }
                    for v in viol {
                        writeln!(out, "!C17 {} type={}", v, e.name).unwrap();
                    }
                    writeln!(out, "{}\t{}", req, reply).unwrap();
                    *stats.entry(format!("nodes<{}", bucket(nodes))).or_default() += 1;
                    for k in ["(ok ", "(err BadDepth", "(err UnknownKey", "(err NoChildren", "(err IndexOutOfRange", "(err AlreadyAtTop", "(panic"] {
                        *stats.entry(format!("reply{}", k.replace(' ', ""))).or_default() += reply.matches(k).count() as u64;
                    }
                    for k in ["(x ", "(s ", "(u)", "(n)"] {
                        *stats.entry(format!("cmd{}", k.replace(' ', ""))).or_default() += req.matches(k).count() as u64;
                    }
                }
            }
            if a.filter.is_none() || a.filter.as_deref() == Some("extras") {
                let mut r = Rng::new(name_seed(a.seed, "extras", 17));
                for (name, (viol, req, reply, nodes)) in intro::extras(&mut r, a.cases * 4, true) {
                    for v in viol {
                        writeln!(out, "!C17 {} type={}", v, name).unwrap();
                    }
                    writeln!(out, "{}\t{}", req, reply).unwrap();
                    *stats.entry(format!("nodes<{}", bucket(nodes))).or_default() += 1;
                    *stats.entry("extra-cases".into()).or_default() += 1;
                    *stats.entry("reply(panic".into()).or_default() += reply.matches("(panic").count() as u64;
                    let deep = reply.matches("(f ").count();
                    *stats.entry("frames-total".into()).or_default() += deep as u64;
                    *stats.entry("disambiguator>0".into()).or_default() += reply.matches(" 1 ").count() as u64;
                }
            }
            for (k, v) in stats {
                writeln!(out, "#stat {} {}", k, v).unwrap();
            }
        }
        // S-enc + S-dec on valid data + direct round-trip oracle (C01)
        "codec" => {
            let mut stats: BTreeMap<String, u64> = BTreeMap::new();
            for e in selected(&reg, &a) {
                let cur = e.current();
                for &v in &e.versions {
                    let mut r = Rng::new(name_seed(a.seed, &e.name, v as u64));
                    for i in 0..a.cases {
                        let sz = if i % 7 == 6 { a.size * 6 } else if i % 3 == 0 { 2 } else { a.size };
                        let (wire, canon, res) = (e.gen_enc)(&mut r, sz, v);
                        match res {
                            Ok(bytes) => {
                                writeln!(out, "(enc @{} {} {})\t(ok {})", e.name, v, wire, hex(&bytes)).unwrap();
                                *stats.entry("enc-ok".into()).or_default() += 1;
                                *stats.entry(format!("len<{}", bucket(bytes.len()))).or_default() += 1;
                                // decode what was written, followed by a few extra bytes
                                let mut padded = bytes.clone();
                                let extra = (r.below(4)) as usize;
                                for _ in 0..extra {
                                    padded.push(r.next() as u8);
                                }
                                let reply = (e.dec)(v, &padded);
                                writeln!(out, "(dec @{} {} {})\t{}", e.name, v, hex(&padded), reply).unwrap();
                                // direct oracle: same version, current definition → equal value, exact consumption
                                if v == cur && !e.tags.contains(&"ignore") {
                                    let want = format!("(ok {} {})", canon, extra);
                                    if reply != want {
                                        writeln!(out, "!C01 roundtrip type={} ver={} value={} bytes={} got={}", e.name, v, canon, hex(&bytes), reply).unwrap();
                                    }
                                }
                            }
                            Err(reply) => {
                                writeln!(out, "(enc @{} {} {})\t{}", e.name, v, wire, reply).unwrap();
                                *stats.entry(format!("enc-{}", reply)).or_default() += 1;
                                if v == cur {
                                    writeln!(out, "!C01 save-failed type={} ver={} value={} got={}", e.name, v, canon, reply).unwrap();
                                }
                            }
                        }
                    }
                }
            }
            for (k, v) in stats {
                writeln!(out, "#stat {} {}", k, v).unwrap();
            }
        }
        // S-dec on malformed streams + direct oracle (C06)
        "malformed" => {
            let mut stats: BTreeMap<String, u64> = BTreeMap::new();
            for e in selected(&reg, &a) {
                // sequences of zero-sized elements: a hostile length costs no input bytes, so neither
                // side can print the result (2^61 elements); outside what this suite can observe
                if e.tags.contains(&"zstseq") {
                    continue;
                }
                for &v in &e.versions {
                    let mut r = Rng::new(name_seed(a.seed, &e.name, 1000 + v as u64));
                    // all mutated inputs of one type and version go through one forked child (each on its own
                    // only if that child dies)
                    let mut inputs: Vec<Vec<u8>> = Vec::new();
                    for i in 0..a.cases {
                        let (_wire, _canon, res) = (e.gen_enc)(&mut r, if i % 2 == 0 { 3 } else { a.size }, v);
                        let base = match res {
                            Ok(b) => b,
                            Err(_) => vec![],
                        };
                        inputs.extend(mutate::mutations(&mut r, &base, 4));
                    }
                    out.flush().unwrap();
                    for (m, reply) in inputs.iter().zip(isolated_batch(&inputs, |m| (e.dec)(v, m))) {
                        let class = reply.split(|c| c == ' ' || c == ')').next().unwrap_or("").to_string()
                            + if reply.contains("invalid-") { "+invalid" } else { "" };
                        *stats.entry(format!("mal{}", class)).or_default() += 1;
                        writeln!(out, "(dec @{} {} {})\t{}", e.name, v, hex(m), reply).unwrap();
                        if reply.starts_with("(abort 14") {
                            writeln!(out, "!C06 hang type={} ver={} bytes={} got=no-result-after-60s", e.name, v, hex(m)).unwrap();
                        }
                        if (reply.starts_with("(panic") && !reply.starts_with("(panic oom")) || reply.starts_with("(abort 11") || reply.starts_with("(abort 7") {
                            writeln!(out, "!C06 panic type={} ver={} bytes={} got={}", e.name, v, hex(m), reply).unwrap();
                        }
                        if reply.contains("invalid-") {
                            writeln!(out, "!C06 invalid-value type={} ver={} bytes={} got={}", e.name, v, hex(m), reply).unwrap();
                        }
                    }
                }
            }
            for (k, v) in stats {
                writeln!(out, "#stat {} {}", k, v).unwrap();
            }
        }
        // S-schemawire + S-diff: schema values through formats 1 and 2, malformed schema sections,
        // diff_schema / layout_compatible on zoo pairs, random schemas and single-step mutations
        "schemas" => {
            use schemagen::*;
            use savefile::{diff_schema, Schema};
            let mut stats: BTreeMap<String, u64> = BTreeMap::new();
            let diff_reply = |a: &Schema, b: &Schema, rp: bool| -> String {
                let r = std::panic::catch_unwind(std::panic::AssertUnwindSafe(|| diff_schema(a, b, "".to_string(), rp)));
                match r {
                    Ok(None) => "(ok same)".to_string(),
                    Ok(Some(_)) => "(ok differ)".to_string(),
                    Err(_) => {
                        let m = last_panic();
                        if m.contains("Futures are only supported in return position") { "(panic future)".to_string() } else { format!("(panic {})", panic_class(&m)) }
                    }
                }
            };
            let lay_reply = |a: &Schema, b: &Schema| -> String {
                let r = std::panic::catch_unwind(std::panic::AssertUnwindSafe(|| a.layout_compatible(b)));
                match r {
                    Ok(x) => format!("(ok {})", x),
                    Err(_) => format!("(panic {})", panic_class(&last_panic())),
                }
            };
            let mut wire_case = |out: &mut dyn Write, s: &Schema, stats: &mut BTreeMap<String, u64>, origin: &str| {
                for ver in [1u32, 2u32] {
                    let bytes = ser_schema(s, ver);
                    let reply = match de_schema(&bytes, ver as u16) {
                        Ok((back, rest)) => {
                            if ver == 2 && (&back != s || rest != 0) {
                                writeln!(out, "!C13 schema-roundtrip origin={} ver={} bytes={} rest={}", origin, ver, hex(&bytes), rest).unwrap();
                            }
                            format!("(ok {} {})", hex(&ser_schema(&back, 2)), rest)
                        }
                        Err(e) => {
                            writeln!(out, "!C13 schema-unreadable origin={} ver={} bytes={} got={}", origin, ver, hex(&bytes), e).unwrap();
                            e
                        }
                    };
                    writeln!(out, "(decschema {} {})\t{}", ver, hex(&bytes), reply).unwrap();
                    *stats.entry(format!("wire-v{}", ver)).or_default() += 1;
                }
            };
            // 1. schemas of the zoo types
            let mut zoo_schemas: Vec<(String, Vec<u8>)> = Vec::new();
            for e in selected(&reg, &a) {
                for &v in &e.versions {
                    let b2 = (e.schema_bytes)(v, 2);
                    let (s, _) = de_schema(&b2, 2).expect("zoo schema must deserialize");
                    wire_case(&mut out, &s, &mut stats, &format!("{}@{}", e.name, v));
                    let refl = diff_reply(&s, &s, false);
                    writeln!(out, "(diff {} {} false)\t{}", hex(&b2), hex(&b2), refl).unwrap();
                    if refl != "(ok same)" {
                        writeln!(out, "!C13 diff-not-reflexive origin={}@{} got={}", e.name, v, refl).unwrap();
                    }
                    if v == e.current() {
                        zoo_schemas.push((e.name.clone(), b2));
                    }
                }
            }
            // 2. pairs of zoo schemas (sampled)
            let mut r = Rng::new(name_seed(a.seed, "schema-pairs", 0));
            let npairs = (a.cases * 60).min(zoo_schemas.len() * zoo_schemas.len());
            for _ in 0..npairs {
                let i = r.below(zoo_schemas.len() as u64) as usize;
                let j = if r.chance(1, 3) { (i + 1 + r.below(3) as usize) % zoo_schemas.len() } else { r.below(zoo_schemas.len() as u64) as usize };
                let (sa, _) = de_schema(&zoo_schemas[i].1, 2).unwrap();
                let (sb, _) = de_schema(&zoo_schemas[j].1, 2).unwrap();
                writeln!(out, "(diff {} {} false)\t{}", hex(&zoo_schemas[i].1), hex(&zoo_schemas[j].1), diff_reply(&sa, &sb, false)).unwrap();
                writeln!(out, "(laycompat {} {})\t{}", hex(&zoo_schemas[i].1), hex(&zoo_schemas[j].1), lay_reply(&sa, &sb)).unwrap();
                *stats.entry("zoo-pairs".into()).or_default() += 1;
            }
            // 2b. schemas with complete layout information and single changes of one layout fact (C11)
            let mut r = Rng::new(name_seed(a.seed, "schema-layout", 2));
            for i in 0..a.cases * 40 {
                let (ls, _, _) = gen_layout(&mut r, 1 + (i % 3) as u32);
                let s = ls.build();
                let b = ser_schema(&s, 2);
                let own = lay_reply(&s, &s);
                writeln!(out, "(laycompat {} {})\t{}", hex(&b), hex(&b), own).unwrap();
                *stats.entry(format!("layout-self-{}", own.trim_matches(|c| c == '(' || c == ')').replace(' ', "-"))).or_default() += 1;
                // a change of the data description that leaves every layout fact alone (C13)
                if diff_reply(&s, &s, false) == "(ok same)" {
                    for _ in 0..2 {
                        if let Some((kind, m)) = mutate(&mut r, &s) {
                            let bm = ser_schema(&m, 2);
                            let d = diff_reply(&s, &m, false);
                            let d2 = diff_reply(&m, &s, false);
                            writeln!(out, "(diff {} {} false)\t{}", hex(&b), hex(&bm), d).unwrap();
                            writeln!(out, "(diff {} {} false)\t{}", hex(&bm), hex(&b), d2).unwrap();
                            *stats.entry(format!("layout-complete-mut-{}", kind)).or_default() += 1;
                            if d != "(ok differ)" || d2 != "(ok differ)" {
                                writeln!(out, "!C13 mutation-not-detected kind={} a={} b={} got={}/{}", kind, hex(&b), hex(&bm), d, d2).unwrap();
                            }
                        }
                    }
                }
                for _ in 0..3 {
                    if let Some((kind, lm)) = mutate_layout(&mut r, &ls) {
                        let m = lm.build();
                        let bm = ser_schema(&m, 2);
                        let l1 = lay_reply(&s, &m);
                        let l2 = lay_reply(&m, &s);
                        writeln!(out, "(laycompat {} {})\t{}", hex(&b), hex(&bm), l1).unwrap();
                        writeln!(out, "(laycompat {} {})\t{}", hex(&bm), hex(&b), l2).unwrap();
                        *stats.entry(format!("layout-mut-{}", kind)).or_default() += 1;
                        if l1 != "(ok false)" || l2 != "(ok false)" {
                            writeln!(out, "!C11 layout-difference-accepted change={} original={} changed={} got={}/{}", kind, hex(&b), hex(&bm), l1, l2).unwrap();
                        }
                    }
                }
            }
            // 3. random schemas, reflexivity, single-step mutations, layout compatibility
            let mut r = Rng::new(name_seed(a.seed, "schema-random", 1));
            for i in 0..a.cases * 40 {
                let data_only = i % 3 != 0;
                let s = gen_schema(&mut r, 1 + (i % 4) as u32, data_only);
                wire_case(&mut out, &s, &mut stats, "random");
                let b = ser_schema(&s, 2);
                for rp in [false, true] {
                    let refl = diff_reply(&s, &s, rp);
                    writeln!(out, "(diff {} {} {})\t{}", hex(&b), hex(&b), rp, refl).unwrap();
                }
                writeln!(out, "(laycompat {} {})\t{}", hex(&b), hex(&b), lay_reply(&s, &s)).unwrap();
                if data_only {
                    for _ in 0..3 {
                        if let Some((kind, m)) = mutate(&mut r, &s) {
                            let bm = ser_schema(&m, 2);
                            let d = diff_reply(&s, &m, false);
                            writeln!(out, "(diff {} {} false)\t{}", hex(&b), hex(&bm), d).unwrap();
                            let d2 = diff_reply(&m, &s, false);
                            writeln!(out, "(diff {} {} false)\t{}", hex(&bm), hex(&b), d2).unwrap();
                            writeln!(out, "(laycompat {} {})\t{}", hex(&b), hex(&bm), lay_reply(&s, &m)).unwrap();
                            *stats.entry(format!("mut-{}", kind)).or_default() += 1;
                            // a change inside something that already differs from itself (Undefined) cannot be judged
                            let self_ok = diff_reply(&s, &s, false) == "(ok same)";
                            if self_ok && (d != "(ok differ)" || d2 != "(ok differ)") {
                                writeln!(out, "!C13 mutation-not-detected kind={} a={} b={} got={}/{}", kind, hex(&b), hex(&bm), d, d2).unwrap();
                            }
                        }
                    }
                }
            }
            // 4. malformed schema sections
            let mut r = Rng::new(name_seed(a.seed, "schema-malformed", 2));
            for i in 0..a.cases * 30 {
                let s = gen_schema(&mut r, 1 + (i % 3) as u32, i % 2 == 0);
                let ver = if i % 4 == 0 { 1 } else { 2 };
                let base = ser_schema(&s, ver);
                for m in mutate::mutations(&mut r, &base, 3) {
                    let reply = isolated_t(60, || match de_schema(&m, ver as u16) {
                        Ok((back, rest)) => format!("(ok {} {})", hex(&ser_schema(&back, 2)), rest),
                        Err(e) => e,
                    });
                    writeln!(out, "(decschema {} {})\t{}", ver, hex(&m), reply).unwrap();
                    *stats.entry(format!("malformed-{}", reply.split(|c| c == ' ' || c == ')').next().unwrap_or(""))).or_default() += 1;
                    if reply.starts_with("(panic") && !reply.starts_with("(panic oom") {
                        writeln!(out, "!C06 schema-section-panic ver={} bytes={} got={}", ver, hex(&m), reply).unwrap();
                    }
                }
            }
            // 5. files in the older library formats (schema section without memory annotations), plain and compressed:
            //    the stored schema is decoded in the format the header names, whatever the container, so both load
            //    like the current-format file of the same value
            {
                use std::io::Write as _;
                let sel = selected(&reg, &a);
                let mut r = Rng::new(name_seed(a.seed, "old-format-files", 6));
                for _ in 0..(a.cases * 25).min(sel.len() * 2) {
                    let e = sel[r.below(sel.len() as u64) as usize];
                    if e.tags.contains(&"zstseq") {
                        continue;
                    }
                    let v = e.current();
                    let sb2 = (e.schema_bytes)(v, 2);
                    let (_w, _c, res) = (e.gen_save)(&mut r, a.size.min(5), v, Kind::Plain);
                    let Ok(cur) = res else { continue };
                    if cur.len() < 16 + sb2.len() || cur[16..16 + sb2.len()] != sb2[..] {
                        continue;
                    }
                    let payload = &cur[16 + sb2.len()..];
                    let reference = (e.load)(Kind::Plain, v, PASSWORD, &cur);
                    for libver in [0u16, 1u16] {
                        let sb = if libver == 0 {
                            let Ok((schema, _)) = schemagen::de_schema(&sb2, 2) else { continue };
                            let Some(b) = schemagen::ser_schema_v0(&schema) else { continue };
                            b
                        } else {
                            (e.schema_bytes)(v, libver as u32)
                        };
                        // the stored schema section alone: the real decoder and the model's, on the same bytes
                        let reply = match schemagen::de_schema(&sb, libver) {
                            Ok((back, rest)) => format!("(ok {} {})", hex(&schemagen::ser_schema(&back, 2)), rest),
                            Err(e) => e,
                        };
                        writeln!(out, "(decschema {} {})\t{}", libver, hex(&sb), reply).unwrap();
                        let mut plain = cur[..9].to_vec();
                        plain.extend_from_slice(&libver.to_le_bytes());
                        plain.extend_from_slice(&cur[11..15]);
                        let mut comp = plain.clone();
                        plain.push(0);
                        plain.extend_from_slice(&sb);
                        plain.extend_from_slice(payload);
                        comp.push(1);
                        let mut enc = bzip2::write::BzEncoder::new(Vec::new(), bzip2::Compression::best());
                        enc.write_all(&sb).unwrap();
                        enc.write_all(payload).unwrap();
                        comp.extend_from_slice(&enc.finish().unwrap());
                        let rp = (e.load)(Kind::Plain, v, PASSWORD, &plain);
                        let rc = (e.load)(Kind::Compressed, v, PASSWORD, &comp);
                        let strip = |x: &str| x.rsplit_once(' ').map(|(a, _)| a.to_string()).unwrap_or(x.to_string());
                        *stats.entry(format!("old-format-{}-{}", libver, rp.trim_matches(|c| c == '(' || c == ')').split(' ').next().unwrap_or(""))).or_default() += 1;
                        if strip(&rp) != strip(&rc) {
                            writeln!(out, "!C13 old-format-file-loads-differently-when-compressed type={} libver={} plain={} compressed={}", e.name, libver, &rp[..rp.len().min(100)], &rc[..rc.len().min(100)]).unwrap();
                        }
                        if strip(&rp) != strip(&reference) && !e.tags.contains(&"ignore") {
                            writeln!(out, "!C13 old-format-file-loads-differently type={} libver={} current-format={} old-format={}", e.name, libver, &reference[..reference.len().min(100)], &rp[..rp.len().min(100)]).unwrap();
                        }
                    }
                }
            }
            for (k, v) in stats {
                writeln!(out, "#stat {} {}", k, v).unwrap();
            }
        }
        // C05: load::<U>(save::<T>(x)) over ordered pairs of zoo types (sampled), with schema checking
        "xtype" => {
            let mut stats: BTreeMap<String, u64> = BTreeMap::new();
            let sel = selected(&reg, &a);
            let mut r = Rng::new(name_seed(a.seed, "xtype", 0));
            let n = sel.len();
            let mut do_pair = |out: &mut dyn Write, r: &mut Rng, stats: &mut BTreeMap<String, u64>, i: usize, j: usize| {
                let (et, eu) = (sel[i], sel[j]);
                let v = et.current();
                let memver = eu.current().max(v);
                let (_wire, canon, res) = (et.gen_save)(r, a.size.min(6), v, Kind::Plain);
                let bytes = match res { Ok(b) => b, Err(_) => return };
                let reply = (eu.load)(Kind::Plain, memver, PASSWORD, &bytes);
                let expected = (eu.schema_bytes)(v, 2);
                writeln!(out, "(loadfile plain @{} {} {} {})\t{}", eu.name, memver, hex(&bytes), hex(&expected), reply).unwrap();
                let class = if reply == "(err schema)" { "rejected".to_string() } else if reply.starts_with("(ok") { "accepted".to_string() } else { format!("other:{}", reply.trim_matches(|c| c == '(' || c == ')').replace(' ', "-")) };
                writeln!(out, "(xload @{} @{} {})\t(ok {})", et.name, eu.name, v, class).unwrap();
                *stats.entry(format!("xtype-{}", class.split(':').next().unwrap())).or_default() += 1;
                if reply.starts_with("(panic") {
                    writeln!(out, "!C05 cross-type-load-panic saved={} loaded={} bytes={} got={}", et.name, eu.name, hex(&bytes), reply).unwrap();
                }
                if i == j && !et.tags.contains(&"ignore") && reply != format!("(ok {} 0)", canon) {
                    writeln!(out, "!C05 same-type-rejected type={} value={} got={}", et.name, canon, reply).unwrap();
                }
            };
            // (a) every ordered pair of different types that the real gate lets through (`diff_schema` of the two
            //     real schemas at the file's version reports nothing): these are the pairs where a misread is
            //     possible at all, so none of them is left to sampling
            let maxv = sel.iter().map(|e| e.current()).max().unwrap_or(0);
            let schemas: Vec<Vec<Option<savefile::prelude::Schema>>> = sel
                .iter()
                .map(|e| (0..=maxv).map(|v| schemagen::de_schema(&(e.schema_bytes)(v, 2), 2).ok().map(|x| x.0)).collect())
                .collect();
            let mut twins = 0u64;
            for i in 0..n {
                let v = sel[i].current() as usize;
                let Some(si) = &schemas[i][v] else { continue };
                for j in 0..n {
                    if i == j {
                        continue;
                    }
                    let Some(sj) = &schemas[j][v] else { continue };
                    let same = std::panic::catch_unwind(std::panic::AssertUnwindSafe(|| savefile::diff_schema(si, sj, String::new(), false).is_none())).unwrap_or(false);
                    if same {
                        twins += 1;
                        if twins <= 4000 {
                            do_pair(&mut out, &mut r, &mut stats, i, j);
                        }
                    }
                }
            }
            stats.insert("xtype-gate-accepted-pairs".into(), twins);
            // (a') files whose schema section is a structurally changed copy of the type's own schema (one variant or
            //      field more or less, another primitive, another wrapper, ...) in front of a real payload: the loader
            //      must answer like the model (reject when the layouts differ) and never panic on such a file
            {
                let mut rf = Rng::new(name_seed(a.seed, "foreign-schema", 3));
                let rounds = a.cases.max(1) * 150;
                for _ in 0..rounds {
                    let i = rf.below(n as u64) as usize;
                    let e = sel[i];
                    let v = e.current();
                    let sb = (e.schema_bytes)(v, 2);
                    let Ok((schema, _)) = schemagen::de_schema(&sb, 2) else { continue };
                    let (_w, _c, res) = (e.gen_save)(&mut rf, a.size.min(5), v, Kind::Plain);
                    let Ok(bytes) = res else { continue };
                    if bytes.len() < 16 + sb.len() || bytes[16..16 + sb.len()] != sb[..] {
                        continue;
                    }
                    let Some((kind, changed)) = schemagen::mutate(&mut rf, &schema) else { continue };
                    let mut file = bytes[..16].to_vec();
                    file.extend_from_slice(&schemagen::ser_schema(&changed, 2));
                    file.extend_from_slice(&bytes[16 + sb.len()..]);
                    let reply = (e.load)(Kind::Plain, v, PASSWORD, &file);
                    writeln!(out, "(loadfile plain @{} {} {} {})\t{}", e.name, v, hex(&file), hex(&sb), reply).unwrap();
                    *stats.entry(format!("foreign-schema-{}", kind)).or_default() += 1;
                    *stats.entry(format!("foreign-schema-reply-{}", reply.trim_matches(|c| c == '(' || c == ')').split(' ').take(2).collect::<Vec<_>>().join("-"))).or_default() += 1;
                    if reply.starts_with("(panic") {
                        writeln!(out, "!C06 file-with-changed-schema-panics type={} change={} got={}", e.name, kind, &reply[..reply.len().min(200)]).unwrap();
                        writeln!(out, "!C05 file-with-changed-schema-panics type={} change={} got={}", e.name, kind, &reply[..reply.len().min(200)]).unwrap();
                    }
                }
            }
            // (b) sampled pairs
            let npairs = a.cases * 150;
            for k in 0..npairs {
                let i = r.below(n as u64) as usize;
                // bias towards neighbours in the registry (similar types) and towards the same type
                let j = match k % 4 { 0 => i, 1 => (i + 1 + r.below(4) as usize) % n, _ => r.below(n as u64) as usize };
                do_pair(&mut out, &mut r, &mut stats, i, j);
            }
            for (k, v) in stats {
                writeln!(out, "#stat {} {}", k, v).unwrap();
            }
        }
        // C03 / C18: cross-definition loading inside evolution families.
        //  up:   bytes written by the definition current at i (at version i), loaded by the definition current at j >= i
        //  down: bytes written by the definition current at n at an older version k, loaded by the definition current at k
        "xver" => {
            let mut stats: BTreeMap<String, u64> = BTreeMap::new();
            let mut fams: BTreeMap<String, Vec<&Entry>> = BTreeMap::new();
            for e in selected(&reg, &a) {
                if let Some((f, _)) = &e.family {
                    // group by family and by container shape (name without the version marker)
                    let key = format!("{}|{}", f, e.name.replacen(&format!("_v{}", e.family.as_ref().unwrap().1), "_v#", 1));
                    fams.entry(key).or_default().push(e);
                }
            }
            for (key, members) in fams.iter() {
                // every definition is first used at its own version, the way a program that has been running for a
                // while has: what an older version is written as must not depend on what was done before (C18)
                for ei in members.iter() {
                    let i = ei.family.as_ref().unwrap().1;
                    let mut r = Rng::new(name_seed(a.seed, key, 7_000_000 + i as u64));
                    let (wire, _canon, res) = (ei.gen_enc)(&mut r, a.size, i);
                    if let Ok(bytes) = res {
                        writeln!(out, "(enc @{} {} {})\t(ok {})", ei.name, i, wire, hex(&bytes)).unwrap();
                        *stats.entry("warm-up".into()).or_default() += 1;
                    }
                }
                for ei in members.iter() {
                    let i = ei.family.as_ref().unwrap().1;
                    for ej in members.iter() {
                        let j = ej.family.as_ref().unwrap().1;
                        let mut r = Rng::new(name_seed(a.seed, key, (i * 100 + j) as u64));
                        if i <= j {
                            writeln!(out, "(ext @{} @{} {})\t(ok true)", ei.name, ej.name, i).unwrap();
                            for _ in 0..a.cases {
                                let (wire, _canon, res) = (ei.gen_enc)(&mut r, a.size, i);
                                match res {
                                    Ok(bytes) => {
                                        writeln!(out, "(enc @{} {} {})\t(ok {})", ei.name, i, wire, hex(&bytes)).unwrap();
                                        let reply = (ej.dec)(i, &bytes);
                                        writeln!(out, "(dec @{} {} {})\t{}", ej.name, i, hex(&bytes), reply).unwrap();
                                        *stats.entry("up".into()).or_default() += 1;
                                        if !(reply.starts_with("(ok ") && reply.ends_with(" 0)")) {
                                            writeln!(out, "!C03 old-data-rejected family={} saved_by=v{} at={} loaded_by=v{} value={} bytes={} got={}", key, i, i, j, wire, hex(&bytes), reply).unwrap();
                                        }
                                    }
                                    Err(reply) => {
                                        writeln!(out, "!C03 save-failed family={} v{} value={} got={}", key, i, wire, reply).unwrap();
                                    }
                                }
                            }
                            // the same old data through every container: the gate and the reader must not depend
                            // on whether the file is plain, compressed or encrypted (C05, C03)
                            for c in 0..a.cases.min(3) {
                                let vseed = name_seed(a.seed, key, (i * 100 + j) as u64 * 31 + c as u64);
                                let mut replies: Vec<(Kind, String)> = Vec::new();
                                for kind in [Kind::Plain, Kind::Compressed, Kind::Encrypted] {
                                    let mut rv = Rng::new(vseed);
                                    let (_w, _c, res) = (ei.gen_save)(&mut rv, a.size, i, kind);
                                    if let Ok(bytes) = res {
                                        let rep = (ej.load)(kind, j, PASSWORD, &bytes);
                                        // the trailing-byte count is container specific
                                        let rep = rep.rsplit_once(' ').map(|(x, _)| x.to_string()).unwrap_or(rep);
                                        replies.push((kind, rep));
                                    }
                                }
                                *stats.entry("containers".into()).or_default() += 1;
                                if let Some((_, first)) = replies.first() {
                                    for (kind, rep) in replies.iter().skip(1) {
                                        if rep != first {
                                            writeln!(out, "!C05 container-changes-load-result family={} saved_by=v{} loaded_by=v{} plain={} {}={}", key, i, j, &first[..first.len().min(120)], kind.name(), &rep[..rep.len().min(120)]).unwrap();
                                            writeln!(out, "!C03 container-changes-load-result family={} saved_by=v{} loaded_by=v{} plain={} {}={}", key, i, j, &first[..first.len().min(120)], kind.name(), &rep[..rep.len().min(120)]).unwrap();
                                        }
                                    }
                                }
                            }
                        }
                        if i > j && ei.tags.contains(&"downgradable") {
                            writeln!(out, "(ext @{} @{} {})\t(ok true)", ei.name, ej.name, j).unwrap();
                        }
                        if i > j {
                            // down: definition i writes version j, definition j reads it
                            for _ in 0..a.cases {
                                let (wire, _canon, res) = (ei.gen_enc)(&mut r, a.size, j);
                                match res {
                                    Ok(bytes) => {
                                        writeln!(out, "(enc @{} {} {})\t(ok {})", ei.name, j, wire, hex(&bytes)).unwrap();
                                        let reply = (ej.dec)(j, &bytes);
                                        writeln!(out, "(dec @{} {} {})\t{}", ej.name, j, hex(&bytes), reply).unwrap();
                                        *stats.entry("down".into()).or_default() += 1;
                                        if ei.tags.contains(&"downgradable") && !(reply.starts_with("(ok ") && reply.ends_with(" 0)")) {
                                            writeln!(out, "!C18 downgraded-data-rejected family={} written_by=v{} at={} loaded_by=v{} value={} bytes={} got={}", key, i, j, j, wire, hex(&bytes), reply).unwrap();
                                        }
                                    }
                                    Err(reply) => {
                                        // documented: Removed (not AbiRemoved) fields and later variants cannot be written at old versions
                                        writeln!(out, "(enc @{} {} {})\t{}", ei.name, j, wire, reply).unwrap();
                                        *stats.entry(format!("down-{}", reply)).or_default() += 1;
                                    }
                                }
                            }
                            // the older version written through every container and read by the older definition:
                            // what the payload looks like must not depend on the container it is wrapped in
                            for c in 0..a.cases.min(3) {
                                let vseed = name_seed(a.seed, key, (i * 100 + j) as u64 * 37 + c as u64);
                                let mut replies: Vec<(Kind, String)> = Vec::new();
                                for kind in [Kind::Plain, Kind::NoSchema, Kind::Compressed, Kind::Encrypted] {
                                    let mut rv = Rng::new(vseed);
                                    let (_w, _c, res) = (ei.gen_save)(&mut rv, a.size, j, kind);
                                    if let Ok(bytes) = res {
                                        let rep = (ej.load)(kind, j, PASSWORD, &bytes);
                                        let rep = rep.rsplit_once(' ').map(|(x, _)| x.to_string()).unwrap_or(rep);
                                        replies.push((kind, rep));
                                    }
                                }
                                *stats.entry("down-containers".into()).or_default() += 1;
                                if let Some((_, first)) = replies.first() {
                                    for (kind, rep) in replies.iter().skip(1) {
                                        if rep != first {
                                            writeln!(out, "!C18 container-changes-downgraded-data family={} written_by=v{} at={} plain={} {}={}", key, i, j, &first[..first.len().min(120)], kind.name(), &rep[..rep.len().min(120)]).unwrap();
                                        }
                                    }
                                }
                            }
                        }
                    }
                }
            }
            for (k, v) in stats {
                writeln!(out, "#stat {} {}", k, v).unwrap();
            }
        }
        // S-schema: get_schema::<T>(v) as format-2 bytes vs the model's schemaOf; faithfulness (C12):
        // an independent schema-driven reader parses the bytes really written for the type
        "schemaof" => {
            let mut stats: BTreeMap<String, u64> = BTreeMap::new();
            for e in selected(&reg, &a) {
                for &v in &e.versions {
                    let sb = (e.schema_bytes)(v, 2);
                    writeln!(out, "(schema @{} {})\t(ok {})", e.name, v, hex(&sb)).unwrap();
                    // at an older version the tags of this enum are not consecutive (a variant was inserted in the
                    // middle later): the generic readers here take tags by position, which is not what is claimed
                    let sparse = e.tags.contains(&"sparse-tags") && v != e.current();
                    if sparse {
                        continue;
                    }
                    // the model's verdict on faithfulness; the implementation side claims it for every type
                    writeln!(out, "(faithful @{} {})\t(ok true)", e.name, v).unwrap();
                    let (schema, _) = schemagen::de_schema(&sb, 2).expect("zoo schema");
                    let mut r = Rng::new(name_seed(a.seed, &e.name, 5000 + v as u64));
                    for i in 0..a.cases {
                        let (_wire, _canon, res) = (e.gen_enc)(&mut r, if i % 3 == 0 { 2 } else { a.size }, v);
                        let Ok(bytes) = res else { continue };
                        let got = schemaread::generic_read(&schema, &bytes);
                        // the model's generic reader on the same schema and bytes
                        writeln!(out, "(parse {} {})\t{}", hex(&sb), hex(&bytes), got).unwrap();
                        *stats.entry(format!("parse-{}", got.split(|c| c == ' ' || c == ')').next().unwrap_or(""))).or_default() += 1;
                        if (v == e.current() || !e.tags.contains(&"convert")) && !(got.starts_with("(ok ") && got.ends_with(" 0)")) {
                            writeln!(out, "!C12 schema-does-not-describe-bytes type={} ver={} bytes={} reader={}", e.name, v, hex(&bytes), got).unwrap();
                        }
                    }
                    if sb.windows(1).len() > 0 {
                        // recursion markers in schemas of the (non-recursive) zoo types
                        let dbg = format!("{:?}", schema);
                        if dbg.contains("Recursion(") {
                            writeln!(out, "!C12 recursion-marker-in-nonrecursive-type type={} ver={}", e.name, v).unwrap();
                        }
                    }
                }
            }
            for (k, v) in stats {
                writeln!(out, "#stat {} {}", k, v).unwrap();
            }
        }
        // C04 direct oracle: bulk containers vs element-wise encoding
        "bulk" => {
            let mut n = 0u64;
            for e in selected(&reg, &a) {
                for &v in &e.versions {
                    let mut r = Rng::new(name_seed(a.seed, &e.name, 4000 + v as u64));
                    for _ in 0..a.cases {
                        for l in (e.bulk)(&e.name, &mut r, a.size, v) {
                            writeln!(out, "{}", l).unwrap();
                        }
                        n += 1;
                    }
                }
            }
            writeln!(out, "#stat bulk-checks {}", n).unwrap();
        }
        // S-container: file bytes and loading for the schema-less and plain containers vs the model;
        // header corruptions; direct round-trip oracle on all four containers (C01)
        "files" => {
            let mut stats: BTreeMap<String, u64> = BTreeMap::new();
            if a.filter.is_none() && a.shard.map(|(k, _)| k == 0).unwrap_or(true) {
                // one value larger than a bzip2 block (900 kB) that does not compress: the encoder then takes the
                // data in pieces, the compressed payload must still be the plain one
                use std::io::Read as _;
                let mut r = Rng::new(name_seed(a.seed, "files-big", 1));
                let big: Vec<u8> = (0..(1_300_000 + r.below(300_000) as usize)).map(|_| r.next() as u8).collect();
                let words: Vec<u32> = (0..300_000).map(|_| r.next() as u32).collect();
                let value = (big, words);
                let plain = savefile::save_to_mem(0, &value).unwrap();
                let mut comp = Vec::new();
                let saved = std::panic::catch_unwind(std::panic::AssertUnwindSafe(|| savefile::save_compressed(&mut comp, 0, &value)));
                *stats.entry("files-big-compressed".into()).or_default() += 1;
                match saved {
                    Ok(Ok(())) => {
                        let mut inner = Vec::new();
                        let ok = comp.len() > 16 && bzip2::read::BzDecoder::new(&comp[16..]).read_to_end(&mut inner).is_ok();
                        if !ok || inner[..] != plain[16..] {
                            writeln!(out, "!C02 compressed-payload-is-not-the-plain-encoding type=(Vec<u8>,Vec<u32>) plain={} decompressed={}", plain.len() - 16, inner.len()).unwrap();
                            writeln!(out, "!C01 compressed-payload-is-not-the-plain-encoding type=(Vec<u8>,Vec<u32>) plain={} decompressed={}", plain.len() - 16, inner.len()).unwrap();
                        }
                        match std::panic::catch_unwind(std::panic::AssertUnwindSafe(|| savefile::load::<(Vec<u8>, Vec<u32>)>(&mut &comp[..], 0))) {
                            Ok(Ok(back)) if back == value => {}
                            Ok(Ok(_)) => writeln!(out, "!C01 round-trip-changes-value kind=compressed type=(Vec<u8>,Vec<u32>) len={}", value.0.len()).unwrap(),
                            Ok(Err(e)) => writeln!(out, "!C01 saved-file-does-not-load kind=compressed type=(Vec<u8>,Vec<u32>) len={} got={}", value.0.len(), err_class(&e)).unwrap(),
                            Err(_) => writeln!(out, "!C01 load-panics kind=compressed type=(Vec<u8>,Vec<u32>) got={}", panic_class(&last_panic())).unwrap(),
                        }
                    }
                    other => writeln!(out, "!C01 save-failed kind=compressed type=(Vec<u8>,Vec<u32>) len={} got={:?}", value.0.len(), other.map(|r| r.map_err(|e| err_class(&e))).map_err(|_| "panic")).unwrap(),
                }
            }
            for e in selected(&reg, &a) {
                let cur = e.current();
                let mut r = Rng::new(name_seed(a.seed, &e.name, 2000));
                for i in 0..a.cases {
                    for kind in Kind::all() {
                        let sz = if i % 5 == 4 { a.size * 4 } else { a.size };
                        let (wire, canon, res) = (e.gen_save)(&mut r, sz, cur, kind);
                        let bytes = match res {
                            Ok(b) => b,
                            Err(reply) => {
                                writeln!(out, "!C01 save-failed kind={} type={} ver={} value={} got={}", kind.name(), e.name, cur, canon, reply).unwrap();
                                continue;
                            }
                        };
                        *stats.entry(format!("file-{}", kind.name())).or_default() += 1;
                        match kind {
                            Kind::NoSchema => {
                                writeln!(out, "(file noschema @{} {} {} -)\t(ok {})", e.name, cur, wire, hex(&bytes)).unwrap();
                            }
                            Kind::Plain => {
                                let sb = (e.schema_bytes)(cur, 2);
                                writeln!(out, "(file plain @{} {} {} {})\t(ok {})", e.name, cur, wire, hex(&sb), hex(&bytes)).unwrap();
                            }
                            _ => {}
                        }
                        let reply = (e.load)(kind, cur, PASSWORD, &bytes);
                        if kind == Kind::NoSchema {
                            writeln!(out, "(loadfile noschema @{} {} {})\t{}", e.name, cur, hex(&bytes), reply).unwrap();
                        }
                        if !e.tags.contains(&"ignore") {
                            // a compressed stream may leave trailer bytes unread; plain containers may not
                            let ok = match kind {
                                Kind::Plain | Kind::NoSchema => reply == format!("(ok {} 0)", canon),
                                _ => reply.starts_with(&format!("(ok {} ", canon)),
                            };
                            if !ok {
                                writeln!(out, "!C01 file-roundtrip kind={} type={} ver={} value={} got={}", kind.name(), e.name, cur, canon, reply).unwrap();
                            }
                        }
                        // header corruptions (first 16 bytes): every position, a few replacement values
                        if kind == Kind::NoSchema && i == 0 {
                            for pos in 0..16.min(bytes.len()) {
                                for delta in [1u8, 0x80, 0xff] {
                                    let mut m = bytes.clone();
                                    m[pos] = m[pos].wrapping_add(delta);
                                    let reply = (e.load)(kind, cur, PASSWORD, &m);
                                    writeln!(out, "(loadfile noschema @{} {} {})\t{}", e.name, cur, hex(&m), reply).unwrap();
                                    *stats.entry("header-corruption".into()).or_default() += 1;
                                    // a damaged magic must always be rejected (the other header fields are
                                    // compared with the model: lower versions are legitimately accepted)
                                    if pos < 9 && !reply.starts_with("(err general)") {
                                        writeln!(out, "!C05 header-corruption-accepted type={} pos={} bytes={} got={}", e.name, pos, hex(&m[..16.min(m.len())]), reply).unwrap();
                                    }
                                }
                            }
                        }
                    }
                }
            }
            for (k, v) in stats {
                writeln!(out, "#stat {} {}", k, v).unwrap();
            }
        }
        // C07: every cut of saved files, all four containers; direct oracle + model for noschema
        "cuts" => {
            let mut stats: BTreeMap<String, u64> = BTreeMap::new();
            for e in selected(&reg, &a) {
                let cur = e.current();
                let mut r = Rng::new(name_seed(a.seed, &e.name, 3000));
                for i in 0..a.cases {
                    for kind in Kind::all() {
                        let (_wire, canon, res) = (e.gen_save)(&mut r, a.size, cur, kind);
                        let bytes = match res {
                            Ok(b) => b,
                            Err(_) => continue,
                        };
                        if bytes.len() > 4096 {
                            continue;
                        }
                        // with a schema the cut space is large: thin it out after the first case
                        let step = if i == 0 || kind == Kind::NoSchema { 1 } else { 1 + bytes.len() / 64 };
                        let mut k = 0;
                        while k < bytes.len() {
                            let p = &bytes[..k];
                            let reply = (e.load)(kind, cur, PASSWORD, p);
                            *stats.entry(format!("cut-{}-{}", kind.name(), reply.split(|c| c == ' ' || c == ')').next().unwrap_or(""))).or_default() += 1;
                            if kind == Kind::NoSchema {
                                writeln!(out, "(loadfile noschema @{} {} {})\t{}", e.name, cur, hex(p), reply).unwrap();
                            }
                            let same = reply.starts_with(&format!("(ok {} ", canon));
                            if reply.starts_with("(panic") {
                                writeln!(out, "!C07 truncation-panic kind={} type={} cut={}/{} got={}", kind.name(), e.name, k, bytes.len(), reply).unwrap();
                            } else if reply.starts_with("(ok") && !(same && kind != Kind::Plain && kind != Kind::NoSchema) && !e.tags.contains(&"ignore") {
                                writeln!(out, "!C07 truncation-accepted kind={} type={} cut={}/{} value={} got={}", kind.name(), e.name, k, bytes.len(), canon, reply).unwrap();
                            } else if reply.starts_with("(ok") && e.tags.contains(&"ignore") && (kind == Kind::Plain || kind == Kind::NoSchema) {
                                writeln!(out, "!C07 truncation-accepted kind={} type={} cut={}/{} value={} got={}", kind.name(), e.name, k, bytes.len(), canon, reply).unwrap();
                            }
                            k += step;
                        }
                    }
                }
            }
            for (k, v) in stats {
                writeln!(out, "#stat {} {}", k, v).unwrap();
            }
        }
        _ => {
            eprintln!("usage: sfv-harness defs|list|packed|codec|malformed [--seed N] [--cases N] [--size N] [--filter S] [--tag T]");
            std::process::exit(2);
        }
    }
}

fn bucket(n: usize) -> usize {
    let mut b = 1;
    while b <= n {
        b *= 4;
    }
    b
}
