//! sfv-harness — runs the real savefile code on generated cases and prints, per case,
//! the request line for the Lean model driver and the implementation's reply:
//!
//!     <request>\t<impl reply>
//!
//! Lines starting with `!` report a direct property violation of the implementation
//! (independent of the model); lines starting with `#` are statistics.

mod suite;
mod val;
mod zoo_gen;
mod mutate;

use std::collections::BTreeMap;
use std::io::Write;
use suite::*;
use val::*;

struct Args {
    cmd: String,
    seed: u64,
    cases: usize,
    size: usize,
    filter: Option<String>,
    tag: Option<String>,
}

fn parse_args() -> Args {
    let mut a = Args { cmd: String::new(), seed: 1, cases: 10, size: 12, filter: None, tag: None };
    let mut it = std::env::args().skip(1);
    a.cmd = it.next().unwrap_or_else(|| "help".into());
    while let Some(k) = it.next() {
        let mut val = || it.next().expect("missing value");
        match k.as_str() {
            "--seed" => a.seed = val().parse().unwrap(),
            "--cases" => a.cases = val().parse().unwrap(),
            "--size" => a.size = val().parse().unwrap(),
            "--filter" => a.filter = Some(val()),
            "--tag" => a.tag = Some(val()),
            other => panic!("unknown arg {}", other),
        }
    }
    a
}

fn selected<'a>(reg: &'a [Entry], a: &Args) -> Vec<&'a Entry> {
    reg.iter()
        .filter(|e| a.filter.as_ref().map(|f| e.name.contains(f.as_str())).unwrap_or(true))
        .filter(|e| a.tag.as_ref().map(|t| e.tags.contains(&t.as_str())).unwrap_or(true))
        .collect()
}

fn name_seed(seed: u64, name: &str, salt: u64) -> u64 {
    let mut h = seed ^ 0xcbf29ce484222325 ^ salt.wrapping_mul(0x100000001b3);
    for b in name.bytes() {
        h ^= b as u64;
        h = h.wrapping_mul(0x100000001b3);
    }
    h
}

fn main() {
    install_panic_hook();
    let a = parse_args();
    let reg = zoo_gen::registry();
    let out = std::io::stdout();
    let mut out = std::io::BufWriter::new(out.lock());
    match a.cmd.as_str() {
        "defs" => {
            let mut d = Defs::default();
            for e in reg.iter() {
                (e.defs)(&mut d);
                let ty = (e.ty_sx)();
                let name = e.name.clone();
                d.add(&format!("@{}", name), |_| ty);
            }
            for l in d.lines {
                writeln!(out, "{}", l).unwrap();
            }
        }
        "list" => {
            for e in reg.iter() {
                writeln!(out, "{} versions={:?} family={:?} tags={:?} mem={:?}", e.name, e.versions, e.family, e.tags, (e.mem)()).unwrap();
            }
        }
        "packed" => {
            for e in selected(&reg, &a) {
                for &v in &e.versions {
                    writeln!(out, "(packed @{} {})\t(ok {})", e.name, v, (e.packed)(v)).unwrap();
                }
            }
        }
        // S-enc + S-dec on valid data + direct round-trip oracle (C01)
        "codec" => {
            let mut stats: BTreeMap<String, u64> = BTreeMap::new();
            for e in selected(&reg, &a) {
                let cur = e.current();
                for &v in &e.versions {
                    let mut r = Rng::new(name_seed(a.seed, &e.name, v as u64));
                    for i in 0..a.cases {
                        let sz = if i % 7 == 6 { a.size * 6 } else if i % 3 == 0 { 2 } else { a.size };
                        let (wire, canon, res) = (e.gen_enc)(&mut r, sz, v);
                        match res {
                            Ok(bytes) => {
                                writeln!(out, "(enc @{} {} {})\t(ok {})", e.name, v, wire, hex(&bytes)).unwrap();
                                *stats.entry("enc-ok".into()).or_default() += 1;
                                *stats.entry(format!("len<{}", bucket(bytes.len()))).or_default() += 1;
                                // decode what was written, followed by a few extra bytes
                                let mut padded = bytes.clone();
                                let extra = (r.below(4)) as usize;
                                for _ in 0..extra {
                                    padded.push(r.next() as u8);
                                }
                                let reply = (e.dec)(v, &padded);
                                writeln!(out, "(dec @{} {} {})\t{}", e.name, v, hex(&padded), reply).unwrap();
                                // direct oracle: same version, current definition → equal value, exact consumption
                                if v == cur && !e.tags.contains(&"ignore") {
                                    let want = format!("(ok {} {})", canon, extra);
                                    if reply != want {
                                        writeln!(out, "!C01 roundtrip type={} ver={} value={} bytes={} got={}", e.name, v, canon, hex(&bytes), reply).unwrap();
                                    }
                                }
                            }
                            Err(reply) => {
                                writeln!(out, "(enc @{} {} {})\t{}", e.name, v, wire, reply).unwrap();
                                *stats.entry(format!("enc-{}", reply)).or_default() += 1;
                                if v == cur {
                                    writeln!(out, "!C01 save-failed type={} ver={} value={} got={}", e.name, v, canon, reply).unwrap();
                                }
                            }
                        }
                    }
                }
            }
            for (k, v) in stats {
                writeln!(out, "#stat {} {}", k, v).unwrap();
            }
        }
        // S-dec on malformed streams + direct oracle (C06)
        "malformed" => {
            let mut stats: BTreeMap<String, u64> = BTreeMap::new();
            for e in selected(&reg, &a) {
                for &v in &e.versions {
                    let mut r = Rng::new(name_seed(a.seed, &e.name, 1000 + v as u64));
                    for i in 0..a.cases {
                        let (_wire, _canon, res) = (e.gen_enc)(&mut r, if i % 2 == 0 { 3 } else { a.size }, v);
                        let base = match res {
                            Ok(b) => b,
                            Err(_) => vec![],
                        };
                        for m in mutate::mutations(&mut r, &base, 4) {
                            out.flush().unwrap();
                            let reply = (e.dec)(v, &m);
                            let class = reply.split(|c| c == ' ' || c == ')').next().unwrap_or("").to_string()
                                + if reply.contains("invalid-") { "+invalid" } else { "" };
                            *stats.entry(format!("mal{}", class)).or_default() += 1;
                            writeln!(out, "(dec @{} {} {})\t{}", e.name, v, hex(&m), reply).unwrap();
                            if reply.starts_with("(panic") && !reply.starts_with("(panic oom") {
                                writeln!(out, "!C06 panic type={} ver={} bytes={} got={}", e.name, v, hex(&m), reply).unwrap();
                            }
                            if reply.contains("invalid-") {
                                writeln!(out, "!C06 invalid-value type={} ver={} bytes={} got={}", e.name, v, hex(&m), reply).unwrap();
                            }
                        }
                    }
                }
            }
            for (k, v) in stats {
                writeln!(out, "#stat {} {}", k, v).unwrap();
            }
        }
        _ => {
            eprintln!("usage: sfv-harness defs|list|packed|codec|malformed [--seed N] [--cases N] [--size N] [--filter S] [--tag T]");
            std::process::exit(2);
        }
    }
}

fn bucket(n: usize) -> usize {
    let mut b = 1;
    while b <= n {
        b *= 4;
    }
    b
}
