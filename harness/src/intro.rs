//! C17: introspection.  Walks a value through `Introspect` (exactly as `Introspector::dive` does:
//! `introspect_child(0), (1), …` until `None`), compares `introspect_len` with what was fetched, and runs
//! random navigation command sequences through the real `Introspector`.

use crate::val::Rng;
use savefile::{IntrospectedElementKey, IntrospectionError, IntrospectionResult, Introspector, IntrospectorNavCommand};
use savefile::Introspect;
use std::panic::{catch_unwind, AssertUnwindSafe};

pub struct Node {
    pub key: String,
    pub kids: Vec<Node>,
}

fn hexkey(s: &str) -> String {
    let mut o = String::from("h");
    for b in s.bytes() {
        o.push_str(&format!("{:02x}", b));
    }
    o
}

/// children of `obj`, fetched by index; direct-oracle violations are appended to `viol`
pub fn walk(obj: &dyn Introspect, at: &str, budget: &mut usize, viol: &mut Vec<String>) -> Vec<Node> {
    let mut kids = Vec::new();
    let mut index = 0usize;
    loop {
        if *budget == 0 {
            break;
        }
        match obj.introspect_child(index) {
            Some(item) => {
                *budget -= 1;
                let key: String = item.key().into();
                let sub_at = format!("{}/{}", at, key);
                let sub = walk(item.val(), &sub_at, budget, viol);
                kids.push(Node { key, kids: sub });
            }
            None => break,
        }
        index += 1;
    }
    if *budget > 0 {
        // children are indexed consecutively: nothing may exist beyond the first gap
        for probe in [index + 1, index + 2, index + 3, index * 2 + 1, index + 64] {
            if obj.introspect_child(probe).is_some() {
                viol.push(format!("children-not-consecutive at={} first-none={} but-some={}", at, index, probe));
                break;
            }
        }
        let len = obj.introspect_len();
        if len != index {
            viol.push(format!("len-children-mismatch at={} value={} introspect_len={} fetched={}", at, obj.introspect_value().chars().take(40).collect::<String>().replace(' ', "_"), len, index));
        }
    }
    kids
}

pub fn tree_sx(kids: &[Node]) -> String {
    let mut s = String::from("(t");
    for k in kids {
        s.push_str(" (k ");
        s.push_str(&hexkey(&k.key));
        s.push(' ');
        s.push_str(&tree_sx(&k.kids));
        s.push(')');
    }
    s.push(')');
    s
}

fn show_kv(e: &savefile::IntrospectedElement) -> String {
    format!("(k {} {} {} {} {})", hexkey(&e.key.key), e.key.key_disambiguator, e.key.depth, e.has_children, e.selected)
}

fn show_result(r: &IntrospectionResult) -> String {
    let mut s = String::from("(frames");
    for f in &r.frames {
        s.push_str(" (f ");
        match f.selected {
            Some(i) => s.push_str(&i.to_string()),
            None => s.push('-'),
        }
        s.push_str(&format!(" {}", f.limit_reached));
        for kv in &f.keyvals {
            s.push(' ');
            s.push_str(&show_kv(kv));
        }
        s.push(')');
    }
    s.push_str(&format!(") {} (flat", r.total_len()));
    for i in 0..r.total_len() + 3 {
        match catch_unwind(AssertUnwindSafe(|| r.total_index(i))) {
            Ok(Some(e)) => {
                s.push(' ');
                s.push_str(&show_kv(&e));
            }
            Ok(None) => s.push_str(" -"),
            Err(_) => s.push_str(" !"),
        }
    }
    s.push(')');
    s
}

/// direct oracle on a result: `total_index(i)` is `Some` exactly for `i < total_len()`
fn flat_oracle(r: &IntrospectionResult, viol: &mut Vec<String>, ctx: &str) {
    let n = r.total_len();
    for i in 0..n + 4 {
        match catch_unwind(AssertUnwindSafe(|| r.total_index(i).is_some())) {
            Ok(b) => {
                if b != (i < n) {
                    viol.push(format!("flat-index-mismatch {} index={} total_len={} is_some={}", ctx, i, n, b));
                    return;
                }
            }
            Err(_) => {
                viol.push(format!("flat-index-panic {} index={} total_len={}", ctx, i, n));
                return;
            }
        }
    }
}

fn err_name(e: &IntrospectionError) -> &'static str {
    match e {
        IntrospectionError::BadDepth => "BadDepth",
        IntrospectionError::UnknownKey => "UnknownKey",
        IntrospectionError::NoChildren => "NoChildren",
        IntrospectionError::IndexOutOfRange => "IndexOutOfRange",
        IntrospectionError::AlreadyAtTop => "AlreadyAtTop",
    }
}

/// random key: mostly one that exists somewhere in the tree
fn some_key(r: &mut Rng, kids: &[Node], depth_hint: usize) -> String {
    let mut level = kids;
    let mut d = 0;
    let mut last = String::from("nokey");
    while !level.is_empty() {
        let k = &level[r.below(level.len() as u64) as usize];
        last = k.key.clone();
        if d >= depth_hint || k.kids.is_empty() {
            break;
        }
        level = &k.kids;
        d += 1;
    }
    match r.below(12) {
        0 => "nokey".into(),
        1 => String::new(),
        _ => last,
    }
}

/// One navigation history: returns (request, reply, violations)
pub fn nav_case(obj: &dyn Introspect, kids: &[Node], r: &mut Rng, ncmds: usize, name: &str) -> (String, String, Vec<String>) {
    let limit: usize = match r.below(8) {
        0 => 0,
        1 => 1,
        2 => 2,
        3 => 3,
        4 => 5,
        _ => usize::MAX,
    };
    let mut intro = if limit == usize::MAX && r.below(2) == 0 { Introspector::new() } else { Introspector::new_with(limit) };
    let mut viol = Vec::new();
    let mut cmds = String::new();
    let mut replies = String::new();
    let mut last_keys: Vec<(usize, String, usize)> = Vec::new();
    for ci in 0..ncmds {
        let nframes = intro.num_frames();
        let (cmd, txt) = match r.below(10) {
            0 => (IntrospectorNavCommand::Up, "(u)".to_string()),
            1 => (IntrospectorNavCommand::Nothing, "(n)".to_string()),
            2 | 3 | 4 => {
                let d = match r.below(6) {
                    0 => nframes + 1 + r.below(2) as usize,
                    1 => 0,
                    _ => r.below(nframes as u64 + 1) as usize,
                };
                let i = if r.below(5) == 0 { r.below(40) as usize } else { r.below(5) as usize };
                (IntrospectorNavCommand::SelectNth { select_depth: d, select_index: i }, format!("(s {} {})", d, i))
            }
            _ => {
                // expand: mostly an element that the previous result displayed
                let (d, key, dis) = if !last_keys.is_empty() && r.below(4) != 0 {
                    let (d, k, dis) = last_keys[r.below(last_keys.len() as u64) as usize].clone();
                    let d = if r.below(10) == 0 { d + 1 } else { d };
                    (d, k, if r.below(10) == 0 { dis + 1 } else { dis })
                } else {
                    let d = if r.below(8) == 0 { nframes + 1 } else { r.below(nframes as u64 + 1) as usize };
                    (d, some_key(r, kids, d), if r.below(6) == 0 { 1 } else { 0 })
                };
                let txt = format!("(x {} {} {})", d, hexkey(&key), dis);
                (
                    IntrospectorNavCommand::ExpandElement(IntrospectedElementKey { depth: d, key, key_disambiguator: dis }),
                    txt,
                )
            }
        };
        if ci > 0 {
            cmds.push(' ');
            replies.push(' ');
        }
        cmds.push_str(&txt);
        let res = catch_unwind(AssertUnwindSafe(|| intro.do_introspect(obj, cmd)));
        match res {
            Ok(Ok(result)) => {
                flat_oracle(&result, &mut viol, &format!("type={} after={}", name, txt.replace(' ', "_")));
                last_keys.clear();
                for f in &result.frames {
                    for kv in &f.keyvals {
                        if last_keys.len() < 64 {
                            last_keys.push((kv.key.depth, kv.key.key.clone(), kv.key.key_disambiguator));
                        }
                    }
                }
                replies.push_str(&format!("(ok {} {})", show_path(&intro), show_result(&result)));
            }
            Ok(Err(e)) => {
                replies.push_str(&format!("(err {} {})", err_name(&e), show_path(&intro)));
            }
            Err(_) => {
                viol.push(format!("navigation-panic type={} limit={} commands={}", name, limit, cmds.replace(' ', "_")));
                replies.push_str("(panic)");
                break;
            }
        }
    }
    let req = format!("(nav {} {} ({}))", limit, tree_sx(kids), cmds);
    (req, format!("({})", replies), viol)
}

fn show_path(_i: &Introspector) -> String {
    // the path is private; `num_frames` is its length.  The model prints the whole path; the
    // harness side prints the length only and corr.py compares lengths (see normalize_pair).
    format!("(p# {})", _i.num_frames())
}

// ---------------------------------------------------------------------------------------------
// values outside the serialization zoo

/// A hand-written `Introspect` implementation: arbitrary shape, frequent duplicate keys
/// (exercises the key disambiguator, which derived and library types never need).
pub struct Rose {
    pub key: String,
    pub kids: Vec<Rose>,
}

impl Introspect for Rose {
    fn introspect_value(&self) -> String {
        self.key.clone()
    }
    fn introspect_child<'a>(&'a self, index: usize) -> Option<Box<dyn savefile::IntrospectItem<'a> + 'a>> {
        self.kids.get(index).map(|k| savefile::introspect_item(k.key.clone(), k))
    }
    fn introspect_len(&self) -> usize {
        self.kids.len()
    }
}

pub fn gen_rose(r: &mut Rng, depth: usize, fan: u64) -> Rose {
    let keys = ["a", "b", "a", "", "key", "b"];
    let key = keys[r.below(keys.len() as u64) as usize].to_string();
    let n = if depth == 0 { 0 } else { r.below(fan + 1) as usize };
    let kids = (0..n).map(|_| gen_rose(r, depth - 1, fan)).collect();
    Rose { key, kids }
}

pub type ExtraCase = (Vec<String>, String, String, usize);

fn run_extra(obj: &dyn Introspect, name: &str, r: &mut Rng, ncmds: usize) -> ExtraCase {
    let mut viol = Vec::new();
    let mut budget = 30000usize;
    let kids = walk(obj, "", &mut budget, &mut viol);
    let (req, reply, v2) = nav_case(obj, &kids, r, ncmds, name);
    viol.extend(v2);
    (viol, req, reply, 30000 - budget)
}

/// named extra cases: (name, case)
pub fn extras(r: &mut Rng, cases: usize, big: bool) -> Vec<(String, ExtraCase)> {
    let mut out = Vec::new();
    for i in 0..cases {
        let ncmds = 6 + i % 12;
        let rose = gen_rose(r, 1 + (i % 5), 2 + (i as u64 % 4));
        out.push(("Rose".to_string(), run_extra(&rose, "Rose", r, ncmds)));
    }
    let n = cases.min(6).max(1);
    for i in 0..n {
        let ncmds = 5 + i;
        let range = (r.below(100) as u32)..(r.below(1000) as u32);
        out.push(("Range_u32".into(), run_extra(&range, "Range_u32", r, ncmds)));
        let t4 = (r.next() as u8, (r.next() as u16, r.next() as u8), vec![r.next() as u32; (r.below(4)) as usize], r.next());
        out.push(("Tup4".into(), run_extra(&t4, "Tup4", r, ncmds)));
        let nested: Vec<(String, Vec<Option<u32>>)> = (0..r.below(4)).map(|k| (format!("s{}", k), (0..r.below(4)).map(|j| if j % 2 == 0 { Some(j as u32) } else { None }).collect())).collect();
        out.push(("Vec_Tup_String_Vec_Opt".into(), run_extra(&nested, "Vec_Tup_String_Vec_Opt", r, ncmds)));
        let m: std::collections::BTreeMap<u32, std::collections::BTreeMap<u8, Vec<u8>>> = (0..r.below(3) as u32).map(|k| (k, (0..r.below(3) as u8).map(|j| (j, vec![j; j as usize])).collect())).collect();
        out.push(("BTreeMap_BTreeMap".into(), run_extra(&m, "BTreeMap_BTreeMap", r, ncmds)));
        let hs: std::collections::HashMap<String, (u8, u8)> = (0..r.below(4)).map(|k| (format!("k{}", k), (k as u8, 1u8))).collect();
        out.push(("HashMap_String_Tup".into(), run_extra(&hs, "HashMap_String_Tup", r, ncmds)));
        let cow: std::borrow::Cow<'_, str> = std::borrow::Cow::Borrowed("abc");
        out.push(("Cow_str".into(), run_extra(&cow, "Cow_str", r, ncmds)));
    }
    // locks in unusual states: a poisoned std mutex (a thread panicked while holding it) and one that is locked
    // right now serve no child; the count has to say so too
    {
        let poisoned = std::sync::Arc::new(std::sync::Mutex::new(5u32));
        let p2 = poisoned.clone();
        let _ = std::thread::spawn(move || {
            let _g = p2.lock().unwrap();
            std::panic::resume_unwind(Box::new("poison the lock"));
        })
        .join();
        out.push(("PoisonedStdMutex_u32".into(), run_extra(&*poisoned, "PoisonedStdMutex_u32", r, 4)));
        out.push(("Arc_PoisonedStdMutex_u32".into(), run_extra(&poisoned, "Arc_PoisonedStdMutex_u32", r, 4)));
        let pair = (1u8, std::sync::Mutex::new(vec![1u8, 2]), 2u8);
        out.push(("Tup_StdMutex".into(), run_extra(&pair, "Tup_StdMutex", r, 4)));
        let rw = parking_lot::RwLock::new(3u16);
        out.push(("PlRwLock_u16".into(), run_extra(&rw, "PlRwLock_u16", r, 4)));
        let pm = parking_lot::Mutex::new(vec![3u32]);
        out.push(("PlMutex_Vec_u32".into(), run_extra(&pm, "PlMutex_Vec_u32", r, 4)));
        let rc = std::cell::RefCell::new(String::from("x"));
        out.push(("RefCell_String".into(), run_extra(&rc, "RefCell_String", r, 4)));
    }
    if big {
        // more children than the default `introspect_len` is willing to count
        let arr = [7u8; 10001];
        out.push(("Arr10001_u8".into(), run_extra(&arr, "Arr10001_u8", r, 3)));
        let v = vec![1u16; 10050];
        out.push(("Vec10050_u16".into(), run_extra(&v, "Vec10050_u16", r, 3)));
        let hs: std::collections::HashSet<u32> = (0..10_020u32).collect();
        out.push(("HashSet10020_u32".into(), run_extra(&hs, "HashSet10020_u32", r, 2)));
        let bs: std::collections::BTreeSet<u16> = (0..10_015u16).collect();
        out.push(("BTreeSet10015_u16".into(), run_extra(&bs, "BTreeSet10015_u16", r, 2)));
        let bm: std::collections::BTreeMap<u16, u8> = (0..5_010u16).map(|k| (k, k as u8)).collect();
        out.push(("BTreeMap5010".into(), run_extra(&bm, "BTreeMap5010", r, 2)));
        let bx: Box<[u8]> = vec![0u8; 10010].into_boxed_slice();
        out.push(("BoxSlice10010_u8".into(), run_extra(&bx, "BoxSlice10010_u8", r, 3)));
    }
    out
}
