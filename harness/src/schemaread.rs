//! An independent generic reader driven only by a `Schema` (the C12 oracle on the implementation side):
//! parses bytes written for a type using nothing but the schema reported for it.
//! Output: the value shape in the protocol's s-expression form and the number of unread bytes.

use savefile::prelude::*;
use savefile::{SchemaPrimitive, VecOrStringLayout};

pub struct Rd<'a> {
    pub b: &'a [u8],
    pub pos: usize,
}
impl<'a> Rd<'a> {
    fn take(&mut self, n: usize) -> Result<&'a [u8], String> {
        if self.b.len() - self.pos < n {
            return Err("(err eof)".into());
        }
        let s = &self.b[self.pos..self.pos + n];
        self.pos += n;
        Ok(s)
    }
    fn le(&mut self, n: usize) -> Result<u128, String> {
        let s = self.take(n)?;
        let mut v: u128 = 0;
        for (i, x) in s.iter().enumerate() {
            v |= (*x as u128) << (8 * i);
        }
        Ok(v)
    }
}

fn hexs(b: &[u8]) -> String {
    crate::val::hex(b)
}

fn read_str(r: &mut Rd) -> Result<String, String> {
    let n = r.le(8)? as u64;
    if n > 1_000_000 {
        return Err("(err general)".into());
    }
    let s = r.take(n as usize)?;
    if std::str::from_utf8(s).is_err() {
        return Err("(err utf8)".into());
    }
    Ok(format!("(b {})", hexs(s)))
}

pub fn read(s: &Schema, r: &mut Rd) -> Result<String, String> {
    match s {
        Schema::Struct(st) => {
            let mut items = Vec::new();
            for f in &st.fields {
                items.push(read(&f.value, r)?);
            }
            Ok(if items.is_empty() { "(t)".into() } else { format!("(t {})", items.join(" ")) })
        }
        Schema::Enum(en) => {
            let d = r.le(en.discriminant_size as usize)?;
            // variant i must carry discriminant i for the schema to be a grammar at all
            for (i, v) in en.variants.iter().enumerate() {
                if v.discriminant as usize != i {
                    return Err("(unparseable misaligned-discriminants)".into());
                }
            }
            let Some(var) = en.variants.get(d as usize) else {
                return Err("(err general)".into());
            };
            let mut items = Vec::new();
            for f in &var.fields {
                items.push(read(&f.value, r)?);
            }
            Ok(format!("(a {} {})", d, if items.is_empty() { "(t)".into() } else { format!("(t {})", items.join(" ")) }))
        }
        Schema::Primitive(p) => match p {
            SchemaPrimitive::schema_i8 | SchemaPrimitive::schema_u8 => Ok(format!("{}", r.le(1)?)),
            SchemaPrimitive::schema_i16 | SchemaPrimitive::schema_u16 => Ok(format!("{}", r.le(2)?)),
            SchemaPrimitive::schema_i32 | SchemaPrimitive::schema_u32 | SchemaPrimitive::schema_f32 => Ok(format!("{}", r.le(4)?)),
            SchemaPrimitive::schema_i64 | SchemaPrimitive::schema_u64 | SchemaPrimitive::schema_f64 => Ok(format!("{}", r.le(8)?)),
            SchemaPrimitive::schema_i128 | SchemaPrimitive::schema_u128 => Ok(format!("{}", r.le(16)?)),
            SchemaPrimitive::schema_string(_) => read_str(r),
            SchemaPrimitive::schema_bool => Ok(format!("{}", if r.le(1)? == 1 { 1 } else { 0 })),
            SchemaPrimitive::schema_canary1 => {
                if r.le(4)? == 0x47566843 {
                    Ok("(t)".into())
                } else {
                    Err("(err general)".into())
                }
            }
            SchemaPrimitive::schema_char => {
                let c = r.le(4)? as u32;
                if char::from_u32(c).is_some() {
                    Ok(format!("{}", c))
                } else {
                    Err("(err badchar)".into())
                }
            }
        },
        Schema::Vector(t, _) | Schema::Slice(t) => {
            let n = r.le(8)? as u64;
            let mut items = Vec::new();
            for _ in 0..n {
                items.push(read(t, r)?);
            }
            Ok(if items.is_empty() { "(q)".into() } else { format!("(q {})", items.join(" ")) })
        }
        Schema::Array(a) => {
            let mut items = Vec::new();
            for _ in 0..a.count {
                items.push(read(&a.item_type, r)?);
            }
            Ok(if items.is_empty() { "(t)".into() } else { format!("(t {})", items.join(" ")) })
        }
        Schema::SchemaOption(t) => {
            if r.le(1)? == 1 {
                Ok(format!("(j {})", read(t, r)?))
            } else {
                Ok("n".into())
            }
        }
        Schema::ZeroSize => Ok("(t)".into()),
        Schema::Boxed(t) | Schema::Reference(t) => read(t, r),
        Schema::Str => read_str(r),
        Schema::StdIoError => {
            let k = r.le(2)?;
            let s = read_str(r)?;
            Ok(format!("(t {} {})", k, s))
        }
        Schema::UtcTimestamp => Ok(format!("{}", r.le(8)?)),
        _ => Err("(unparseable node)".into()),
    }
}

#[allow(dead_code)]
pub fn unknown_layout() -> VecOrStringLayout {
    VecOrStringLayout::Unknown
}

/// can the schema be read as a grammar at all? (checked before any byte is looked at)
pub fn is_grammar(s: &Schema) -> bool {
    match s {
        Schema::Struct(st) => st.fields.iter().all(|f| is_grammar(&f.value)),
        Schema::Enum(en) => en
            .variants
            .iter()
            .enumerate()
            .all(|(i, v)| v.discriminant as usize == i && v.fields.iter().all(|f| is_grammar(&f.value))),
        Schema::Primitive(_) | Schema::ZeroSize | Schema::Str | Schema::StdIoError | Schema::UtcTimestamp => true,
        Schema::Vector(t, _) | Schema::Slice(t) | Schema::SchemaOption(t) | Schema::Boxed(t) | Schema::Reference(t) => is_grammar(t),
        Schema::Array(a) => is_grammar(&a.item_type),
        _ => false,
    }
}

/// reply in protocol form
pub fn generic_read(s: &Schema, bytes: &[u8]) -> String {
    if !is_grammar(s) {
        return "(unparseable)".into();
    }
    let mut r = Rd { b: bytes, pos: 0 };
    match read(s, &mut r) {
        Ok(v) => format!("(ok {} {})", v, bytes.len() - r.pos),
        Err(e) => e,
    }
}
